// Command proxy is the correspondence + oracle runner for C20 (goproxytest serves exactly the
// modules stored in its directory).  For every generated module directory it starts a real
// goproxytest.Server on 127.0.0.1, fetches list/info/mod/zip for every stored module version
// and for not-stored / malformed URLs, decodes zips with archive/zip (and checks them with an independent container reader and by
// re-serialising them), and
//   - compares every response with the extracted Coq model (kind "correspondence"),
//   - evaluates the property directly with oracles that do not use the model (kind "impl-violation"):
//     info/mod byte-identical to the stored files, zip entries = the stored non-dot files under
//     path@version/, list = the valid non-pseudo versions (x/mod semver/module), 404 for everything
//     not stored, 16 concurrent first requests per module version all identical and correct.
//
// Module paths or versions containing "_" are excluded from the direct oracles: the on-disk
// naming (slashes replaced by underscores, "_" before the version) is ambiguous for them by
// construction.  Such directories are still compared with the model.
package main

import (
	"archive/zip"
	"bytes"
	"encoding/json"
	"fmt"
	"hash/crc32"
	"io"
	"log"
	"net/http"
	"net/url"
	"os"
	"os/exec"
	"path/filepath"
	"regexp"
	"runtime"
	"sort"
	"strings"
	"sync"
	"sync/atomic"
	"time"
	"unicode/utf8"

	"github.com/rogpeppe/go-internal/goproxytest"
	"golang.org/x/mod/module"
	"golang.org/x/mod/semver"
	"golang.org/x/tools/txtar"

	"verif/harness/common"
)

// ---------------------------------------------------------------- model access with oracle tables

type modelConn struct {
	m        *common.Model
	src      *modelConn // the translated segments (src.go), nil when their binary is missing
	pseudoRE *regexp.Regexp
	supplied int
	rounds   int
	reasked  int
}

func hx(s string) string { return common.Hex([]byte(s)) }
func b01(b bool) string {
	if b {
		return "1"
	}
	return "0"
}

// checkElemFile is module.checkElem(v, filePath) == nil, obtained from the exported
// CheckFilePath: for a string without "/" the two coincide.
func checkElemFile(v string) bool {
	return !strings.Contains(v, "/") && utf8.ValidString(v) && module.CheckFilePath(v) == nil
}

func infoShort(data []byte) string {
	var info struct{ Short string }
	json.Unmarshal(data, &info)
	return info.Short
}

// answerNeed computes one oracle entry with x/mod / encoding/json / regexp.
func (mc *modelConn) answerNeed(need string) string {
	f := strings.Fields(need) // NEED kind key [key2]
	kind := f[1]
	k1 := string(common.UnHex(f[2]))
	switch kind {
	case "cp":
		return fmt.Sprintf("oracle cp %s %s", f[2], b01(module.CheckPath(k1) == nil))
	case "ce":
		return fmt.Sprintf("oracle ce %s %s", f[2], b01(checkElemFile(k1)))
	case "sv":
		return fmt.Sprintf("oracle sv %s %s", f[2], b01(semver.IsValid(k1)))
	case "re":
		return fmt.Sprintf("oracle re %s %s", f[2], b01(mc.pseudoRE.MatchString(k1)))
	case "mc":
		return fmt.Sprintf("oracle mc %s %s %s", f[2], f[3], b01(module.Check(k1, string(common.UnHex(f[3]))) == nil))
	case "lt":
		return fmt.Sprintf("oracle lt %s %s %s", f[2], f[3], b01(semver.Compare(k1, string(common.UnHex(f[3]))) < 0))
	case "is":
		return fmt.Sprintf("oracle is %s %s", f[2], hx(infoShort([]byte(k1))))
	case "crc":
		return fmt.Sprintf("oracle crc %s %d", f[2], crc32.ChecksumIEEE([]byte(k1)))
	}
	return "oracle-unknown"
}

// ask sends the requests and supplies missing oracle entries until every answer is final.
func (mc *modelConn) ask(reqs []string) ([]string, error) {
	if d := os.Getenv("PROXY_DUMP_MODEL_REQUESTS"); d != "" {
		if fh, err := os.OpenFile(d, os.O_APPEND|os.O_CREATE|os.O_WRONLY, 0o644); err == nil {
			for _, q := range reqs {
				fmt.Fprintln(fh, q)
			}
			fh.Close()
		}
	}
	ta := time.Now()
	ans, err := mc.m.Ask(reqs)
	addT(&tFirst, time.Since(ta))
	if err != nil {
		return ans, err
	}
	for round := 0; round < 10000; round++ {
		var idx []int
		var sup []string
		seen := map[string]bool{}
		for i, a := range ans {
			if strings.HasPrefix(a, "NEED ") {
				idx = append(idx, i)
				if !seen[a] {
					seen[a] = true
					sup = append(sup, mc.answerNeed(a))
				}
			}
		}
		if len(idx) == 0 {
			return ans, nil
		}
		mc.supplied += len(sup)
		mc.rounds++
		mc.reasked += len(idx)
		var again []string
		again = append(again, sup...)
		for _, i := range idx {
			again = append(again, reqs[i])
		}
		if d := os.Getenv("PROXY_DUMP_MODEL_REQUESTS"); d != "" {
			if fh, err := os.OpenFile(d, os.O_APPEND|os.O_CREATE|os.O_WRONLY, 0o644); err == nil {
				for _, q := range again {
					fmt.Fprintln(fh, q)
				}
				fh.Close()
			}
		}
		tb := time.Now()
		a2, err := mc.m.Ask(again)
		addT(&tRounds, time.Since(tb))
		if err != nil {
			return ans, err
		}
		for j, i := range idx {
			ans[i] = a2[len(sup)+j]
		}
	}
	return ans, fmt.Errorf("oracle supply did not converge")
}

func (mc *modelConn) ask1(req string) string {
	a, err := mc.ask([]string{req})
	if err != nil {
		return "MODEL-ERROR " + err.Error()
	}
	return a[0]
}

// ---------------------------------------------------------------- the directory as the model sees it

func encodeChildren(dir string) (string, int, error) {
	ents, err := os.ReadDir(dir)
	if err != nil {
		return "", 0, err
	}
	var sb strings.Builder
	for _, e := range ents {
		full := filepath.Join(dir, e.Name())
		if e.IsDir() {
			s, n, err := encodeChildren(full)
			if err != nil {
				return "", 0, err
			}
			fmt.Fprintf(&sb, " d %s %d%s", hx(e.Name()), n, s)
		} else {
			data, err := os.ReadFile(full)
			if err != nil {
				return "", 0, err
			}
			fmt.Fprintf(&sb, " f %s %s", hx(e.Name()), common.Hex(data))
		}
	}
	return sb.String(), len(ents), nil
}

// encodeDir reads the materialised directory back (os.ReadDir order, x/tools txtar.Parse of
// every regular file) and renders the model's "dir" request.
func encodeDir(root string) (string, error) {
	ents, err := os.ReadDir(root)
	if err != nil {
		return "", err
	}
	var sb strings.Builder
	sb.WriteString("dir")
	for _, e := range ents {
		full := filepath.Join(root, e.Name())
		if e.IsDir() {
			s, n, err := encodeChildren(full)
			if err != nil {
				return "", err
			}
			fmt.Fprintf(&sb, " D %s %d%s", hx(e.Name()), n, s)
			continue
		}
		data, err := os.ReadFile(full)
		if err != nil {
			return "", err
		}
		a := txtar.Parse(data)
		fmt.Fprintf(&sb, " F %s %d", hx(e.Name()), len(a.Files))
		for _, f := range a.Files {
			fmt.Fprintf(&sb, " %s %s", hx(f.Name), common.Hex(f.Data))
		}
	}
	return sb.String(), nil
}

// ---------------------------------------------------------------- HTTP side

var client = &http.Client{
	Timeout: 30 * time.Second,
	Transport: &http.Transport{
		MaxIdleConns: 256, MaxIdleConnsPerHost: 256, DisableCompression: true,
	},
	CheckRedirect: func(*http.Request, []*http.Request) error { return http.ErrUseLastResponse },
}

type entry struct {
	Name string
	Data []byte
}

// decodeZip reads a zip into its entry list (archive order); ok=false if it is not a valid zip.
func decodeZip(body []byte) ([]entry, bool) {
	zr, err := zip.NewReader(bytes.NewReader(body), int64(len(body)))
	if err != nil {
		return nil, false
	}
	var res []entry
	for _, f := range zr.File {
		rc, err := f.Open()
		if err != nil {
			return nil, false
		}
		data, err := io.ReadAll(rc)
		rc.Close()
		if err != nil {
			return nil, false
		}
		res = append(res, entry{f.Name, data})
	}
	return res, true
}

type resp struct {
	Status  int
	Body    []byte
	IsZip   bool // the request path ends in ".zip" and the status is 200
	ZipOK   bool
	Entries []entry
	Err     string
}

// obs is the projected observable compared with the model's answer line.
func (r resp) obs() string {
	if r.Err != "" {
		return "HTTP-ERROR " + r.Err
	}
	switch {
	case r.Status == 404:
		return "404"
	case r.Status == 500:
		return "500"
	case r.Status != 200:
		return fmt.Sprintf("status:%d", r.Status)
	case r.IsZip && !r.ZipOK:
		return "200-not-a-zip " + common.Hex(r.Body)
	case r.IsZip:
		parts := []string{"zip", fmt.Sprint(len(r.Entries))}
		for _, e := range r.Entries {
			parts = append(parts, hx(e.Name), common.Hex(e.Data))
		}
		return strings.Join(parts, " ")
	}
	return "200 " + common.Hex(r.Body)
}

// get fetches host + path (path is the decoded r.URL.Path the handler will see).
func get(host, path string) resp {
	u := url.URL{Scheme: "http", Host: host, Path: path}
	rs, err := client.Get(u.String())
	if err != nil {
		return resp{Err: err.Error()}
	}
	defer rs.Body.Close()
	body, err := io.ReadAll(rs.Body)
	if err != nil {
		return resp{Err: err.Error()}
	}
	r := resp{Status: rs.StatusCode, Body: body}
	if rs.StatusCode == 200 && strings.HasSuffix(path, ".zip") {
		r.IsZip = true
		r.Entries, r.ZipOK = decodeZip(body)
	}
	return r
}

// sendable: the path can be put on the wire so that the handler sees exactly it.
func sendable(path string) bool {
	return strings.HasPrefix(path, "/") && utf8.ValidString(path) && !strings.ContainsAny(path, "\x00")
}

// ---------------------------------------------------------------- URLs

func fileURL(path, vers, ext string) (string, bool) {
	ep, ok1 := escPath(path)
	ev, ok2 := escVers(vers)
	if !ok1 || !ok2 {
		return "", false
	}
	return "/mod/" + ep + "/@v/" + ev + "." + ext, true
}

func listURL(path string) (string, bool) {
	ep, ok := escPath(path)
	return "/mod/" + ep + "/@v/list", ok
}

// ---------------------------------------------------------------- direct oracles

// stored tells the intent of the generator for path@vers in a clean directory.
func (td *TestDir) stored(path, vers string) *Mod {
	for i := range td.Mods {
		if td.Mods[i].Path == path && td.Mods[i].Vers == vers {
			return &td.Mods[i]
		}
	}
	return nil
}

func (m *Mod) file(name string) ([]byte, bool) {
	for _, f := range m.Files {
		if f.Name == name {
			return f.Data, true
		}
	}
	return nil, false
}

func sortedEntries(es []entry) []entry {
	c := append([]entry{}, es...)
	sort.SliceStable(c, func(i, j int) bool { return c[i].Name < c[j].Name })
	return c
}

// wantZip: the stored files whose names do not start with a dot, under path@vers/.
func (m *Mod) wantZip() []entry {
	var es []entry
	for _, f := range m.Files {
		if strings.HasPrefix(f.Name, ".") {
			continue
		}
		es = append(es, entry{m.Path + "@" + m.Vers + "/" + f.Name, f.Data})
	}
	return sortedEntries(es)
}

func sameEntries(a, b []entry) bool {
	if len(a) != len(b) {
		return false
	}
	for i := range a {
		if a[i].Name != b[i].Name || !bytes.Equal(a[i].Data, b[i].Data) {
			return false
		}
	}
	return true
}

// wantList: the valid non-pseudo versions of path among the generated modules
// (x/mod's own definitions: module.Check, module.IsPseudoVersion).
func (td *TestDir) wantList(path string) []string {
	set := map[string]bool{}
	for _, m := range td.Mods {
		if m.Path == path && module.Check(m.Path, m.Vers) == nil && !module.IsPseudoVersion(m.Vers) {
			set[m.Vers] = true
		}
	}
	var l []string
	for v := range set {
		l = append(l, v)
	}
	sort.Strings(l)
	return l
}

// listLines: the lines of a list response as a sorted MULTISET (a version reported twice is not
// "exactly the stored versions"); the order of the lines is not part of the property (the go
// command sorts what it receives).
func listLines(body []byte) []string {
	var r []string
	for _, l := range strings.Split(string(body), "\n") {
		if l != "" {
			r = append(r, l)
		}
	}
	sort.Strings(r)
	return r
}

// canonList: list responses are compared with the model as multisets of lines: "200 <hex>" of a
// list URL is rewritten with its lines sorted.  Everything else is returned unchanged.
func canonList(u, ob string) string {
	if !strings.HasSuffix(u, "/@v/list") || !strings.HasPrefix(ob, "200 ") {
		return ob
	}
	body := common.UnHex(strings.TrimPrefix(ob, "200 "))
	if len(body) == 0 || body[len(body)-1] != '\n' {
		return ob // not a sequence of lines: compared as it is
	}
	return "200 " + common.Hex([]byte(strings.Join(listLines(body), "\n")+"\n"))
}

// checkStored evaluates the property for one request about a stored module version of a clean
// directory; it returns "" or the description of the failure.
func (td *TestDir) checkStored(m *Mod, ext string, r resp) string {
	if r.Err != "" {
		return "" // transport trouble is not a property failure (reported through notes)
	}
	switch ext {
	case "info", "mod":
		want, ok := m.file("." + ext)
		if !ok {
			if r.Status != 404 {
				return fmt.Sprintf("no .%s stored but status %d", ext, r.Status)
			}
			return ""
		}
		if r.Status != 200 || !bytes.Equal(r.Body, want) {
			return fmt.Sprintf(".%s response (status %d, %q) is not the stored file %q", ext, r.Status, clip(r.Body), clip(want))
		}
	case "zip":
		if r.Status != 200 || !r.ZipOK {
			return fmt.Sprintf("zip response status %d, valid zip %v", r.Status, r.ZipOK)
		}
		if msg := validZip(r.Body, nil); msg != "" {
			return "the zip response is not a valid zip: " + msg
		}
		if std, err := cdFromStd(r.Body); err != nil || showCD(sortedCD(std)) != showCD(m.wantCD()) {
			return fmt.Sprintf("central directory %s, want (sorted by name) %s", showCD(sortedCD(std)), showCD(m.wantCD()))
		}
		if !sameEntries(sortedEntries(r.Entries), m.wantZip()) {
			return fmt.Sprintf("zip entries %s differ from the stored non-dot files %s", showEntries(sortedEntries(r.Entries)), showEntries(m.wantZip()))
		}
	case "list":
		want := td.wantList(m.Path)
		if len(want) == 0 {
			if r.Status != 404 {
				return fmt.Sprintf("no valid non-pseudo version stored but list status %d %q", r.Status, clip(r.Body))
			}
			return ""
		}
		if r.Status != 200 || strings.Join(listLines(r.Body), ",") != strings.Join(want, ",") || !bytes.HasSuffix(r.Body, []byte("\n")) {
			return fmt.Sprintf("list (status %d) %q, want the versions %q", r.Status, clip(r.Body), want)
		}
	}
	return ""
}

func clip(b []byte) string {
	if len(b) > 120 {
		return string(b[:120]) + "…"
	}
	return string(b)
}

func showEntries(es []entry) string {
	var p []string
	for _, e := range es {
		p = append(p, fmt.Sprintf("%q(%d bytes)", e.Name, len(e.Data)))
	}
	return "[" + strings.Join(p, " ") + "]"
}

// servable: the URL paths a clean directory serves, built from the generator's intent with
// x/mod's escaping only (no parsing of URLs): list of every module that has a listable version,
// info/mod of every stored version that has the file, zip of every stored version.
type servedAs struct {
	m   *Mod
	ext string
}

func (td *TestDir) servable() map[string]servedAs {
	s := map[string]servedAs{}
	for i := range td.Mods {
		m := &td.Mods[i]
		for _, ext := range []string{"info", "mod", "zip"} {
			if _, ok := m.file("." + ext); !ok && ext != "zip" {
				continue
			}
			if u, ok := fileURL(m.Path, m.Vers, ext); ok {
				s[u] = servedAs{m, ext}
			}
		}
		if len(td.wantList(m.Path)) > 0 {
			if u, ok := listURL(m.Path); ok {
				if _, dup := s[u]; !dup {
					s[u] = servedAs{m, "list"}
				}
			}
		}
	}
	return s
}

// exactly404: "anything not stored yields 404" as an iff, for a clean directory and a URL path
// without "_": a URL of the servable set must be answered as checkStored says; a commit-hash
// request as checkHash says; EVERYTHING else with 404, whatever it looks like (unknown
// extensions, extensions that name a stored dot-file, case variants, trailing slashes, ...).
func (td *TestDir) exactly404(sv map[string]servedAs, u string, r resp) string {
	if r.Err != "" {
		return ""
	}
	if as, ok := sv[u]; ok {
		return td.checkStored(as.m, as.ext, r)
	}
	if hashURL.MatchString(u) {
		return td.checkHash(u, r)
	}
	if r.Status != 404 {
		return fmt.Sprintf("status %d %q for a URL that names nothing stored (not list/info/mod/zip of a stored module version)", r.Status, clip(r.Body))
	}
	return ""
}

// ---------------------------------------------------------------- request sets

type request struct {
	URL   string
	Class string // stored-info|stored-mod|stored-zip|stored-list|unknown-module|unknown-version|unknown-ext|malformed|hash|mutated
	Mod   *Mod   // for stored-*
	Ext   string
}

var malformed = []string{
	"/", "/mod", "/mod/", "/mod//@v/list", "/mod/@v/list", "/MOD/example.com/@v/list", "/x/example.com/@v/list",
	"/mod/example.com", "/mod/example.com/", "/mod/example.com/@v", "/mod/example.com/@v/", "/mod/example.com/@latest",
	"/mod/example.com/@v/v1.0.0", "/mod/example.com/@v/.info", "/mod/example.com/@v/v1.0.0.", "/mod/example.com/@v/list/",
	"/mod/Example.com/@v/list", "/mod/example.com/X/@v/list", "/mod/example.com/!/@v/list", "/mod/example.com/x!/@v/list",
	"/mod/example.com/!1/@v/list", "/mod/example.com/!!x/@v/list", "/mod/example.com/é/@v/list", "/mod/nodot/@v/list",
	"/mod/example.com/v1/@v/list", "/mod/example.com//x/@v/list", "/mod/example.com/x/@v/V1.0.0.info",
	"/mod/example.com/x/@v/v1.0.0!.info", "/mod/example.com/x/@v/v1.0.0!.zip", "/mod/example.com/x/@v/v1/0.0.info",
	"/mod/example.com/x/@v/..info", "/mod/example.com/x/@v/v1.0.0.info/", "/mod/-example.com/@v/list",
	"/mod/example.com/x/@v/v1.0.0*.info", "/mod/example.com/x/@v/a b.info", "/mod/example.com/x/@v/@v/list",
	"/mod/example.com/.x/@v/list", "/mod/example.com/x./@v/list", "/mod/example.com/con/@v/list", "/mod/example.com/x~1/@v/list",
	"mod/example.com/@v/list", "/mod/example.com/@v/list?x", "/mod/example.com/@V/list", "//mod/example.com/@v/list",
}

func (td *TestDir) requests(r *common.RNG, tier string) []request {
	var rs []request
	paths := map[string]bool{}
	off0 := r.Intn(42) // rotates the sampled near-miss URLs and extensions from directory to directory
	for i := range td.Mods {
		m := &td.Mods[i]
		for _, ext := range []string{"info", "mod", "zip"} {
			if u, ok := fileURL(m.Path, m.Vers, ext); ok {
				rs = append(rs, request{URL: u, Class: "stored-" + ext, Mod: m, Ext: ext})
			}
		}
		if !paths[m.Path] {
			paths[m.Path] = true
			if u, ok := listURL(m.Path); ok {
				rs = append(rs, request{URL: u, Class: "stored-list", Mod: m, Ext: "list"})
			}
		}
		// unknown version of a known module, unknown extension of a stored version
		for vi, v := range []string{"v1.99.0", "v0.0.0-20990101000000-abcdef123456", m.Vers + "x", "v7.0.0+incompatible"} {
			if td.stored(m.Path, v) == nil && (tier == "thorough" || (vi+i)%2 == 0) {
				if u, ok := fileURL(m.Path, v, common.Pick(r, []string{"info", "mod", "zip"})); ok {
					rs = append(rs, request{URL: u, Class: "unknown-version"})
				}
			}
		}
		for ei, e := range []string{"ziphash", "txt", "Info", "", "zip2", "mod.bak"} {
			if u, ok := fileURL(m.Path, m.Vers, e); ok && (tier == "thorough" || (ei+i)%3 == 0) {
				// ".mod.bak": the extension is "bak"; "" : trailing dot
				rs = append(rs, request{URL: u, Class: "unknown-ext"})
			}
		}
		// every extension for which the directory holds a dot-file (.netrc, .gitignore, .info2, .mod~,
		// nested ones too): a dot-file is hidden from the zip and has no endpoint of its own
		ep, ev := must(escPath(m.Path)), must(escVers(m.Vers))
		dotExts := map[string]bool{}
		for j := range td.Mods {
			for _, f := range td.Mods[j].Files {
				if strings.HasPrefix(f.Name, ".") && f.Name != ".info" && f.Name != ".mod" && f.Name != ".zip" {
					dotExts[f.Name[1:]] = true
				}
			}
		}
		var des []string
		for e := range dotExts {
			des = append(des, e)
		}
		sort.Strings(des)
		for _, e := range des {
			rs = append(rs, request{URL: "/mod/" + ep + "/@v/" + ev + "." + e, Class: "dotfile-ext"})
		}
		// extensions near the served ones, and the names people keep next to modules
		for xi, e := range nearExts {
			if tier == "thorough" || (xi+i+int(off0))%6 == 0 {
				rs = append(rs, request{URL: "/mod/" + ep + "/@v/" + ev + "." + e, Class: "unknown-ext"})
			}
		}
		// near misses of the URLs that ARE served
		nm := nearMisses(ep, ev)
		for ni, u := range nm {
			if tier == "thorough" || (ni+i+int(off0))%7 == 0 {
				rs = append(rs, request{URL: u, Class: "near-miss"})
			}
		}
		// commit-hash requests (resolved through pseudo-version suffixes and .info Short fields)
		hs := []string{"abcdef123456", "abcdef", "abc", "a", "0123456789ab", "deadbeefcafe", "deadbeefcafe00ff", "ffffffffffff", "fff", "0", "0123456789abcdef"}
		for k := 0; k < 2; k++ {
			h := common.Pick(r, hs)
			rs = append(rs, request{URL: "/mod/" + must(escPath(m.Path)) + "/@v/" + h + "." + common.Pick(r, []string{"info", "mod", "zip"}), Class: "hash"})
		}
	}
	// unknown modules (also the parent / child paths the go command probes)
	var pathList []string
	for p := range paths {
		pathList = append(pathList, p)
	}
	sort.Strings(pathList) // map order must not leak into the seeded choices below
	for _, p := range pathList {
		for _, q := range []string{p + "/sub", p + "x", parent(p), "unknown.example/" + p} {
			if q != "" && !paths[q] && module.CheckPath(q) == nil && !strings.Contains(q, "_") {
				if u, ok := listURL(q); ok {
					rs = append(rs, request{URL: u, Class: "unknown-module"})
				}
				if u, ok := fileURL(q, "v1.0.0", common.Pick(r, []string{"info", "mod", "zip"})); ok {
					rs = append(rs, request{URL: u, Class: "unknown-module"})
				}
			}
		}
	}
	// every directory gets a rotating third of the fixed malformed URLs (all of them in thorough)
	off := r.Intn(3)
	for i, u := range malformed {
		if tier == "thorough" || i%3 == off {
			rs = append(rs, request{URL: u, Class: "malformed"})
		}
	}
	for _, u := range td.Probes {
		if hashURL.MatchString(u) {
			rs = append(rs, request{URL: u, Class: "hash"})
		} else {
			rs = append(rs, request{URL: u, Class: "probe"})
		}
	}
	// mutations of valid URLs
	nmut := 12
	if tier == "thorough" {
		nmut = 60
	}
	base := append([]request{}, rs...)
	for k := 0; k < nmut && len(base) > 0; k++ {
		u := []byte(common.Pick(r, base).URL)
		for j, n := 0, 1+r.Intn(2); j < n && len(u) > 0; j++ {
			i := r.Intn(len(u))
			switch r.Intn(4) {
			case 0:
				u = append(u[:i], u[i+1:]...)
			case 1:
				u = append(u[:i], append([]byte{mutChars[r.Intn(len(mutChars))]}, u[i:]...)...)
			case 2:
				u[i] = mutChars[r.Intn(len(mutChars))]
			default:
				if 'a' <= u[i] && u[i] <= 'z' {
					u[i] -= 32
				}
			}
		}
		rs = append(rs, request{URL: string(u), Class: "mutated"})
	}
	return rs
}

func must(s string, ok bool) string { return s }

var nearExts = []string{"netrc", "gitignore", "hidden", "info2", "mod~", "zip2", "INFO", "Info", "MOD", "Mod", "ZIP", "Zip", "list",
	"txtar", "lock", "sum", "json", "info ", " info", "info\n", "mod\x00", "zip/", "info/", "info.", "infomod", "inf", "mo", "zi", "i", "%s", "%69nfo", "info%00", "*"}

// nearMisses: URL paths one edit away from the served ones of a stored module version.
func nearMisses(ep, ev string) []string {
	b := "/mod/" + ep + "/@v/"
	var us []string
	for _, e := range []string{"info", "mod", "zip"} {
		u := b + ev + "." + e
		us = append(us, u+"/", u+".", u+"~", u+"%20", u+"/.", u+"/..", b+ev+".."+e, b+ev+"."+e+"."+e, b+"/"+ev+"."+e, b+"./"+ev+"."+e,
			b+ev+"/."+e, b+ev+"."+strings.ToUpper(e), b+strings.ToUpper(ev)+"."+e, b+" "+ev+"."+e, b+ev+" ."+e,
			"/mod/"+ep+"/@V/"+ev+"."+e, "/mod/"+ep+"//@v/"+ev+"."+e, "/mod/"+ep+"/@v"+ev+"."+e, "/mod/"+ep+"@v/"+ev+"."+e,
			"/mod//"+ep+"/@v/"+ev+"."+e, "/mod/mod/"+ep+"/@v/"+ev+"."+e, "/Mod/"+ep+"/@v/"+ev+"."+e, "/"+ep+"/@v/"+ev+"."+e,
			"/mod/"+ep+"/@v/"+ev+"."+e+"?go-get=1", "/mod/"+ep+"/@v/"+ev+"."+e+"#frag", "/mod/"+ep+"/x/../@v/"+ev+"."+e,
			"/mod/"+strings.ToUpper(ep)+"/@v/"+ev+"."+e, "/mod/"+ep+"/@v/"+ev+"."+e+"/../"+ev+"."+e)
	}
	us = append(us, b, b+"list/", b+"list.", b+"List", b+"LIST", b+"list ", b+" list", b+"lists", b+"lis", b+"list/list", b+"/list", b+"list.info",
		"/mod/"+ep+"/@latest", "/mod/"+ep+"/@v", "/mod/"+ep, "/mod/"+ep+"/", "/mod/"+ep+"/@v/.info", "/mod/"+ep+"/@v/..info", "/mod/"+ep+"/@v/.", "/mod/"+ep+"/@v/"+ev,
		"/mod/"+ep+"/@v/"+ev+".", "/mod/"+ep+"/@v/latest.info", "/mod/"+ep+"/@v/.zip", "/mod/"+ep+"/@v/.mod", "/mod/"+ep+"/@v/list/"+ev+".info",
		"/mod/"+ep+"/@v/@v/list", "/mod/"+ep+"/@V/list", "/mod/"+ep+"//@v/list", "/mod//"+ep+"/@v/list", "/mod/"+ep+"/@v//list", "/MOD/"+ep+"/@v/list")
	return us
}

func parent(p string) string {
	i := strings.LastIndex(p, "/")
	if i < 0 {
		return ""
	}
	return p[:i]
}

// ---------------------------------------------------------------- one directory

var tFirst, tRounds time.Duration
var tModel, tSeq, tConc, tE2E, tDisk time.Duration

type runner struct {
	mu       sync.Mutex      // guards res, raceSeen and the time accumulators (directories run in parallel)
	models   chan *modelConn // one model process per worker
	raceLog  string          // path prefix of the race detector's log files ("" = unknown)
	raceSeen map[string]int  // bytes of each log file already reported
	f        *common.Flags
	res      *common.Result
	mc       *modelConn
	ndirA    int64
}

func init() { log.SetOutput(io.Discard) }

func (rn *runner) count(b string) { rn.mu.Lock(); rn.res.Count(b); rn.mu.Unlock() }
func (rn *runner) caseOf(k string, nt bool) {
	rn.mu.Lock()
	rn.res.Case(k, nt)
	rn.mu.Unlock()
}
func (rn *runner) sample(x any) { rn.mu.Lock(); rn.res.Sample(x); rn.mu.Unlock() }
func (rn *runner) note(s string) {
	rn.mu.Lock()
	if len(rn.res.Notes) < 40 {
		rn.res.Notes = append(rn.res.Notes, s)
	}
	rn.mu.Unlock()
}

var timeMu sync.Mutex

func addT(t *time.Duration, d time.Duration) { timeMu.Lock(); *t += d; timeMu.Unlock() }
func (rn *runner) nextDir() int64            { return atomic.AddInt64(&rn.ndirA, 1) }

func tdJSON(td *TestDir) string {
	b, _ := json.Marshal(td)
	return string(b)
}

func (rn *runner) violate(td *TestDir, fl failure, only *request) {
	in := map[string]string{"dir": tdJSON(td), "url": fl.url, "url_hex": hx(fl.url), "url_text": fmt.Sprintf("%q", fl.url)}
	if only != nil {
		in["class"] = only.Class
	} else {
		in["class"] = "whole-directory"
	}
	rn.res.Violate(common.Violation{Kind: fl.kind, Oracle: fl.oracle, Input: in,
		Model: fl.model, Impl: fl.impl, Detail: fl.detail, Key: fl.oracle + ":" + fl.url})
}

// classOf recovers the request class from an oracle name ("serves-stored/zip", "response:hash", ...).
func classOf(oracle string) string {
	if strings.HasPrefix(oracle, "serves-stored/") || strings.HasPrefix(oracle, "concurrent-correct/") {
		return "stored-" + oracle[strings.Index(oracle, "/")+1:]
	}
	if oracle == "hash-resolution" {
		return "hash"
	}
	if i := strings.IndexAny(oracle, ":/"); i >= 0 {
		return oracle[i+1:]
	}
	return "replay"
}

type failure struct{ kind, oracle, url, model, impl, detail string }

// evalDir runs every check on one directory and returns the failures it saw; only != nil
// restricts it to that one request (replay and shrinking). report=false keeps it out of the statistics.
func (rn *runner) evalDir(td *TestDir, seed uint64, only *request, report bool) []failure {
	var fails []failure
	fail := func(kind, oracle, u, model, impl, detail string) {
		fails = append(fails, failure{kind, oracle, u, model, impl, detail})
	}
	mc := <-rn.models // one model process per worker
	defer func() { rn.models <- mc }()
	root := filepath.Join(rn.f.Work, fmt.Sprintf("dir%05d", rn.nextDir()))
	defer os.RemoveAll(root)
	if err := td.materialise(root); err != nil {
		if report {
			rn.count("skipped:cannot-materialise")
		}
		return nil
	}
	dreq, err := encodeDir(root)
	if err != nil {
		rn.note("cannot read directory back: " + err.Error())
		return nil
	}
	if report {
		rn.contentBuckets(td)
	}
	r := common.NewRNG(seed)
	reqs := td.requests(r, rn.f.Tier)
	if only != nil && only.URL != "" {
		q := request{URL: only.URL, Class: only.Class}
		for i := range td.Mods {
			for _, ext := range []string{"info", "mod", "zip"} {
				if u, ok := fileURL(td.Mods[i].Path, td.Mods[i].Vers, ext); ok && u == only.URL && only.Class == "stored-"+ext {
					q.Mod, q.Ext = &td.Mods[i], ext
				}
			}
			if u, ok := listURL(td.Mods[i].Path); ok && u == only.URL && only.Class == "stored-list" && q.Mod == nil {
				q.Mod, q.Ext = &td.Mods[i], "list"
			}
		}
		if strings.HasPrefix(q.Class, "stored-") && q.Mod == nil {
			q.Class = "replay" // the module version is no longer in the directory
		}
		reqs = []request{q}
	}

	// ---- model: server start and the module list
	// (the directory and its module list first, so that the oracle entries readModList needs are
	// supplied once and not once per request)
	if _, err := mc.ask([]string{dreq, "modlist"}); err != nil {
		rn.note("model error: " + err.Error())
	}
	mreqs := []string{dreq, "modlist"}
	for _, q := range reqs {
		mreqs = append(mreqs, "req "+hx(q.URL))
	}
	t0 := time.Now()
	mans, err := mc.ask(mreqs)
	addT(&tModel, time.Since(t0))
	if err != nil {
		rn.note("model error: " + err.Error())
		fail("correspondence", "model-process", "", "", "", err.Error())
		return fails
	}
	modelStarts := mans[1] != "err"
	// the translated segments of proxy.go on the same directory and requests (src.go)
	rn.srcCompare(mc, td, root, dreq, reqs, mans, report, fail)
	// every x/mod decision the model took for this directory, against x/mod itself
	for _, fl := range rn.checkXlog(mc) {
		fail(fl.kind, fl.oracle, "", fl.model, fl.impl, fl.detail)
	}
	// some directories are answered a second time from oracle tables (x/mod's own answers)
	// instead of the Gallina x/mod: the two modes must give the same responses
	if only == nil && td.idx%6 == 0 {
		mc.ask1("mode tables")
		tans, err := mc.ask(mreqs)
		mc.ask1("mode xmod")
		if err == nil {
			if report {
				rn.count("directory-also-answered-from-oracle-tables")
			}
			for i := range tans {
				if tans[i] != mans[i] {
					u := ""
					if i >= 2 {
						u = reqs[i-2].URL
					}
					fail("correspondence", "xmod-vs-tables", u, clip([]byte(mans[i])), clip([]byte(tans[i])), "the model answers differently with its own x/mod functions (Model) and with x/mod's answers as oracle tables (Impl)")
					break
				}
			}
		}
	}
	// the sequential phase runs on ONE server: the model's answers for it are those of one server
	// answering the requests in the same order (the zip cache keeps the first caller's value, which
	// matters when two names alias one archive, i.e. with "_"); [mans] (fresh server per request)
	// is what the concurrent phase and the clean directories are compared with.
	seqAns := make([]string, len(reqs))
	if modelStarts {
		var us []string
		for _, q := range reqs {
			if sendable(q.URL) {
				us = append(us, hx(q.URL))
			}
		}
		t0 = time.Now()
		parts := strings.Split(mc.ask1("seq "+strings.Join(us, " ")), " | ")
		addT(&tModel, time.Since(t0))
		k := 0
		for i, q := range reqs {
			if sendable(q.URL) && k < len(parts) {
				seqAns[i] = parts[k]
				k++
			}
		}
	}

	// served_b: the model's decision "answered with something else than 404", taken from the
	// store without running a handler (C20_route_404_exact / C20_served_b_exact)
	exact := map[int]bool{}
	if modelStarts {
		var us []string
		var idx []int
		for i, q := range reqs {
			if sendable(q.URL) {
				us = append(us, hx(q.URL))
				idx = append(idx, i)
			}
		}
		t0 = time.Now()
		parts := strings.Fields(mc.ask1("exact " + strings.Join(us, " ")))
		addT(&tModel, time.Since(t0))
		if len(parts) == len(idx)+1 && parts[0] == "x" {
			for k, i := range idx {
				exact[i] = parts[k+1] == "1"
			}
		} else if len(idx) > 0 {
			fail("correspondence", "model-process", "", clip([]byte(strings.Join(parts, " "))), "", "the model did not answer the exact request")
		}
	}

	// ---- implementation: a fresh server
	srv, err := goproxytest.NewServer(root, "127.0.0.1:0")
	if report {
		rn.count(fmt.Sprintf("server-starts:%v", err == nil))
	}
	if (err == nil) != modelStarts {
		fail("correspondence", "server-start", "", mans[1], fmt.Sprint(err), "readModList: model and implementation disagree on whether the directory can be served")
	}
	if err != nil {
		if td.Clean {
			fail("impl-violation", "clean-dir-served", "", "", err.Error(), "a directory that follows the documented naming cannot be served")
		}
		if report {
			rn.caseOf("noserver:"+dreq, true)
		}
		return fails
	}
	host := strings.TrimSuffix(strings.TrimPrefix(srv.URL, "http://"), "/mod")

	// sequential phase on one server (requests in a fixed order)
	impl := make([]resp, len(reqs))
	t1 := time.Now()
	for i, q := range reqs {
		if !sendable(q.URL) {
			continue
		}
		impl[i] = get(host, q.URL)
	}
	servable := td.servable()

	// the central directory of every zip response: as the model derives it (names, order, method,
	// flags, CRC-32 as oracle, sizes) and as archive/zip reads it
	modelCD := map[int]string{}
	if modelStarts {
		var idx []int
		var cdreqs []string
		for i, q := range reqs {
			if sendable(q.URL) && impl[i].IsZip && impl[i].ZipOK && seqAns[i] == mans[2+i] {
				idx = append(idx, i)
				cdreqs = append(cdreqs, "cd "+hx(q.URL))
			}
		}
		if len(cdreqs) > 0 {
			t0 = time.Now()
			if ans, err := mc.ask(cdreqs); err == nil {
				for j, i := range idx {
					modelCD[i] = ans[j]
				}
			}
			addT(&tModel, time.Since(t0))
		}
	}
	aliasSeen := false
	for i, q := range reqs {
		if !sendable(q.URL) {
			if report {
				rn.count("model-only:not-sendable")
				if mans[2+i] != "404" {
					fail("correspondence", "unsendable-url-not-404", q.URL, mans[2+i], "", "the model serves a URL path that cannot be requested")
				}
			}
			continue
		}
		ob := impl[i].obs()
		if report {
			rn.count("class:" + q.Class)
			rn.count("outcome:" + q.Class + ":" + strings.SplitN(ob, " ", 2)[0])
			rn.caseOf(fmt.Sprintf("%d|%s|%s", td.idx, q.URL, ob), !strings.HasPrefix(ob, "404") || q.Class != "malformed")
		}
		if modelStarts && impl[i].Err == "" && ob != seqAns[i] && canonList(q.URL, ob) == canonList(q.URL, seqAns[i]) {
			// same versions, other order: the order of the list lines is not part of the property
			// (C20_list_exact gives the model's order, directory order); recorded, not reported
			if report {
				rn.count("list-order-differs-from-directory-order(not a violation)")
			}
		}
		if modelStarts && canonList(q.URL, ob) != canonList(q.URL, seqAns[i]) && impl[i].Err == "" {
			fail("correspondence", "response:"+q.Class, q.URL, clip([]byte(seqAns[i])), clip([]byte(ob)), "model response (one server, same request order) and HTTP response differ")
		}
		if sv, ok := exact[i]; ok {
			if sv != (mans[2+i] != "404") {
				fail("correspondence", "served-b-vs-respond:"+q.Class, q.URL, fmt.Sprint(sv), clip([]byte(mans[2+i])), "the model's served_b and its own response disagree (C20_served_b_exact says they cannot)")
			}
			if impl[i].Err == "" && sv != (impl[i].Status != 404) {
				fail("correspondence", "served-iff-stored:"+q.Class, q.URL, fmt.Sprint(sv), clip([]byte(ob)), "served_b (Model: true = the URL names something stored) and the status of the HTTP response (404 or not) disagree")
			}
			if report {
				rn.count("served-iff-stored-compared")
			}
		}
		if strings.Contains(q.URL, "_") {
			// a request with "_" can alias a stored module (sub_x for sub/x) even in a clean
			// directory and leave its prefix in the zip cache: from here on responses may
			// legitimately depend on the history (C20_alias_history_dependent)
			aliasSeen = true
		}
		if modelStarts && td.Clean && !aliasSeen && seqAns[i] != mans[2+i] {
			fail("correspondence", "history-independent:"+q.Class, q.URL, clip([]byte(seqAns[i])), clip([]byte(mans[2+i])), "in a clean directory the model's response depends on earlier requests (Model = after the earlier requests, Impl = fresh server)")
		}
		if report && modelStarts && seqAns[i] != mans[2+i] {
			rn.count("history-dependent-response(aliasing)")
		}
		if impl[i].IsZip && impl[i].Err == "" {
			if report {
				rn.count("zip-validity-checked")
			}
			if msg := validZip(impl[i].Body, nil); msg != "" {
				fail("impl-violation", "zip-valid/"+q.Class, q.URL, "", clip([]byte(ob)), "a 200 response to a .zip request is not a valid zip: "+msg)
			}
			if want, ok := modelCD[i]; ok {
				if std, err := cdFromStd(impl[i].Body); err == nil && showCD(std) != want {
					fail("correspondence", "central-directory:"+q.Class, q.URL, clip([]byte(want)), clip([]byte(showCD(std))), "the central directory the model derives and the one archive/zip reads differ")
				}
			}
		}
		if impl[i].Err != "" {
			if report {
				rn.count("http-error")
			}
			fail("impl-violation", "no-response/"+q.Class, q.URL, "", "transport error: "+impl[i].Err,
				"the server did not answer the request (handler panic / connection closed); the model says "+clip([]byte(seqAns[i])))
			continue
		}
		if !td.Clean {
			continue
		}
		// direct oracles
		switch {
		case q.Mod != nil:
			if msg := td.checkStored(q.Mod, q.Ext, impl[i]); msg != "" {
				fail("impl-violation", "serves-stored/"+q.Ext, q.URL, "", clip([]byte(ob)), msg)
			}
		case strings.Contains(q.URL, "_"):
			// outside the property (ambiguous naming); compared with the model above
		case q.Class == "hash" && hashURL.MatchString(q.URL):
			if msg := td.checkHash(q.URL, impl[i]); msg != "" {
				fail("impl-violation", "hash-resolution", q.URL, "", clip([]byte(ob)), msg)
			}
		default:
			// every other request, whatever its class: served iff it is in the servable set
			if msg := td.exactly404(servable, q.URL, impl[i]); msg != "" {
				if _, ok := servable[q.URL]; ok || hashURL.MatchString(q.URL) {
					fail("impl-violation", "served-from-store/"+q.Class, q.URL, "", clip([]byte(ob)), msg)
				} else {
					fail("impl-violation", "not-stored-404/"+q.Class, q.URL, "", clip([]byte(ob)), msg)
				}
			}
		}
	}
	// ---- the server's observable state after the whole sequence: every stored list/info/mod/zip
	// once more on the same server; a handler must not change what later requests see
	if td.Clean && only == nil {
		for i, q := range reqs {
			if q.Mod == nil || !sendable(q.URL) || impl[i].Err != "" {
				continue
			}
			again := get(host, q.URL)
			if report {
				rn.count("state-unchanged-request")
				rn.caseOf(fmt.Sprintf("st|%d|%s", td.idx, q.URL), true)
			}
			if again.Err == "" && canonList(q.URL, again.obs()) != canonList(q.URL, impl[i].obs()) {
				fail("impl-violation", "state-unchanged/after-sequential", q.URL, "", clip([]byte(again.obs())),
					"after the other requests of the sequence the same server answers this request differently; first response: "+clip([]byte(impl[i].obs())))
				break
			}
		}
	}
	srv.Close()
	addT(&tSeq, time.Since(t1))

	// ---- concurrent first requests: a fresh server, 16 simultaneous requests per module version
	// (zip, info and a hash request), all released together
	type cjob struct {
		q   request
		idx int // index into reqs for the model answer
	}
	var jobs []cjob
	for i, q := range reqs {
		if (strings.HasPrefix(q.Class, "stored-") || q.Class == "hash" || only != nil) && sendable(q.URL) {
			jobs = append(jobs, cjob{q, i})
		}
	}
	maxJobs := 6
	if rn.f.Tier == "thorough" {
		maxJobs = 16
	}
	if len(jobs) > maxJobs {
		// keep a spread: every list request (the module list is shared by all handlers), then zip
		// requests (they use both caches), then the others
		rank := func(c string) int {
			switch c {
			case "stored-list":
				return 0
			case "stored-zip":
				return 1
			}
			return 2
		}
		sort.SliceStable(jobs, func(a, b int) bool { return rank(jobs[a].q.Class) < rank(jobs[b].q.Class) })
		nl := 0
		for _, j := range jobs {
			if j.q.Class == "stored-list" {
				nl++
			}
		}
		if nl > 2 {
			jobs = append(append([]cjob{}, jobs[:2]...), jobs[nl:]...)
		}
		if len(jobs) > maxJobs {
			pick := append([]cjob{}, jobs[:maxJobs-2]...)
			pick = append(pick, jobs[len(jobs)-2:]...)
			jobs = pick
		}
	}
	if len(jobs) > 0 {
		srv2, err := goproxytest.NewServer(root, "127.0.0.1:0")
		if err == nil {
			host2 := strings.TrimSuffix(strings.TrimPrefix(srv2.URL, "http://"), "/mod")
			const par = 16
			out := make([][]resp, len(jobs))
			var wg sync.WaitGroup
			start := make(chan struct{})
			for j := range jobs {
				out[j] = make([]resp, par)
				for k := 0; k < par; k++ {
					wg.Add(1)
					go func(j, k int) {
						defer wg.Done()
						<-start
						out[j][k] = get(host2, jobs[j].q.URL)
					}(j, k)
				}
			}
			t2 := time.Now()
			close(start)
			wg.Wait()
			// the server's observable state after the concurrent batch: every stored list/info/mod/zip,
			// sequentially, on the same server, against the sequential server's responses
			if td.Clean && only == nil {
				for i, q := range reqs {
					if q.Mod == nil || !sendable(q.URL) || impl[i].Err != "" {
						continue
					}
					again := get(host2, q.URL)
					if report {
						rn.count("state-unchanged-request")
						rn.caseOf(fmt.Sprintf("st2|%d|%s", td.idx, q.URL), true)
					}
					if again.Err == "" && canonList(q.URL, again.obs()) != canonList(q.URL, impl[i].obs()) {
						fail("impl-violation", "state-unchanged/after-concurrent", q.URL, "", clip([]byte(again.obs())),
							"after a batch of concurrent first requests the server answers this request differently from a server that was asked sequentially: "+clip([]byte(impl[i].obs())))
						break
					}
				}
			}
			srv2.Close()
			addT(&tConc, time.Since(t2))
			for j, jb := range jobs {
				seqObs := canonList(jb.q.URL, impl[jb.idx].obs())
				for k := 0; k < par; k++ {
					if out[j][k].Err != "" {
						if report {
							rn.count("http-error")
						}
						fail("impl-violation", "concurrent/first-requests", jb.q.URL, "", "transport error: "+out[j][k].Err,
							"a concurrent first request on a fresh server was not answered (connection closed / reset), sequential response: "+clip([]byte(seqObs)))
						break
					}
					ob := canonList(jb.q.URL, out[j][k].obs())
					if report {
						rn.count("concurrent-request")
						rn.caseOf(fmt.Sprintf("c|%d|%s|%d", td.idx, jb.q.URL, k), true)
					}
					if !td.Clean {
						// with "_" two requests can alias one archive under two names; the zip cache then
						// keeps the first requester's prefix and the responses legitimately depend on
						// the schedule (C20_alias_history_dependent): exercised under -race, not compared
						if report {
							rn.count("concurrent-request:not-compared(aliasing possible)")
						}
						continue
					}
					if ob != seqObs {
						fail("impl-violation", "concurrent-same", jb.q.URL, "", clip([]byte(ob)), "a concurrent first request got a response different from the sequential one: "+clip([]byte(seqObs)))
						break
					}
					if modelStarts && ob != canonList(jb.q.URL, mans[2+jb.idx]) {
						fail("correspondence", "concurrent-response", jb.q.URL, clip([]byte(mans[2+jb.idx])), clip([]byte(ob)), "concurrent response differs from the model's")
						break
					}
					if td.Clean && jb.q.Mod != nil {
						if msg := td.checkStored(jb.q.Mod, jb.q.Ext, out[j][k]); msg != "" {
							fail("impl-violation", "concurrent-correct/"+jb.q.Ext, jb.q.URL, "", clip([]byte(ob)), msg)
							break
						}
					}
				}
			}
		}
		if g := rn.raceLogGrowth(); strings.Contains(g, "DATA RACE") {
			fail("impl-violation", "concurrent/race-detector", jobs[0].q.URL, "", "", raceSummary(g))
		}
		// the model's own interleavings: random schedules over the same requests must give the
		// per-request responses of fresh servers (this is what concurrent_same states)
		if modelStarts && td.Clean {
			var us []string
			var want []string
			for _, jb := range jobs {
				us = append(us, hx(jb.q.URL), hx(jb.q.URL))
				want = append(want, mans[2+jb.idx], mans[2+jb.idx])
			}
			var sched []string
			for k := 0; k < 4*len(us); k++ {
				sched = append(sched, fmt.Sprint(r.Intn(len(us))))
			}
			a := mc.ask1("conc " + strings.Join(sched, ",") + " " + strings.Join(us, " "))
			if report {
				rn.count("model-interleaving")
			}
			if a != strings.Join(want, " | ") {
				fail("correspondence", "model-interleaving", "", clip([]byte(a)), "", "an interleaving of the model's handlers does not give the sequential responses; schedule "+strings.Join(sched, ",")+" over "+strings.Join(us, " "))
			}
		}
	}
	// ---- the directory under other spellings / a second server on a different directory
	if only == nil && td.Clean {
		canon := map[string]string{}
		for i, q := range reqs {
			if q.Mod != nil && sendable(q.URL) && impl[i].Err == "" {
				canon[q.URL] = impl[i].obs()
			}
		}
		if td.idx%3 == 0 || rn.f.Tier == "thorough" {
			fails = append(fails, rn.spellingPhase(td, root, reqs, canon, report)...)
		}
		if td.idx%3 == 1 || td.idx == 0 || rn.f.Tier == "thorough" {
			fails = append(fails, rn.twoServersPhase(td, root, seed, report)...)
		}
	}
	if report && td.idx%37 == 1 {
		var mods []string
		for _, m := range td.Mods {
			mods = append(mods, fmt.Sprintf("%s@%s (%s, %d files)", m.Path, m.Vers, m.Layout, len(m.Files)))
		}
		rn.sample(map[string]any{"modules": mods, "clean": td.Clean, "requests": len(reqs), "modlist": clip([]byte(mans[1]))})
	}
	return fails
}

// contentBuckets records which kinds of stored bytes the run really served (generator quality).
func (rn *runner) contentBuckets(td *TestDir) {
	for _, m := range td.Mods {
		for _, f := range m.Files {
			kind := "stored-file"
			if f.Name == ".info" || f.Name == ".mod" {
				kind = "stored" + f.Name
			} else if strings.HasPrefix(f.Name, ".") {
				kind = "stored-dotfile"
				if !strings.Contains(f.Name, "/") {
					rn.count("stored-dotfile:top-level(extension probed)")
				}
			}
			d := f.Data
			feat := func(name string, ok bool) {
				if ok {
					rn.count(kind + ":" + name)
				}
			}
			feat("has-%", bytes.IndexByte(d, '%') >= 0)
			feat("has-backslash", bytes.IndexByte(d, '\\') >= 0)
			feat("has-NUL", bytes.IndexByte(d, 0) >= 0)
			feat("invalid-utf8", !utf8.Valid(d))
			feat("has-CR", bytes.IndexByte(d, '\r') >= 0)
			feat("empty", len(d) == 0)
			feat("no-final-newline", len(d) > 0 && d[len(d)-1] != '\n')
			feat("longer-than-64k", len(d) > 65536)
			long := false
			for _, l := range bytes.Split(d, []byte("\n")) {
				if len(l) > 4096 {
					long = true
				}
			}
			feat("line-longer-than-4k", long)
			if kind == "stored-file" {
				n := f.Name
				feat("name-has-%", strings.Contains(n, "%"))
				feat("name-invalid-utf8", !utf8.ValidString(n))
				feat("name-non-ascii-or-control", strings.IndexFunc(n, func(r rune) bool { return r < 0x20 || r > 0x7e }) >= 0)
				feat("name-has-backslash", strings.Contains(n, "\\"))
			}
		}
	}
}

// ---------------------------------------------------------------- escaping, directly

func (rn *runner) escapeChecks(r *common.RNG, n int) {
	mc := <-rn.models
	defer func() { rn.models <- mc }()
	alphabet := "aAzZ!v1.-_/+~b "
	var reqs []string
	var want []string
	var ins []string
	for i := 0; i < n; i++ {
		l := r.Intn(7)
		b := make([]byte, l)
		for j := range b {
			if r.Chance(1, 40) {
				b[j] = byte(128 + r.Intn(128))
			} else {
				b[j] = alphabet[r.Intn(len(alphabet))]
			}
		}
		s := string(b)
		// EscapeVersion = checkElem ok && no '!' -> escapeString ; UnescapeVersion = unescapeString -> checkElem
		if checkElemFile(s) && !strings.Contains(s, "!") {
			e, err := module.EscapeVersion(s)
			w := "err"
			if err == nil {
				w = "ok " + hx(e)
			}
			reqs, want, ins = append(reqs, "escape "+hx(s)), append(want, w), append(ins, s)
		}
		u, err := module.UnescapeVersion(s)
		if err == nil {
			reqs, want, ins = append(reqs, "unescape "+hx(s)), append(want, "ok "+hx(u)), append(ins, s)
			// round trip, directly on x/mod
			if e, err := module.EscapeVersion(u); err == nil {
				if u2, err := module.UnescapeVersion(e); err != nil || u2 != u {
					rn.res.Violate(common.Violation{Kind: "impl-violation", Oracle: "unescape-escape", Input: map[string]string{"s": s}, Key: "ue:" + s})
				}
			}
		} else if a := mc.ask1("unescape " + hx(s)); a != "err" {
			// the model unescapes: then checkElem must be what rejected it
			if checkElemFile(string(common.UnHex(strings.TrimPrefix(a, "ok ")))) {
				rn.res.Violate(common.Violation{Kind: "correspondence", Oracle: "unescape", Input: map[string]string{"s": s, "s_hex": hx(s)}, Model: a, Impl: "err", Key: "un:" + s})
			}
		}
	}
	ans, err := mc.ask(reqs)
	if err != nil {
		return
	}
	for i := range ans {
		rn.caseOf("esc|"+reqs[i], true)
		rn.count("escape-check")
		if ans[i] != want[i] {
			rn.res.Violate(common.Violation{Kind: "correspondence", Oracle: strings.Fields(reqs[i])[0],
				Input: map[string]string{"s": ins[i], "s_hex": hx(ins[i])}, Model: ans[i], Impl: want[i], Key: reqs[i]})
		}
	}
}

// ---------------------------------------------------------------- go mod download, end to end

func (rn *runner) goModDownload(tds []*TestDir, limit int) {
	gobin, err := exec.LookPath("go")
	if err != nil {
		rn.note("go mod download: go command not found, skipped")
		return
	}
	done, okc := 0, 0
	for di, td := range tds {
		if done >= limit {
			break
		}
		if !td.Clean {
			continue
		}
		var cands []*Mod
		for i := range td.Mods {
			m := &td.Mods[i]
			if m.Realistic && module.Check(m.Path, m.Vers) == nil && !module.IsPseudoVersion(m.Vers) &&
				semver.Canonical(m.Vers) == m.Vers && semver.Build(m.Vers) == "" && !strings.HasPrefix(m.Path, "gopkg.in/") {
				cands = append(cands, m)
			}
		}
		if len(cands) == 0 {
			continue
		}
		root := filepath.Join(rn.f.Work, fmt.Sprintf("e2e%04d", di))
		if td.materialise(filepath.Join(root, "mods")) != nil {
			continue
		}
		srv, err := goproxytest.NewServer(filepath.Join(root, "mods"), "127.0.0.1:0")
		if err != nil {
			os.RemoveAll(root)
			continue
		}
		for _, m := range cands {
			if done >= limit {
				break
			}
			done++
			work := filepath.Join(root, "w")
			os.MkdirAll(work, 0o755)
			os.WriteFile(filepath.Join(work, "go.mod"), []byte("module scratch.example/w\n\ngo 1.21\n"), 0o644)
			cache := filepath.Join(root, "modcache")
			cmd := exec.Command(gobin, "mod", "download", "-json", m.Path+"@"+m.Vers)
			cmd.Dir = work
			cmd.Env = append(os.Environ(), "GOPROXY="+srv.URL, "GOFLAGS=-mod=mod", "GONOSUMDB=*", "GONOSUMCHECK=1", "GONOSUMDB=*",
				"GOSUMDB=off", "GONOPROXY=", "GOPRIVATE=", "GOMODCACHE="+cache, "GOTOOLCHAIN=local", "GOWORK=off", "GOINSECURE=*", "GOVCS=*:off")
			out, err := cmd.CombinedOutput()
			if err != nil {
				rn.count("go-mod-download:failed")
				if len(rn.res.Notes) < 8 {
					rn.note(fmt.Sprintf("go mod download %s@%s failed (not counted as a violation): %s", m.Path, m.Vers, clip(out)))
				}
				continue
			}
			ep, _ := escPath(m.Path)
			ev, _ := escVers(m.Vers)
			base := filepath.Join(cache, "cache", "download", filepath.FromSlash(ep), "@v", ev)
			bad := ""
			for _, e := range []string{"info", "mod"} {
				got, err := os.ReadFile(base + "." + e)
				want, _ := m.file("." + e)
				if e == "info" {
					// the go command rewrites .info (canonical JSON); compare the decoded Version only
					var a, b struct{ Version string }
					json.Unmarshal(got, &a)
					json.Unmarshal(want, &b)
					if err != nil || a.Version != b.Version {
						bad = ".info"
					}
				} else if err != nil || !bytes.Equal(got, want) {
					bad = "." + e
				}
			}
			if zb, err := os.ReadFile(base + ".zip"); err != nil {
				bad = ".zip missing"
			} else if es, ok := decodeZip(zb); !ok || !sameEntries(sortedEntries(es), m.wantZip()) {
				bad = ".zip content"
			}
			rn.count("go-mod-download:ok")
			rn.caseOf("e2e|"+m.Path+"@"+m.Vers, true)
			okc++
			if bad != "" {
				u, _ := fileURL(m.Path, m.Vers, "zip")
				rn.violate(td, failure{"impl-violation", "go-mod-download/" + bad, u, "", "", "what the go command downloaded differs from the stored module"}, &request{URL: u, Class: "stored-zip"})
			}
		}
		srv.Close()
		exec.Command("chmod", "-R", "u+w", root).Run() // the module cache is read-only
		os.RemoveAll(root)
	}
	rn.note(fmt.Sprintf("go mod download end-to-end: %d attempted, %d succeeded and compared", done, okc))
}

// ---------------------------------------------------------------- main

func main() {
	f := common.ParseFlags()
	prop := os.Getenv("VERIF_PROP")
	if prop == "" {
		prop = "C20"
	}
	raceLog := reexecWithRaceLog(f.Work)
	res := common.NewResult(prop, f.Tier, f.Seed)
	if f.Work == "" {
		d, _ := os.MkdirTemp("", "proxy-run-")
		f.Work = d
		defer os.RemoveAll(d)
	}
	// directories are evaluated by several workers, each with its own model process
	workers := 8
	if n := runtime.NumCPU() / 2; n < workers {
		workers = n
	}
	if workers < 1 || f.Replay != "" {
		workers = 1
	}
	if w := os.Getenv("PROXY_WORKERS"); w != "" {
		fmt.Sscan(w, &workers)
	}
	rn := &runner{f: f, res: res, raceLog: raceLog, raceSeen: map[string]int{}, models: make(chan *modelConn, workers)}
	var conns []*modelConn
	for i := 0; i < workers; i++ {
		m, err := common.StartModel(f.Model)
		if err != nil {
			fmt.Fprintln(os.Stderr, "cannot start model:", err)
			os.Exit(2)
		}
		defer m.Close()
		mc := &modelConn{m: m}
		// the pseudo-version regexp is compiled from the source text genconsts read from pseudo.go
		src := string(common.UnHex(mc.m.Ask1("resrc")))
		mc.pseudoRE, err = regexp.Compile(src)
		if err != nil {
			if i == 0 {
				res.Notes = append(res.Notes, "pseudoVersionRE source does not compile: "+err.Error())
			}
			mc.pseudoRE = regexp.MustCompile(`^$`)
		}
		if mc.src = startSrc(f, res, i == 0); mc.src != nil {
			defer mc.src.m.Close()
		}
		conns = append(conns, mc)
		rn.models <- mc
	}

	if f.Replay != "" {
		rp, err := common.LoadReplay(f.Replay)
		if err != nil {
			fmt.Fprintln(os.Stderr, err)
			os.Exit(2)
		}
		var td TestDir
		if err := json.Unmarshal([]byte(rp.Violation.Input["dir"]), &td); err != nil {
			fmt.Fprintln(os.Stderr, "replay has no directory:", err)
			os.Exit(2)
		}
		if td.Big != nil {
			for _, fl := range rn.bigOne(*td.Big, true) {
				rn.violateBig(*td.Big, fl)
			}
			res.Rule = "replay of the concurrent first requests on one big module"
			res.Write(f.Out)
			return
		}
		if td.Many != nil {
			for _, fl := range rn.manyOne(*td.Many, true) {
				rn.violateMany(*td.Many, fl)
			}
			res.Rule = "replay of the concurrent first list requests on modules with many versions"
			res.Write(f.Out)
			return
		}
		var only *request
		if u := rp.Violation.Input["url"]; u != "" && rp.Violation.Input["class"] != "whole-directory" {
			only = &request{URL: u, Class: rp.Violation.Input["class"]}
		}
		fs := rn.evalDir(&td, f.Seed, only, true)
		if len(fs) == 0 && only != nil {
			// not reproduced by the single request: the failure may need the earlier requests
			fs = rn.evalDir(&td, f.Seed, nil, true)
		}
		for _, fl := range fs {
			rn.violate(&td, fl, only)
		}
		res.Rule = "replay of one directory and URL"
		res.Write(f.Out)
		return
	}

	var all []*TestDir
	shrunkPerOracle := map[string]int{}
	type job struct {
		td   *TestDir
		seed uint64
		fs   []failure
	}
	var queue []*job
	one := func(td *TestDir, seed uint64) {
		td.idx = len(queue) + 1
		all = append(all, td)
		queue = append(queue, &job{td: td, seed: seed})
	}
	// shrinkAndReport handles the failures of one directory (sequentially, after the parallel pass)
	shrinkAndReport := func(td *TestDir, seed uint64, fs []failure) {
		done := 0
		for _, fl := range fs {
			key := fl.kind + ":" + fl.oracle
			res.Count("failure:" + key)
			if shrunkPerOracle[key] >= 3 || done >= 2 || len(res.Violations) >= 20 {
				continue
			}
			shrunkPerOracle[key]++
			done++
			// shrink the directory: drop module versions while the same oracle still fails on the same URL
			var only *request
			if fl.url != "" {
				only = &request{URL: fl.url, Class: classOf(fl.oracle)}
			}
			same := func(c *TestDir) *failure {
				for _, g := range rn.evalDir(c, seed, only, false) {
					if g.kind == fl.kind && g.oracle == fl.oracle && g.url == fl.url {
						return &g
					}
				}
				return nil
			}
			best, bestF := td, fl
			if only != nil && same(td) == nil {
				only = nil // the failure needs the earlier requests: evaluate whole directories
			}
			if len(td.Mods) > 1 {
				mods := common.ShrinkList(td.Mods, func(ms []Mod) bool {
					return same(&TestDir{Mods: ms, Extras: td.Extras, Clean: td.Clean, Probes: td.Probes, idx: td.idx}) != nil
				})
				if len(mods) < len(td.Mods) {
					c := &TestDir{Mods: mods, Extras: td.Extras, Clean: td.Clean, Probes: td.Probes, idx: td.idx}
					if g := same(c); g != nil {
						best, bestF = c, *g
					}
				}
			}
			rn.violate(best, bestF, only)
		}
	}
	bgDone := make(chan struct{})
	runQueue := func() {
		var wg sync.WaitGroup
		next := int64(-1)
		for w := 0; w < workers; w++ {
			wg.Add(1)
			go func() {
				defer wg.Done()
				for {
					i := int(atomic.AddInt64(&next, 1))
					if i >= len(queue) {
						return
					}
					queue[i].fs = rn.evalDir(queue[i].td, queue[i].seed, nil, true)
				}
			}()
		}
		wg.Wait()
		<-bgDone                  // the big-archive and many-versions phases ran side by side with the directories
		for _, j := range queue { // in generation order: the report does not depend on the scheduling
			if len(j.fs) > 0 {
				shrinkAndReport(j.td, j.seed, j.fs)
			}
		}
	}

	// 1. corpus: JSON TestDir files
	if f.Corpus != "" {
		ents, _ := filepath.Glob(filepath.Join(f.Corpus, "*.json"))
		sort.Strings(ents)
		for _, e := range ents {
			b, err := os.ReadFile(e)
			if err != nil {
				continue
			}
			var td TestDir
			if json.Unmarshal(b, &td) == nil {
				for i := range td.Mods {
					td.Mods[i].settle() // the intent of an archive layout is what the archive stores
				}
				res.Count("src:corpus")
				one(&td, f.Seed)
			}
		}
	}
	// 2. the repository's own fixture directory
	repo := os.Getenv("VERIF_REPO")
	if repo == "" {
		repo = "/repo"
	}
	if td := fixtureDir(filepath.Join(repo, "goproxytest", "testdata", "mod")); td != nil {
		res.Count("src:repo-fixture")
		one(td, f.Seed)
	}
	// 3. generated directories
	nClean, nOdd, nEsc, nE2E := 120, 30, 4000, 12
	if f.Tier == "thorough" {
		nClean, nOdd, nEsc, nE2E = 1500, 400, 200000, 150
	}
	r := common.NewRNG(f.Seed)
	for i := 0; i < nClean; i++ {
		res.Count("src:clean")
		one(genDir(r.Fork()), r.Uint64())
	}
	for i := 0; i < nOdd; i++ {
		res.Count("src:odd")
		one(genOddDir(r.Fork()), r.Uint64())
	}
	// 3b. clean directories in which the versions of one module are NOT adjacent in directory (byte)
	// order: sibling modules P/v2, P/v1x, ... sort between the versions of P (interleave.go).  The
	// generator draws from its own stream, so the directories above are what they were before.
	nInter := 8
	if f.Tier == "thorough" {
		nInter = 300
	}
	ri := common.NewRNG(f.Seed ^ 0x1e7e4c20)
	for i := 0; i < nInter; i++ {
		td := genInterleavedDir(ri.Fork())
		res.Count("src:interleaved")
		if p, ok := td.interleaved(); ok {
			res.Count("interleaved:versions-of-one-module-not-adjacent-in-directory-order")
			if strings.ContainsAny(p, "ABCDEFGHIJKLMNOPQRSTUVWXYZ") {
				res.Count("interleaved:upper-case-escapes-in-the-path")
			}
		}
		one(td, ri.Uint64())
	}
	// 5a/5b run next to the directory queue (they compete for the CPU, which only widens the
	// windows); their failures are reported afterwards, in a fixed order
	var bigReport, manyReport func()
	go func() {
		bigReport = rn.bigPhase(f.Seed, f.Tier)
		manyReport = rn.manyPhase(f.Seed, f.Tier)
		close(bgDone)
	}()
	runQueue()
	// 4. escaping compared directly with x/mod
	rn.escapeChecks(r.Fork(), nEsc)
	rn.xmodFuzz(r.Fork(), nEsc/4)
	// 5. go mod download end to end
	// 5a. concurrent first requests on big archives
	bigReport()
	// 5b. concurrent first list requests on modules with very many versions
	manyReport()
	t3 := time.Now()
	rn.goModDownload(all, nE2E)
	tE2E = time.Since(t3)
	res.Notes = append(res.Notes, srcTimeNote())
	res.Notes = append(res.Notes, fmt.Sprintf("time: model %.1fs (first pass %.1fs, oracle rounds %.1fs), sequential HTTP %.1fs, concurrent HTTP %.1fs, big-archive concurrent rounds %.1fs, many-versions concurrent rounds %.1fs, go mod download %.1fs", tModel.Seconds(), tFirst.Seconds(), tRounds.Seconds(), tSeq.Seconds(), tConc.Seconds(), tBig.Seconds(), tMany.Seconds(), tE2E.Seconds()))

	res.Notes = append(res.Notes, fmt.Sprintf("%d oracle-table entries supplied to the model on demand in %d rounds, %d requests re-asked (x/mod CheckPath, checkElem, Check, semver.IsValid/Compare, pseudoVersionRE, json Short)", sumConns(conns, 0), sumConns(conns, 1), sumConns(conns, 2)),
		fmt.Sprintf("%d directories evaluated by %d parallel workers (one model process each); failures are shrunk and reported afterwards in generation order", len(queue), workers),
		"module paths and versions containing \"_\" are excluded from the direct oracles (ambiguous on-disk naming); such directories are compared with the model only")
	res.Rule = fmt.Sprintf("corpus, /repo's testdata/mod, %d clean generated module directories (1-3 modules x 1-4 versions: upper-case and nested paths, major suffixes, gopkg.in; semver, prerelease, pseudo, +incompatible, mismatching and invalid versions; .txt/.txtar/directory layouts; .info/.mod present or missing, nested, dot and empty files; a third of the file contents and .info/.mod of the non-realistic modules are ARBITRARY BYTES: printf verbs and lone %%, backslashes, NUL and control bytes, invalid UTF-8, CRLF and lone CR, no final newline, lines of 1-70 kB, random bytes; member names with %%, spaces, backslash, quotes, non-ASCII and invalid UTF-8; dot-files such as .netrc .gitignore .info2 .mod~ .zip2 .INFO; for archive layouts the intent is what x/tools txtar reads back from the formatted archive; the buckets stored.info:* / stored.mod:* / stored-file:* count what was really served) and %d directories outside the naming discipline (two layouts at once, versions without v, underscores, undecodable names, wrong entry kinds, hand-written archives), each served by a real goproxytest.Server; per directory: list/info/mod/zip of every stored version, unknown modules/versions/extensions, EVERY extension for which any module of the directory holds a dot-file (top-level or nested), a rotating sixth of 33 near extensions (case variants, info2, mod~, blanks, NUL ...) and a rotating seventh of ~115 near-miss URLs per stored version (trailing slash or dot, doubled or missing separators, /@V/, /@latest, list/, List, empty version, upper-cased path/version/extension, ?query and #fragment in the path, /../), a third of %d fixed malformed URLs (all in thorough), commit-hash requests, mutated URLs; direct oracle for every request of a clean directory whatever its class: the URL is in the servable set built from the generator's intent (then the stored content), or a commit-hash request (then hash-resolution), or it must be 404 (exactly404); the model's served_b (C20_served_b_exact) compared with the status of every response; list responses compared with the model and with the intent as MULTISETS of lines (a duplicate is a failure; the order is recorded, not required); after the sequence and after the concurrent batch every stored list/info/mod/zip is requested again on the same server and must be unchanged (state-unchanged); every zip response checked for validity (archive/zip, an independent hand-written container reader, re-serialisation) and its central directory compared with the model's; a third of the clean directories served again under nine other spellings of the directory name (trailing slash, ./rel, relative, //, /./, /../) and another third next to a second server in the same process on a directory with the same module versions and different contents (all of them in thorough); then 16 concurrent first requests for each of up to 6 URLs (list of up to two modules, zip, info/mod, hash; 16 in thorough) on a fresh server and one random interleaving of the model's handlers; then 3 big modules (0.6-1.2 MB under the race detector, where loading and zipping them takes 100 ms and more: 600-member .txt archive, 250-file directory, 4 x 300 kB .txtar; 3-30 MB in thorough) each served by fresh servers hit by 16-32 first requests for info/mod/zip staggered by 0-5 ms, 3 rounds each, every response required to be 200 with the stored body, and the race detector's log read after every concurrent round; 2 many-versions directories (2 modules x 1500 and 3 x 300 stored versions whose directory order is not semver order, pseudo / prerelease / +incompatible / wrong-major / invalid versions mixed in): 3-4 rounds of 8-16 concurrent first list requests plus info/mod/zip requests on a fresh server, every list required to be exactly the listable stored versions as a multiset, then the same lists sequentially on the same server and commit-hash requests (big and many-versions phases run side by side with the directory queue); %d escape/unescape strings against x/mod; the Gallina model of x/mod (CheckPath, SplitPathVersion, checkElem, Check, semver IsValid/Canonical/Compare, the pseudo-version expression) compared with x/mod on every decision taken while answering and on a quarter as many generated near-valid paths and versions, and every sixth directory answered again from oracle tables; a case is one HTTP request (non-trivial unless a fixed malformed URL answered 404); distinct = distinct (directory, URL, response)", nClean, nOdd, len(malformed), nEsc)
	res.Write(f.Out)
}

// fixtureDir reads an existing module directory as a model-only TestDir (its files are copied).
func fixtureDir(dir string) *TestDir {
	ents, err := os.ReadDir(dir)
	if err != nil {
		return nil
	}
	td := &TestDir{Clean: false}
	for _, e := range ents {
		full := filepath.Join(dir, e.Name())
		if !e.IsDir() {
			b, err := os.ReadFile(full)
			if err != nil {
				return nil
			}
			td.Extras = append(td.Extras, Extra{Name: e.Name(), Data: b})
			continue
		}
		// a module directory: re-create it through a Mod with layout "dir" is not possible without
		// decoding the name; store it as a raw directory tree instead
		td.Extras = append(td.Extras, Extra{Name: e.Name(), IsDir: true})
		filepath.WalkDir(full, func(p string, d os.DirEntry, err error) error {
			if err != nil || d.IsDir() {
				return nil
			}
			rel, _ := filepath.Rel(dir, p)
			b, _ := os.ReadFile(p)
			td.Extras = append(td.Extras, Extra{Name: rel, Data: b})
			return nil
		})
	}
	for _, mv := range []string{"fruit.com/@v/v1.0.0", "fruit.com/@v/v1.1.0", "fruit.com/@v/v1.2.0", "fruit.com/fruit/@v/v1.1.0"} {
		for _, e := range []string{"info", "mod", "zip"} {
			td.Probes = append(td.Probes, "/mod/"+mv+"."+e)
		}
	}
	td.Probes = append(td.Probes, "/mod/fruit.com/@v/list", "/mod/fruit.com/fruit/@v/list")
	return td
}

const mutChars = "!/.@v_-Aaz0+~ "

func sumConns(cs []*modelConn, what int) int {
	t := 0
	for _, c := range cs {
		t += []int{c.supplied, c.rounds, c.reasked}[what]
	}
	return t
}

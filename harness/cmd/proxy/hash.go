package main

// Direct, model-free oracle for commit-hash requests ("hash-resolution").
//
// What goproxytest promises for GET /mod/<path>/@v/<hex>.<ext> (comment in the handler, taken
// from cmd/go's module server): a request that names a commit hash only is converted to a known
// version, the latest in semver priority among the stored versions of that module whose commit
// (the last component of a pseudo-version, the Short field of .info for tagged versions) is the
// requested hash, one being allowed to abbreviate the other.  A hash that is the commit of
// nothing stored is not a stored version: 404.
//
// The expectation is computed from the generator's intent with x/mod's own definitions
// (module.IsPseudoVersion, semver.Compare) and encoding/json; the model is not consulted.

import (
	"fmt"
	"regexp"
	"strings"

	"golang.org/x/mod/module"
	"golang.org/x/mod/semver"
)

var hashURL = regexp.MustCompile(`^/mod/(.+)/@v/([0-9a-f]+)\.(info|mod|zip)$`)

// commitOf is the commit a stored version stands for ("" if it names none).
func commitOf(m *Mod) string {
	if module.IsPseudoVersion(m.Vers) {
		return m.Vers[strings.LastIndex(m.Vers, "-")+1:]
	}
	info, _ := m.file(".info")
	return infoShort(info)
}

// hashCandidates: the stored versions of path a request for commit h may be answered with,
// i.e. those of maximal semver precedence among the matching ones.
func (td *TestDir) hashCandidates(path, h string) []*Mod {
	var match []*Mod
	for i := range td.Mods {
		m := &td.Mods[i]
		if m.Path != path || !semver.IsValid(m.Vers) {
			continue
		}
		c := commitOf(m)
		if c != "" && (strings.HasPrefix(c, h) || strings.HasPrefix(h, c)) {
			match = append(match, m)
		}
	}
	var best []*Mod
	for _, m := range match {
		top := true
		for _, o := range match {
			if semver.Compare(m.Vers, o.Vers) < 0 {
				top = false
			}
		}
		if top {
			best = append(best, m)
		}
	}
	return best
}

// checkHash evaluates one commit-hash request of a clean directory; "" = as promised.
func (td *TestDir) checkHash(u string, r resp) string {
	g := hashURL.FindStringSubmatch(u)
	if g == nil || r.Err != "" {
		return ""
	}
	path, err := module.UnescapePath(g[1])
	if err != nil {
		if r.Status != 404 {
			return fmt.Sprintf("%q is not an escaped module path, but the response is %d %q", g[1], r.Status, clip(r.Body))
		}
		return ""
	}
	h, ext := g[2], g[3]
	cands := td.hashCandidates(path, h)
	if len(cands) == 0 {
		if td.stored(path, h) != nil {
			return "" // a version literally named like the hash (never generated in clean directories)
		}
		if r.Status != 404 {
			return fmt.Sprintf("%s is the commit of no stored version of %s, but the response is %d %q", h, path, r.Status, clip(r.Body))
		}
		return ""
	}
	var why []string
	for _, m := range cands {
		msg := td.checkStored(m, ext, r)
		if msg == "" {
			return ""
		}
		why = append(why, fmt.Sprintf("as %s@%s (commit %s): %s", m.Path, m.Vers, commitOf(m), msg))
	}
	return fmt.Sprintf("commit %s of %s should be answered with the latest matching version; %s", h, path, strings.Join(why, "; "))
}

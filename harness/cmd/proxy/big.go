package main

// Concurrent first requests on BIG archives (oracle "concurrent/first-requests").
//
// The two par.Caches publish a result that other requests wait for; the window in which a
// second request can observe a half-published entry is as long as the archive load / zip build
// takes.  With the small generated modules that is microseconds, so this phase serves a few
// modules of several MB (many small files in a .txt archive, a directory tree of medium files,
// a .txtar archive of a few large files), and hits a FRESH server with 16-32 first requests for
// .info/.mod/.zip of the same version, staggered by 0-5 ms drawn from the seed, several times.
// Expectations are deterministic: every response is 200 with the stored body; a transport error
// (EOF, connection reset), a 5xx or a wrong body is an impl-violation.  The race detector's log is
// read after every round as well (oracle "concurrent/race-detector").

import (
	"bytes"
	"crypto/sha256"
	"fmt"
	"os"
	"path/filepath"
	"strings"
	"sync"
	"syscall"
	"time"

	"github.com/rogpeppe/go-internal/goproxytest"

	"verif/harness/common"
)

// BigSpec describes a big module deterministically (a replay regenerates it from here).
type BigSpec struct {
	Layout string `json:"layout"`
	NFiles int    `json:"nfiles"`
	FSize  int    `json:"fsize"`
	Seed   uint64 `json:"seed"`
	Rounds int    `json:"rounds"`
}

func (b BigSpec) mod() Mod {
	r := common.NewRNG(b.Seed)
	path := "big.example/Load" + strings.ToUpper(b.Layout[:1]) + b.Layout[1:]
	m := Mod{Path: path, Vers: "v1.2.3", Layout: b.Layout}
	m.Files = append(m.Files,
		File{".info", []byte("{\"Version\":\"v1.2.3\",\"Time\":\"2018-02-03T04:05:06Z\"}\n")},
		File{".mod", []byte("module " + path + "\n")},
		File{"go.mod", []byte("module " + path + "\n")})
	const alpha = "abcdefghijklmnopqrstuvwxyz0123456789 ._/(){}=+"
	for i := 0; i < b.NFiles; i++ {
		data := make([]byte, b.FSize)
		var x uint64
		for j := range data {
			if j%8 == 0 {
				x = r.Uint64()
			}
			if j%64 == 63 || j == len(data)-1 {
				data[j] = '\n'
			} else {
				data[j] = alpha[int(x&0xff)%len(alpha)]
			}
			x >>= 8
		}
		m.Files = append(m.Files, File{fmt.Sprintf("pkg%03d/f%05d.go", i%17, i), data})
	}
	if b.Layout == "dir" {
		// WalkDir order; irrelevant for the oracles (compared as sets)
	}
	return m
}

var bigSpecsQuick = []BigSpec{
	// sizes are modest because server and client run under the race detector (flate and txtar
	// parsing are 10-20x slower there): load + zip build still take 100 ms and more
	{Layout: "txt", NFiles: 600, FSize: 1024, Rounds: 3},   // ~0.6 MB, many members
	{Layout: "dir", NFiles: 250, FSize: 3000, Rounds: 3},   // ~0.75 MB, many files to read
	{Layout: "txtar", NFiles: 4, FSize: 300000, Rounds: 3}, // ~1.2 MB, few large members
}

var bigSpecsThorough = []BigSpec{
	{Layout: "txt", NFiles: 600, FSize: 1024, Rounds: 8},
	{Layout: "dir", NFiles: 250, FSize: 3000, Rounds: 8},
	{Layout: "txtar", NFiles: 4, FSize: 300000, Rounds: 8},
	{Layout: "txt", NFiles: 1500, FSize: 2048, Rounds: 4},   // ~3 MB
	{Layout: "dir", NFiles: 400, FSize: 8000, Rounds: 4},    // ~3 MB
	{Layout: "txtar", NFiles: 8, FSize: 600000, Rounds: 4},  // ~5 MB
	{Layout: "txtar", NFiles: 5, FSize: 4000000, Rounds: 1}, // ~20 MB
}

func getRaw(host, path string) resp {
	r := resp{}
	rs, err := client.Get("http://" + host + path)
	if err != nil {
		return resp{Err: err.Error()}
	}
	defer rs.Body.Close()
	var buf bytes.Buffer
	if _, err := buf.ReadFrom(rs.Body); err != nil {
		return resp{Err: err.Error(), Status: rs.StatusCode}
	}
	r.Status, r.Body = rs.StatusCode, buf.Bytes()
	return r
}

// raceLogGrowth returns the new text of the race detector's log since the last call.
func (rn *runner) raceLogGrowth() string {
	if rn.raceLog == "" {
		return ""
	}
	rn.mu.Lock()
	defer rn.mu.Unlock()
	files, _ := filepath.Glob(rn.raceLog + ".*")
	var sb strings.Builder
	for _, f := range files {
		b, err := os.ReadFile(f)
		if err != nil {
			continue
		}
		if off := rn.raceSeen[f]; len(b) > off {
			sb.Write(b[off:])
			rn.raceSeen[f] = len(b)
		}
	}
	return sb.String()
}

// raceSummary keeps the frames of the first report that belong to the repository.
func raceSummary(log string) string {
	var keep []string
	lines := strings.Split(log, "\n")
	for i, l := range lines {
		if strings.Contains(l, "go-internal/") && i+1 < len(lines) {
			keep = append(keep, strings.TrimSpace(l)+" "+strings.TrimSpace(lines[i+1]))
		}
		if len(keep) >= 6 {
			break
		}
	}
	return fmt.Sprintf("%d DATA RACE report(s); first frames in the repository: %s", strings.Count(log, "WARNING: DATA RACE"), strings.Join(keep, " | "))
}

// bigOne runs the rounds of one big module and returns the failures.
func (rn *runner) bigOne(spec BigSpec, report bool) []failure {
	var fails []failure
	m := spec.mod()
	td := &TestDir{Mods: []Mod{m}, Clean: true}
	root := filepath.Join(rn.f.Work, fmt.Sprintf("big%05d", rn.nextDir()))
	defer os.RemoveAll(root)
	if err := td.materialise(root); err != nil {
		rn.note("big module could not be written: " + err.Error())
		return nil
	}
	wantInfo, _ := m.file(".info")
	wantMod, _ := m.file(".mod")
	wantZip := m.wantZip()
	urls := map[string]string{}
	for _, e := range []string{"info", "mod", "zip"} {
		urls[e], _ = fileURL(m.Path, m.Vers, e)
	}
	r := common.NewRNG(spec.Seed ^ 0x5bd1e995)
	for round := 0; round < spec.Rounds; round++ {
		srv, err := goproxytest.NewServer(root, "127.0.0.1:0")
		if err != nil {
			fails = append(fails, failure{"impl-violation", "concurrent/first-requests", "", "", err.Error(), "server does not start on a big module directory"})
			break
		}
		host := strings.TrimSuffix(strings.TrimPrefix(srv.URL, "http://"), "/mod")
		n := 16 + r.Intn(17)
		exts := make([]string, n)
		delays := make([]time.Duration, n)
		for i := range exts {
			exts[i] = []string{"info", "mod"}[r.Intn(2)]
			if i%8 == 3 { // a few zip requests per round: they also build and share the cached zip
				exts[i] = "zip"
			}
			delays[i] = time.Duration(r.Intn(5001)) * time.Microsecond
		}
		exts[0], delays[r.Intn(n)] = "info", 0 // someone starts at once; a cheap request opens the window
		out := make([]resp, n)
		var wg sync.WaitGroup
		start := make(chan struct{})
		for i := 0; i < n; i++ {
			wg.Add(1)
			go func(i int) {
				defer wg.Done()
				<-start
				time.Sleep(delays[i])
				out[i] = getRaw(host, urls[exts[i]])
			}(i)
		}
		t0 := time.Now()
		close(start)
		wg.Wait()
		srv.Close()
		addT(&tBig, time.Since(t0))
		var zipSum [32]byte
		zipChecked := false
		for i := 0; i < n; i++ {
			if report {
				rn.count("big-concurrent-request:" + exts[i])
				rn.caseOf(fmt.Sprintf("big|%s|%d|%d", spec.Layout, round, i), true)
			}
			o := out[i]
			msg := ""
			switch {
			case o.Err != "":
				msg = "transport error: " + o.Err
			case o.Status != 200:
				msg = fmt.Sprintf("status %d %q", o.Status, clip(o.Body))
			case exts[i] == "info" && !bytes.Equal(o.Body, wantInfo):
				msg = fmt.Sprintf(".info body %q is not the stored file", clip(o.Body))
			case exts[i] == "mod" && !bytes.Equal(o.Body, wantMod):
				msg = fmt.Sprintf(".mod body %q is not the stored file", clip(o.Body))
			case exts[i] == "zip":
				sum := sha256.Sum256(o.Body)
				if !zipChecked || sum != zipSum {
					es, ok := decodeZip(o.Body)
					if !ok {
						msg = fmt.Sprintf("zip response of %d bytes is not a valid zip", len(o.Body))
					} else if !sameEntries(sortedEntries(es), wantZip) {
						msg = fmt.Sprintf("zip has %d entries, stored non-dot files are %d, or contents differ", len(es), len(wantZip))
					} else {
						zipSum, zipChecked = sum, true
					}
				}
			}
			if msg != "" {
				fails = append(fails, failure{"impl-violation", "concurrent/first-requests", urls[exts[i]], "", clip([]byte(msg)),
					fmt.Sprintf("round %d: request %d of %d concurrent first requests (delay %v) on a fresh server for %s@%s (%s layout, %d files of %d bytes): %s",
						round, i, n, delays[i], m.Path, m.Vers, spec.Layout, spec.NFiles, spec.FSize, msg)})
				break
			}
		}
		if g := rn.raceLogGrowth(); strings.Contains(g, "DATA RACE") {
			fails = append(fails, failure{"impl-violation", "concurrent/race-detector", urls["zip"], "", "", raceSummary(g)})
		}
		if len(fails) > 0 {
			break
		}
	}
	return fails
}

var tBig time.Duration

func (rn *runner) bigPhase(seed uint64, tier string) (report func()) {
	specs := append([]BigSpec{}, bigSpecsQuick...)
	if tier == "thorough" {
		specs = append([]BigSpec{}, bigSpecsThorough...)
	}
	r := common.NewRNG(seed ^ 0xb16b16)
	// the modules run side by side (they compete for the CPU, which only widens the windows);
	// failures are reported afterwards in the order of the specs
	results := make([][]failure, len(specs))
	took := make([]time.Duration, len(specs))
	var wg sync.WaitGroup
	for i := range specs {
		specs[i].Seed = r.Uint64()
		rn.count("src:big-" + specs[i].Layout)
		wg.Add(1)
		go func(i int) {
			defer wg.Done()
			t0 := time.Now()
			results[i] = rn.bigOne(specs[i], true)
			took[i] = time.Since(t0)
		}(i)
	}
	wg.Wait()
	return func() {
		for i, sp := range specs {
			for _, fl := range results[i] {
				rn.violateBig(sp, fl)
			}
			rn.note(fmt.Sprintf("big module %s layout, %d files x %d bytes: %d rounds of concurrent first requests took %.1fs (all big modules side by side)", sp.Layout, sp.NFiles, sp.FSize, sp.Rounds, took[i].Seconds()))
		}
	}
}

func (rn *runner) violateBig(sp BigSpec, fl failure) {
	td := &TestDir{Clean: true, Big: &sp}
	rn.count("failure:" + fl.kind + ":" + fl.oracle)
	rn.res.Violate(common.Violation{Kind: fl.kind, Oracle: fl.oracle,
		Input: map[string]string{"dir": tdJSON(td), "url": fl.url, "url_text": fmt.Sprintf("%q", fl.url), "class": "big"},
		Impl:  fl.impl, Detail: fl.detail, Key: fl.oracle + ":" + sp.Layout})
}

// reexecWithRaceLog makes the race detector write its reports to <work>/racelog.<pid> instead of
// stderr and keep running (GORACE is read at process start, hence the re-exec).
func reexecWithRaceLog(work string) string {
	logPath := filepath.Join(work, "racelog")
	if os.Getenv("PROXY_GORACE_SET") == "1" {
		return logPath
	}
	if work == "" {
		return ""
	}
	exe, err := os.Executable()
	if err != nil {
		return ""
	}
	os.MkdirAll(work, 0o755)
	env := append(os.Environ(), "PROXY_GORACE_SET=1", "GORACE=log_path="+logPath+" halt_on_error=0 exitcode=0 "+os.Getenv("GORACE"))
	syscall.Exec(exe, os.Args, env) // does not return on success
	return ""
}

package main

// Zip validity and central-directory checks for C20.
//
//   - rawZip is an independent, hand-written reader of the zip container (end-of-central-directory
//     record, central directory records, local headers, data descriptors; no use of archive/zip):
//     it checks that the file is exactly local entries + central directory + end record with no
//     gaps or trailing bytes, that every central record points at a local header with the same
//     name, that the data descriptor repeats CRC and sizes, and it inflates/copies the data itself
//     and recomputes CRC-32 and length.
//   - cdOf(archive/zip) is the central directory as archive/zip reads it; it must equal rawZip's,
//     and the model's (driver command "cd").
//   - reserialise: every entry is copied into a new archive with zip.Writer.Copy and read back;
//     names, order, metadata and contents must survive.

import (
	"archive/zip"
	"bytes"
	"compress/flate"
	"encoding/binary"
	"fmt"
	"hash/crc32"
	"io"
	"strings"
	"unicode/utf8"
)

type cdRec struct {
	Name   string
	Method uint16
	Flags  uint16
	CRC    uint32
	Size   uint64
}

func (c cdRec) String() string {
	return fmt.Sprintf("%s %d %d %d %d", hx(c.Name), c.Method, c.Flags, c.CRC, c.Size)
}

func showCD(cd []cdRec) string {
	parts := []string{"cd", fmt.Sprint(len(cd))}
	for _, c := range cd {
		parts = append(parts, c.String())
	}
	return strings.Join(parts, " ")
}

func cdFromStd(body []byte) ([]cdRec, error) {
	zr, err := zip.NewReader(bytes.NewReader(body), int64(len(body)))
	if err != nil {
		return nil, err
	}
	var cd []cdRec
	for _, f := range zr.File {
		cd = append(cd, cdRec{f.Name, f.Method, f.Flags, f.CRC32, f.UncompressedSize64})
	}
	return cd, nil
}

// rawZip parses the container by hand. It returns the central directory and the entry contents.
func rawZip(b []byte) ([]cdRec, [][]byte, error) {
	le := binary.LittleEndian
	if len(b) < 22 {
		return nil, nil, fmt.Errorf("shorter than an end-of-central-directory record")
	}
	eocd := len(b) - 22 // the writer emits no archive comment
	if le.Uint32(b[eocd:]) != 0x06054b50 {
		return nil, nil, fmt.Errorf("no end-of-central-directory signature 22 bytes before the end (trailing bytes or comment)")
	}
	if le.Uint16(b[eocd+4:]) != 0 || le.Uint16(b[eocd+6:]) != 0 {
		return nil, nil, fmt.Errorf("multi-disk fields set")
	}
	n := int(le.Uint16(b[eocd+10:]))
	if int(le.Uint16(b[eocd+8:])) != n {
		return nil, nil, fmt.Errorf("entry counts differ")
	}
	cdSize, cdOff := int(le.Uint32(b[eocd+12:])), int(le.Uint32(b[eocd+16:]))
	if le.Uint16(b[eocd+20:]) != 0 {
		return nil, nil, fmt.Errorf("archive comment")
	}
	if n == 0xffff || cdSize == 0xffffffff || cdOff == 0xffffffff {
		return nil, nil, fmt.Errorf("zip64 archive (not expected for these sizes)")
	}
	if cdOff+cdSize != eocd {
		return nil, nil, fmt.Errorf("central directory [%d,%d) does not end where the end record starts (%d)", cdOff, cdOff+cdSize, eocd)
	}
	var cd []cdRec
	var datas [][]byte
	p := cdOff
	next := 0 // where the next local entry must start
	for i := 0; i < n; i++ {
		if p+46 > eocd || le.Uint32(b[p:]) != 0x02014b50 {
			return nil, nil, fmt.Errorf("central record %d: bad signature", i)
		}
		flags, method := le.Uint16(b[p+8:]), le.Uint16(b[p+10:])
		crc := le.Uint32(b[p+16:])
		csize, usize := int(le.Uint32(b[p+20:])), int(le.Uint32(b[p+24:]))
		nl, el, cl := int(le.Uint16(b[p+28:])), int(le.Uint16(b[p+30:])), int(le.Uint16(b[p+32:]))
		off := int(le.Uint32(b[p+42:]))
		if p+46+nl+el+cl > eocd {
			return nil, nil, fmt.Errorf("central record %d overruns the directory", i)
		}
		name := string(b[p+46 : p+46+nl])
		p += 46 + nl + el + cl
		// local header
		if off != next {
			return nil, nil, fmt.Errorf("entry %d (%q): local header at %d, expected %d (gap or overlap)", i, name, off, next)
		}
		if off+30 > cdOff || le.Uint32(b[off:]) != 0x04034b50 {
			return nil, nil, fmt.Errorf("entry %d (%q): no local header signature at %d", i, name, off)
		}
		lflags, lmethod := le.Uint16(b[off+6:]), le.Uint16(b[off+8:])
		lnl, lel := int(le.Uint16(b[off+26:])), int(le.Uint16(b[off+28:]))
		if lflags != flags || lmethod != method {
			return nil, nil, fmt.Errorf("entry %d (%q): local flags/method %d/%d differ from central %d/%d", i, name, lflags, lmethod, flags, method)
		}
		if off+30+lnl+lel > cdOff || string(b[off+30:off+30+lnl]) != name {
			return nil, nil, fmt.Errorf("entry %d: local name differs from central name %q", i, name)
		}
		dstart := off + 30 + lnl + lel
		if dstart+csize > cdOff {
			return nil, nil, fmt.Errorf("entry %d (%q): compressed data overruns", i, name)
		}
		raw := b[dstart : dstart+csize]
		var data []byte
		switch method {
		case 0:
			data = raw
		case 8:
			var err error
			data, err = io.ReadAll(flate.NewReader(bytes.NewReader(raw)))
			if err != nil {
				return nil, nil, fmt.Errorf("entry %d (%q): inflate: %v", i, name, err)
			}
		default:
			return nil, nil, fmt.Errorf("entry %d (%q): method %d", i, name, method)
		}
		if len(data) != usize || crc32.ChecksumIEEE(data) != crc {
			return nil, nil, fmt.Errorf("entry %d (%q): data has length %d crc %08x, directory says %d %08x", i, name, len(data), crc32.ChecksumIEEE(data), usize, crc)
		}
		next = dstart + csize
		if flags&8 != 0 { // data descriptor: signature, crc, csize, usize (32-bit form)
			if next+16 > cdOff || le.Uint32(b[next:]) != 0x08074b50 {
				return nil, nil, fmt.Errorf("entry %d (%q): no data descriptor", i, name)
			}
			if le.Uint32(b[next+4:]) != crc || int(le.Uint32(b[next+8:])) != csize || int(le.Uint32(b[next+12:])) != usize {
				return nil, nil, fmt.Errorf("entry %d (%q): data descriptor disagrees with the central directory", i, name)
			}
			next += 16
		}
		cd = append(cd, cdRec{name, method, flags, crc, uint64(usize)})
		datas = append(datas, data)
	}
	if p != eocd {
		return nil, nil, fmt.Errorf("central directory has %d bytes after its last record", eocd-p)
	}
	if next != cdOff {
		return nil, nil, fmt.Errorf("%d bytes between the last entry and the central directory", cdOff-next)
	}
	return cd, datas, nil
}

// reserialise copies every entry into a new archive and reads it back.
func reserialise(body []byte) ([]cdRec, []entry, error) {
	zr, err := zip.NewReader(bytes.NewReader(body), int64(len(body)))
	if err != nil {
		return nil, nil, err
	}
	var buf bytes.Buffer
	zw := zip.NewWriter(&buf)
	for _, f := range zr.File {
		if err := zw.Copy(f); err != nil {
			return nil, nil, err
		}
	}
	if err := zw.Close(); err != nil {
		return nil, nil, err
	}
	cd, err := cdFromStd(buf.Bytes())
	if err != nil {
		return nil, nil, err
	}
	es, ok := decodeZip(buf.Bytes())
	if !ok {
		return nil, nil, fmt.Errorf("re-serialised archive unreadable")
	}
	return cd, es, nil
}

// validZip evaluates "the response is a valid zip whose central directory describes exactly
// these entries"; "" = valid.  want is the expected central directory (nil = not checked).
func validZip(body []byte, want []cdRec) string {
	std, err := cdFromStd(body)
	if err != nil {
		return "archive/zip: " + err.Error()
	}
	raw, datas, err := rawZip(body)
	if err != nil {
		return "independent reader: " + err.Error()
	}
	if showCD(std) != showCD(raw) {
		return "archive/zip and the independent reader see different central directories: " + showCD(std) + " vs " + showCD(raw)
	}
	es, ok := decodeZip(body)
	if !ok || len(es) != len(datas) {
		return "contents unreadable"
	}
	for i := range es {
		if !bytes.Equal(es[i].Data, datas[i]) {
			return fmt.Sprintf("entry %q: archive/zip and the independent reader extract different data", es[i].Name)
		}
	}
	cd2, es2, err := reserialise(body)
	if err != nil {
		return "re-serialising: " + err.Error()
	}
	if showCD(cd2) != showCD(std) || !sameEntries(es2, es) {
		return "the archive changes when its entries are copied into a new one: " + showCD(cd2) + " vs " + showCD(std)
	}
	if want != nil && showCD(want) != showCD(std) {
		return "central directory " + showCD(std) + " is not the expected " + showCD(want)
	}
	return ""
}

// wantCD: the central directory the property demands for a stored module version, computed from
// the generator's intent with hash/crc32 (archive order is not part of the property: sorted by name).
func (m *Mod) wantCD() []cdRec {
	var cd []cdRec
	for _, e := range m.wantZip() {
		c := cdRec{Name: e.Name, Method: 8, Flags: 8, CRC: crc32.ChecksumIEEE(e.Data), Size: uint64(len(e.Data))}
		if strings.HasSuffix(e.Name, "/") {
			c.Method, c.Flags = 0, 0
		}
		for i := 0; i < len(e.Name) && utf8.ValidString(e.Name); i++ {
			if ch := e.Name[i]; ch < 0x20 || ch > 0x7d || ch == 0x5c {
				c.Flags |= 0x800 // archive/zip marks VALID UTF-8 names outside the CP-437/ASCII-safe range as UTF-8
				break
			}
		}
		cd = append(cd, c)
	}
	return cd
}

func sortedCD(cd []cdRec) []cdRec {
	c := append([]cdRec{}, cd...)
	for i := 1; i < len(c); i++ {
		for j := i; j > 0 && c[j].Name < c[j-1].Name; j-- {
			c[j], c[j-1] = c[j-1], c[j]
		}
	}
	return c
}

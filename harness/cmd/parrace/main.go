// Command parrace stresses the UNMODIFIED github.com/rogpeppe/go-internal/par package on the
// real Go scheduler; the C09/C10 runner builds it with -race and runs it as supporting evidence
// (and as the fallback when the instrumented copy cannot be produced).  It evaluates the same
// direct oracles as the controlled runs and prints one line: "ok ..." or "FAIL <oracle> <detail>".
// The race detector reports on stderr and makes the exit status 66.
package main

import (
	"flag"
	"fmt"
	"os"
	"runtime"
	"strconv"
	"sync"
	"sync/atomic"
	"time"

	"github.com/rogpeppe/go-internal/par"
)

type rng struct{ s uint64 }

func (r *rng) next() uint64 {
	r.s += 0x9E3779B97F4A7C15
	z := r.s
	z = (z ^ (z >> 30)) * 0xBF58476D1CE4E5B9
	z = (z ^ (z >> 27)) * 0x94D049BB133111EB
	return z ^ (z >> 31)
}
func (r *rng) intn(n int) int { return int(r.next() % uint64(n)) }

func fail(oracle, detail string) {
	fmt.Printf("FAIL %s %s\n", oracle, detail)
	os.Exit(1)
}

// watchdog: a run that does not finish is a deadlock (generous: the machine may be loaded)
func withDeadline(what string, d time.Duration, f func()) {
	done := make(chan struct{})
	go func() { f(); close(done) }()
	select {
	case <-done:
	case <-time.After(d):
		fail("deadlock", what+" did not return within "+d.String())
	}
}

// rwork: one par.Work over a random item graph, with the counters of the direct oracles.
type rwork struct {
	round, n     int
	g            [][]int
	inits        []int
	val          func(i int) any
	ids          map[any]int
	reach        map[int]bool
	begun, ended []int32
	active       int32
	maxActive    int32
	w            par.Work
	inside       func(i int) // runs inside f(i) after its Adds
}

type privItem struct{ owner, id int }

// newRwork: owner < 0: the items are values shared by every Work of the process (mixed dynamic types); owner >= 0: the
// items are private to this Work.
func newRwork(r *rng, round, maxItems, owner int) *rwork {
	nItems := 1 + r.intn(maxItems)
	n := 1 + r.intn(8)
	if r.intn(60) == 0 {
		n = []int{257, 300, 1000}[r.intn(3)] // more runners than any sensible cap
	}
	g := make([][]int, nItems)
	for i := range g {
		for k := r.intn(4); k > 0; k-- {
			g[i] = append(g[i], r.intn(nItems))
		}
	}
	var inits []int
	if r.intn(10) != 0 { // one round in ten: Do on an empty work set
		for k := 1 + r.intn(3); k > 0; k-- {
			inits = append(inits, r.intn(nItems))
		}
	}
	// item id i is a Go value of mixed dynamic type; distinct ids are distinct under == but share printed forms
	ptrs := map[int]*pt{}
	val := func(i int) any {
		if owner >= 0 && i%8 < 6 {
			return privItem{owner, i}
		}
		g := i / 8
		switch i % 8 {
		case 0:
			return g
		case 1:
			return strconv.Itoa(g)
		case 2:
			if g == 0 {
				return nil // the nil interface value is a legitimate item
			}
			return float64(g)
		case 3:
			return int64(g)
		case 4:
			return [2]int{g, g}
		case 5:
			return fmt.Sprintf("[%d %d]", g, g)
		}
		return ptrs[i]
	}
	ids := map[any]int{}
	for i := 0; i < nItems; i++ {
		if k := i % 8; k >= 6 {
			ptrs[i] = &pt{g: i / 8}
		}
		ids[val(i)] = i
	}
	reach := map[int]bool{}
	var dfs func(i int)
	dfs = func(i int) {
		if !reach[i] {
			reach[i] = true
			for _, c := range g[i] {
				dfs(c)
			}
		}
	}
	for _, i := range inits {
		dfs(i)
	}
	return &rwork{round: round, n: n, g: g, inits: inits, val: val, ids: ids, reach: reach,
		begun: make([]int32, nItems), ended: make([]int32, nItems)}
}

func (x *rwork) fill() {
	for _, i := range x.inits {
		x.w.Add(x.val(i))
	}
}

func (x *rwork) f(item any) {
	i, known := x.ids[item]
	if !known {
		fail("exactly-once", fmt.Sprintf("round %d: f called with %#v, which was never added to this Work", x.round, item))
	}
	a := atomic.AddInt32(&x.active, 1)
	for {
		m := atomic.LoadInt32(&x.maxActive)
		if a <= m || atomic.CompareAndSwapInt32(&x.maxActive, m, a) {
			break
		}
	}
	atomic.AddInt32(&x.begun[i], 1)
	for _, c := range x.g[i] {
		if r := c % 3; r == 0 {
			runtime.Gosched()
		}
		x.w.Add(x.val(c))
	}
	if x.inside != nil {
		x.inside(i)
	}
	atomic.AddInt32(&x.ended[i], 1)
	atomic.AddInt32(&x.active, -1)
}

func (x *rwork) check() {
	round, n := x.round, x.n
	if a := atomic.LoadInt32(&x.active); a != 0 {
		fail("do-returns-when-done", fmt.Sprintf("round %d: %d calls of f still in progress when Do returned", round, a))
	}
	if m := atomic.LoadInt32(&x.maxActive); int(m) > n {
		fail("at-most-n", fmt.Sprintf("round %d: %d calls of f in progress with n=%d", round, m, n))
	}
	for i := range x.g {
		want := int32(0)
		if x.reach[i] {
			want = 1
		}
		if b, e := atomic.LoadInt32(&x.begun[i]), atomic.LoadInt32(&x.ended[i]); b != want || e != want {
			fail("exactly-once", fmt.Sprintf("round %d: item %d begun %d ended %d, want %d", round, i, b, e, want))
		}
	}
}

func workRound(r *rng, round int) {
	if round%6 == 5 {
		objectsRound(r, round)
		return
	}
	x := newRwork(r, round, 40, -1)
	x.fill()
	withDeadline(fmt.Sprintf("Work.Do round %d (n=%d, %d items)", round, x.n, len(x.g)), 25*time.Second, func() {
		x.w.Do(x.n, x.f)
	})
	x.check()
}

// objectsRound: several Work values alive at the same time (filled first, then run concurrently), and Works run from
// inside f of another Work.  Distinct Work values share nothing: under the race detector any memory they have in
// common shows up as a data race, and the per-Work oracles as foreign / missing items.
func objectsRound(r *rng, round int) {
	k := 2 + r.intn(2)
	ws := make([]*rwork, k)
	for j := range ws {
		owner := -1
		if r.intn(2) == 0 {
			owner = j
		}
		ws[j] = newRwork(r, round, 12, owner)
		if ws[j].n > 8 {
			ws[j].n = 8
		}
	}
	nested := r.intn(2) == 0
	if nested {
		// every call of f of the first Work runs a fresh Work of its own (items private to it)
		seeds := make([]uint64, len(ws[0].g))
		for i := range seeds {
			seeds[i] = r.next()
		}
		ws[0].inside = func(i int) {
			in := newRwork(&rng{seeds[i]}, round, 6, 100+i)
			if in.n > 3 {
				in.n = 3
			}
			in.fill()
			in.w.Do(in.n, in.f)
			in.check()
		}
	}
	for _, x := range ws {
		x.fill()
	}
	withDeadline(fmt.Sprintf("round %d: %d Work values run concurrently (nested: %v)", round, k, nested), 25*time.Second, func() {
		var wg sync.WaitGroup
		for _, x := range ws {
			wg.Add(1)
			go func(x *rwork) { defer wg.Done(); x.w.Do(x.n, x.f) }(x)
		}
		wg.Wait()
	})
	for _, x := range ws {
		x.check()
	}
}

type boxed struct{ k, gen int }

type pt struct{ g int }

func cacheRound(r *rng, round int) {
	nKeys := 1 + r.intn(4)
	nG := 2 + r.intn(7)
	var c par.Cache
	calls := make([]int32, nKeys)
	fdone := make([]int32, nKeys)
	completed := make([]int32, nKeys) // some Do(k) has returned
	vals := make([]*boxed, nKeys)
	for k := range vals {
		vals[k] = &boxed{k, round}
	}
	seeds := make([]uint64, nG)
	for i := range seeds {
		seeds[i] = r.next()
	}
	var wg sync.WaitGroup
	var mu sync.Mutex
	var firstErr string
	report := func(o, d string) {
		mu.Lock()
		if firstErr == "" {
			firstErr = o + " " + d
		}
		mu.Unlock()
	}
	withDeadline(fmt.Sprintf("Cache round %d", round), 25*time.Second, func() {
		for gi := 0; gi < nG; gi++ {
			wg.Add(1)
			go func(gi int) {
				defer wg.Done()
				lr := &rng{seeds[gi]}
				for j := 0; j < 6; j++ {
					k := lr.intn(nKeys)
					if lr.intn(3) == 0 {
						was := atomic.LoadInt32(&completed[k])
						v := c.Get(k)
						if v == nil && was == 1 {
							report("get-after-done", fmt.Sprintf("round %d: Get(%d) returned nil although a Do(%d) had already returned", round, k, k))
						}
						if v != nil {
							b, ok := v.(*boxed)
							if !ok || b != vals[k] || b.k != k { // reads the pointee: a torn publication would race here
								report("get-nil-or-value", fmt.Sprintf("round %d: Get(%d) = %v", round, k, v))
							}
							if atomic.LoadInt32(&fdone[k]) != 1 {
								report("get-nil-or-value", fmt.Sprintf("round %d: Get(%d) returned a value before f completed", round, k))
							}
						}
					} else {
						v := c.Do(k, func() any {
							atomic.AddInt32(&calls[k], 1)
							runtime.Gosched()
							b := vals[k]
							b.gen = round // plain write before publication
							atomic.StoreInt32(&fdone[k], 1)
							return b
						})
						b, ok := v.(*boxed)
						if !ok || b != vals[k] || b.gen != round {
							report("do-returns-f-value", fmt.Sprintf("round %d: Do(%d) = %v", round, k, v))
						}
						if atomic.LoadInt32(&fdone[k]) != 1 {
							report("do-after-f", fmt.Sprintf("round %d: Do(%d) returned before f completed", round, k))
						}
						atomic.StoreInt32(&completed[k], 1)
					}
				}
			}(gi)
		}
		wg.Wait()
		// contention on computed keys: several goroutines spinning on Get while others call Do again
		for k := 0; k < nKeys; k++ {
			if atomic.LoadInt32(&completed[k]) != 1 {
				continue
			}
			for gi := 0; gi < 6; gi++ {
				wg.Add(1)
				go func(k, gi int) {
					defer wg.Done()
					for j := 0; j < 50; j++ {
						if gi < 4 {
							if v := c.Get(k); v == nil {
								report("get-after-done", fmt.Sprintf("round %d: Get(%d) returned nil although Do(%d) had completed (contended Get)", round, k, k))
								return
							}
						} else if v := c.Do(k, func() any { atomic.AddInt32(&calls[k], 1); return vals[k] }); v != any(vals[k]) {
							report("do-returns-f-value", fmt.Sprintf("round %d: Do(%d) = %v after completion", round, k, v))
							return
						}
					}
				}(k, gi)
			}
		}
		wg.Wait()
	})
	for k := range calls {
		if n := atomic.LoadInt32(&calls[k]); n > 1 {
			report("f-once-per-key", fmt.Sprintf("round %d: f for key %d called %d times", round, k, n))
		}
	}
	if firstErr != "" {
		fmt.Println("FAIL " + firstErr)
		os.Exit(1)
	}
}

func main() {
	what := flag.String("what", "work", "work|cache")
	seed := flag.Uint64("seed", 1, "seed")
	dur := flag.Duration("dur", 2*time.Second, "how long")
	flag.Parse()
	r := &rng{*seed * 0x9E3779B97F4A7C15}
	start := time.Now()
	rounds := 0
	for time.Since(start) < *dur {
		if *what == "work" {
			workRound(r, rounds)
		} else {
			cacheRound(r, rounds)
		}
		rounds++
	}
	fmt.Printf("ok %s rounds=%d\n", *what, rounds)
}

package main

// Batch specifications: the abstract scripts the C04 model of coq/theories/TsBatch/TsBatch.v
// talks about, their rendering as testscript archives, and their rendering as a request line for
// the extracted model.

import (
	"encoding/hex"
	"encoding/json"
	"fmt"
	"regexp"
	"sort"
	"strings"

	"verif/harness/common"
)

// Action mirrors the Coq type `action`.
//
//	W path data   write a file            M path ro     mkdir (ro: MkdirAll + chmod 555 in one command)
//	X path        chmod 755               C path        cd
//	E key data    env key=data            P path keep   env PATH=$WORK/path[${:}$PATH]
//	D id bad      register a Defer        G id neg      [!] exec helper sleep &
//	O probe   F failing line   K skip   T stop   Z panic in a custom command
//	N kill (every background command)   Y kill, then wait   U wait (no signal)
//	G with an id >= 100: the command exits at once by itself with status 1 (exec helper exit 1 &);
//	  with an id in 50..99: it traps the interrupt, creates $WORK/late/f and exits 1 (not under retention)
//	J id          exec helper sleep &b<id>& once more: the name is taken, the line fails, nothing is started
//	H neg key     [!] exec key exit 0: a foreground command found (or not) on the script's own PATH
//	I neg key sub [exec:key] sub  /  [!exec:key] sub
//	L path key    symlink path -> target: the last segment of path is lnk<digit> (no other action of the
//	              harness names such a segment, so links are never followed by the scripts themselves);
//	              key says where the link points: a sentinel of the host (host-file, host-ro, host-x,
//	              host-dir, host-rodir, host-inner), nowhere (dangling), the script's own files (own-file,
//	              own-abs, own-dir, parent), a sibling's (sibling:<script>[:<path>])
//	R path        rm path (removeAll: chmod pass, then RemoveAll)
//	Q path data   a custom command creating a file and making it read-only (mode 0444)
//	S             a custom command that ends the run by calling Skip on the T it got from Env.T()
//	A fatal       a custom command that ends the run by calling FailNow (Fatal) on that T
//
// How a deferred function (D, Script.Defers) ends is told by its id (deferKind): with the bad flag it
// panics; ids 200..299 call T.FailNow (even) or T.Fatal (odd); ids 300..399 call T.Skip; ids 400..499
// (D only) call ts.Fatalf: run() catches the failNow panic once the chain of deferred functions is through
// and fails the run.  G with an id in 30..49 starts the
// helper by its absolute path (no PATH needed).
type Action struct {
	Op   string  `json:"op"`
	Path string  `json:"path,omitempty"`
	Data string  `json:"data,omitempty"`
	Flag bool    `json:"flag,omitempty"`
	ID   int     `json:"id,omitempty"`
	Key  string  `json:"key,omitempty"`
	Sub  *Action `json:"sub,omitempty"`
}

type File struct {
	Path string `json:"path"`
	Data string `json:"data"`
	// Work: the entry is named $WORK/<path> in the archive.  Should setup() expand that name while
	// $WORK is still undefined the file is written to /<path>; to keep that harmless only flat names
	// with the prefix below are accepted, and the runner looks for /<path> afterwards, reports it and
	// removes exactly that file.
	Work bool `json:"work,omitempty"`
	// Escape: the entry name leaves the work directory (Path is then ignored):
	//   "up"             ../verif_c04_up_<script>.txt          (lands in the private temporary root)
	//   "sibling:<name>" ../script-<name>/verif_c04_planted_<script>.txt
	//   "abs"            <scratch dir of the run>/outside/verif_c04_abs_<script>.txt
	//   "home"           $HOME/../<scratch dir of the run>/outside/verif_c04_home_<script>.txt
	// All of them stay inside the scratch directory of the run.
	Escape string `json:"escape,omitempty"`
}

var reSibling = regexp.MustCompile(`^sibling:[a-z0-9]{1,20}(#[0-9]{1,3})?$`)

// entryName is the name of the entry in the archive text; rundir is the scratch directory of the run.
func (f *File) entryName(script, rundir string) string {
	script = strings.ReplaceAll(script, "#", "n")
	switch {
	case f.Escape == "up":
		return "../verif_c04_up_" + script + ".txt"
	case strings.HasPrefix(f.Escape, "sibling:"):
		return "../script-" + strings.TrimPrefix(f.Escape, "sibling:") + "/verif_c04_planted_" + script + ".txt"
	case f.Escape == "abs":
		return rundir + "/outside/verif_c04_abs_" + script + ".txt"
	case f.Escape == "home":
		return "$HOME/.." + rundir + "/outside/verif_c04_home_" + script + ".txt"
	case f.Work:
		return "$WORK/" + f.Path
	}
	return f.Path
}

const escapePrefix = "verif_c04_canary_"

// safeWorkName: a $WORK-named entry the harness is willing to run.
func safeWorkName(p string) bool {
	if !strings.HasPrefix(p, escapePrefix) || len(p) > 80 {
		return false
	}
	for i := 0; i < len(p); i++ {
		c := p[i]
		if !(c >= 'a' && c <= 'z' || c >= '0' && c <= '9' || c == '_' || c == '.') {
			return false
		}
	}
	return !strings.Contains(p, "..")
}

var reScriptName = regexp.MustCompile(`^[a-z0-9]{1,20}(#[0-9]{1,3}){0,3}$`)

// uniqueNames is RunT's disambiguation of base names, as it should be: a name already taken gets the
// first suffix #1, #2, ... that makes it unused.
func uniqueNames(bases []string) []string {
	taken := map[string]bool{}
	out := make([]string, len(bases))
	for i, b := range bases {
		name := b
		for k := 1; taken[name]; k++ {
			name = b + "#" + fmt.Sprint(k)
		}
		taken[name] = true
		out[i] = name
	}
	return out
}

func (s *Script) fileBase() string {
	if s.Base != "" {
		return s.Base
	}
	return s.Name
}

// fileName is the base name of the script file with its extension (.txt unless Ext says txtar).
func (s *Script) fileName() string {
	if s.Ext == "txtar" {
		return s.fileBase() + ".txtar"
	}
	return s.fileBase() + ".txt"
}

// renamedByBases: the scripts with the names their file base names give (uniqueNames), for batches
// whose scripts do not mention each other (no sibling links, no entries planted in a sibling's
// directory, no ordering of ends): lets a sub-list of a batch with equal base names be run.
func renamedByBases(ss []Script) []Script {
	out := append([]Script{}, ss...)
	explicit := false
	for i := range out {
		if out[i].Base != "" {
			explicit = true
		}
		if len(out[i].EndAfter) > 0 {
			return out
		}
		for _, f := range out[i].Files {
			if strings.HasPrefix(f.Escape, "sibling:") {
				return out
			}
		}
		j, _ := json.Marshal(out[i].Body)
		if strings.Contains(string(j), "sibling:") {
			return out
		}
	}
	if !explicit {
		return out
	}
	bases := make([]string, len(out))
	for i := range out {
		bases[i] = out[i].fileBase()
	}
	names := uniqueNames(bases)
	for i := range out {
		out[i].Name, out[i].Base = names[i], bases[i]
	}
	return out
}

func (b *Batch) validate() error {
	bases := make([]string, len(b.Scripts))
	for i := range b.Scripts {
		bases[i] = b.Scripts[i].fileBase()
	}
	want := uniqueNames(bases)
	for i, s := range b.Scripts {
		if !reScriptName.MatchString(s.Name) || !reScriptName.MatchString(s.fileBase()) {
			return fmt.Errorf("script name %q (file %q) refused", s.Name, s.fileBase())
		}
		if s.Ext != "" && s.Ext != "txt" && s.Ext != "txtar" {
			return fmt.Errorf("script %s: extension %q refused", s.Name, s.Ext)
		}
		if s.Name != want[i] {
			return fmt.Errorf("script %d: name %q is not what the base names give (%q)", i, s.Name, want[i])
		}
		if !reSetupVars.MatchString(s.SetupVars) {
			return fmt.Errorf("script %s: setup_vars %q refused", s.Name, s.SetupVars)
		}
		for _, d := range s.Defers {
			if deferKind(d.ID, d.Bad) == "tsfatalf" {
				return fmt.Errorf("script %s: a deferred function of Setup cannot call ts.Fatalf (id %d)", s.Name, d.ID)
			}
		}
		if !varsForActions(s.SetupVars) {
			for k := range s.Body {
				if !s.Body[k].needsNoVars() {
					return fmt.Errorf("script %s: action %s needs $WORK / $PATH, which Setup drops", s.Name, s.Body[k].Op)
				}
			}
		}
		for _, f := range s.Files {
			if f.Escape != "" {
				if f.Escape != "up" && f.Escape != "abs" && f.Escape != "home" && !reSibling.MatchString(f.Escape) {
					return fmt.Errorf("script %s: escape kind %q refused", s.Name, f.Escape)
				}
				continue
			}
			if f.Work && !safeWorkName(f.Path) {
				return fmt.Errorf("script %s: entry $WORK/%s refused (only flat %s* names may be $WORK-named)", s.Name, f.Path, escapePrefix)
			}
			if strings.HasPrefix(f.Path, "/") || strings.Contains(f.Path, "..") || strings.Contains(f.Path, "$") || hasLinkSeg(f.Path) {
				return fmt.Errorf("script %s: entry name %q refused", s.Name, f.Path)
			}
		}
		roNames := map[string]int{}
		written := map[string]bool{}
		var note func(a *Action)
		note = func(a *Action) {
			switch a.Op {
			case "Q":
				roNames[a.Path]++
			case "W", "X":
				written[a.Path] = true
			case "I":
				if a.Sub != nil {
					note(a.Sub)
				}
			}
		}
		for k := range s.Body {
			if err := validateAction(&s.Body[k]); err != nil {
				return fmt.Errorf("script %s: %v", s.Name, err)
			}
			note(&s.Body[k])
		}
		for p, n := range roNames {
			if n > 1 || written[p] {
				return fmt.Errorf("script %s: the read-only file %q is written more than once", s.Name, p)
			}
		}
		for _, f := range s.Files {
			if roNames[f.Path] > 0 {
				return fmt.Errorf("script %s: the read-only file %q is also an archive entry", s.Name, f.Path)
			}
		}
	}
	return nil
}

type KV struct {
	K string `json:"k"`
	V string `json:"v"` // "$WORK/sub/dir" or a literal
}

type DeferSpec struct {
	ID  int  `json:"id"`
	Bad bool `json:"bad,omitempty"`
}

// deferKind: how the deferred function with this id ends ("" = it returns).
func deferKind(id int, bad bool) string {
	switch {
	case bad:
		return "panic"
	case id >= 200 && id < 300:
		if id%2 == 0 {
			return "failnow"
		}
		return "fatal"
	case id >= 300 && id < 400:
		return "skip"
	case id >= 400 && id < 500:
		return "tsfatalf"
	}
	return ""
}

// bgByPath: the background command with this handle is started by the absolute path of the helper.
func bgByPath(id int) bool { return id >= 30 && id < 50 }

// keepNames: the allow-list of a Script.SetupVars of the form keep:A,B (nil otherwise).
func keepNames(mode string) ([]string, bool) {
	rest, ok := strings.CutPrefix(mode, "keep:")
	if !ok {
		return nil, false
	}
	if rest == "" {
		return []string{}, true
	}
	return strings.Split(rest, ","), true
}

// varsKept reports whether Env.Vars still holds the variable after Setup has applied mode.
func varsKept(mode, name string) bool {
	switch mode {
	case "":
		return true
	case "nil", "empty":
		return false
	}
	names, _ := keepNames(mode)
	for _, n := range names {
		if n == name {
			return true
		}
	}
	return false
}

var reSetupVars = regexp.MustCompile(`^(nil|empty|keep:([A-Za-z_:/$][A-Za-z0-9_]*(,[A-Za-z_:/$][A-Za-z0-9_]*)*)?)?$`)

// varsForActions: Setup leaves the variables the renderings of the actions use ($WORK, $PATH, ${:}).
func varsForActions(mode string) bool {
	return varsKept(mode, "WORK") && varsKept(mode, "PATH") && varsKept(mode, ":")
}

type Script struct {
	// SetupVars: what Params.Setup does to Env.Vars before it appends Adds: "" nothing; "nil" Env.Vars = nil;
	// "empty" Env.Vars = []string{}; "keep:A,B" an allow-list filter (`var keep []string; for ... append`),
	// which leaves a nil slice when it keeps nothing.
	SetupVars string `json:"setup_vars,omitempty"`
	// Name is the name RunT has to give the subtest and the work directory (script-<Name>); Base, when
	// set, is the base name of the script file (several scripts of a batch may have the same one, each
	// in its own directory, and a base name may look like a disambiguated name: foo#1): Name must then
	// be what uniqueNames computes.
	Name     string      `json:"name"`
	Base     string      `json:"base,omitempty"`
	Ext      string      `json:"ext,omitempty"` // extension of the script file: "" / "txt" (.txt) or "txtar"
	Files    []File      `json:"files"`
	Adds     []KV        `json:"adds,omitempty"`
	Defers   []DeferSpec `json:"defers,omitempty"`
	SetupErr bool        `json:"setup_err,omitempty"`
	Body     []Action    `json:"body"`
	DelayMs  int         `json:"delay_ms,omitempty"` // sleep at the start of Setup: orders the scripts, no other effect
	// EndMark / EndAfter order the ENDS of scripts (harness plumbing, invisible to the model: two more deferred
	// functions registered by Setup that are not recorded): a script with EndMark raises a flag when its
	// deferred functions run, i.e. just before its work directory is cleaned up; a script with EndAfter
	// waits in its last deferred function until the named scripts have raised theirs (at most 3 s), so
	// that it finishes - and is cleaned up - while their clean-up is under way.
	EndMark  bool     `json:"end_mark,omitempty"`
	EndAfter []string `json:"end_after,omitempty"`
}

type Batch struct {
	Retain          string `json:"retain,omitempty"` // "" | testwork | workdirroot | flag
	Verbose         bool   `json:"verbose,omitempty"`
	Procs           int    `json:"procs,omitempty"` // GOMAXPROCS of the child
	Par             int    `json:"par,omitempty"`   // subtests running at the same time (testing's -parallel)
	Canary          bool   `json:"canary,omitempty"`
	Cover           bool   `json:"cover,omitempty"` // set GOCOVERDIR in the host environment
	NonRoot         bool   `json:"nonroot,omitempty"`
	ContinueOnError bool   `json:"continue_on_error,omitempty"`
	// SeqT: the T handed to RunT runs every subtest to its end inside Run and its Parallel does nothing
	// (cmd/testscript's own T does that): the scripts run one after the other.
	SeqT    bool     `json:"seq_t,omitempty"`
	Scripts []Script `json:"scripts"`
}

func hx(s string) string { return common.Hex([]byte(s)) }

func pathTok(p string) string {
	if p == "" {
		return "."
	}
	return p
}

func b01(b bool) string {
	if b {
		return "1"
	}
	return "0"
}

var reLinkSeg = regexp.MustCompile(`^lnk[0-9]$`)
var reLinkKey = regexp.MustCompile(`^(host-file|host-ro|host-x|host-dir|host-rodir|host-inner|dangling|own-file|own-abs|own-dir|parent|sibling:[a-z0-9]{1,20}(#[0-9]{1,3})?(:[a-z0-9./]{1,30})?)$`)

func hasLinkSeg(p string) bool {
	for _, seg := range strings.Split(p, "/") {
		if reLinkSeg.MatchString(seg) {
			return true
		}
	}
	return false
}

// linkTarget is the target of the link as it is written in the script; @RUN@ stands for the scratch
// directory of the run.
func linkTarget(key string) string {
	switch key {
	case "host-file":
		return "@RUN@/host/f644"
	case "host-ro":
		return "@RUN@/host/f444"
	case "host-x":
		return "@RUN@/host/x755"
	case "host-dir":
		return "@RUN@/host/dir"
	case "host-rodir":
		return "@RUN@/host/rodir"
	case "host-inner":
		return "@RUN@/host/rodir/inner"
	case "dangling":
		return "no-such-target"
	case "own-file":
		return "a.txt"
	case "own-abs":
		return "$WORK/a.txt"
	case "own-dir":
		return "$WORK/d"
	case "parent":
		return ".."
	}
	if rest, ok := strings.CutPrefix(key, "sibling:"); ok {
		name, sub, has := strings.Cut(rest, ":")
		if has && !strings.Contains(sub, "..") {
			return "$WORK/../script-" + name + "/" + sub
		}
		return "$WORK/../script-" + name
	}
	return "no-such-target"
}

// linkTargetCanon: the target as the canonical renderings show it ($RUN for the scratch directory).
func linkTargetCanon(key string) string { return strings.ReplaceAll(linkTarget(key), "@RUN@", "$RUN") }

// validateAction: the naming discipline of links (see Action).
func validateAction(a *Action) error {
	switch a.Op {
	case "L":
		segs := strings.Split(a.Path, "/")
		if a.Path == "" || !reLinkSeg.MatchString(segs[len(segs)-1]) || hasLinkSeg(strings.Join(segs[:len(segs)-1], "/")) || strings.Contains(a.Path, "..") || strings.HasPrefix(a.Path, "/") {
			return fmt.Errorf("link name %q refused", a.Path)
		}
		if !reLinkKey.MatchString(a.Key) {
			return fmt.Errorf("link target kind %q refused", a.Key)
		}
	case "R":
		if a.Path == "" || strings.Contains(a.Path, "..") || strings.HasPrefix(a.Path, "/") || strings.Contains(a.Path, "$") {
			return fmt.Errorf("rm %q refused", a.Path)
		}
		segs := strings.Split(a.Path, "/")
		if hasLinkSeg(strings.Join(segs[:len(segs)-1], "/")) {
			return fmt.Errorf("rm %q goes through a link name", a.Path)
		}
	case "I":
		if a.Sub == nil {
			return fmt.Errorf("guard without an action")
		}
		return validateAction(a.Sub)
	default:
		if hasLinkSeg(a.Path) {
			return fmt.Errorf("%s %q names a link", a.Op, a.Path)
		}
	}
	return nil
}

// needsNoVars: the rendering of the action mentions neither $WORK nor a program looked up on $PATH.
func (a *Action) needsNoVars() bool {
	switch a.Op {
	case "P", "L", "J", "U", "N", "Y":
		return false
	case "G":
		return bgByPath(a.ID)
	case "I":
		return a.Sub != nil && a.Sub.needsNoVars()
	}
	return true
}

func (a *Action) modelTokens(out *[]string) {
	switch a.Op {
	case "L":
		*out = append(*out, "L", pathTok(a.Path), hx(linkTargetCanon(a.Key)))
	case "R":
		*out = append(*out, "R", pathTok(a.Path))
	case "Q":
		*out = append(*out, "W", pathTok(a.Path), hx(a.Data)) // for the model: a file (it has no write bit for files)
	case "W":
		*out = append(*out, "W", pathTok(a.Path), hx(a.Data))
	case "M":
		*out = append(*out, "M", pathTok(a.Path), b01(a.Flag))
	case "X", "C":
		*out = append(*out, a.Op, pathTok(a.Path))
	case "E":
		*out = append(*out, "E", hx(a.Key), hx(a.Data))
	case "P":
		*out = append(*out, "P", pathTok(a.Path), b01(a.Flag))
	case "D":
		// (how the function ends is told by its id, in the model as here: ids 400..499 end with ts.Fatalf,
		// which run() catches and turns into a failure of the run)
		*out = append(*out, "D", fmt.Sprint(a.ID), b01(a.Flag))
	case "G":
		*out = append(*out, a.Op, fmt.Sprint(a.ID), b01(a.Flag))
	case "O", "F", "K", "T", "Z", "N", "Y", "U", "S", "A":
		*out = append(*out, a.Op)
	case "J":
		*out = append(*out, "F") // for the model: a line that fails and has no other effect
	case "H":
		*out = append(*out, "H", b01(a.Flag), hx(a.Key))
	case "I":
		*out = append(*out, "I", b01(a.Flag), hx(a.Key))
		a.Sub.modelTokens(out)
	default:
		panic("bad op " + a.Op)
	}
}

func (s *Script) modelTokens(out *[]string) {
	*out = append(*out, "S", b01(s.SetupErr), "A", fmt.Sprint(len(s.Files)))
	esc := "-"
	for i, f := range s.Files {
		if f.Escape != "" {
			if esc == "-" {
				esc = fmt.Sprint(i)
			}
			*out = append(*out, "escaping-entry", hx(fileData(f.Data)))
			continue
		}
		*out = append(*out, pathTok(f.Path), hx(fileData(f.Data)))
	}
	var wn []string
	for _, f := range s.Files {
		if f.Work && f.Escape == "" {
			wn = append(wn, pathTok(f.Path))
		}
	}
	*out = append(*out, "Q", fmt.Sprint(len(wn)))
	*out = append(*out, wn...)
	*out = append(*out, "X", esc)
	if names, ok := keepNames(s.SetupVars); ok || s.SetupVars == "nil" || s.SetupVars == "empty" {
		*out = append(*out, "KEEP", fmt.Sprint(len(names)))
		for _, n := range names {
			*out = append(*out, hx(n))
		}
	} else {
		*out = append(*out, "KEEP", "-")
	}
	*out = append(*out, "V", fmt.Sprint(len(s.Adds)))
	for _, kv := range s.Adds {
		if strings.HasPrefix(kv.V, "$WORK") {
			*out = append(*out, hx(kv.K), "W:"+pathTok(strings.TrimPrefix(strings.TrimPrefix(kv.V, "$WORK"), "/")))
		} else {
			*out = append(*out, hx(kv.K), "L:"+hx(kv.V))
		}
	}
	*out = append(*out, "D", fmt.Sprint(len(s.Defers)))
	for _, d := range s.Defers {
		*out = append(*out, fmt.Sprint(d.ID), b01(d.Bad))
	}
	*out = append(*out, "B", fmt.Sprint(len(s.Body)))
	for i := range s.Body {
		s.Body[i].modelTokens(out)
	}
}

// modelRequest renders the batch for the extracted model. hostEnv is the environment of the
// process that calls RunT, hostTab the answers of a PATH search over host directories.
func (b *Batch) modelRequest(isRoot bool, hostEnv []string, hostTab map[[2]string]bool, helperName string, sched []int) string {
	out := []string{"batch", b01(b.Retain != ""), "1", "0", b01(isRoot), "1", "1", b01(b.ContinueOnError), "H", fmt.Sprint(len(hostEnv))}
	for _, kv := range hostEnv {
		k, v, _ := strings.Cut(kv, "=")
		out = append(out, hx(k), hx(v))
	}
	keys := make([][2]string, 0, len(hostTab))
	for k := range hostTab {
		keys = append(keys, k)
	}
	sort.Slice(keys, func(i, j int) bool { return keys[i][0]+"\x00"+keys[i][1] < keys[j][0]+"\x00"+keys[j][1] })
	out = append(out, "T", fmt.Sprint(len(keys)))
	for _, k := range keys {
		out = append(out, hx(k[0]), hx(k[1]), b01(hostTab[k]))
	}
	out = append(out, "L", hx(helperName), "N", fmt.Sprint(len(b.Scripts)))
	for i := range b.Scripts {
		b.Scripts[i].modelTokens(&out)
	}
	out = append(out, "SCHED")
	for _, s := range sched {
		out = append(out, fmt.Sprint(s))
	}
	return strings.Join(out, " ")
}

// ---------------------------------------------------------------- rendering as a testscript archive

func quoteArg(s string) string {
	if s == "" {
		return "''"
	}
	plain := true
	for i := 0; i < len(s); i++ {
		c := s[i]
		if !(c >= 'a' && c <= 'z' || c >= 'A' && c <= 'Z' || c >= '0' && c <= '9' || c == '.' || c == '/' || c == '_' || c == '-' || c == '=' || c == ':') {
			plain = false
		}
	}
	if plain {
		return s
	}
	return "'" + strings.ReplaceAll(s, "'", "''") + "'"
}

func (a *Action) lines() []string {
	p := a.Path
	if p == "" {
		p = "."
	}
	switch a.Op {
	case "W":
		return []string{"wfile " + quoteArg(p) + " " + hex.EncodeToString([]byte(a.Data)) + "x"}
	case "Q":
		return []string{"rofile " + quoteArg(p) + " " + hex.EncodeToString([]byte(a.Data)) + "x"}
	case "L":
		// a script name may hold a '#', which would start a comment: that part is quoted (variables are
		// expanded outside the quotes only)
		tg := linkTarget(a.Key)
		if i := strings.Index(tg, "/script-"); i >= 0 && strings.Contains(tg, "#") {
			rest := tg[i+len("/script-"):]
			name, tail, _ := strings.Cut(rest, "/")
			tg = tg[:i] + "/script-'" + name + "'"
			if tail != "" {
				tg += "/" + tail
			}
		}
		return []string{"symlink " + quoteArg(p) + " -> " + tg}
	case "R":
		return []string{"rm " + quoteArg(p)}
	case "M":
		if a.Flag && a.Path != "" {
			// one line (MkdirAll, then Chmod 0555; a custom command), so that it fails as one unit
			// under ContinueOnError just as the model's action does
			return []string{"mkdirro " + quoteArg(p)}
		}
		return []string{"mkdir " + quoteArg(p)}
	case "X":
		return []string{"chmod 755 " + quoteArg(p)}
	case "C":
		return []string{"cd " + quoteArg(p)}
	case "E":
		return []string{"env " + quoteArg(a.Key+"="+a.Data)}
	case "P":
		sub := ""
		if a.Path != "" {
			sub = "/" + a.Path
		}
		if a.Flag {
			return []string{"env PATH=$WORK" + sub + "${:}$PATH"}
		}
		return []string{"env PATH=$WORK" + sub}
	case "D":
		if a.Flag {
			return []string{fmt.Sprintf("regdefer %d bad", a.ID)}
		}
		return []string{fmt.Sprintf("regdefer %d", a.ID)}
	case "G":
		neg := ""
		if a.Flag {
			neg = "! "
		}
		name := fmt.Sprintf("&b%d&", a.ID)
		switch {
		case a.ID >= 100:
			return []string{neg + "exec helper exit 1 " + name, fmt.Sprintf("bgrecord %d", a.ID)}
		case a.ID >= 50:
			return []string{neg + "exec helper sleepmk $WORK @OBS@ " + name, fmt.Sprintf("bgrecord %d", a.ID)}
		case bgByPath(a.ID):
			return []string{neg + "exec @RUN@/bin/helper sleep @OBS@ " + name, fmt.Sprintf("bgrecord %d", a.ID)}
		}
		return []string{neg + "exec helper sleep @OBS@ " + name, fmt.Sprintf("bgrecord %d", a.ID)}
	case "J":
		return []string{fmt.Sprintf("exec helper sleep @OBS@ &b%d&", a.ID)}
	case "H":
		neg := ""
		if a.Flag {
			neg = "! "
		}
		return []string{neg + "exec " + a.Key + " exit 0"}
	case "O":
		return []string{"probe"}
	case "F":
		return []string{"exists no-such-file-anywhere"}
	case "K":
		return []string{"skip"}
	case "T":
		return []string{"stop"}
	case "Z":
		return []string{"boom"}
	case "S":
		return []string{"tskip"}
	case "A":
		if a.Flag {
			return []string{"tfailnow fatal"}
		}
		return []string{"tfailnow"}
	case "N":
		return []string{"kill"}
	case "Y":
		return []string{"kill", "wait"}
	case "U":
		return []string{"wait"}
	case "I":
		sub := a.Sub.lines()
		neg := ""
		if a.Flag {
			neg = "!"
		}
		return []string{"[" + neg + "exec:" + a.Key + "] " + sub[0]}
	}
	panic("bad op " + a.Op)
}

// singleLine reports whether the action may be guarded by a condition (renders as one line).
func (a *Action) singleLine() bool {
	switch a.Op {
	case "G", "Y", "U":
		return false
	}
	return true
}

func (s *Script) archive() []byte { return s.archiveIn("/nonexistent-run-dir", false) }

// archiveIn renders the script; with gated, a `gate` line precedes every action (the harness then
// decides when each line of each script runs).
func (s *Script) archiveIn(rundir string, gated bool) []byte {
	var b strings.Builder
	b.WriteString("# generated\n")
	for i := range s.Body {
		if gated {
			b.WriteString("gate\n")
		}
		for _, l := range s.Body[i].lines() {
			b.WriteString(strings.ReplaceAll(strings.ReplaceAll(l, "@OBS@", rundir+"/obs"), "@RUN@", rundir) + "\n")
		}
	}
	for _, f := range s.Files {
		b.WriteString("-- " + f.entryName(s.Name, rundir) + " --\n")
		b.WriteString(f.Data)
		if f.Data != "" && !strings.HasSuffix(f.Data, "\n") {
			b.WriteString("\n")
		}
	}
	return []byte(b.String())
}

// fileData is what txtar gives back for File.Data (a final newline is added to non-empty data).
func fileData(d string) string {
	if d != "" && !strings.HasSuffix(d, "\n") {
		return d + "\n"
	}
	return d
}

// ---------------------------------------------------------------- generation

var filePool = []string{"a.txt", "d/b.txt", "d/e/c.txt", "bin/mytool", "x", "a.txt", ".tmp/t", "d/b.txt", "z/y/w.txt", "bin/mytool", "q/r.txt", "d", "d/e"}
var dirPool = []string{"d", "d/e", "n", "n/m", "bin", "z", ""}

// program names with a separator are not looked up on any PATH: exec.LookPath tries them as they are, i.e.
// relative to the directory of the test process (the scratch directory of the run, where none of them
// exists), never relative to the script's directory
var progPool = []string{"sh", "nosuchprog-zz", "mytool", "helper", "b.txt", "hostcanary", "bin/mytool", "./mytool", "d/b.txt"}

var linkPool = []string{"lnk0", "lnk1", "d/lnk2", "n/lnk3", "lnk0", "d/e/lnk4"}
var linkKeys = []string{"host-file", "host-ro", "host-x", "host-dir", "host-rodir", "host-inner", "dangling", "own-file", "own-abs", "own-dir", "parent"}
var rmPool = []string{"d", "n", "lnk0", "lnk1", "d/lnk2", "a.txt", "z", "n/m", "ro0.txt", "d/e", "n/lnk3", "bin", "w", "nope/x", "a.txt/x"}
var siblingSubs = []string{"", "a.txt", "d", "ro0.txt", "n", "d/b.txt", "bin/mytool", "d/ro1.txt"}

func genAction(r *common.RNG, st *genState, allowEnd bool, depth int) Action {
	for {
		switch k := r.Intn(28); {
		case k >= 23 && k < 25:
			key := common.Pick(r, linkKeys)
			if len(st.sibs) > 0 && r.Chance(1, 2) {
				key = "sibling:" + common.Pick(r, st.sibs)
				if sub := common.Pick(r, siblingSubs); sub != "" {
					key += ":" + sub
				}
			}
			return Action{Op: "L", Path: common.Pick(r, linkPool), Key: key}
		case k == 25 || k == 26:
			return Action{Op: "R", Path: common.Pick(r, rmPool)}
		case k == 27:
			// once per name: the file is read-only afterwards (an unprivileged user cannot write it again,
			// and the model has no write bit for files)
			p := common.Pick(r, []string{"ro0.txt", "d/ro1.txt", "ro0.txt"})
			if st.roDone[p] {
				continue
			}
			if st.roDone == nil {
				st.roDone = map[string]bool{}
			}
			st.roDone[p] = true
			return Action{Op: "Q", Path: p, Data: common.Pick(r, []string{"", "ro\n"})}
		case k < 1:
			// a foreground command by bare name: found on the script's PATH or not at all
			return Action{Op: "H", Flag: r.Chance(1, 2), Key: common.Pick(r, []string{"hostcanary", "hostcanary", "nosuchprog-zz"})}
		case k < 2 && len(st.bgs) > 0 && depth == 0:
			// the name of a background command that is still registered, once more
			return Action{Op: "J", ID: st.bgs[r.Intn(len(st.bgs))].id}
		case k < 3:
			return Action{Op: "O"}
		case k < 5:
			return Action{Op: "W", Path: common.Pick(r, []string{"a.txt", "d/new.txt", "n/f", "bin/mytool", "w", "d"}), Data: common.Pick(r, []string{"", "1", "hello\n"})}
		case k < 7:
			return Action{Op: "M", Path: common.Pick(r, dirPool), Flag: r.Chance(1, 2)}
		case k < 8:
			return Action{Op: "X", Path: common.Pick(r, []string{"bin/mytool", "a.txt", "d", "nope", "d/b.txt"})}
		case k < 10:
			return Action{Op: "C", Path: common.Pick(r, []string{"d", "d/e", "n", "bin", "nope", "a.txt"})}
		case k < 12:
			key := common.Pick(r, []string{"FOO", "BAR", "HOME", "GORACE", "TMPDIR"})
			return Action{Op: "E", Key: key, Data: common.Pick(r, []string{"1", "two", "a:b", ""})}
		case k < 13:
			if st.pathSet {
				continue
			}
			st.pathSet = true
			return Action{Op: "P", Path: common.Pick(r, []string{"bin", "d", ""}), Flag: r.Chance(2, 3)}
		case k < 15:
			st.nDefer++
			// now and then a function that does not return: it panics (flag), fails or skips the test through
			// its T, or calls ts.Fatalf
			switch r.Intn(16) {
			case 0:
				return Action{Op: "D", ID: st.nDefer, Flag: true}
			case 1:
				return Action{Op: "D", ID: 200 + 2*st.nDefer + r.Intn(2)}
			case 2:
				return Action{Op: "D", ID: 300 + st.nDefer}
			case 3:
				return Action{Op: "D", ID: 400 + st.nDefer}
			}
			return Action{Op: "D", ID: st.nDefer}
		case k < 17:
			if st.nBg >= 2 || depth > 0 || st.killed {
				continue
			}
			neg := r.Chance(1, 3)
			if r.Chance(1, 3) {
				// a command that exits at once with status 1
				st.nQuick++
				st.bgs = append(st.bgs, genBg{id: 99 + st.nQuick, neg: neg, quick: true})
				return Action{Op: "G", ID: 99 + st.nQuick, Flag: neg}
			}
			st.nBg++
			id := st.nBg
			if r.Chance(1, 4) {
				id += 30 // started by the absolute path of the program
			}
			st.bgs = append(st.bgs, genBg{id: id, neg: neg})
			return Action{Op: "G", ID: id, Flag: neg}
		case k < 18:
			// never under a guard: the generator has to know whether the signal was sent (a later bare
			// wait on a command that nothing has signalled waits for ever)
			if depth > 0 {
				continue
			}
			// at most one kill per script: signalling a process that has been reaped is an error
			if len(st.bgs) > 0 && st.waitOutcome() != "stuck" && r.Chance(1, 2) {
				// a bare wait, only where it cannot block for ever
				if st.waitOutcome() == "ok" {
					st.bgs = nil
				}
				return Action{Op: "U"}
			}
			if st.killed || st.nBg == 0 {
				continue
			}
			// kill signals the commands in turn and fails at the first one that has already been reaped:
			// with a command that exits by itself in the list, whether that happens is a race
			hasQuick := false
			for _, b := range st.bgs {
				if b.quick {
					hasQuick = true
				}
			}
			if hasQuick {
				continue
			}
			st.killed = true
			for i := range st.bgs {
				st.bgs[i].signalled = true
			}
			if depth > 0 || r.Chance(1, 2) {
				return Action{Op: "N"}
			}
			if st.waitOutcome() == "ok" {
				st.bgs = nil
			}
			return Action{Op: "Y"}
		case k < 21:
			if depth >= 2 {
				continue
			}
			sub := genAction(r, st, allowEnd, depth+1)
			if !sub.singleLine() {
				continue
			}
			return Action{Op: "I", Flag: r.Chance(1, 3), Key: common.Pick(r, progPool), Sub: &sub}
		default:
			if !allowEnd {
				continue
			}
			op := common.Pick(r, []string{"F", "K", "T", "Z", "F", "K", "T", "S", "A"})
			return Action{Op: op, Flag: op == "A" && r.Chance(1, 2)}
		}
	}
}

type genBg struct {
	id                    int
	neg, quick, signalled bool
}

type genState struct {
	pathSet bool
	nDefer  int
	nBg     int
	nQuick  int
	killed  bool
	bgs     []genBg  // the background commands the script has started and not yet waited for, in order
	sibs    []string // the names of the other scripts of the batch
	roDone  map[string]bool
}

// waitOutcome: what a status-checking wait over the list does: "ok" (all accepted: the list is
// emptied), "fail" (an unaccepted status is met first) or "stuck" (a running command is met first).
func (st *genState) waitOutcome() string {
	for _, b := range st.bgs {
		if !(b.quick || b.signalled) {
			return "stuck"
		}
		if !b.neg {
			return "fail"
		}
	}
	return "ok"
}

func genScript(r *common.RNG, name string, sibs []string) Script {
	s := Script{Name: name}
	nf := r.Intn(5)
	for i := 0; i < nf; i++ {
		s.Files = append(s.Files, File{Path: common.Pick(r, filePool), Data: common.Pick(r, []string{"", "x\n", "#!/bin/sh\nexit 0\n", "data"})})
	}
	if r.Chance(1, 5) {
		s.Files = append(s.Files, File{Path: fmt.Sprintf("%s%s_%d.txt", escapePrefix, name, r.Intn(1000000)), Data: "named with $WORK\n", Work: true})
	}
	if r.Chance(1, 3) {
		s.Adds = append(s.Adds, KV{"EXTRA", "v1"})
	}
	if r.Chance(1, 4) {
		s.Adds = append(s.Adds, KV{"GOPATH2", "$WORK/gopath"})
	}
	if r.Chance(1, 8) {
		s.Adds = append(s.Adds, KV{"HOME", "/other-home"})
	}
	// now and then a Setup that filters or replaces Env.Vars (a hermetic allow-list, nothing at all)
	if r.Chance(1, 6) {
		s.SetupVars = common.Pick(r, []string{"nil", "empty", "keep:NOSUCHVAR", "keep:", "keep:WORK,PATH,:", "keep:WORK,PATH,HOME,TMPDIR,exe,:,/", "keep:WORK,PATH", "keep:WORK", "keep:PATH,HOME"})
		if !varsKept(s.SetupVars, "WORK") {
			s.Adds = nil // the values of Adds may mention $WORK
			if r.Chance(1, 3) {
				s.Adds = []KV{{"EXTRA", "v1"}}
			}
		}
	}
	noVars := !varsForActions(s.SetupVars)
	st := &genState{sibs: sibs, roDone: map[string]bool{}}
	if noVars {
		// no background commands by name, no PATH change: the generator then only has to avoid links
		st.pathSet, st.nBg, st.killed = true, 2, true
	}
	nd := r.Intn(3)
	for i := 0; i < nd; i++ {
		d := DeferSpec{ID: 100 + i}
		switch r.Intn(30) {
		case 0, 1:
			d.Bad = true
		case 2:
			d.ID = 210 + 2*i + r.Intn(2)
		case 3:
			d.ID = 310 + i
		}
		s.Defers = append(s.Defers, d)
	}
	s.SetupErr = r.Chance(1, 20)
	n := r.Intn(9)
	for i := 0; i < n; i++ {
		a := genAction(r, st, i >= n-2 || r.Chance(1, 6), 0)
		for tries := 0; noVars && !a.needsNoVars(); tries++ {
			a = Action{Op: "O"}
			if tries < 50 {
				a = genAction(r, st, i >= n-2, 0)
			}
		}
		s.Body = append(s.Body, a)
	}
	s.DelayMs = r.Intn(4) * r.Intn(8)
	return s
}

func genBatch(r *common.RNG, canNonRoot bool) Batch {
	b := Batch{}
	switch r.Intn(8) {
	case 0:
		b.Retain = "testwork"
	case 1:
		b.Retain = "workdirroot"
	case 2:
		b.Retain = "flag"
	}
	b.Verbose = r.Chance(1, 4)
	b.Procs = common.Pick(r, []int{1, 2, 4, 8})
	b.Par = common.Pick(r, []int{1, 2, 8, 8})
	b.Canary = true
	b.Cover = r.Chance(1, 2)
	b.NonRoot = canNonRoot && r.Chance(2, 3)
	b.ContinueOnError = r.Chance(1, 4)
	n := 2 + r.Intn(7)
	for i := 0; i < n; i++ {
		var sibs []string
		for j := 0; j < n; j++ {
			if j != i {
				sibs = append(sibs, fmt.Sprintf("s%d", j))
			}
		}
		b.Scripts = append(b.Scripts, genScript(r, fmt.Sprintf("s%d", i), sibs))
	}
	// now and then script files with the same base name (in different directories), preceded by one
	// whose base name already looks like a disambiguated name
	if n >= 3 && r.Chance(1, 4) {
		j := r.Intn(n - 2)
		x := fmt.Sprintf("d%d", j)
		bases := make([]string, n)
		for i := range b.Scripts {
			bases[i] = b.Scripts[i].Name
		}
		bases[j], bases[j+1], bases[j+2] = x+"#1", x, x
		names := uniqueNames(bases)
		renamed := map[string]string{}
		for i := range b.Scripts {
			renamed[b.Scripts[i].Name] = names[i]
			b.Scripts[i].Name, b.Scripts[i].Base = names[i], bases[i]
		}
		// links to siblings follow the new names
		var fix func(a *Action)
		fix = func(a *Action) {
			if a.Op == "L" {
				if rest, ok := strings.CutPrefix(a.Key, "sibling:"); ok {
					nm, sub, has := strings.Cut(rest, ":")
					if nn, ok := renamed[nm]; ok {
						a.Key = "sibling:" + nn
						if has {
							a.Key += ":" + sub
						}
					}
				}
			}
			if a.Sub != nil {
				fix(a.Sub)
			}
		}
		for i := range b.Scripts {
			for k := range b.Scripts[i].Body {
				fix(&b.Scripts[i].Body[k])
			}
		}
	}
	// now and then an archive entry whose name leaves the work directory
	for i := range b.Scripts {
		if r.Chance(1, 10) {
			kind := common.Pick(r, []string{"up", "abs", "home", "sibling"})
			if kind == "sibling" {
				kind = "sibling:" + b.Scripts[(i+1+r.Intn(n-1))%n].Name
			}
			f := File{Escape: kind, Data: "escaping\n"}
			at := r.Intn(len(b.Scripts[i].Files) + 1)
			fs := append([]File{}, b.Scripts[i].Files[:at]...)
			fs = append(fs, f)
			b.Scripts[i].Files = append(fs, b.Scripts[i].Files[at:]...)
		}
	}
	return b
}

// execCachePair is the hand-written pair of scripts whose verdicts depended on their order before
// execCache was keyed by PATH (DESIGN.md section 8, defect 6).
func execCachePair() Batch {
	a := Script{Name: "a", Files: []File{{Path: "bin/mytool", Data: "#!/bin/sh\nexit 0\n"}},
		Body: []Action{{Op: "X", Path: "bin/mytool"}, {Op: "P", Path: "bin"},
			{Op: "I", Key: "mytool", Sub: &Action{Op: "T"}}, {Op: "F"}}}
	b := Script{Name: "b", DelayMs: 250,
		Body: []Action{{Op: "I", Key: "mytool", Sub: &Action{Op: "F"}}}}
	return Batch{Procs: 2, Par: 8, Canary: true, Scripts: []Script{a, b}}
}

package main

// C17: real RunT calls with Params.Deadline 0.4-3 s away and scripts whose foreground command
// blocks forever (/bin/sleep, default signal disposition), exits on the interrupt after a delay,
// traps and ignores the interrupt, exits at about the moment the context expires, or finishes
// early.  Checked on the implementation: verdict and timed-out message, completion of RunT and
// all subtests by the deadline (+ slack), no child left, interrupt about two grace periods before
// the deadline and kill one grace period later (also for scripts that start long after the RunT call,
// with work-directory retention in every form, with background commands next to the foreground
// one); compared with the windows the Coq model
// (TsDeadline.v) predicts for zero delay and for a delay of sigma at every step.  Timing
// oracles tolerate 40 ms early / 0.6 grace periods late (completion: deadline + 1.5 s) and count only
// what shows in each of five attempts.

import (
	"bytes"
	"encoding/hex"
	"encoding/json"
	"flag"
	"fmt"
	"os"
	"os/exec"
	"os/signal"
	"path/filepath"
	"regexp"
	"sort"
	"strconv"
	"strings"
	"sync"
	"syscall"
	"time"

	"github.com/rogpeppe/go-internal/testscript"

	"verif/harness/common"
)

type DlScript struct {
	Name string `json:"name"`
	Mode string `json:"mode"` // sleep | block | trapexit | trapexit<status> | ignore | exitat | exitabs | builtin | lateignore | bgignore
	// trapexit: on the interrupt the command exits with status 3 after Ms; trapexit0 (trapexit1, ...): the
	// same with that exit status -- a command that shuts down gracefully on the interrupt and reports
	// success was still blocked until the context expired
	// lateignore (job with ContinueOnError): two foreground commands that ignore the interrupt, one
	// after the other: the second one starts after the first has been killed, i.e. inside the last
	// grace period before the deadline, and has to be killed one grace period after it was interrupted
	// exitabs: the command exits (status 0) OffUs microseconds after the moment the context expires
	// (Deadline - 2 grace periods), whenever it was started
	// bgignore (only with TSBATCH_BG_DEADLINE=1, see mainC17): a BACKGROUND command that ignores
	// the signals, then a short foreground command.  Outside the property (its quantifier is about
	// foreground commands): on the current code such a script never finishes.
	Ms    int  `json:"ms"`
	OffUs int  `json:"off_us,omitempty"`
	Neg   bool `json:"neg,omitempty"`
	// Bg: a background command started before the foreground one ("" none): "plain" dies of any signal;
	// "quitproof" handles SIGQUIT (the interrupt sent when the context expires) and carries on, and dies of
	// SIGINT (sent by run() when the script ends); "trapint" handles both and exits 20 ms after SIGINT.
	// Whatever it does, the script ends as its foreground command makes it end and leaves no process.
	Bg string `json:"bg,omitempty"`
}

// DlCall is one RunT call of a history of calls made by one process before the call that is
// measured: only scripts that finish quickly (builtin, exitat with a small Ms).  UntilMs 0: no
// Params.Deadline at all.
type DlCall struct {
	UntilMs         int        `json:"until_ms"`
	Scripts         []DlScript `json:"scripts"`
	SeqT            bool       `json:"seq_t,omitempty"`
	ContinueOnError bool       `json:"continue_on_error,omitempty"`
	TestWork        bool       `json:"test_work,omitempty"` // Params.TestWork of this call
}

type DeadlineJob struct {
	// Prior: RunT calls the same process makes, one after the other, before the call described by the
	// other fields ("Scripts that finish earlier are unaffected by the deadline", whatever the process
	// did before)
	Prior           []DlCall   `json:"prior,omitempty"`
	UntilMs         int        `json:"until_ms"`
	Scripts         []DlScript `json:"scripts"`
	Par             int        `json:"par,omitempty"`
	Procs           int        `json:"procs,omitempty"`
	SeqT            bool       `json:"seq_t,omitempty"` // a T that runs the subtests one after the other
	ContinueOnError bool       `json:"continue_on_error,omitempty"`
	// IgnoreQuit: the process that calls RunT ignores SIGQUIT (signal.Ignore), so every command the
	// scripts start ignores the interrupt of waitOrStop from its very first instruction
	IgnoreQuit bool `json:"ignore_quit,omitempty"`
	// Retain: work-directory retention, which has nothing to do with the deadline: "" | "testwork"
	// (Params.TestWork of the measured call) | "workdirroot" | "flag" (the -testwork flag, set before the
	// first call of the process)
	Retain string `json:"retain,omitempty"`
}

func (s *DlScript) text(obsDir string, ctxExpiry time.Time) string {
	t := s.fgText(obsDir, ctxExpiry)
	if s.Bg == "" {
		return t
	}
	bgLog := filepath.Join(obsDir, "dl-"+s.Name+".log.bg")
	line, word := "", "ready"
	switch s.Bg {
	case "plain":
		line, word = "exec helper deadline block 0 "+bgLog+" &bg&", "start"
	case "quitproof":
		line = "exec helper deadline quitproof 0 " + bgLog + " &bg&"
	case "trapint":
		line = "exec helper deadline trapint 20 " + bgLog + " &bg&"
	}
	// the first line of every script text is a comment
	head, rest, _ := strings.Cut(t, "\n")
	return head + "\n" + line + "\nbgready " + bgLog + " " + word + "\n" + rest
}

func (s *DlScript) fgText(obsDir string, ctxExpiry time.Time) string {
	neg := ""
	if s.Neg {
		neg = "! "
	}
	log := filepath.Join(obsDir, "dl-"+s.Name+".log")
	switch s.Mode {
	case "sleep":
		return "# blocks forever, default signal disposition\n" + neg + "exec sleep 1000\n"
	case "builtin":
		return "# no subprocess at all\nmkdir d\ncd d\nexists .\n-- a.txt --\nx\n"
	case "exitabs":
		return fmt.Sprintf("# exits at the expiry of the context %+d us\n%sexec helper deadline exitabs %d %s\n", s.OffUs, neg,
			ctxExpiry.Add(time.Duration(s.OffUs)*time.Microsecond).UnixNano(), log)
	case "lateignore":
		// plain /bin/sleep: it ignores the interrupt because the job runs with SIGQUIT ignored (IgnoreQuit)
		return "# two commands ignoring the interrupt, the second started after the first was killed\nexec sleep 1000\nexec sleep 1001\n"
	case "bgignore":
		return fmt.Sprintf("# background command ignoring the signals\nexec helper deadline ignore 0 %s &\nexec helper deadline exitat 50 %s\n", log, log+"2")
	default:
		return fmt.Sprintf("# helper %s %d\n%sexec helper deadline %s %d %s\n", s.Mode, s.Ms, neg, s.Mode, s.Ms, log)
	}
}

func runDeadlineChild(job *Job) {
	dl := job.Deadline
	if dl.IgnoreQuit {
		signal.Ignore(syscall.SIGQUIT)
	}
	if dl.Retain == "flag" {
		if err := flag.Set("testwork", "true"); err != nil {
			out, _ := json.Marshal(&ChildResult{Error: "cannot set -testwork: " + err.Error()})
			os.WriteFile(job.Out, out, 0o666)
			return
		}
	}
	var prior []*ChildResult
	for k, pc := range dl.Prior {
		retain := ""
		if pc.TestWork {
			retain = "testwork"
		}
		prior = append(prior, runDeadlineCall(job, fmt.Sprintf("p%d", k), pc.UntilMs, pc.Scripts, pc.SeqT, pc.ContinueOnError, retain))
	}
	res := runDeadlineCall(job, "m", dl.UntilMs, dl.Scripts, dl.SeqT, dl.ContinueOnError, dl.Retain)
	res.Prior = prior
	out, _ := json.Marshal(res)
	if err := os.WriteFile(job.Out, out, 0o666); err != nil {
		fmt.Fprintln(os.Stderr, "child:", err)
		os.Exit(3)
	}
}

// runDeadlineCall: one RunT call with Params.Deadline untilMs away (0: none) and everything it saw.
func runDeadlineCall(job *Job, tag string, untilMs int, scripts []DlScript, seqT, coe bool, retain string) *ChildResult {
	dl := job.Deadline
	res := &ChildResult{Uid: os.Getuid()}
	obsDir := filepath.Join(job.Dir, "obs")
	var files []string
	t0 := time.Now()
	until := time.Duration(untilMs) * time.Millisecond
	deadline := t0.Add(until)
	grace := until / 20
	if grace < 100*time.Millisecond {
		grace = 100 * time.Millisecond
	}
	ctxExpiry := deadline.Add(-2 * grace)
	for i := range scripts {
		s := &scripts[i]
		dir := filepath.Join(job.Dir, "scripts", tag+"-"+strconv.Itoa(i))
		os.MkdirAll(dir, 0o777)
		f := filepath.Join(dir, s.Name+".txt")
		os.WriteFile(f, []byte(s.text(obsDir, ctxExpiry)), 0o666)
		files = append(files, f)
	}
	par := dl.Par
	if par <= 0 {
		par = 8
	}
	root := &rootT{release: make(chan struct{}), sem: make(chan struct{}, par), seq: seqT}
	res.T0 = t0.UnixNano()
	p := testscript.Params{Files: files, ContinueOnError: coe}
	if untilMs > 0 {
		p.Deadline = deadline
	}
	switch retain {
	case "testwork":
		p.TestWork = true
	case "workdirroot":
		p.WorkdirRoot = filepath.Join(job.WorkRoot, tag)
		os.MkdirAll(p.WorkdirRoot, 0o777)
	}
	// bgready <log>: wait until the background command has its signal handlers in place
	p.Cmds = map[string]func(ts *testscript.TestScript, neg bool, args []string){
		"bgready": func(ts *testscript.TestScript, neg bool, args []string) {
			for k := 0; k < 300; k++ {
				if b, err := os.ReadFile(args[0]); err == nil && strings.Contains(string(b), args[1]+" ") {
					return
				}
				time.Sleep(10 * time.Millisecond)
			}
		},
	}
	ran := make(chan struct{})
	go func() {
		defer close(ran)
		testscript.RunT(root, p)
	}()
	<-ran
	close(root.release)
	for _, s := range root.subs {
		<-s.done
	}
	res.RunTNs = time.Since(t0).Nanoseconds()
	res.RootFatal = root.fatal
	for _, s := range root.subs {
		s.mu.Lock()
		o := &ScriptObs{Name: s.name, Log: strings.Join(s.logs, "\n"), Panic: s.panicv,
			StartNs: s.start.Sub(t0).Nanoseconds(), EndNs: s.end.Sub(t0).Nanoseconds()}
		s.mu.Unlock()
		o.Verdict = s.verdict()
		res.Scripts = append(res.Scripts, o)
	}
	return res
}

var reStart = regexp.MustCompile(`(?m)^start (\d+) (\d+)$`)

func helperPids(dir string) []int {
	var pids []int
	logs, _ := filepath.Glob(filepath.Join(dir, "obs", "dl-*.log*"))
	for _, l := range logs {
		b, _ := os.ReadFile(l)
		for _, m := range reStart.FindAllStringSubmatch(string(b), -1) {
			p, _ := strconv.Atoi(m[1])
			pids = append(pids, p)
		}
	}
	return pids
}

// helperLog: the time stamps (ns since T0) the helper of script name logged.
func helperLog(dir, name string, t0 int64) map[string]int64 {
	return helperLogFile(filepath.Join(dir, "obs", "dl-"+name+".log"), t0)
}

func helperLogFile(path string, t0 int64) map[string]int64 {
	out := map[string]int64{}
	b, err := os.ReadFile(path)
	if err != nil {
		return out
	}
	for _, line := range strings.Split(string(b), "\n") {
		f := strings.Fields(line)
		if len(f) < 2 {
			continue
		}
		ts, _ := strconv.ParseInt(f[len(f)-1], 10, 64)
		if _, seen := out[f[0]]; !seen {
			out[f[0]] = ts - t0
		}
	}
	return out
}

const msNs = int64(time.Millisecond)

// the slack per step the model's windows are computed with
const sigmaNs = 150 * msNs

// a deadline job is repeated until it shows nothing, at most this many times
const maxAttempts = 5

type dlFinding struct {
	oracle, detail, model, impl string
	kind                        string
}

// evalDeadline1 (through evalDeadlineNoise) runs one job and returns what failed (nothing when all is as the property says).
// timingOracles: the oracles that compare measured times with windows.
var timingOracles = map[string]bool{"deadline/interrupt-time": true, "deadline/kill-time": true, "deadline/finish": true,
	"model/interrupt-window": true, "model/return-window": true, "model/timed-automaton": true}

// evalDeadlineNoise also reports how late, at worst, a 5 ms sleep of this process woke up while the job
// was running: a measure of how busy the machine was.
func (rn *runner) evalDeadlineNoise(dl *DeadlineJob) ([]dlFinding, map[string]int, time.Duration) {
	stop := make(chan struct{})
	noise := make(chan time.Duration, 1)
	go func() {
		var worst time.Duration
		for {
			select {
			case <-stop:
				noise <- worst
				return
			default:
			}
			t := time.Now()
			time.Sleep(5 * time.Millisecond)
			if late := time.Since(t) - 5*time.Millisecond; late > worst {
				worst = late
			}
		}
	}()
	fs, counts := rn.evalDeadline1(dl)
	close(stop)
	return fs, counts, <-noise
}

func (rn *runner) evalDeadline1(dl *DeadlineJob) ([]dlFinding, map[string]int) {
	counts := map[string]int{}
	var fs []dlFinding
	add := func(kind, oracle, detail, model, impl string) {
		fs = append(fs, dlFinding{oracle, detail, model, impl, kind})
	}
	b := &Batch{Procs: dl.Procs, Par: dl.Par}
	ro := rn.runBatch(b, dl, nil)
	defer ro.cleanup()
	if strings.Contains(ro.output, "DATA RACE") {
		add("impl-violation", "race-detector", "data race: "+tail(ro.output, 1500), "", "")
	}
	if ro.timedOut {
		add("impl-violation", "deadline/hang", fmt.Sprintf("RunT with a deadline %d ms away had not finished 30 s after it: %s", dl.UntilMs, tail(ro.output, 1200)), "", "")
		return fs, counts
	}
	if ro.res == nil {
		add("correspondence", "child-crashed", fmt.Sprintf("the child produced no result (exit %d): %s", ro.exitCode, tail(ro.output, 1200)), "", "")
		return fs, counts
	}
	if len(ro.res.Prior) != len(dl.Prior) {
		add("correspondence", "child-error", fmt.Sprintf("%d earlier RunT calls asked for, %d reported", len(dl.Prior), len(ro.res.Prior)), "", "")
		return fs, counts
	}
	if len(ro.alive) > 0 {
		add("impl-violation", "deadline/child-left", "child processes alive after RunT returned: "+strings.Join(ro.alive, ","), "", "")
	}
	// the history of deadlines, for the messages
	var hist []string
	for _, pc := range dl.Prior {
		hist = append(hist, untilString(pc.UntilMs))
	}
	hist = append(hist, untilString(dl.UntilMs))
	for k, pc := range dl.Prior {
		where := ""
		if len(dl.Prior) > 0 {
			where = fmt.Sprintf("RunT call %d of %d made by one process (deadlines %s): ", k+1, len(hist), strings.Join(hist, ", then "))
		}
		counts["history:earlier-call"]++
		rn.evalCall(dl, pc.UntilMs, pc.Scripts, ro.res.Prior[k], ro, where, add, counts)
	}
	where := ""
	if len(dl.Prior) > 0 {
		where = fmt.Sprintf("RunT call %d of %d made by one process (deadlines %s): ", len(hist), len(hist), strings.Join(hist, ", then "))
		counts[fmt.Sprintf("history:%d-calls", len(hist))]++
	}
	rn.evalCall(dl, dl.UntilMs, dl.Scripts, ro.res, ro, where, add, counts)
	// the model of the whole history (TsRuns.v, for the source as it is): every call computes what a
	// fresh process would
	if len(dl.Prior) > 0 {
		type hc struct {
			now   int64
			until int
		}
		var calls []hc
		t00 := ro.res.Prior[0].T0
		for k, pc := range dl.Prior {
			calls = append(calls, hc{ro.res.Prior[k].T0 - t00, pc.UntilMs})
		}
		calls = append(calls, hc{ro.res.T0 - t00, dl.UntilMs})
		req := fmt.Sprintf("history %d", len(calls))
		var want []string
		for _, c := range calls {
			if c.until == 0 {
				req += fmt.Sprintf(" %d 0 -", c.now)
				want = append(want, "grace=100000000 ctx=-")
				continue
			}
			until := int64(c.until) * msNs
			grace := until / 20
			if grace < 100*msNs {
				grace = 100 * msNs
			}
			req += fmt.Sprintf(" %d 0 %d", c.now, c.now+until)
			want = append(want, fmt.Sprintf("grace=%d ctx=%d", grace, c.now+until-2*grace))
		}
		if ans := rn.ask(req); ans != strings.Join(want, " | ") && rn.m != nil {
			add("correspondence", "model/history", "the model of the calls as the source makes them (run_calls_now; the generated constant says whether the grace period is a local of RunT) differs from what a fresh process computes for each call", ans, strings.Join(want, " | "))
		}
	}
	return fs, counts
}

func untilString(ms int) string {
	switch {
	case ms == 0:
		return "none"
	case ms%60000 == 0:
		return fmt.Sprintf("%d min", ms/60000)
	}
	return fmt.Sprintf("%d ms", ms)
}

// isTrap: the command handles the interrupt and exits (with which status is in the mode's name).
func isTrap(mode string) bool { return strings.HasPrefix(mode, "trapexit") }

// evalCall applies the oracles to one RunT call.
func (rn *runner) evalCall(dl *DeadlineJob, untilMs int, scripts []DlScript, cr *ChildResult, ro *runObs, where string,
	add func(kind, oracle, detail, model, impl string), counts map[string]int) {
	if cr.RootFatal != "" {
		add("correspondence", "child-error", where+cr.RootFatal, "", "")
		return
	}
	msgB, _ := hex.DecodeString(rn.msgHex())
	byName := map[string]*ScriptObs{}
	for _, o := range cr.Scripts {
		byName[o.Name] = o
	}
	if untilMs == 0 {
		// no deadline at all: nothing is ever interrupted, every (quick) script has its own verdict
		for i := range scripts {
			s := &scripts[i]
			o := byName[s.Name]
			if o == nil {
				add("correspondence", "child-error", where+"no observation for "+s.Name, "", "")
				continue
			}
			counts["class:no-deadline"]++
			counts["mode:"+s.Mode]++
			hl := helperLog(ro.dir, s.Name, cr.T0)
			want := "PASS"
			if s.Neg {
				want = "FAIL"
			}
			_, sig := hl["quit"]
			if o.Verdict != want || sig || (len(msgB) > 0 && strings.Contains(o.Log, string(msgB))) {
				add("impl-violation", "deadline/early-affected", fmt.Sprintf("%sscript %s of a RunT call without any deadline was reported %s (interrupted: %v)", where, s.Name, o.Verdict, sig), want, o.Verdict+": "+tail(o.Log, 300))
			}
		}
		return
	}
	until := int64(untilMs) * msNs
	grace := until / 20
	if grace < 100*msNs {
		grace = 100 * msNs
	}
	ctxAt := until - 2*grace
	killAt := until - grace
	// An event cannot come early, only late: 40 ms early (clock reading order) and 0.6 grace
	// periods late are tolerated, and a finding counts only when it shows in every attempt.
	earlyTol := 40 * msNs
	lateTol := grace * 6 / 10
	// RunT and all subtests finish by the deadline (+ slack)
	if cr.RunTNs > until+1500*msNs {
		add("impl-violation", "deadline/finish", fmt.Sprintf("%sdeadline %d ms away, RunT and its subtests finished after %d ms", where, untilMs, cr.RunTNs/msNs), "", "")
	}
	for i := range scripts {
		s := &scripts[i]
		o := byName[s.Name]
		if o == nil {
			add("correspondence", "child-error", where+"no observation for "+s.Name, "", "")
			continue
		}
		hl := helperLog(ro.dir, s.Name, cr.T0)
		start, started := hl["start"]
		if s.Mode == "sleep" || s.Mode == "builtin" || !started {
			// (a helper that was started after the context had expired may die before it has logged anything)
			start = o.StartNs
		}
		// A command that is started after the moment the context expires (its script had to wait for
		// others: sequential T, little parallelism) is interrupted as soon as it runs, and killed one grace
		// period after that: the times the property states are lower bounds then.
		intAt, killExp := ctxAt, killAt
		cmdAt := start // the moment from which the command is there to be interrupted
		if r, ok := hl["ready"]; ok {
			cmdAt = r
		}
		hlbg := helperLogFile(filepath.Join(ro.dir, "obs", "dl-"+s.Name+".log.bg"), cr.T0)
		if _, ok := hl["ready"]; !ok && s.Bg != "" {
			// the foreground command comes after the line that waits for the background command to be up
			for _, k := range []string{"ready", "start"} {
				if t, ok := hlbg[k]; ok && t > cmdAt {
					cmdAt = t
					break
				}
			}
		}
		if cmdAt > intAt {
			intAt = cmdAt
		}
		if intAt+grace > killExp {
			killExp = intAt + grace
		}
		lateStart := o.StartNs > 100*msNs
		if lateStart {
			counts["class:subtest-started-late"]++
			// the model (TsLate.v): the context of a script is RunT's whenever the script starts, and a
			// command started at cmdAt can be interrupted from max(expiry, cmdAt) on
			if a := rn.ask(fmt.Sprintf("startctx 0 0 %d %d", until, cmdAt)); rn.m != nil && a != fmt.Sprintf("ctx=%d c=%d", ctxAt, intAt) {
				add("correspondence", "model/late-start", fmt.Sprintf("%sscript %s started at %d ms: the model's context deadline / earliest interrupt differ from those of the RunT call", where, s.Name, o.StartNs/msNs), a, fmt.Sprintf("ctx=%d c=%d", ctxAt, intAt))
			}
		}
		if s.Bg != "" {
			counts["bg:"+s.Bg]++
		}
		// ---- the model's windows for this process
		e, in := "-", "-"
		waitok := "1" // the exit status the command has when it is left alone / exits on the interrupt
		switch {
		case s.Mode == "sleep" || s.Mode == "block":
			in = "0"
			waitok = "0" // ended by the signal
		case isTrap(s.Mode):
			in = strconv.FormatInt(int64(s.Ms)*msNs, 10)
			if s.Mode != "trapexit0" {
				waitok = "0"
			}
		case s.Mode == "ignore":
			waitok = "0" // killed
		case s.Mode == "exitat":
			e = strconv.FormatInt(start+int64(s.Ms)*msNs, 10)
			in = "0"
		case s.Mode == "exitabs":
			e = strconv.FormatInt(ctxAt+int64(s.OffUs)*1000, 10)
			in = "0"
		case s.Mode == "builtin":
			e = strconv.FormatInt(start, 10)
			in = "0"
		}
		sigma := sigmaNs
		ans := rn.ask(fmt.Sprintf("deadline %d 0 %s %s %d %s %s", until, e, in, sigma, waitok, b01(s.Neg)))
		mf := map[string][2]string{}
		parts := strings.Split(ans, " | ")
		haveModel := len(parts) == 3
		if !haveModel {
			// the direct oracles below still apply (with the message as the source is known to have it)
			add("correspondence", "model/answer", "unusable model answer", ans, "")
			parts = []string{"msg=" + rn.msgHex(), "", ""}
		}
		for _, kv := range strings.Fields(parts[0]) {
			k, v, _ := strings.Cut(kv, "=")
			mf[k] = [2]string{v, v}
		}
		for side := 0; side < 2; side++ {
			for _, kv := range strings.Fields(parts[1+side]) {
				k, v, _ := strings.Cut(kv, "=")
				x := mf[k]
				x[side] = v
				mf[k] = x
			}
		}
		msg, _ := hex.DecodeString(mf["msg"][0])
		if g, _ := strconv.ParseInt(mf["grace"][0], 10, 64); haveModel && g != grace {
			add("correspondence", "model/grace", "grace period of the model differs from max(100ms, until/20)", mf["grace"][0], fmt.Sprint(grace))
		}
		if haveModel && (mf["trace"][0] != "1" || mf["trace"][1] != "1") {
			add("correspondence", "model/trace", "the model's timed run is not accepted by its own interleaving system", ans, "")
		}
		if haveModel && mf["srcverdict"] != mf["verdict"] {
			add("correspondence", "model/source-attribution", fmt.Sprintf("%sscript %s (%s): with the attribution rule read from the source (does the helper goroutine's value win whatever cmd.Wait returned?) the model reports something else than with the intended rule", where, s.Name, s.Mode), fmt.Sprint(mf["verdict"]), fmt.Sprint(mf["srcverdict"]))
		}
		timedOut := o.Verdict == "FAIL" && len(msg) > 0 && strings.Contains(o.Log, string(msg))
		end := o.EndNs
		if t, ok := hlbg["int"]; ok && t < end && t > 0 {
			// the script's part is over when run() interrupts what is left of its background commands
			end = t
		}
		counts["mode:"+s.Mode]++
		counts["verdict:"+o.Verdict]++
		blocked := false
		early := false
		switch {
		case s.Mode == "sleep" || s.Mode == "block" || s.Mode == "ignore" || isTrap(s.Mode):
			blocked = true
		case s.Mode == "exitat":
			if start+int64(s.Ms)*msNs > until {
				blocked = true
			} else if start+int64(s.Ms)*msNs+250*msNs < ctxAt {
				early = true
			}
		case s.Mode == "builtin":
			early = true
		}
		if s.Mode == "bgignore" {
			counts["class:background-ignoring"]++
			continue
		}
		if s.Mode == "lateignore" {
			// only the general oracles (done by the deadline + slack, no child left) and the verdict
			counts["class:started-late"]++
			if !(o.Verdict == "FAIL" && strings.Contains(o.Log, string(msgB))) {
				add("impl-violation", "deadline/verdict", fmt.Sprintf("%sscript %s: two blocked commands under ContinueOnError were reported %s without the timed-out message", where, s.Name, o.Verdict), "", tail(o.Log, 300))
			}
			continue
		}
		// did the command have its handler in place well before the context expired?  (a helper that is
		// started late on a loaded machine dies of the signal's default action instead: still a blocked
		// command, but it says nothing about the handling of the exit status)
		ready, hasReady := hl["ready"]
		handlerInPlace := hasReady && ready < ctxAt-20*msNs
		switch {
		case blocked:
			counts["class:blocked"]++
			if isTrap(s.Mode) && handlerInPlace {
				counts["class:blocked-exits-on-interrupt:"+strings.TrimPrefix(s.Mode, "trapexit")]++
			}
			if !timedOut {
				how := s.Mode
				if isTrap(s.Mode) {
					st := strings.TrimPrefix(s.Mode, "trapexit")
					if st == "" {
						st = "3"
					}
					how = fmt.Sprintf("exits with status %s %d ms after the interrupt", st, s.Ms)
				}
				add("impl-violation", "deadline/verdict", fmt.Sprintf("%sscript %s (%s, negated=%v) was blocked in a foreground command until the context expired but was reported %s without the timed-out message", where, s.Name, how, s.Neg, o.Verdict), "FAIL + "+string(msg), o.Verdict+": "+tail(o.Log, 300))
			}
		case early:
			counts["class:early"]++
			want := "PASS"
			if s.Neg {
				want = "FAIL" // "unexpected command success"
			}
			if o.Verdict != want || timedOut {
				add("impl-violation", "deadline/early-affected", fmt.Sprintf("%sscript %s finished %d ms before the context expired but was reported %s", where, s.Name, (ctxAt-start-int64(s.Ms)*msNs)/msNs, o.Verdict), want, o.Verdict+": "+tail(o.Log, 300))
			}
			if _, sig := hl["quit"]; sig {
				add("impl-violation", "deadline/early-affected", where+"script "+s.Name+" finished early but its process received the interrupt", "", "")
			}
			if q, sig := hlbg["quit"]; sig && s.Bg != "" {
				add("impl-violation", "deadline/early-affected", fmt.Sprintf("%sscript %s finished %d ms before the context expired but its background command was sent the interrupt of an expired context (at %d ms; deadline %d ms away)", where, s.Name, (ctxAt-end)/msNs, q/msNs, untilMs), "", "")
			}
		default:
			counts["class:borderline"]++
			if !(o.Verdict == "PASS" && !s.Neg) && !timedOut && !(s.Neg && o.Verdict == "FAIL") {
				add("impl-violation", "deadline/verdict", fmt.Sprintf("%sscript %s exits at about the expiry of the context: verdict %s is neither pass nor the timed-out failure", where, s.Name, o.Verdict), "", tail(o.Log, 300))
			}
		}
		// interrupt about two grace periods before the deadline
		if q, ok := hl["quit"]; ok && blocked {
			counts["timing:interrupt"]++
			counts[lateBucket("interrupt-late", q-ctxAt)]++
			if q < ctxAt-earlyTol || q > intAt+lateTol {
				add("impl-violation", "deadline/interrupt-time", fmt.Sprintf("%sscript %s (subtest started at %d ms, command ready at %d ms): deadline %d ms, grace %d ms: interrupt expected at %d ms, received at %d ms", where, s.Name, o.StartNs/msNs, hl["ready"]/msNs, untilMs, grace/msNs, intAt/msNs, q/msNs), "", "")
			}
			lo, _ := strconv.ParseInt(mf["int"][0], 10, 64)
			hi, _ := strconv.ParseInt(mf["int"][1], 10, 64)
			if haveModel && intAt == ctxAt && (q < lo-earlyTol || q > hi+lateTol) {
				add("correspondence", "model/interrupt-window", fmt.Sprintf("%sscript %s: interrupt at %d ms outside the model's window", where, s.Name, q/msNs), mf["int"][0]+".."+mf["int"][1], fmt.Sprint(q))
			}
		} else if blocked && (isTrap(s.Mode) || s.Mode == "ignore") && (handlerInPlace || !hasReady && started && start < ctxAt-150*msNs) {
			add("impl-violation", "deadline/interrupt-time", where+"script "+s.Name+": the blocked process never received the interrupt", "", tail(o.Log, 300))
		}
		// a blocked command with the default signal disposition dies of the interrupt: it ends when it is
		// interrupted, neither earlier nor (much) later
		if s.Mode == "sleep" || s.Mode == "block" {
			counts["timing:stop"]++
			if end < ctxAt-earlyTol || end > intAt+sigmaNs+lateTol+40*msNs {
				add("impl-violation", "deadline/interrupt-time", fmt.Sprintf("%sscript %s (subtest started at %d ms) blocks in a command that dies of the interrupt: deadline %d ms, grace %d ms: interrupt expected at %d ms, the command ended at %d ms", where, s.Name, o.StartNs/msNs, untilMs, grace/msNs, intAt/msNs, end/msNs), "", tail(o.Log, 200))
			}
		}
		// kill one grace period later for a process that ignores the interrupt
		if s.Mode == "ignore" {
			counts["timing:kill"]++
			counts[lateBucket("kill-late", end-killAt)]++
			if end < killAt-earlyTol || end > killExp+lateTol+40*msNs {
				add("impl-violation", "deadline/kill-time", fmt.Sprintf("%sscript %s ignores the interrupt: deadline %d ms, grace %d ms: kill expected at %d ms, the command ended at %d ms", where, s.Name, untilMs, grace/msNs, killExp/msNs, end/msNs), "", "")
			}
			if q, ok := hl["quit"]; ok && intAt == ctxAt {
				// is (interrupt at q, return at end) a run of the timed automaton with slack sigma?
				counts["timed-automaton:asked"]++
				if a := rn.ask(fmt.Sprintf("ta %d %d %d %d %d", ctxAt, grace, sigma, q, end)); haveModel && !strings.HasPrefix(a, "accepted=1") {
					add("correspondence", "model/timed-automaton", fmt.Sprintf("%sscript %s: interrupt at %d ms and return at %d ms (context at %d ms, killDelay %d ms) is not a run of the timed automaton with slack %d ms", where, s.Name, q/msNs, end/msNs, ctxAt/msNs, grace/msNs, sigma/msNs), a, "")
				}
			}
			if q, ok := hl["quit"]; ok && end < q+grace-earlyTol {
				add("impl-violation", "deadline/kill-time", fmt.Sprintf("%sscript %s: killed %d ms after the interrupt, grace period %d ms", where, s.Name, (end-q)/msNs, grace/msNs), "", "")
			}
		}
		// the model: result kind and return window
		if haveModel && mf["res"][0] == mf["res"][1] && (blocked || early) {
			wantTO := mf["verdict"][0] == "timed-out"
			if wantTO != timedOut && mf["verdict"][0] == mf["verdict"][1] {
				add("correspondence", "model/verdict", fmt.Sprintf("%sscript %s (%s): model says %s", where, s.Name, s.Mode, mf["verdict"][0]), mf["verdict"][0], o.Verdict)
			}
			if mf["ret"][0] != "-" && s.Mode != "builtin" && !(isTrap(s.Mode) && !handlerInPlace) && intAt == ctxAt {
				lo, _ := strconv.ParseInt(mf["ret"][0], 10, 64)
				hi, _ := strconv.ParseInt(mf["ret"][1], 10, 64)
				if end < lo-earlyTol || end > hi+lateTol+40*msNs {
					add("correspondence", "model/return-window", fmt.Sprintf("%sscript %s (%s): command ended at %d ms, outside the model's window", where, s.Name, s.Mode, end/msNs), mf["ret"][0]+".."+mf["ret"][1], fmt.Sprint(end))
				}
			}
		}
	}
}

func lateBucket(name string, d int64) string {
	ms := d / msNs
	switch {
	case ms < 0:
		return name + ":<0ms"
	case ms < 10:
		return name + ":0-10ms"
	case ms < 30:
		return name + ":10-30ms"
	case ms < 60:
		return name + ":30-60ms"
	case ms < 150:
		return name + ":60-150ms"
	}
	return name + ":>=150ms"
}

// msgHex asks the model for the timed-out message of the source (hex).
func (rn *runner) msgHex() string {
	for _, kv := range strings.Fields(rn.ask("deadline 1000000000 0 - - 0 1 0")) {
		if v, ok := strings.CutPrefix(kv, "msg="); ok {
			return v
		}
	}
	// without the model: the message cmdExec is known to use
	return hex.EncodeToString([]byte("test timed out while running command"))
}

// quickScripts: scripts that finish at once, for the calls of a history that are not measured.
func quickScripts(r *common.RNG, prefix string) []DlScript {
	n := 1 + r.Intn(3)
	var out []DlScript
	for i := 0; i < n; i++ {
		s := DlScript{Name: fmt.Sprintf("%sq%d", prefix, i)}
		if r.Chance(1, 3) {
			s.Mode = "builtin"
		} else {
			s.Mode, s.Ms = "exitat", common.Pick(r, []int{0, 10, 30})
			s.Neg = r.Chance(1, 6)
		}
		out = append(out, s)
	}
	return out
}

var trapModes = []string{"trapexit", "trapexit0", "trapexit0", "trapexit1", "trapexit2", "trapexit130"}

func genDeadlineJob(r *common.RNG, id int) DeadlineJob {
	until := common.Pick(r, []int{400, 600, 900, 1200, 1600, 2200, 3000})
	dl := DeadlineJob{UntilMs: until, Par: 8, Procs: common.Pick(r, []int{2, 4, 8})}
	grace := until / 20
	if grace < 100 {
		grace = 100
	}
	ctx := until - 2*grace
	n := 2 + r.Intn(3)
	for i := 0; i < n; i++ {
		s := DlScript{Name: fmt.Sprintf("j%ds%d", id, i)}
		switch r.Intn(9) {
		case 0:
			s.Mode = "sleep"
		case 1:
			s.Mode = "block"
		case 2, 8:
			s.Mode, s.Ms = common.Pick(r, trapModes), common.Pick(r, []int{0, 20, grace / 3})
		case 3:
			s.Mode = "ignore"
		case 4:
			s.Mode, s.Ms = "exitat", common.Pick(r, []int{0, 10, 50, ctx / 4})
		case 5:
			s.Mode, s.Ms = "exitat", ctx+common.Pick(r, []int{-30, -10, 0, 10, 30, 60})
		case 6:
			s.Mode, s.Ms = "exitat", until+2000
		default:
			s.Mode = "builtin"
		}
		s.Neg = s.Mode != "builtin" && r.Chance(1, 4)
		if r.Chance(1, 4) {
			s.Bg = common.Pick(r, []string{"plain", "quitproof", "quitproof", "trapint"})
		}
		dl.Scripts = append(dl.Scripts, s)
	}
	// work-directory retention in one of its forms: it has nothing to do with the deadline
	if r.Chance(1, 2) {
		dl.Retain = common.Pick(r, []string{"testwork", "flag", "flag", "workdirroot"})
	}
	// every fourth job: the subtests run one after the other (a sequential T) and the last script, the
	// only one that may block, starts long after the RunT call: scripts that finish early come first,
	// one of them taking a good part of the time there is
	if r.Chance(1, 4) {
		dl.SeqT = true
		for i := range dl.Scripts[:n-1] {
			dl.Scripts[i].Mode, dl.Scripts[i].Ms, dl.Scripts[i].Bg = "exitat", common.Pick(r, []int{0, 10, 30}), ""
		}
		dl.Scripts[0].Ms = ctx * common.Pick(r, []int{20, 35, 50}) / 100
		last := &dl.Scripts[n-1]
		if last.Mode == "exitat" || last.Mode == "builtin" {
			last.Mode, last.Ms = common.Pick(r, []string{"sleep", "block", "trapexit0", "ignore"}), 0
		}
	}
	// every third job: the process has made one or two RunT calls before, with other deadlines (or none)
	if r.Chance(1, 3) {
		np := 1 + r.Intn(2)
		for k := 0; k < np; k++ {
			pc := DlCall{UntilMs: common.Pick(r, []int{0, 3600000, 3600000, 600000, 60000, 5000, 800}), SeqT: r.Chance(1, 4), TestWork: r.Chance(1, 4)}
			pc.Scripts = quickScripts(r, fmt.Sprintf("j%dp%d", id, k))
			dl.Prior = append(dl.Prior, pc)
		}
	}
	return dl
}

func (rn *runner) oneDeadline(dl *DeadlineJob, tag string) {
	var last []dlFinding
	persistent := map[string]int{}
	attempts, noisy := 0, 0
	for attempts < maxAttempts {
		fs, counts, noise := rn.evalDeadlineNoise(dl)
		// an attempt made while the machine was so busy that a 5 ms sleep of this very process overran by
		// more than 50 ms says nothing about times: it is repeated (at most five such repetitions per job)
		if noise > 50*time.Millisecond && noisy < 5 && len(fs) > 0 {
			only := true
			for _, f := range fs {
				if !timingOracles[f.oracle] {
					only = false
				}
			}
			if only {
				noisy++
				rn.rmu.Lock()
				rn.res.Count("attempt-repeated:machine-busy")
				rn.rmu.Unlock()
				time.Sleep(300 * time.Millisecond)
				continue
			}
		}
		attempts++
		if attempts == 1 {
			rn.rmu.Lock()
			for k, v := range counts {
				for i := 0; i < v; i++ {
					rn.res.Count(k)
				}
			}
			rn.rmu.Unlock()
		}
		last = fs
		if len(fs) == 0 {
			break
		}
		hung := false
		for _, f := range fs {
			if f.oracle == "deadline/hang" {
				hung = true // half a minute past the deadline is not scheduling noise: no further attempt
				persistent[f.oracle] = maxAttempts
			}
		}
		if hung {
			break
		}
		seen := map[string]bool{}
		for _, f := range fs {
			if !seen[f.oracle] && f.oracle != "deadline/hang" {
				seen[f.oracle] = true
				persistent[f.oracle]++
			}
		}
		time.Sleep(time.Duration(attempts) * 100 * time.Millisecond)
	}
	rn.rmu.Lock()
	defer rn.rmu.Unlock()
	rn.res.Count("src:" + tag)
	rn.res.Count(fmt.Sprintf("until:%dms", dl.UntilMs))
	if attempts > 1 {
		rn.res.Count(fmt.Sprintf("attempts:%d", attempts))
		// what showed in some attempt and not in all of them: scheduling noise, kept for the record
		for o, n := range persistent {
			if n < maxAttempts {
				rn.res.Count(fmt.Sprintf("transient:%s:%dx", o, n))
			}
		}
	}
	var modes []string
	for _, s := range dl.Scripts {
		modes = append(modes, s.Mode)
		rn.res.Case(fmt.Sprintf("%d/%s/%d/%v/after%d", dl.UntilMs, s.Mode, s.Ms, s.Neg, len(dl.Prior)), s.Mode != "builtin")
	}
	for k, pc := range dl.Prior {
		for _, s := range pc.Scripts {
			rn.res.Case(fmt.Sprintf("%d/%s/%d/%v/call%d", pc.UntilMs, s.Mode, s.Ms, s.Neg, k), s.Mode != "builtin")
		}
	}
	sort.Strings(modes)
	if len(rn.res.Samples) < 6 {
		rn.res.Sample(map[string]any{"source": tag, "until_ms": dl.UntilMs, "scripts": dl.Scripts, "attempts": attempts, "findings": len(last)})
	}
	if len(last) == 0 {
		return
	}
	j, _ := json.Marshal(dl)
	reported := map[string]bool{}
	for _, f := range last {
		// only what failed in every one of the attempts is reported
		if persistent[f.oracle] < maxAttempts || reported[f.oracle] {
			continue
		}
		reported[f.oracle] = true
		rn.res.Count("finding:" + f.oracle)
		rn.res.Violate(common.Violation{Kind: f.kind, Oracle: f.oracle, Detail: f.detail + fmt.Sprintf(" (in each of %d attempts)", maxAttempts),
			Input: map[string]string{"deadline_job": string(j)}, Model: f.model, Impl: f.impl, Key: f.oracle + ":" + string(j)})
	}
}

func loadDeadlineJob(path string) (*DeadlineJob, error) {
	data, err := os.ReadFile(path)
	if err != nil {
		return nil, err
	}
	var rp struct {
		Violation struct {
			Input map[string]string `json:"input"`
		} `json:"violation"`
	}
	var dl DeadlineJob
	if json.Unmarshal(data, &rp) == nil && rp.Violation.Input["deadline_job"] != "" {
		err = json.Unmarshal([]byte(rp.Violation.Input["deadline_job"]), &dl)
		return &dl, err
	}
	err = json.Unmarshal(data, &dl)
	if err == nil && len(dl.Scripts) == 0 {
		err = fmt.Errorf("%s: no scripts", path)
	}
	return &dl, err
}

func (rn *runner) mainC17() {
	f, res := rn.f, rn.res
	if a := rn.ask("ucheck"); a != "closed=true good=true states=165" {
		if !strings.HasPrefix(a, "closed=true good=true") {
			res.Violate(common.Violation{Kind: "correspondence", Oracle: "model/ucheck", Key: "ucheck", Model: a, Detail: "the extracted interleaving system is not closed or not good", Input: map[string]string{}})
		}
	}
	if f.Replay != "" {
		dl, err := loadDeadlineJob(f.Replay)
		if err != nil {
			res.Violate(common.Violation{Kind: "correspondence", Oracle: "replay", Key: "replay", Detail: err.Error(), Input: map[string]string{}})
			return
		}
		rn.oneDeadline(dl, "replay")
		res.Rule = "replay of one recorded deadline job"
		return
	}
	type item struct {
		dl  DeadlineJob
		tag string
	}
	var items []item
	if f.Corpus != "" {
		ents, _ := filepath.Glob(filepath.Join(f.Corpus, "*.json"))
		sort.Strings(ents)
		for _, e := range ents {
			if dl, err := loadDeadlineJob(e); err == nil {
				items = append(items, item{*dl, "corpus"})
			}
		}
	}
	// hand-written: every behaviour at a short and at a long deadline
	for k, until := range []int{500, 2400} {
		grace := until / 20
		if grace < 100 {
			grace = 100
		}
		// (work-directory retention in its several forms has nothing to do with any of this)
		items = append(items, item{DeadlineJob{UntilMs: until, Par: 8, Procs: 4, Retain: []string{"flag", "testwork"}[k], Scripts: []DlScript{
			{Name: fmt.Sprintf("h%dsleep", k), Mode: "sleep"},
			{Name: fmt.Sprintf("h%dtrap", k), Mode: "trapexit", Ms: 10},
			{Name: fmt.Sprintf("h%dignore", k), Mode: "ignore"},
			{Name: fmt.Sprintf("h%dearly", k), Mode: "exitat", Ms: 20},
			{Name: fmt.Sprintf("h%dedge", k), Mode: "exitat", Ms: until - 2*grace},
			{Name: fmt.Sprintf("h%dnegblock", k), Mode: "block", Neg: true},
			{Name: fmt.Sprintf("h%dbuiltin", k), Mode: "builtin"},
		}}, "hand"})
		// commands that handle the interrupt and exit by themselves, with every kind of exit status, at
		// once or a little later: blocked until the context expired all the same
		items = append(items, item{DeadlineJob{UntilMs: until, Par: 12, Procs: 4, Retain: []string{"workdirroot", ""}[k], Scripts: []DlScript{
			{Name: fmt.Sprintf("g%dzero", k), Mode: "trapexit0"},
			{Name: fmt.Sprintf("g%dzerolate", k), Mode: "trapexit0", Ms: grace / 3},
			{Name: fmt.Sprintf("g%dzeroneg", k), Mode: "trapexit0", Ms: 5, Neg: true},
			{Name: fmt.Sprintf("g%done", k), Mode: "trapexit1"},
			{Name: fmt.Sprintf("g%dsig", k), Mode: "trapexit130", Ms: 20},
			{Name: fmt.Sprintf("g%doneneg", k), Mode: "trapexit2", Neg: true},
			{Name: fmt.Sprintf("g%dearly", k), Mode: "exitat", Ms: 10},
		}}, "hand-exit-status"})
	}
	// histories: the process has called RunT before, with a very different deadline or with none; scripts
	// that finish long before their own deadline pass, blocked ones are stopped at the times of THIS call
	hour := 3600000
	quick := func(p string) []DlScript {
		return []DlScript{{Name: p + "a", Mode: "exitat", Ms: 20}, {Name: p + "b", Mode: "builtin"}, {Name: p + "c", Mode: "exitat", Ms: 0}}
	}
	items = append(items, item{DeadlineJob{Prior: []DlCall{{UntilMs: hour, Scripts: quick("ha0"), TestWork: true}}, Retain: "flag",
		UntilMs: 5000, Par: 8, Procs: 4, Scripts: []DlScript{{Name: "ha1slow", Mode: "exitat", Ms: 300}, {Name: "ha1a", Mode: "exitat", Ms: 20}, {Name: "ha1b", Mode: "builtin"}}}, "hand-history"})
	items = append(items, item{DeadlineJob{Prior: []DlCall{{UntilMs: 0, Scripts: quick("hb0")}},
		UntilMs: 1200, Par: 8, Procs: 4, Scripts: []DlScript{{Name: "hb1sleep", Mode: "sleep"}, {Name: "hb1zero", Mode: "trapexit0", Ms: 10}, {Name: "hb1early", Mode: "exitat", Ms: 30}}}, "hand-history"})
	items = append(items, item{DeadlineJob{Prior: []DlCall{{UntilMs: hour, Scripts: quick("hc0")}, {UntilMs: 0, Scripts: quick("hc1"), SeqT: true}},
		UntilMs: 2400, Par: 8, Procs: 4, Scripts: []DlScript{{Name: "hc2sleep", Mode: "sleep"}, {Name: "hc2ignore", Mode: "ignore"}, {Name: "hc2trap", Mode: "trapexit", Ms: 10},
			{Name: "hc2early", Mode: "exitat", Ms: 20}, {Name: "hc2edge", Mode: "exitat", Ms: 2400 - 240}}}, "hand-history"})
	items = append(items, item{DeadlineJob{Prior: []DlCall{{UntilMs: 700, Scripts: quick("hd0")}, {UntilMs: 10 * 60000, Scripts: quick("hd1")}, {UntilMs: 3000, Scripts: quick("hd2")}},
		UntilMs: 600, Par: 8, Procs: 4, Scripts: []DlScript{{Name: "hd3ignore", Mode: "ignore"}, {Name: "hd3block", Mode: "block", Neg: true}, {Name: "hd3early", Mode: "exitat", Ms: 20}}}, "hand-history"})

	if os.Getenv("TSBATCH_BG_DEADLINE") == "1" {
		// Observation outside C17 (not part of the check): a background command that ignores SIGINT
		// and SIGQUIT is never killed (kill delay -1), run() waits for it for ever, also past the Deadline.
		items = append(items, item{DeadlineJob{UntilMs: 600, Par: 8, Procs: 4, Scripts: []DlScript{{Name: "bgign", Mode: "bgignore"}}}, "observation"})
	}
	// a T that runs the subtests one after the other (cmd/testscript's does): the deadline is far away,
	// every script finishes early and none may be affected by the others having finished
	items = append(items, item{DeadlineJob{UntilMs: 3000, Par: 8, Procs: 4, SeqT: true, Retain: "flag", Scripts: []DlScript{
		{Name: "q0", Mode: "exitat", Ms: 20}, {Name: "q1", Mode: "exitat", Ms: 30, Bg: "quitproof"}, {Name: "q2", Mode: "builtin"},
		{Name: "q3", Mode: "exitat", Ms: 10}, {Name: "q4", Mode: "exitat", Ms: 40},
	}}, "hand-sequential-T"})
	// scripts that start long after the RunT call (sequential T: the earlier scripts take a third of the
	// time there is) and then block: the times are those of the deadline, not of the start of the script
	for k, mode := range []string{"trapexit0", "sleep", "ignore"} {
		items = append(items, item{DeadlineJob{UntilMs: 1500, Par: 8, Procs: 4, SeqT: true, Retain: []string{"", "testwork", ""}[k], Scripts: []DlScript{
			{Name: fmt.Sprintf("ls%da", k), Mode: "exitat", Ms: 400}, {Name: fmt.Sprintf("ls%db", k), Mode: "builtin"},
			{Name: fmt.Sprintf("ls%dc", k), Mode: mode},
		}}, "hand-late-start"})
	}
	// background commands of every kind next to foreground commands of every kind: they change nothing
	// (the one that survives the interrupt of the expired context is stopped when its script ends)
	items = append(items, item{DeadlineJob{UntilMs: 1200, Par: 12, Procs: 4, Scripts: []DlScript{
		{Name: "bgqsleep", Mode: "sleep", Bg: "quitproof"}, {Name: "bgqtrap", Mode: "trapexit0", Ms: 10, Bg: "quitproof"},
		{Name: "bgqignore", Mode: "ignore", Bg: "quitproof"}, {Name: "bgqearly", Mode: "exitat", Ms: 30, Bg: "quitproof"},
		{Name: "bgtblock", Mode: "block", Bg: "trapint"}, {Name: "bgtearly", Mode: "exitat", Ms: 20, Bg: "trapint"},
		{Name: "bgpsleep", Mode: "sleep", Bg: "plain", Neg: true}, {Name: "bgpbuiltin", Mode: "builtin", Bg: "plain"},
	}}, "hand-background"})
	// a command that is started inside the last grace period (its predecessor was killed one grace
	// period before the deadline; ContinueOnError lets the script go on) and ignores the interrupt
	items = append(items, item{DeadlineJob{UntilMs: 700, Par: 8, Procs: 4, ContinueOnError: true, IgnoreQuit: true, Scripts: []DlScript{
		{Name: "late0", Mode: "lateignore"}, {Name: "late1", Mode: "lateignore"},
	}}, "hand-started-late"})
	// many commands that exit within +-2 ms of the expiry of the context: the helper goroutine of
	// waitOrStop then meets a process that has just been reaped (os.ErrProcessDone) in some of them
	rounds := 3
	if f.Tier == "thorough" {
		rounds = 12
	}
	for k := 0; k < rounds; k++ {
		dj := DeadlineJob{UntilMs: 600, Par: 48, Procs: 8}
		for i := 0; i < 48; i++ {
			dj.Scripts = append(dj.Scripts, DlScript{Name: fmt.Sprintf("x%dn%d", k, i), Mode: "exitabs", OffUs: -2000 + i*4000/47})
		}
		items = append(items, item{dj, "dense-at-expiry"})
	}
	r := common.NewRNG(f.Seed)
	n := rn.size("TSBATCH_C17_QUICK", 10)
	if f.Tier == "thorough" {
		n = rn.size("TSBATCH_C17_THOROUGH", 150)
	}
	for i := 0; i < n; i++ {
		items = append(items, item{genDeadlineJob(r, i), "generated"})
	}
	rn.goTestDeadline()
	var wg sync.WaitGroup
	ch := make(chan int)
	for w := 0; w < 4; w++ {
		wg.Add(1)
		go func() {
			defer wg.Done()
			for i := range ch {
				rn.oneDeadline(&items[i].dl, items[i].tag)
			}
		}()
	}
	for i := range items {
		ch <- i
	}
	close(ch)
	wg.Wait()
	res.Rule = fmt.Sprintf("two hand-written jobs (deadline 0.5 s and 2.4 s, one script per behaviour: /bin/sleep, exits on the interrupt, ignores it, finishes early, exits at the expiry of the context, negated blocking command, no subprocess), two jobs of commands that handle the interrupt and exit with status 0 / 1 / 2 / 130 at once or a little later (negated or not), four histories of 2-4 RunT calls made by one process with very different deadlines (an hour, ten minutes, none, seconds; quick scripts in the earlier calls, every behaviour in the last) and %d generated jobs of 2-4 parallel scripts with deadlines 0.4-3 s (every third after one or two earlier RunT calls); four jobs at a time; a finding is reported only when it shows in each of five attempts (timing tolerances: 40 ms early, 0.6 grace periods late); a sequential-T job; 3 (thorough: 12) rounds of 48 parallel commands exiting within +-2 ms of the context's expiry; work-directory retention (Params.TestWork, -testwork flag, WorkdirRoot) on half of the jobs and on calls of the histories; three jobs under a sequential T whose last script starts a third of the way to the deadline and then blocks (exits on the interrupt / dies of it / ignores it: the times expected are those of the RunT call; a command that starts after the expiry is expected to be interrupted at once), every fourth generated job likewise; a job with background commands of three kinds (dies of any signal, survives the interrupt of the expired context and dies of the SIGINT sent at the end of its script, handles both) next to foreground commands of every kind; commands that die of the interrupt must end when they are interrupted; a case is one script of one job, non-trivial when it runs a subprocess; distinct = distinct (deadline, behaviour, parameter, negation)", n)
}

// goTestDeadline: testscript.Run, the *testing.T entry point, in a real test binary started with
// -test.timeout=60s and Params.Deadline one second away: the explicit, earlier deadline has to be the
// one that counts (the blocked script fails with the timed-out message after about a second).
func (rn *runner) goTestDeadline() {
	bin := filepath.Join(rn.work, "runtest.test")
	build := exec.Command("go", "test", "-c", "-o", bin, "verif/harness/cmd/tsbatch/runtest")
	if out, err := build.CombinedOutput(); err != nil {
		rn.res.Notes = append(rn.res.Notes, "go test -c of the testscript.Run probe failed: "+tail(string(out), 300))
		return
	}
	const deadlineMs = 1000
	in := map[string]string{"call": "testscript.Run(t, Params{Dir: <one script: exec sleep 1000>, Deadline: now+1s}) in a test binary run with -test.timeout=60s"}
	late, noMsg := 0, 0
	detail := ""
	for attempt := 0; attempt < maxAttempts; attempt++ {
		dir := filepath.Join(rn.work, fmt.Sprintf("gotest-%d", attempt))
		os.MkdirAll(filepath.Join(dir, "scripts"), 0o777)
		os.MkdirAll(filepath.Join(dir, "tmp"), 0o777)
		os.WriteFile(filepath.Join(dir, "scripts", "blocked.txt"), []byte("exec sleep 1000\n"), 0o666)
		cmd := exec.Command(bin, "-test.timeout=60s", "-test.v", "-test.run=TestParamsDeadline")
		cmd.Env = []string{"PATH=/usr/bin:/bin", "HOME=/nonexistent", "TMPDIR=" + filepath.Join(dir, "tmp"), "GOTMPDIR=" + filepath.Join(dir, "tmp"),
			"TSB_SCRIPT_DIR=" + filepath.Join(dir, "scripts"), fmt.Sprintf("TSB_DEADLINE_MS=%d", deadlineMs)}
		cmd.Dir = dir
		cmd.SysProcAttr = &syscall.SysProcAttr{Setpgid: true}
		var out bytes.Buffer
		cmd.Stdout, cmd.Stderr = &out, &out
		t0 := time.Now()
		if err := cmd.Start(); err != nil {
			rn.res.Notes = append(rn.res.Notes, "cannot start the test binary: "+err.Error())
			return
		}
		done := make(chan struct{})
		go func() { cmd.Wait(); close(done) }()
		killed := false
		select {
		case <-done:
		case <-time.After(10 * time.Second):
			killed = true
			syscall.Kill(-cmd.Process.Pid, syscall.SIGKILL)
			<-done
		}
		el := time.Since(t0)
		syscall.Kill(-cmd.Process.Pid, syscall.SIGKILL)
		os.RemoveAll(dir)
		msg, _ := hex.DecodeString(rn.msgHex())
		ok := !killed && el <= time.Duration(deadlineMs)*time.Millisecond+1500*time.Millisecond
		hasMsg := len(msg) > 0 && strings.Contains(out.String(), string(msg))
		rn.rmu.Lock()
		rn.res.Count("src:go-test-binary")
		rn.res.Case("gotest", true)
		rn.rmu.Unlock()
		if ok && hasMsg {
			return
		}
		if !ok {
			late++
		}
		if !hasMsg {
			noMsg++
		}
		detail = fmt.Sprintf("Params.Deadline 1 s away, -test.timeout=60s: the test binary ran %v (killed after 10 s: %v); output: %s", el.Round(time.Millisecond), killed, tail(out.String(), 400))
	}
	rn.rmu.Lock()
	defer rn.rmu.Unlock()
	if late == maxAttempts {
		rn.res.Violate(common.Violation{Kind: "impl-violation", Oracle: "deadline/params-deadline-ignored", Key: "gotest-late", Input: in,
			Detail: detail + fmt.Sprintf(" (in each of %d attempts)", maxAttempts)})
	} else if noMsg == maxAttempts {
		rn.res.Violate(common.Violation{Kind: "impl-violation", Oracle: "deadline/verdict", Key: "gotest-msg", Input: in,
			Detail: "the blocked script of the test binary was not reported with the timed-out message: " + detail})
	}
}

// helper is the program the generated scripts of the tsbatch runner (C04, C17) execute.
//
//	helper sleep [<obsdir>]           (write pid, cwd and environment to <obsdir>/bgenv-<pid>.json, then) block
//	                                  until a signal with default disposition arrives
//	helper exit <code>                exit at once with that status
//	helper sleepmk <dir> <obsdir>     trap SIGINT, announce readiness in <obsdir>/ready-<pid>, and on the
//	                                  interrupt shut down slowly: 150 ms later create <dir>/late/f and exit
//	                                  with status 1
//	helper probe <out.json>           write pid, cwd and environment to out.json
//	helper deadline <mode> <ms> <log> log "start <pid> <unixnano>", then
//	    block        sleep forever, signals have their default effect
//	    trapexit     on SIGQUIT log "quit <unixnano>" and exit 3 after <ms>
//	    trapexit0    the same, but the exit status is 0 (a graceful shutdown on the interrupt)
//	    trapexitN    the same with the exit status N (1..255)
//	    ignore       on SIGQUIT / SIGINT log the time and carry on (only SIGKILL ends it)
//	    quitproof    log SIGQUIT and carry on; SIGINT has its default effect (the process dies of it)
//	    trapint      log SIGQUIT and carry on; on SIGINT log it and exit 0 after <ms>
//	    exitat       exit 0 after <ms>
//	    exitabs      exit 0 at the absolute time <ms> (unix nanoseconds)
//
// It is built without the race detector so that its start-up and exit take no extra time.
package main

import (
	"encoding/json"
	"fmt"
	"os"
	"os/signal"
	"path/filepath"
	"strconv"
	"strings"
	"syscall"
	"time"
)

func logLine(path, format string, a ...any) {
	f, err := os.OpenFile(path, os.O_WRONLY|os.O_CREATE|os.O_APPEND, 0o666)
	if err != nil {
		return
	}
	fmt.Fprintf(f, format+"\n", a...)
	f.Close()
}

// writeEnv records pid, working directory (as the kernel has it) and environment.
func writeEnv(path string) error {
	cwd, err := os.Readlink("/proc/self/cwd")
	if err != nil {
		cwd, _ = os.Getwd()
	}
	b, _ := json.Marshal(map[string]any{"pid": os.Getpid(), "cwd": cwd, "env": os.Environ()})
	tmp := path + ".tmp"
	if err := os.WriteFile(tmp, b, 0o666); err != nil {
		return err
	}
	return os.Rename(tmp, path)
}

func main() {
	if len(os.Args) < 2 {
		os.Exit(64)
	}
	// installed under the name hostcanary it stands for a program that only the PATH of the test process
	// leads to: every run leaves a note with the PATH the caller gave it
	if exe, err := os.Executable(); err == nil && filepath.Base(exe) == "hostcanary" {
		os.WriteFile(filepath.Join(filepath.Dir(filepath.Dir(exe)), "obs", fmt.Sprintf("hostcanary-%d", os.Getpid())),
			[]byte(os.Getenv("PATH")), 0o666)
	}
	switch os.Args[1] {
	case "sleep":
		if len(os.Args) > 2 {
			writeEnv(fmt.Sprintf("%s/bgenv-%d.json", os.Args[2], os.Getpid()))
		}
		for {
			time.Sleep(time.Hour)
		}
	case "sleepmk":
		c := make(chan os.Signal, 2)
		signal.Notify(c, os.Interrupt)
		writeEnv(fmt.Sprintf("%s/bgenv-%d.json", os.Args[3], os.Getpid()))
		os.WriteFile(fmt.Sprintf("%s/ready-%d", os.Args[3], os.Getpid()), []byte("ready"), 0o666)
		<-c
		time.Sleep(150 * time.Millisecond)
		os.MkdirAll(os.Args[2]+"/late", 0o777)
		os.WriteFile(os.Args[2]+"/late/f", []byte("written while shutting down\n"), 0o666)
		os.Exit(1)
	case "exit":
		code, _ := strconv.Atoi(os.Args[2])
		os.Exit(code)
	case "probe":
		if err := writeEnv(os.Args[2]); err != nil {
			fmt.Fprintln(os.Stderr, err)
			os.Exit(65)
		}
	case "deadline":
		mode := os.Args[2]
		ms, _ := strconv.Atoi(os.Args[3])
		log := os.Args[4]
		logLine(log, "start %d %d", os.Getpid(), time.Now().UnixNano())
		if strings.HasPrefix(mode, "trapexit") {
			mode = "trapexit"
		}
		switch mode {
		case "block":
			for {
				time.Sleep(time.Hour)
			}
		case "trapexit":
			// mode was "trapexit" or "trapexit<status>"
			code := 3
			if n, err := strconv.Atoi(strings.TrimPrefix(os.Args[2], "trapexit")); err == nil {
				code = n
			}
			c := make(chan os.Signal, 4)
			signal.Notify(c, syscall.SIGQUIT)
			logLine(log, "ready %d", time.Now().UnixNano())
			<-c
			logLine(log, "quit %d", time.Now().UnixNano())
			time.Sleep(time.Duration(ms) * time.Millisecond)
			logLine(log, "exit %d", time.Now().UnixNano())
			os.Exit(code)
		case "ignore":
			c := make(chan os.Signal, 8)
			signal.Notify(c, syscall.SIGQUIT, syscall.SIGINT, syscall.SIGTERM)
			logLine(log, "ready %d", time.Now().UnixNano())
			for s := range c {
				name := "sig"
				switch s {
				case syscall.SIGQUIT:
					name = "quit"
				case syscall.SIGINT:
					name = "int"
				}
				logLine(log, "%s %d", name, time.Now().UnixNano())
			}
		case "quitproof", "trapint":
			c := make(chan os.Signal, 8)
			if mode == "trapint" {
				signal.Notify(c, syscall.SIGQUIT, syscall.SIGINT)
			} else {
				signal.Notify(c, syscall.SIGQUIT)
			}
			logLine(log, "ready %d", time.Now().UnixNano())
			for s := range c {
				if s == syscall.SIGINT {
					logLine(log, "int %d", time.Now().UnixNano())
					time.Sleep(time.Duration(ms) * time.Millisecond)
					os.Exit(0)
				}
				logLine(log, "quit %d", time.Now().UnixNano())
			}
		case "exitabs":
			at, _ := strconv.ParseInt(os.Args[3], 10, 64)
			time.Sleep(time.Until(time.Unix(0, at)))
			os.Exit(0)
		case "exitat":
			time.Sleep(time.Duration(ms) * time.Millisecond)
			logLine(log, "exit %d", time.Now().UnixNano())
			os.Exit(0)
		}
	default:
		os.Exit(64)
	}
}

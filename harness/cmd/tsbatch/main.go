// tsbatch is the runner of properties C04 (isolation and cleanup of testscript batches) and C17
// (deadline handling); VERIF_PROP selects which.
//
// C04: batches of generated scripts are run by testscript.RunT in a child process of this binary
// (built with -race) with real goroutine parallelism, several GOMAXPROCS / parallelism settings and
// injected start delays, with and without TestWork / WorkdirRoot / -testwork, as an unprivileged
// user when possible.  Direct oracles: sentinel trees outside the work directories unchanged (names,
// types, modes, times, contents), private TMPDIR/GOTMPDIR empty afterwards (or retained),
// no recorded pid alive, each script's observations equal to those of the same script run alone,
// the canary variable of the host invisible, $WORK equal to the archive at start, deferred
// functions in reverse order on every exit path, no data race.  Correspondence: the observations
// equal the prediction of the extracted Coq model (TsBatch.v).
//
// C17: see deadline.go.
package main

import (
	"bytes"
	"crypto/sha256"
	"encoding/hex"
	"encoding/json"
	"fmt"
	"os"
	"os/exec"
	"path/filepath"
	"regexp"
	"sort"
	"strconv"
	"strings"
	"sync"
	"sync/atomic"
	"syscall"
	"time"

	"verif/harness/common"
)

type runner struct {
	f       *common.Flags
	res     *common.Result
	m       *common.Model
	mmu     sync.Mutex
	rmu     sync.Mutex
	self    string
	helper  string // built helper binary
	work    string
	nrun    atomic.Int64
	nonRoot bool // children can be run as an unprivileged user
	aloneMu sync.Mutex
	alone   map[string]*aloneRes
	nshrunk map[string]int
	hangs   atomic.Int64 // children that had to be killed: after the first one nothing is minimised any more and
	// the time limit shrinks; after the third the remaining batches are not run
}

type aloneRes struct {
	once  sync.Once
	canon string
	modes string
	err   string
}

// canonModes: the permission bits a script saw in its work directory, at setup and at every probe.
func canonModes(o *ScriptObs) string {
	parts := []string{"setup{" + o.SetupModes + "}"}
	for _, p := range o.Probes {
		parts = append(parts, "probe{"+p.Modes+"}")
	}
	return strings.Join(parts, " ")
}

const nobodyID = 65534

func main() {
	if jp := os.Getenv("TSBATCH_CHILD"); jp != "" {
		runChild(jp)
		return
	}
	f := common.ParseFlags()
	prop := os.Getenv("VERIF_PROP")
	if prop == "" {
		prop = "C04"
	}
	res := common.NewResult(prop, f.Tier, f.Seed)
	rn := &runner{f: f, res: res, alone: map[string]*aloneRes{}, nshrunk: map[string]int{}}
	if err := rn.prepare(); err != nil {
		res.Notes = append(res.Notes, "cannot prepare: "+err.Error())
		res.Violate(common.Violation{Kind: "correspondence", Oracle: "runner-setup", Key: "runner-setup", Detail: err.Error(), Input: map[string]string{}})
		res.Write(f.Out)
		return
	}
	if rn.m != nil {
		defer rn.m.Close()
	}
	if prop == "C17" {
		rn.mainC17()
	} else {
		rn.mainC04()
	}
	res.Write(f.Out)
}

func (rn *runner) prepare() error {
	var err error
	rn.self, err = os.Executable()
	if err != nil {
		return err
	}
	rn.work = rn.f.Work
	if rn.work == "" {
		rn.work, err = os.MkdirTemp("", "tsbatch-")
		if err != nil {
			return err
		}
	}
	rn.work, _ = filepath.Abs(rn.work)
	os.Chmod(rn.work, 0o755)
	rn.helper = filepath.Join(rn.work, "helper-bin")
	// built from inside the harness module by import path, inheriting GOFLAGS
	cmd := exec.Command("go", "build", "-o", rn.helper, "verif/harness/cmd/tsbatch/helper")
	if out, err := cmd.CombinedOutput(); err != nil {
		return fmt.Errorf("go build helper: %v: %s", err, out)
	}
	os.Chmod(rn.helper, 0o755)
	rn.m, err = common.StartModel(rn.f.Model)
	if err != nil {
		// the oracles that need nothing but the package under test still run; every comparison with the
		// model is then reported as what it is: a correspondence that could not be established
		rn.m = nil
		rn.res.Notes = append(rn.res.Notes, "the extracted model cannot be started ("+err.Error()+"): direct oracles only")
		rn.res.Violate(common.Violation{Kind: "correspondence", Oracle: "model-unavailable", Key: "model-unavailable",
			Detail: "the extracted model could not be started, so the theorems cannot be tied to this tree: " + err.Error(), Input: map[string]string{}})
	}
	// can a child run as an unprivileged user and reach its files?
	if os.Geteuid() == 0 {
		probe := filepath.Join(rn.work, "nonroot-probe")
		os.MkdirAll(probe, 0o777)
		os.Chmod(probe, 0o777)
		c := exec.Command(rn.helper, "probe", filepath.Join(probe, "p.json"))
		c.SysProcAttr = &syscall.SysProcAttr{Credential: &syscall.Credential{Uid: nobodyID, Gid: nobodyID}}
		c.Dir = probe
		if err := c.Run(); err == nil {
			c2 := exec.Command(rn.self)
			c2.Env = []string{"TSBATCH_CHILD=/nonexistent"}
			c2.SysProcAttr = &syscall.SysProcAttr{Credential: &syscall.Credential{Uid: nobodyID, Gid: nobodyID}}
			err2 := c2.Run()
			if ee, ok := err2.(*exec.ExitError); ok && ee.ExitCode() == 3 {
				rn.nonRoot = true
			}
		}
		if !rn.nonRoot {
			rn.res.Notes = append(rn.res.Notes, "children cannot be run as an unprivileged user here: permission effects of read-only directories are not exercised (root ignores them)")
		}
	} else {
		rn.nonRoot = false
	}
	return nil
}

func (rn *runner) ask(req string) string {
	if rn.m == nil {
		return "MODEL-UNAVAILABLE"
	}
	rn.mmu.Lock()
	defer rn.mmu.Unlock()
	return rn.m.Ask1(req)
}

// ---------------------------------------------------------------- running one batch in a child

type runObs struct {
	res       *ChildResult
	output    string // stdout+stderr of the child
	timedOut  bool
	exitCode  int
	dir       string
	hostEnv   []string
	canary    string
	tmpLeft   []string          // entries of the private TMPDIR/GOTMPDIR after the run
	rootLeft  []string          // entries of the WorkdirRoot after the run
	finalTree map[string]string // script name -> tree of its work directory ("" when absent)
	alive     []string          // recorded pids that are still alive
	escaped   []string          // $WORK-named archive entries found at the file-system root
	hostLeak  []string          // PATH values with which the host-only program was run although they do not lead to it
	outside   []string          // what changed in the sentinel trees outside the work directories (names, types, sizes, modes, times, contents)
	isRoot    bool
}

func lookPath(pathValue, prog string) bool {
	for _, dir := range filepath.SplitList(pathValue) {
		if dir == "" {
			dir = "."
		}
		st, err := os.Stat(filepath.Join(dir, prog))
		if err == nil && !st.IsDir() && st.Mode()&0o111 != 0 {
			return true
		}
	}
	return false
}

func pidAlive(pid int, marker string) bool {
	b, err := os.ReadFile(fmt.Sprintf("/proc/%d/cmdline", pid))
	if err != nil || len(b) == 0 {
		return false
	}
	if !bytes.Contains(b, []byte(marker)) {
		return false // the pid has been reused by something else
	}
	st, err := os.ReadFile(fmt.Sprintf("/proc/%d/stat", pid))
	if err == nil {
		if i := bytes.LastIndexByte(st, ')'); i >= 0 && i+2 < len(st) && st[i+2] == 'Z' {
			return false
		}
	}
	return true
}

// procsUnder lists the live processes whose current directory is inside dir (every process a
// script starts runs in the script's directory, which is below the scratch directory of the run).
func procsUnder(dir string) []string {
	var out []string
	ents, _ := os.ReadDir("/proc")
	for _, e := range ents {
		pid, err := strconv.Atoi(e.Name())
		if err != nil || pid == os.Getpid() {
			continue
		}
		link, err := os.Readlink(filepath.Join("/proc", e.Name(), "cwd"))
		if err != nil {
			continue
		}
		if link == dir || strings.HasPrefix(link, dir+"/") {
			cmdline, _ := os.ReadFile(filepath.Join("/proc", e.Name(), "cmdline"))
			out = append(out, fmt.Sprintf("%d(%s)", pid, strings.ReplaceAll(strings.TrimRight(string(cmdline), "\x00"), "\x00", " ")))
		}
	}
	return out
}

func (rn *runner) runBatch(b *Batch, dl *DeadlineJob, sched []int) *runObs {
	return rn.runJob(b, dl, nil, sched)
}

func (rn *runner) runJob(b *Batch, dl *DeadlineJob, cj *CleanJob, sched []int) *runObs {
	n := rn.nrun.Add(1)
	dir := filepath.Join(rn.work, fmt.Sprintf("run-%d", n))
	ro := &runObs{dir: dir, finalTree: map[string]string{}}
	for _, d := range []string{"", "tmp", "bin", "obs", "scripts", "wroot", "cover", "outside"} {
		os.MkdirAll(filepath.Join(dir, d), 0o777)
		os.Chmod(filepath.Join(dir, d), 0o777)
	}
	helper := filepath.Join(dir, "bin", "helper")
	if err := os.Link(rn.helper, helper); err != nil {
		data, _ := os.ReadFile(rn.helper)
		os.WriteFile(helper, data, 0o755)
	}
	// a program that is on the PATH of the test process only: a script that has replaced its PATH must
	// not be able to run it by its bare name
	if err := os.Link(rn.helper, filepath.Join(dir, "bin", "hostcanary")); err != nil {
		data, _ := os.ReadFile(rn.helper)
		os.WriteFile(filepath.Join(dir, "bin", "hostcanary"), data, 0o755)
	}
	// sentinel trees outside every work directory: a "host" directory with files and directories of
	// several modes (owned by the user the child runs as, so that nothing but good manners protects
	// them), and the directory of the programs; they are compared with their snapshot after the run
	owner := -1
	if b.NonRoot && rn.nonRoot {
		owner = nobodyID
	}
	makeHostSentinels(filepath.Join(dir, "host"), owner)
	sentinels := []string{"host", "bin"}
	before := map[string]map[string]string{}
	for _, sd := range sentinels {
		before[sd] = snapshotTree(filepath.Join(dir, sd))
	}
	// $WORK-named entries: nothing of that name may be at the root beforehand
	var workNamed []string
	for i := range b.Scripts {
		for _, f := range b.Scripts[i].Files {
			if f.Work && safeWorkName(f.Path) {
				workNamed = append(workNamed, f.Path)
				removeEscaped(f.Path)
			}
		}
	}
	ro.canary = fmt.Sprintf("canary-%d-%d", os.Getpid(), n)
	job := Job{Kind: "batch", Batch: *b, Dir: dir, Helper: helper, WorkRoot: filepath.Join(dir, "wroot"), Out: filepath.Join(dir, "obs", "result.json"), Deadline: dl}
	if dl != nil {
		job.Kind = "deadline"
	}
	if cj != nil {
		job.Kind, job.Clean = "cleanup", cj
	}
	if sched != nil {
		job.Gated, job.Sched = true, sched
	}
	jb, _ := json.Marshal(job)
	jobPath := filepath.Join(dir, "job.json")
	os.WriteFile(jobPath, jb, 0o644)
	env := []string{
		"PATH=" + filepath.Join(dir, "bin") + ":/usr/bin:/bin",
		"HOME=/nonexistent-home-" + ro.canary,
		"TMPDIR=" + filepath.Join(dir, "tmp"),
		"GOTMPDIR=" + filepath.Join(dir, "tmp"),
		"LANG=C",
		"GORACE=halt_on_error=1",
	}
	if b.Canary {
		env = append(env, "VERIF_CANARY="+ro.canary)
	}
	if b.Cover {
		env = append(env, "GOCOVERDIR="+filepath.Join(dir, "cover"))
	}
	ro.hostEnv = append([]string{}, env...)
	env = append(env, "TSBATCH_CHILD="+jobPath)
	cmd := exec.Command(rn.self)
	cmd.Env = env
	cmd.Dir = dir
	var out bytes.Buffer
	cmd.Stdout = &out
	cmd.Stderr = &out
	attr := &syscall.SysProcAttr{Setpgid: true}
	ro.isRoot = os.Geteuid() == 0
	if b.NonRoot && rn.nonRoot {
		attr.Credential = &syscall.Credential{Uid: nobodyID, Gid: nobodyID}
		ro.isRoot = false
	}
	cmd.SysProcAttr = attr
	if err := cmd.Start(); err != nil {
		ro.output = "cannot start child: " + err.Error()
		ro.exitCode = -1
		return ro
	}
	done := make(chan error, 1)
	go func() { done <- cmd.Wait() }()
	limit := 60 * time.Second
	if rn.hangs.Load() > 0 {
		limit = 20 * time.Second
	}
	if dl != nil {
		limit = time.Duration(dl.UntilMs)*time.Millisecond + 30*time.Second
	}
	select {
	case err := <-done:
		if ee, ok := err.(*exec.ExitError); ok {
			ro.exitCode = ee.ExitCode()
		}
	case <-time.After(limit):
		ro.timedOut = true
		rn.hangs.Add(1)
		syscall.Kill(-cmd.Process.Pid, syscall.SIGQUIT)
		select {
		case <-done:
		case <-time.After(3 * time.Second):
			syscall.Kill(-cmd.Process.Pid, syscall.SIGKILL)
			<-done
		}
	}
	ro.output = out.String()
	if rb, err := os.ReadFile(job.Out); err == nil {
		var cr ChildResult
		if json.Unmarshal(rb, &cr) == nil {
			ro.res = &cr
		}
	}
	// ---- what is left behind, seen from outside after the process has gone
	if ro.res != nil {
		var pids []int
		for _, s := range ro.res.Scripts {
			for _, bg := range s.Bg {
				pids = append(pids, bg.Pid)
			}
			for _, p := range s.Probes {
				pids = append(pids, p.Pid)
			}
		}
		if dl != nil {
			pids = append(pids, helperPids(dir)...)
		}
		deadline := time.Now().Add(1500 * time.Millisecond)
		for {
			ro.alive = ro.alive[:0]
			for _, p := range pids {
				if pidAlive(p, helper) {
					ro.alive = append(ro.alive, strconv.Itoa(p))
				}
			}
			ro.alive = append(ro.alive, procsUnder(dir)...)
			if len(ro.alive) == 0 || time.Now().After(deadline) {
				break
			}
			time.Sleep(50 * time.Millisecond)
		}
	}
	for _, p := range workNamed {
		if removeEscaped(p) {
			ro.escaped = append(ro.escaped, "/"+p)
		}
	}
	// entries whose names leave the work directory (File.Escape) all point into the scratch directory
	for _, sub := range []string{"tmp", "wroot", "outside"} {
		filepath.WalkDir(filepath.Join(dir, sub), func(p string, d os.DirEntry, err error) error {
			if err == nil && !d.IsDir() && reEscapedFile.MatchString(d.Name()) {
				rel, _ := filepath.Rel(dir, p)
				ro.escaped = append(ro.escaped, "$RUN/"+reTmpRoot.ReplaceAllString(rel, "go-test-script*"))
			}
			return nil
		})
	}
	if notes, _ := filepath.Glob(filepath.Join(dir, "obs", "hostcanary-*")); len(notes) > 0 {
		hostBin := filepath.Join(dir, "bin")
		for _, n := range notes {
			pv, _ := os.ReadFile(n)
			leads := false
			for _, d := range filepath.SplitList(string(pv)) {
				if d == hostBin {
					leads = true
				}
			}
			if !leads {
				ro.hostLeak = append(ro.hostLeak, strings.ReplaceAll(string(pv), dir, "$RUN"))
			}
		}
	}
	for _, sd := range sentinels {
		ro.outside = append(ro.outside, diffSnapshots(sd, before[sd], snapshotTree(filepath.Join(dir, sd)))...)
	}
	ents, _ := os.ReadDir(filepath.Join(dir, "tmp"))
	for _, e := range ents {
		ro.tmpLeft = append(ro.tmpLeft, e.Name())
	}
	ents, _ = os.ReadDir(filepath.Join(dir, "wroot"))
	for _, e := range ents {
		ro.rootLeft = append(ro.rootLeft, e.Name())
	}
	for i := range b.Scripts {
		name := b.Scripts[i].Name
		wd := ""
		if b.Retain == "workdirroot" {
			wd = filepath.Join(dir, "wroot", "script-"+name)
		} else if len(ro.tmpLeft) == 1 {
			wd = filepath.Join(dir, "tmp", ro.tmpLeft[0], "script-"+name)
		}
		if wd != "" {
			if st, err := os.Stat(wd); err == nil && st.IsDir() {
				ro.finalTree[name] = treeStringIn(wd, wd, dir)
			}
		}
	}
	// nothing of this run survives
	syscall.Kill(-cmd.Process.Pid, syscall.SIGKILL)
	return ro
}

// makeHostSentinels creates the tree the scripts' links point to (hostSentinelSpec).
func makeHostSentinels(host string, owner int) {
	os.MkdirAll(host, 0o755)
	buildTree(host, hostSentinelSpec, host, host, host)
	os.Chmod(host, 0o755)
	if owner >= 0 {
		filepath.WalkDir(host, func(p string, d os.DirEntry, err error) error {
			if err == nil {
				os.Lchown(p, owner, owner)
			}
			return nil
		})
	}
	// the times are a while ago, so that a touch shows
	old := time.Now().Add(-90 * time.Minute).Truncate(time.Second)
	filepath.WalkDir(host, func(p string, d os.DirEntry, err error) error {
		if err == nil && d.Type()&os.ModeSymlink == 0 {
			os.Chtimes(p, old, old)
		}
		return nil
	})
}

// snapshotTree: for every entry below dir (dir itself is "."; links are not followed) its type,
// permission bits, owner, size, modification time and content hash (or link target).
func snapshotTree(dir string) map[string]string {
	out := map[string]string{}
	filepath.WalkDir(dir, func(p string, d os.DirEntry, err error) error {
		rel, _ := filepath.Rel(dir, p)
		if err != nil {
			out[rel] = "unreadable"
			return nil
		}
		info, err := os.Lstat(p)
		if err != nil {
			out[rel] = "unreadable"
			return nil
		}
		uid := -1
		if st, ok := info.Sys().(*syscall.Stat_t); ok {
			uid = int(st.Uid)
		}
		desc := fmt.Sprintf("%s mode=%o uid=%d mtime=%d", typeName(info.Mode()), info.Mode()&(os.ModePerm|os.ModeSetuid|os.ModeSetgid|os.ModeSticky), uid, info.ModTime().UnixNano())
		switch {
		case info.Mode().IsRegular():
			data, _ := os.ReadFile(p)
			h := sha256.Sum256(data)
			desc += fmt.Sprintf(" size=%d sha256=%s", info.Size(), hex.EncodeToString(h[:8]))
		case info.Mode()&os.ModeSymlink != 0:
			tg, _ := os.Readlink(p)
			desc = fmt.Sprintf("link uid=%d -> %s", uid, tg) // mode and time of a link itself say nothing
		}
		out[rel] = desc
		return nil
	})
	return out
}

func typeName(m os.FileMode) string {
	switch {
	case m.IsDir():
		return "dir"
	case m.IsRegular():
		return "file"
	case m&os.ModeSymlink != 0:
		return "link"
	}
	return "other"
}

func diffSnapshots(what string, before, after map[string]string) []string {
	var out []string
	for rel, b := range before {
		a, ok := after[rel]
		switch {
		case !ok:
			out = append(out, fmt.Sprintf("$RUN/%s/%s is gone (was: %s)", what, rel, b))
		case a != b:
			out = append(out, fmt.Sprintf("$RUN/%s/%s was [%s] and is now [%s]", what, rel, b, a))
		}
	}
	for rel, a := range after {
		if _, ok := before[rel]; !ok {
			out = append(out, fmt.Sprintf("$RUN/%s/%s has appeared (%s)", what, rel, a))
		}
	}
	sort.Strings(out)
	return out
}

// removeEscaped removes /<name> if it is a regular file with one of the harness's canary names and
// reports whether it was there.
func removeEscaped(name string) bool {
	if !safeWorkName(name) {
		return false
	}
	p := "/" + name
	st, err := os.Lstat(p)
	if err != nil || !st.Mode().IsRegular() {
		return false
	}
	os.Remove(p)
	return true
}

func (ro *runObs) cleanup() {
	// read-only directories left by retention have to be made writable first
	filepath.WalkDir(ro.dir, func(p string, d os.DirEntry, err error) error {
		if err == nil && d.IsDir() {
			os.Chmod(p, 0o777)
		}
		return nil
	})
	os.RemoveAll(ro.dir)
}

// ---------------------------------------------------------------- canonical rendering (as ocaml/tsbatch/driver.ml)

func ints(xs []int) string {
	ss := make([]string, len(xs))
	for i, x := range xs {
		ss[i] = strconv.Itoa(x)
	}
	return "(" + strings.Join(ss, ",") + ")"
}

func sortedUnique(xs []int) []int {
	ys := append([]int{}, xs...)
	sort.Ints(ys)
	out := ys[:0]
	for i, y := range ys {
		if i == 0 || y != ys[i-1] {
			out = append(out, y)
		}
	}
	return out
}

// renderEnv: the latest entry of each name, the work directory abbreviated, sorted by name.
func renderEnv(list []string, workdir string, dropPWD bool) string {
	return renderEnvRun(list, workdir, "", dropPWD)
}

// renderEnvRun additionally abbreviates the scratch directory of the run (which is part of the host
// PATH the harness gives the child) so that runs can be compared with each other.
func renderEnvRun(list []string, workdir, rundir string, dropPWD bool) string {
	m := map[string]string{}
	for _, kv := range list {
		k, v, ok := strings.Cut(kv, "=")
		if !ok {
			continue
		}
		if k == "" { // "=..." cannot occur here; names such as "/" and ":" are ordinary
			continue
		}
		m[k] = v
	}
	if dropPWD {
		delete(m, "PWD")
	}
	keys := make([]string, 0, len(m))
	for k := range m {
		keys = append(keys, k)
	}
	sort.Strings(keys)
	parts := make([]string, len(keys))
	for i, k := range keys {
		v := m[k]
		if workdir != "" {
			v = strings.ReplaceAll(v, workdir, "$WORK")
		}
		if rundir != "" {
			v = strings.ReplaceAll(v, rundir, "$RUN")
		}
		parts[i] = hx(k) + "=" + hx(v)
	}
	return "{" + strings.Join(parts, ",") + "}"
}

func relCwd(workdir, cwd string) string {
	r, err := filepath.Rel(workdir, cwd)
	if err != nil {
		return "?" + cwd
	}
	return r
}

func canonScript(o *ScriptObs, rundir, final string, present bool) string {
	setup := ""
	if o.HaveSetup {
		setup = renderEnvRun(o.SetupEnv, o.Workdir, rundir, false) + "@" + o.SetupTree
	}
	var pb strings.Builder
	for _, p := range o.Probes {
		// the environment of the program includes the PWD it was given (the model: child_env)
		pb.WriteString(";" + relCwd(o.Workdir, p.Cwd) + "@" + renderEnvRun(p.Env, o.Workdir, rundir, false) + "@" + p.Tree)
	}
	var hs []int
	for _, b := range o.Bg {
		hs = append(hs, b.H)
	}
	wp := "0"
	if present {
		wp = "1"
	} else {
		final = "[]"
	}
	return fmt.Sprintf("%s regs=%s runs=%s bg=%s/%s/%s wp=%s setup=%s probes=%d%s final=%s",
		o.Verdict, ints(o.Regs), ints(o.Runs), ints(hs), ints(sortedUnique(hs)), ints(sortedUnique(hs)),
		wp, setup, len(o.Probes), pb.String(), final)
}

var reEscapedFile = regexp.MustCompile(`^verif_c04_(up|planted|abs|home)_[a-z0-9]+\.txt$`)
var reTmpRoot = regexp.MustCompile(`go-test-script[0-9]+`)
var reExit = regexp.MustCompile(` exit=(\w+)`)
var reConds = regexp.MustCompile(` conds=\([^)]*\)`)

// splitModel: per-script canonical strings (without exit= and conds=), their exit kinds, the shared tail.
func splitModel(ans string) (scripts, exits []string, tail string) {
	parts := strings.SplitN(ans, " || ", 2)
	if len(parts) == 2 {
		tail = parts[1]
	}
	for _, s := range strings.Split(parts[0], " | ") {
		ex := ""
		if m := reExit.FindStringSubmatch(s); m != nil {
			ex = m[1]
		}
		s = reExit.ReplaceAllString(s, "")
		s = reConds.ReplaceAllString(s, "")
		scripts = append(scripts, s)
		exits = append(exits, ex)
	}
	return
}

// ---------------------------------------------------------------- expected setup tree, computed here

func expectedSetupTree(s *Script) (string, bool) {
	type node struct {
		dir  bool
		data string
	}
	t := map[string]*node{".tmp": {dir: true}}
	for _, f := range s.Files {
		if f.Escape != "" {
			return "", false // the name leaves the work directory: setup has to refuse it
		}
		segs := strings.Split(f.Path, "/")
		for i := 1; i < len(segs); i++ {
			p := strings.Join(segs[:i], "/")
			if n := t[p]; n != nil {
				if !n.dir {
					return "", false
				}
				continue
			}
			t[p] = &node{dir: true}
		}
		if n := t[f.Path]; n != nil && n.dir {
			return "", false
		}
		t[f.Path] = &node{data: fileData(f.Data)}
	}
	var ents []string
	for p, n := range t {
		if n.dir {
			ents = append(ents, p+":d")
		} else {
			ents = append(ents, p+":f"+hx(n.data))
		}
	}
	sort.Strings(ents)
	return "[" + strings.Join(ents, ",") + "]", true
}

// ---------------------------------------------------------------- evaluation of one batch

type finding struct {
	kind   string // impl-violation | correspondence
	oracle string
	detail string
	model  string
	impl   string
}

func specKey(b *Batch) string {
	j, _ := json.Marshal(b)
	h := sha256.Sum256(j)
	return hex.EncodeToString(h[:8])
}

func (rn *runner) aloneCanon(b *Batch, i int) (string, string, string) {
	one := *b
	one.Scripts = []Script{b.Scripts[i]}
	one.Scripts[0].DelayMs = 0
	one.Scripts[0].Base = ""  // alone, the file is called after the name it had in the batch
	one.Procs, one.Par = 2, 8 // the solitary run does not depend on the variant of the batch
	key := specKey(&one)
	rn.aloneMu.Lock()
	ar := rn.alone[key]
	if ar == nil {
		ar = &aloneRes{}
		rn.alone[key] = ar
	}
	rn.aloneMu.Unlock()
	ar.once.Do(func() {
		ro := rn.runBatch(&one, nil, nil)
		defer ro.cleanup()
		if ro.res == nil || len(ro.res.Scripts) != 1 {
			ar.err = "solitary run produced no result: " + tail(ro.output, 400)
			return
		}
		name := one.Scripts[0].Name
		ft, present := ro.finalTree[name]
		ar.canon = canonScript(ro.res.Scripts[0], ro.dir, ft, present)
		ar.modes = canonModes(ro.res.Scripts[0])
	})
	return ar.canon, ar.modes, ar.err
}

func tail(s string, n int) string {
	if len(s) > n {
		return s[len(s)-n:]
	}
	return s
}

// evalBatch runs the batch, applies every oracle and compares with the model.
func (rn *runner) evalBatch(b *Batch, withAlone bool, sched []int) ([]finding, *runObs) {
	var fs []finding
	add := func(kind, oracle, detail, model, impl string) {
		fs = append(fs, finding{kind, oracle, detail, model, impl})
	}
	if err := b.validate(); err != nil {
		add("correspondence", "spec-refused", err.Error(), "", "")
		return fs, &runObs{dir: filepath.Join(rn.work, "refused"), finalTree: map[string]string{}}
	}
	ro := rn.runBatch(b, nil, sched)
	if strings.Contains(ro.output, "DATA RACE") {
		add("impl-violation", "race-detector", "the race detector reported a data race while the batch ran: "+tail(ro.output, 1500), "", "")
	}
	if ro.timedOut {
		add("impl-violation", "hang", "RunT and its subtests did not finish within 60 s: "+tail(ro.output, 1500), "", "")
		return fs, ro
	}
	if ro.res == nil {
		add("correspondence", "child-crashed", fmt.Sprintf("the child produced no result (exit %d): %s", ro.exitCode, tail(ro.output, 1500)), "", "")
		return fs, ro
	}
	if ro.res.Error != "" || ro.res.RootFatal != "" {
		add("correspondence", "child-error", ro.res.Error+" "+ro.res.RootFatal, "", "")
		return fs, ro
	}
	// ---- direct oracles
	// every subtest has its own name, hence its own work directory: the names RunT gives are the base
	// names made unique
	{
		var want []string
		for i := range b.Scripts {
			want = append(want, b.Scripts[i].Name)
		}
		seen := map[string]bool{}
		dup := false
		for _, n := range ro.res.Names {
			if seen[n] {
				dup = true
			}
			seen[n] = true
		}
		if dup {
			add("impl-violation", "workdir/shared", fmt.Sprintf("two subtests of one RunT call were given the same name, hence the same work directory: script files %v got the names %v", bases(b), ro.res.Names), fmt.Sprint(want), fmt.Sprint(ro.res.Names))
			return fs, ro
		}
		// ... and no two calls of Params.Setup were handed the same work directory
		dirs := map[string]int{}
		for _, d := range ro.res.SetupDirs {
			dirs[d]++
		}
		for _, d := range ro.res.SetupDirs {
			if dirs[d] > 1 {
				add("impl-violation", "workdir/shared", fmt.Sprintf("Params.Setup was called %d times with the work directory %s: script files %v got the names %v", dirs[d], filepath.Base(d), bases(b), ro.res.Names), fmt.Sprint(want), fmt.Sprint(ro.res.SetupDirs))
				return fs, ro
			}
		}
		if fmt.Sprint(want) != fmt.Sprint(ro.res.Names) {
			add("correspondence", "names", "RunT named the subtests differently from the harness's expectation", fmt.Sprint(want), fmt.Sprint(ro.res.Names))
			return fs, ro
		}
	}
	if len(ro.hostLeak) > 0 {
		add("impl-violation", "env/host-path", "a program that only the PATH of the test process leads to ($RUN/bin/hostcanary) was run by its bare name from a script whose PATH is "+strings.Join(ro.hostLeak, " | "), "", "")
	}
	if len(ro.outside) > 0 {
		add("impl-violation", "outside/modified", "the run changed files outside the work directories of its scripts (the scripts only ever name them as targets of symbolic links they create inside their work directories): "+strings.Join(ro.outside, "; "), "", "")
	}
	if len(ro.escaped) > 0 {
		add("impl-violation", "workdir/escape", "archive entries were unpacked outside the work directory of their script, at "+strings.Join(ro.escaped, ", "), "", "")
	}
	if len(ro.alive) > 0 {
		add("impl-violation", "process-left", "processes started by the scripts are still alive after RunT returned: pids "+strings.Join(ro.alive, ","), "", "")
	}
	switch b.Retain {
	case "":
		if len(ro.tmpLeft) > 0 {
			add("impl-violation", "leftover/tmp", "the private TMPDIR/GOTMPDIR is not empty after the run: "+strings.Join(ro.tmpLeft, ","), "", "")
		}
	case "workdirroot":
		if len(ro.tmpLeft) > 0 {
			add("impl-violation", "leftover/tmp", "WorkdirRoot was given but the temporary directory holds "+strings.Join(ro.tmpLeft, ","), "", "")
		}
		for i := range b.Scripts {
			if _, ok := ro.finalTree[b.Scripts[i].Name]; !ok {
				add("impl-violation", "retention/missing", "WorkdirRoot given but the work directory of "+b.Scripts[i].Name+" is gone", "", "")
			}
		}
	default:
		if len(ro.tmpLeft) != 1 {
			add("impl-violation", "retention/missing", "retention requested but the temporary directory holds "+strings.Join(ro.tmpLeft, ","), "", "")
		}
		for i := range b.Scripts {
			if _, ok := ro.finalTree[b.Scripts[i].Name]; !ok {
				add("impl-violation", "retention/missing", "retention requested but the work directory of "+b.Scripts[i].Name+" is gone", "", "")
			}
		}
	}
	// the shared root is one and the same directory for every script of the batch: it is not removed
	// (and made again by the next MkdirAll) while scripts are still to run
	{
		var first uint64
		who := ""
		for _, o := range ro.res.Scripts {
			if o.RootIno == 0 {
				continue
			}
			if first == 0 {
				first, who = o.RootIno, o.Name
			} else if o.RootIno != first {
				add("impl-violation", "root/recreated", fmt.Sprintf("the temporary root seen by script %s (inode %d) is not the directory script %s saw (inode %d): it was removed and made again while the batch was running", o.Name, o.RootIno, who, first), "", "")
				break
			}
		}
	}
	canon := make([]string, len(b.Scripts))
	for i, o := range ro.res.Scripts {
		ft, present := ro.finalTree[o.Name]
		canon[i] = canonScript(o, ro.dir, ft, present)
		// the canary of the host environment is nowhere
		for _, kv := range append(append([]string{}, o.SetupEnv...), flatEnv(o.Probes)...) {
			if strings.Contains(kv, ro.canary) || strings.HasPrefix(kv, "VERIF_CANARY=") {
				add("impl-violation", "env/canary", "host variable visible to script "+o.Name+": "+kv, "", "")
				break
			}
		}
		// what a program started by the script sees: its PWD is the directory it runs in, which is a
		// directory of the script's own work directory (foreground commands: the probes; background
		// commands: the helpers record their environment when they start)
		type childView struct {
			what, cwd string
			env       []string
		}
		var views []childView
		for k, p := range o.Probes {
			views = append(views, childView{fmt.Sprintf("probe %d (foreground exec)", k+1), p.Cwd, p.Env})
		}
		for _, bg := range o.Bg {
			var rec struct {
				Cwd string   `json:"cwd"`
				Env []string `json:"env"`
			}
			if data, err := os.ReadFile(filepath.Join(ro.dir, "obs", fmt.Sprintf("bgenv-%d.json", bg.Pid))); err == nil && json.Unmarshal(data, &rec) == nil {
				views = append(views, childView{fmt.Sprintf("background command b%d (exec &)", bg.H), rec.Cwd, rec.Env})
			}
		}
		for _, v := range views {
			rn.rmu.Lock()
			rn.res.Count("child-env-views")
			rn.rmu.Unlock()
			pwd, has := "", false
			for _, kv := range v.env {
				if val, ok := strings.CutPrefix(kv, "PWD="); ok {
					pwd, has = val, true
				}
				if strings.Contains(kv, ro.canary) || strings.HasPrefix(kv, "VERIF_CANARY=") {
					add("impl-violation", "env/canary", "host variable visible to a program started by script "+o.Name+" ("+v.what+"): "+kv, "", "")
					break
				}
			}
			if !has || pwd != v.cwd {
				got := "no PWD at all"
				if has {
					got = "PWD=" + pwd
				}
				add("impl-violation", "env/child-pwd", fmt.Sprintf("script %s, %s: the program runs in %s but its environment has %s", o.Name, v.what,
					strings.ReplaceAll(v.cwd, o.Workdir, "$WORK"), strings.ReplaceAll(got, o.Workdir, "$WORK")), "PWD="+strings.ReplaceAll(v.cwd, o.Workdir, "$WORK"), got)
				break
			}
			if o.Workdir != "" && v.cwd != o.Workdir && !strings.HasPrefix(v.cwd, o.Workdir+"/") {
				add("impl-violation", "workdir/child-cwd", fmt.Sprintf("script %s, %s: the program runs in %s, outside the work directory of its script", o.Name, v.what, v.cwd), "", "")
				break
			}
		}
		// testscript's own failNow panic (ts.Fatalf, ts.Check) never leaves RunT: under testing.T the test
		// binary would die of it, the sibling scripts be abandoned with their processes and the root
		if o.Panic == "fail now!" {
			add("impl-violation", "panic/failnow-escaped", fmt.Sprintf("script %s: the internal \"fail now!\" panic of ts.Fatalf / ts.Check left RunT through the subtest function (a deferred function of the script ends with ts.Fatalf): under testing.T it kills the test binary", o.Name), "FAIL", "PANIC: "+o.Panic)
		}
		if len(o.AliveAtEnd) > 0 {
			add("impl-violation", "process-left/at-script-end", fmt.Sprintf("script %s (%s): when its subtest function returned, background commands it had started were still running and had not been waited for: %s", o.Name, o.Verdict, strings.Join(o.AliveAtEnd, ", ")), "", strings.Join(o.AliveAtEnd, ","))
		}
		// $WORK at start = the archive
		want, ok := expectedSetupTree(&b.Scripts[i])
		if o.HaveSetup && (!ok || o.SetupTree != want) {
			add("impl-violation", "workdir/exact", "work directory of "+o.Name+" at setup differs from its archive", want, o.SetupTree)
		}
		if !o.HaveSetup && ok && o.Verdict != "" {
			add("impl-violation", "workdir/exact", "setup of "+o.Name+" did not reach Params.Setup although its archive is consistent", want, "")
		}
		// deferred functions: reverse order, once each, on every exit path
		if o.Verdict != "" {
			rev := make([]int, len(o.Regs))
			for k, x := range o.Regs {
				rev[len(o.Regs)-1-k] = x
			}
			if ints(rev) != ints(o.Runs) {
				add("impl-violation", "defers/lifo", fmt.Sprintf("script %s (%s): registered %v, ran %v", o.Name, o.Verdict, o.Regs, o.Runs), ints(rev), ints(o.Runs))
			}
		}
	}
	if withAlone {
		type ar struct{ canon, modes, err string }
		outs := make([]ar, len(b.Scripts))
		var wg sync.WaitGroup
		for i := range b.Scripts {
			wg.Add(1)
			go func(i int) {
				defer wg.Done()
				c, m, e := rn.aloneCanon(b, i)
				outs[i] = ar{c, m, e}
			}(i)
		}
		wg.Wait()
		for i := range b.Scripts {
			if outs[i].err != "" {
				add("correspondence", "alone-run", outs[i].err, "", "")
				continue
			}
			if outs[i].canon != canon[i] {
				add("impl-violation", "isolation/alone-differs", fmt.Sprintf("script %s behaves differently in the batch than alone", b.Scripts[i].Name), "alone: "+outs[i].canon, "batch: "+canon[i])
			} else if m := canonModes(ro.res.Scripts[i]); m != outs[i].modes {
				add("impl-violation", "isolation/modes-differ", fmt.Sprintf("script %s sees other permission bits on its own files in the batch than alone", b.Scripts[i].Name), "alone: "+outs[i].modes, "batch: "+m)
			}
		}
	}
	// ---- the model
	hostTab := map[[2]string]bool{}
	var normEnv []string
	for _, kv := range ro.hostEnv {
		normEnv = append(normEnv, strings.ReplaceAll(kv, ro.dir, "$RUN"))
		if v, ok := strings.CutPrefix(kv, "PATH="); ok {
			for _, p := range append([]string{"helper"}, progPool...) {
				found := lookPath(v, p)
				if strings.Contains(p, "/") {
					// a name with a separator is not searched for: it is tried as it is, relative to the
					// directory of the test process
					st, err := os.Stat(filepath.Join(ro.dir, p))
					found = err == nil && !st.IsDir() && st.Mode()&0o111 != 0
				}
				hostTab[[2]string{strings.ReplaceAll(v, ro.dir, "$RUN"), p}] = found
			}
		}
	}
	// the model under the schedule the run was driven through (gated runs), and under another one
	req := b.modelRequest(ro.isRoot, normEnv, hostTab, "helper", sched)
	ans := rn.ask(req)
	var sched2 []int
	r := common.NewRNG(uint64(len(req)) + rn.f.Seed)
	for k := 0; k < 4*len(b.Scripts); k++ {
		sched2 = append(sched2, r.Intn(len(b.Scripts)))
	}
	ans2 := rn.ask(b.modelRequest(ro.isRoot, normEnv, hostTab, "helper", sched2))
	if ans != ans2 {
		add("correspondence", "model/schedule-dependent", "the model gives different answers under two schedules", ans, ans2)
	}
	ms, exits, mtail := splitModel(ans)
	if len(ms) != len(canon) || strings.HasPrefix(ans, "MODEL-") || ans == "BAD-REQUEST" {
		add("correspondence", "model/answer", "unusable model answer", tail(ans, 600), "")
		return fs, ro
	}
	if !strings.Contains(mtail, "alone=ok") {
		add("correspondence", "model/alone", "model: batch and solitary runs differ", mtail, "")
	}
	for i := range canon {
		m, c := ms[i], canon[i]
		rn.rmu.Lock()
		rn.res.Count("exit:" + exits[i])
		rn.rmu.Unlock()
		if m != c {
			add("correspondence", "model/script", fmt.Sprintf("script %s: model and implementation differ", b.Scripts[i].Name), m, c)
		}
	}
	wantRoot := "root=1"
	if b.Retain == "" {
		wantRoot = "root=0"
	}
	if !strings.Contains(mtail, wantRoot) {
		add("correspondence", "model/root", "model's root directory state", mtail, wantRoot)
	}
	return fs, ro
}

func bases(b *Batch) []string {
	var out []string
	for i := range b.Scripts {
		out = append(out, fmt.Sprintf("%d/%s", i, b.Scripts[i].fileName()))
	}
	return out
}

func flatEnv(ps []ProbeObs) []string {
	var out []string
	for _, p := range ps {
		out = append(out, p.Env...)
	}
	return out
}

// ---------------------------------------------------------------- shrinking and reporting

func (rn *runner) hasFinding(b *Batch, oracle string, sched []int) bool {
	withAlone := strings.HasPrefix(oracle, "isolation/")
	for try := 0; try < 2; try++ {
		fs, ro := rn.evalBatch(b, withAlone, sched)
		ro.cleanup()
		for _, f := range fs {
			if f.oracle == oracle {
				return true
			}
		}
	}
	return false
}

func (rn *runner) shrink(b *Batch, oracle string, sched []int) *Batch {
	cur := *b
	minScripts := 1
	if strings.HasPrefix(oracle, "isolation/") {
		minScripts = 2
	}
	budget := 60
	bad := func(c *Batch) bool {
		if budget <= 0 {
			return false
		}
		budget--
		return rn.hasFinding(c, oracle, sched)
	}
	cur.Scripts = renamedByBases(common.ShrinkList(cur.Scripts, func(ss []Script) bool {
		if len(ss) < minScripts {
			return false
		}
		c := cur
		c.Scripts = renamedByBases(ss) // script files with equal base names: the names follow the files that are left
		return bad(&c)
	}))
	for i := range cur.Scripts {
		body := common.ShrinkList(cur.Scripts[i].Body, func(as []Action) bool {
			c := cur
			c.Scripts = append([]Script{}, cur.Scripts...)
			c.Scripts[i].Body = as
			return bad(&c)
		})
		cur.Scripts[i].Body = body
		files := common.ShrinkList(cur.Scripts[i].Files, func(fl []File) bool {
			c := cur
			c.Scripts = append([]Script{}, cur.Scripts...)
			c.Scripts[i].Files = fl
			return bad(&c)
		})
		cur.Scripts[i].Files = files
	}
	return &cur
}

func (rn *runner) report(b *Batch, fs []finding, doShrink bool, sched []int) {
	seen := map[string]bool{}
	for _, f := range fs {
		if seen[f.oracle] {
			continue
		}
		seen[f.oracle] = true
		mb := b
		rn.rmu.Lock()
		rn.nshrunk[f.oracle]++
		nth := rn.nshrunk[f.oracle]
		first := nth <= 2 // at most two witnesses per oracle are minimised
		if nth > 3 {
			// the result keeps three witnesses per oracle: the two that are being minimised (they arrive
			// late) and the next one; the others are only counted
			rn.res.Count("finding:" + f.oracle)
			rn.rmu.Unlock()
			continue
		}
		rn.rmu.Unlock()
		if doShrink && first && f.oracle != "hang" && f.oracle != "race-detector" && rn.hangs.Load() == 0 {
			mb = rn.shrink(b, f.oracle, sched)
		}
		j, _ := json.Marshal(mb)
		var txt strings.Builder
		for i := range mb.Scripts {
			txt.WriteString("==== " + mb.Scripts[i].Name + ".txt\n" + string(mb.Scripts[i].archive()))
		}
		rn.rmu.Lock()
		rn.res.Count("finding:" + f.oracle)
		rn.res.Violate(common.Violation{Kind: f.kind, Oracle: f.oracle,
			Input: map[string]string{"spec": string(j), "scripts_text": txt.String()},
			Model: f.model, Impl: f.impl, Detail: f.detail,
			Key: f.oracle + ":" + specKey(mb)})
		rn.rmu.Unlock()
	}
}

// keyOf: one report per oracle for hangs (every later batch would hang for the same reason), per batch otherwise.
func keyOf(oracle string, b *Batch) string {
	if oracle == "hang" {
		return "hang"
	}
	return oracle + ":" + specKey(b)
}

func (rn *runner) one(b *Batch, tag string, doShrink bool, sched []int) {
	fs, ro := rn.evalBatch(b, true, sched)
	rn.rmu.Lock()
	rn.res.Count("src:" + tag)
	rn.res.Count(fmt.Sprintf("scripts:%d", len(b.Scripts)))
	rn.res.Count("retain:" + b.Retain)
	if ro.isRoot {
		rn.res.Count("uid:root")
	} else {
		rn.res.Count("uid:unprivileged")
	}
	nontrivial := false
	key := ""
	if ro.res != nil {
		for _, o := range ro.res.Scripts {
			rn.res.Count("verdict:" + o.Verdict)
			if len(o.Bg) > 0 {
				rn.res.Count("has-background")
			}
			if len(o.Regs) > 0 {
				rn.res.Count("has-defers")
			}
			key += o.Verdict + ints(o.Runs) + fmt.Sprint(len(o.Probes)) + ";"
			if len(o.Bg) > 0 || len(o.Regs) > 0 || len(o.Probes) > 0 || o.Verdict != "PASS" {
				nontrivial = true
			}
		}
	}
	rn.res.Case(b.Retain+"|"+key, nontrivial)
	if len(rn.res.Samples) < 6 && ro.res != nil && len(ro.res.Scripts) > 0 {
		ft, present := ro.finalTree[ro.res.Scripts[0].Name]
		rn.res.Sample(map[string]any{"source": tag, "scripts": len(b.Scripts), "retain": b.Retain, "first_script": string(b.Scripts[0].archive()),
			"first_observation": canonScript(ro.res.Scripts[0], ro.dir, ft, present)})
	}
	rn.rmu.Unlock()
	ro.cleanup()
	if len(fs) > 0 {
		rn.report(b, fs, doShrink && sched == nil, sched)
	}
}

// loadSpec reads a batch (and the schedule it was driven through, if any) from a replay file written
// by ./check or from a plain batch file of the corpus.
func loadSpec(path string) (*Batch, []int, error) {
	data, err := os.ReadFile(path)
	if err != nil {
		return nil, nil, err
	}
	var rp struct {
		Violation struct {
			Input map[string]string `json:"input"`
		} `json:"violation"`
	}
	if err := json.Unmarshal(data, &rp); err != nil {
		return nil, nil, err
	}
	var b Batch
	if s := rp.Violation.Input["spec"]; s != "" {
		if err := json.Unmarshal([]byte(s), &b); err != nil {
			return nil, nil, err
		}
		return &b, parseSched(rp.Violation.Input["sched"]), nil
	}
	if err := json.Unmarshal(data, &b); err != nil {
		return nil, nil, err
	}
	return &b, nil, nil
}

func schedString(sched []int) string {
	if sched == nil {
		return ""
	}
	ss := make([]string, len(sched))
	for i, x := range sched {
		ss[i] = strconv.Itoa(x)
	}
	return "[" + strings.Join(ss, " ") + "]"
}

func parseSched(s string) []int {
	if s == "" {
		return nil
	}
	out := []int{}
	for _, f := range strings.Fields(strings.Trim(s, "[]")) {
		if x, err := strconv.Atoi(f); err == nil {
			out = append(out, x)
		}
	}
	return out
}

// loadCleanJob: the clean-up job of a replay file, if it holds one.
func loadCleanJob(path string) *CleanJob {
	data, err := os.ReadFile(path)
	if err != nil {
		return nil
	}
	var rp struct {
		Violation struct {
			Input map[string]string `json:"input"`
		} `json:"violation"`
	}
	if json.Unmarshal(data, &rp) != nil || rp.Violation.Input["clean_job"] == "" {
		return nil
	}
	var cj CleanJob
	if json.Unmarshal([]byte(rp.Violation.Input["clean_job"]), &cj) != nil {
		return nil
	}
	return &cj
}

// interleavings enumerates every merge of counts[i] turns of script i (at most limit of them).
func interleavings(counts []int, limit int) [][]int {
	var out [][]int
	left := append([]int{}, counts...)
	var cur []int
	var rec func()
	rec = func() {
		if len(out) >= limit {
			return
		}
		done := true
		for i := range left {
			if left[i] > 0 {
				done = false
				left[i]--
				cur = append(cur, i)
				rec()
				cur = cur[:len(cur)-1]
				left[i]++
			}
		}
		if done {
			out = append(out, append([]int{}, cur...))
		}
	}
	rec()
	return out
}

// turns: a script of n actions takes n+1 turns of a gated run (Parallel to the first gate, then one
// per line; the last one runs to the end of the script).
func turns(s *Script) int { return len(s.Body) + 1 }

// escapeBatch is the two-script archive of the entry-name defect: a's archive names files outside its
// work directory, among them one inside b's.
func escapeBatch() Batch {
	a := Script{Name: "a", Files: []File{{Path: "a.txt", Data: "x\n"}, {Escape: "up", Data: "up\n"}, {Escape: "sibling:b", Data: "planted by a\n"},
		{Escape: "abs", Data: "absolute\n"}, {Escape: "home", Data: "via HOME\n"}}, Body: []Action{{Op: "O"}}}
	b := Script{Name: "b", DelayMs: 250, Files: []File{{Path: "own.txt", Data: "y\n"}}, Body: []Action{{Op: "O"}}}
	return Batch{Procs: 2, Par: 8, Canary: true, Scripts: []Script{a, b}}
}

func dupNamesBatch() Batch {
	mk := func(name, base, data string) Script {
		return Script{Name: name, Base: base, Files: []File{{Path: "who.txt", Data: data}},
			Body: []Action{{Op: "O"}, {Op: "W", Path: "mine-" + data, Data: data}, {Op: "D", ID: 1}, {Op: "O"}}}
	}
	b := Batch{Procs: 4, Par: 8, Canary: true}
	b.Scripts = []Script{mk("foo#1", "foo#1", "c"), mk("foo", "foo", "a"), mk("foo#2", "foo", "b"), mk("bar", "bar", "d"), mk("bar#1", "bar", "e")}
	b.Scripts[0].DelayMs, b.Scripts[2].DelayMs = 30, 60
	return b
}

// namesBatch: one script file per element of fileBases, each in a directory of its own, in that order,
// with the names RunT has to give them; every script has one archive file and writes one more, both
// called after its position, and looks at its work directory before and after.
func namesBatch(fileBases, exts []string) Batch {
	b := Batch{Procs: 4, Par: 8, Canary: true}
	names := uniqueNames(fileBases)
	for i, base := range fileBases {
		data := fmt.Sprintf("f%d", i)
		b.Scripts = append(b.Scripts, Script{Name: names[i], Base: base, Ext: exts[i%len(exts)], Files: []File{{Path: "who-" + data + ".txt", Data: data}},
			Body: []Action{{Op: "O"}, {Op: "W", Path: "mine-" + data, Data: data}, {Op: "O"}}})
	}
	return b
}

// genNameBases: 2-5 files of one base name mixed with 0-4 files whose base names already look like
// disambiguated names of it (x#1, x#2, x#1#1, ...; repeated ones too) or are unrelated, shuffled.
func genNameBases(r *common.RNG) []string {
	x := common.Pick(r, []string{"a", "foo", "s1", "x9"})
	var bs []string
	for k := 2 + r.Intn(4); k > 0; k-- {
		bs = append(bs, x)
	}
	pool := []string{x + "#1", x + "#2", x + "#1#1", x + "#3", x + "#1", x + "#2#1", x + "#1#2", "other", x + "1"}
	for k := r.Intn(5); k > 0; k-- {
		bs = append(bs, common.Pick(r, pool))
	}
	for i := len(bs) - 1; i > 0; i-- {
		j := r.Intn(i + 1)
		bs[i], bs[j] = bs[j], bs[i]
	}
	return bs
}

// linkPair: a makes links into b's work directory (to a read-only file, a read-only directory, the
// directory itself), removes some of them with rm and is cleaned up; b looks at its own files before
// and after.
func linkPair() Batch {
	a := Script{Name: "a", Files: []File{{Path: "a.txt", Data: "x\n"}}, Body: []Action{
		{Op: "L", Path: "lnk0", Key: "sibling:b:ro0.txt"}, {Op: "M", Path: "x"}, {Op: "L", Path: "x/lnk1", Key: "sibling:b:ro"},
		{Op: "L", Path: "x/lnk2", Key: "sibling:b"}, {Op: "R", Path: "x"}, {Op: "O"}}}
	b := Script{Name: "b", Files: []File{{Path: "a.txt", Data: "y\n"}}, Body: []Action{
		{Op: "Q", Path: "ro0.txt", Data: "mine\n"}, {Op: "M", Path: "ro", Flag: true}, {Op: "O"}, {Op: "O"}, {Op: "O"}}}
	return Batch{Procs: 2, Par: 8, Canary: true, Scripts: []Script{a, b}}
}

// setupVarsBatch: Params.Setup functions that drop, empty or filter Env.Vars (a hermetic allow-list that
// may keep nothing), scripts that start programs (foreground probes, background commands by name and by
// absolute path) before and after their first `env` line and after cd.
func setupVarsBatch() Batch {
	files := []File{{Path: "a.txt", Data: "x\n"}, {Path: "d/b.txt", Data: "y\n"}}
	b := Batch{Procs: 4, Par: 8, Canary: true, Cover: true}
	b.Scripts = []Script{
		{Name: "varsnil", SetupVars: "nil", Files: files, Body: []Action{{Op: "O"}, {Op: "C", Path: "d"}, {Op: "O"}, {Op: "G", ID: 30, Flag: true}, {Op: "E", Key: "FOO", Data: "1"}, {Op: "O"}}},
		{Name: "varsempty", SetupVars: "empty", Files: files, Body: []Action{{Op: "G", ID: 31, Flag: true}, {Op: "O"}, {Op: "M", Path: "n"}, {Op: "C", Path: "n"}, {Op: "O"}}},
		{Name: "varsnone", SetupVars: "keep:NOSUCHVAR", Files: files, Body: []Action{{Op: "O"}, {Op: "G", ID: 30, Flag: true}, {Op: "F"}}},
		{Name: "varskeep", SetupVars: "keep:WORK,PATH,:", Files: files, Body: []Action{{Op: "O"}, {Op: "G", ID: 1, Flag: true}, {Op: "P", Path: "d", Flag: true}, {Op: "C", Path: "d"}, {Op: "O"}}},
		{Name: "varshome", SetupVars: "keep:PATH,HOME", Files: files, Body: []Action{{Op: "H", Key: "hostcanary"}, {Op: "O"}, {Op: "G", ID: 32}, {Op: "O"}}},
		{Name: "varsadds", SetupVars: "nil", Adds: []KV{{"EXTRA", "v"}}, Files: files, Body: []Action{{Op: "O"}, {Op: "G", ID: 30, Flag: true}, {Op: "S"}}},
		{Name: "varsplain", Files: files, Adds: []KV{{"SUB", "$WORK/sub"}}, Body: []Action{{Op: "O"}, {Op: "C", Path: "d"}, {Op: "G", ID: 30, Flag: true}, {Op: "G", ID: 1, Flag: true}, {Op: "E", Key: "PWD", Data: "/elsewhere"}, {Op: "O"}}},
	}
	return b
}

// deferExitsBatch: deferred functions (registered by Setup and by the script) that do not return - they
// panic, fail or skip the test through its T, call ts.Fatalf - in runs that leave the script loop early
// (a failing line, a custom command ending the run through T.Skip / T.FailNow / T.Fatal, a panicking
// command) while background commands are still running, one of them slow to shut down; and the same
// early exits without any deferred function.
func deferExitsBatch() Batch {
	b := Batch{Procs: 4, Par: 8, Canary: true}
	kinds := []struct {
		name string
		id   int
		bad  bool
	}{{"panic", 7, true}, {"failnow", 200, false}, {"fatal", 201, false}, {"skip", 300, false}, {"tsfatalf", 400, false}}
	exits := []struct {
		name string
		act  []Action
	}{{"fail", []Action{{Op: "F"}}}, {"tskip", []Action{{Op: "S"}}}, {"tfail", []Action{{Op: "A"}}}, {"tfatal", []Action{{Op: "A", Flag: true}}},
		{"boom", []Action{{Op: "Z"}}}, {"skipcmd", []Action{{Op: "K"}}}, {"end", nil}, {"stop", []Action{{Op: "T"}}}}
	n := 0
	for ki, k := range kinds {
		for ei, e := range exits {
			// every kind with every early exit; the orderly ends (skip command, end of script, stop) with two kinds each
			if ei >= 5 && (ki+ei)%3 != 0 {
				continue
			}
			n++
			body := []Action{{Op: "D", ID: 1}, {Op: "D", ID: k.id, Flag: k.bad}, {Op: "G", ID: 1, Flag: true}}
			if n%3 == 0 {
				body = append(body, Action{Op: "G", ID: 50 + n, Flag: true})
			}
			body = append(body, Action{Op: "D", ID: 2}, Action{Op: "O"})
			body = append(body, e.act...)
			sc := Script{Name: fmt.Sprintf("%s%s", k.name, e.name), Files: []File{{Path: "a.txt", Data: "x\n"}}, Body: body}
			if n%4 == 1 && k.name != "tsfatalf" {
				// the same kind of function registered by Params.Setup as well
				sc.Defers = []DeferSpec{{ID: 100}, {ID: k.id + 10, Bad: k.bad}}
			}
			b.Scripts = append(b.Scripts, sc)
		}
	}
	// early exits that do not set ts.failed, a background command that takes a while to shut down, no
	// deferred function at all
	for _, e := range exits[1:5] {
		b.Scripts = append(b.Scripts, Script{Name: "slow" + e.name, Files: []File{{Path: "a.txt", Data: "x\n"}},
			Body: append([]Action{{Op: "G", ID: 60, Flag: true}, {Op: "G", ID: 2, Flag: true}, {Op: "O"}}, e.act...)})
	}
	return b
}

// execPathCondPair: as execCachePair, with a program name that has a separator: such a name is not
// looked up on any PATH and not relative to the script's directory either, so neither script finds it.
func execPathCondPair() Batch {
	a := Script{Name: "a", Files: []File{{Path: "bin/mytool", Data: "#!/bin/sh\nexit 0\n"}},
		Body: []Action{{Op: "X", Path: "bin/mytool"}, {Op: "I", Key: "bin/mytool", Sub: &Action{Op: "T"}}, {Op: "C", Path: "bin"},
			{Op: "I", Key: "./mytool", Sub: &Action{Op: "T"}}, {Op: "F"}}}
	b := Script{Name: "b", DelayMs: 250,
		Body: []Action{{Op: "I", Key: "bin/mytool", Sub: &Action{Op: "F"}}, {Op: "I", Key: "./mytool", Sub: &Action{Op: "F"}}, {Op: "O"}}}
	return Batch{Procs: 2, Par: 8, Canary: true, Scripts: []Script{a, b}}
}

// bigTreesBatch: a script with a large work directory and small scripts that finish just after it, while
// its clean-up is under way (Script.EndMark / EndAfter): the last one to finish - the one that has to
// remove the shared root - is a quick one, and the big one is still being removed.
func bigTreesBatch(files int) Batch {
	b := Batch{Procs: 4, Par: 8, Canary: true}
	big := Script{Name: "big", EndMark: true, Body: []Action{{Op: "D", ID: 1}}}
	for k := 0; k < files; k++ {
		big.Files = append(big.Files, File{Path: fmt.Sprintf("t/d%d/e%d/f%d.txt", k%7, k%5, k), Data: "x\n"})
	}
	small := func(name string, after ...string) Script {
		return Script{Name: name, EndAfter: after, Files: []File{{Path: "a.txt", Data: "x\n"}}, Body: []Action{{Op: "D", ID: 1}, {Op: "O"}}}
	}
	mid := Script{Name: "mid", EndMark: true, EndAfter: []string{"big"}, Body: []Action{{Op: "D", ID: 2}}}
	for k := 0; k < files/4; k++ {
		mid.Files = append(mid.Files, File{Path: fmt.Sprintf("u/d%d/f%d.txt", k%9, k), Data: "y\n"})
	}
	b.Scripts = []Script{big, small("early"), mid, small("afterbig", "big"), small("last", "big", "mid")}
	return b
}

func rep(i, n int) []int {
	out := make([]int, n)
	for k := range out {
		out[k] = i
	}
	return out
}

type item struct {
	b     Batch
	tag   string
	sched []int // nil: free-running
	clean *CleanJob
}

func (rn *runner) mainC04() {
	f, res := rn.f, rn.res
	if f.Replay != "" {
		if cj := loadCleanJob(f.Replay); cj != nil {
			rn.oneCleanup(cj, "replay")
			res.Rule = "replay of one recorded clean-up job"
			return
		}
		b, sched, err := loadSpec(f.Replay)
		if err != nil {
			res.Notes = append(res.Notes, "cannot load replay: "+err.Error())
			res.Violate(common.Violation{Kind: "correspondence", Oracle: "replay", Key: "replay", Detail: err.Error(), Input: map[string]string{}})
			return
		}
		for i := 0; i < 3; i++ {
			rn.one(b, "replay", false, sched)
		}
		res.Rule = "replay of one recorded batch (three runs)"
		return
	}
	var items []item
	addB := func(b Batch, tag string) { items = append(items, item{b: b, tag: tag}) }
	addG := func(b Batch, tag string, sched []int) {
		if sched == nil {
			sched = []int{}
		}
		items = append(items, item{b: b, tag: tag, sched: sched})
	}
	// 1. corpus
	if f.Corpus != "" {
		ents, _ := filepath.Glob(filepath.Join(f.Corpus, "*.json"))
		sort.Strings(ents)
		for _, e := range ents {
			if b, sched, err := loadSpec(e); err == nil {
				items = append(items, item{b: *b, tag: "corpus", sched: sched})
				if rn.nonRoot {
					nb := *b
					nb.NonRoot = !b.NonRoot
					items = append(items, item{b: nb, tag: "corpus", sched: sched})
				}
			} else {
				res.Notes = append(res.Notes, "corpus file skipped: "+err.Error())
			}
		}
	}
	// 2. hand-written batches: the execCache pair in both start orders and, gated, under every
	//    interleaving of its lines; the entry-name pair; a batch without scripts; every exit path with
	//    defers, background processes and read-only directories under every retention mode, also with
	//    ContinueOnError
	pair := execCachePair()
	addB(pair, "hand")
	rev := execCachePair()
	rev.Scripts[0].DelayMs, rev.Scripts[1].DelayMs = 250, 0
	addB(rev, "hand")
	gp := execCachePair()
	gp.Scripts[1].DelayMs = 0
	for _, sc := range interleavings([]int{turns(&gp.Scripts[0]), turns(&gp.Scripts[1])}, 64) {
		addG(gp, "gated-enumerated", sc)
	}
	// links from one script into the other's work directory, under schedules that put a's `rm` and a's
	// clean-up between two looks of b at its own files
	for k, retain := range []string{"", "", "testwork"} {
		lp := linkPair()
		lp.Retain, lp.NonRoot = retain, rn.nonRoot && k != 1
		addB(lp, "hand-links")
		addG(lp, "gated-links", append(append(rep(1, 3), rep(0, 7)...), rep(1, 3)...))
		addG(lp, "gated-links", append(append(append(append(rep(1, 3), rep(0, 6)...), 1), 0), rep(1, 2)...))
		addG(lp, "gated-links", append(rep(0, 7), rep(1, 6)...))
		addG(lp, "gated-links", []int{0, 1, 0, 1, 0, 1, 0, 1, 0, 1, 0, 1, 0})
	}
	// clean-up jobs: trees with every kind of link, every way a script can end, with and without rm
	for _, cj := range handCleanJobs(rn.nonRoot) {
		cj := cj
		items = append(items, item{tag: "cleanup-hand", clean: &cj})
	}
	{
		rc := common.NewRNG(f.Seed ^ 0x5eed04)
		nc := rn.size("TSBATCH_CLEAN_QUICK", 12)
		if f.Tier == "thorough" {
			nc = rn.size("TSBATCH_CLEAN_THOROUGH", 200)
		}
		for i := 0; i < nc; i++ {
			cj := genCleanJob(rc, rn.nonRoot)
			items = append(items, item{tag: "cleanup-generated", clean: &cj})
		}
	}
	eb := escapeBatch()
	addB(eb, "hand")
	// the same with script names of which one is a string prefix of the other (a, a2)
	eb3 := escapeBatch()
	eb3.Scripts[1].Name = "a2"
	eb3.Scripts[0].Files = []File{{Path: "a.txt", Data: "x\n"}, {Escape: "sibling:a2", Data: "planted by a\n"}}
	addB(eb3, "hand")
	// script files with the same base name in different directories, one of them looking like a
	// disambiguated name: c/foo#1.txt, a/foo.txt, b/foo.txt must run as foo#1, foo, foo#2
	addB(dupNamesBatch(), "hand")
	dn := dupNamesBatch()
	dn.Retain = "testwork"
	addB(dn, "hand")
	// Params.Files with 2-5 files of one base name in different directories, mixed with base names that
	// already carry counter-like suffixes (a#1.txt, a#2.txtar, a#1#1.txt), in several orders: every
	// script must get a name, hence a work directory, of its own
	{
		rnm := common.NewRNG(f.Seed ^ 0x6e616d65)
		lists := [][]string{{"foo", "foo", "foo"}, {"a", "a", "a#1", "a#1#1", "a", "a#2", "a"}}
		nn := rn.size("TSBATCH_NAMES_QUICK", 3)
		if f.Tier == "thorough" {
			nn = rn.size("TSBATCH_NAMES_THOROUGH", 60)
		}
		for i := 0; i < nn; i++ {
			lists = append(lists, genNameBases(rnm))
		}
		for i, bs := range lists {
			exts := common.Pick(rnm, [][]string{{"txt", "txtar"}, {"txtar", "txt", "txt"}, {"txt"}, {"txtar"}})
			nb := namesBatch(bs, exts)
			nb.Retain = []string{"", "", "testwork", "workdirroot"}[i%4]
			nb.NonRoot = rn.nonRoot && i%2 == 1
			nb.SeqT = i%5 == 4
			addB(nb, "names")
			// the same files in the opposite order
			var rv []string
			for k := len(bs) - 1; k >= 0; k-- {
				rv = append(rv, bs[k])
			}
			nr := namesBatch(rv, exts)
			nr.Procs = 2
			addB(nr, "names")
		}
	}
	eb2 := escapeBatch()
	eb2.Retain, eb2.NonRoot = "workdirroot", rn.nonRoot
	addB(eb2, "hand")
	for _, retain := range []string{"", "testwork"} {
		addB(Batch{Retain: retain, Procs: 2, Canary: true}, "empty")
	}
	for k, retain := range []string{"", "testwork", "workdirroot", "flag"} {
		hb := exitPathsBatch()
		hb.Retain = retain
		hb.NonRoot = rn.nonRoot
		hb.ContinueOnError = k%2 == 1
		addB(hb, "hand")
	}
	// background command names used twice; a narrowed PATH and a program of the host's PATH; a
	// background command that writes below $WORK while it shuts down, in a script that fails midway
	{
		files := []File{{Path: "bin/mytool", Data: "#!/bin/sh\nexit 0\n"}}
		hb := Batch{Procs: 4, Par: 8, Canary: true, NonRoot: rn.nonRoot}
		hb.Scripts = []Script{
			{Name: "dupname", Files: files, Body: []Action{{Op: "G", ID: 1, Flag: true}, {Op: "J", ID: 1}, {Op: "O"}}},
			{Name: "dupcont", Files: files, Body: []Action{{Op: "D", ID: 1}, {Op: "G", ID: 1, Flag: true}, {Op: "G", ID: 2, Flag: true}, {Op: "J", ID: 2}}},
			{Name: "hostpath", Files: files, Body: []Action{{Op: "H", Key: "hostcanary"}, {Op: "P", Path: "bin"}, {Op: "H", Flag: true, Key: "hostcanary"},
				{Op: "I", Flag: true, Key: "hostcanary", Sub: &Action{Op: "O"}}, {Op: "H", Key: "hostcanary"}}},
			{Name: "hostkeep", Files: files, Body: []Action{{Op: "P", Path: "bin", Flag: true}, {Op: "H", Key: "hostcanary"}, {Op: "H", Flag: true, Key: "nosuchprog-zz"}, {Op: "O"}}},
			{Name: "latewrite", Files: files, Body: []Action{{Op: "D", ID: 1}, {Op: "G", ID: 50, Flag: true}, {Op: "O"}, {Op: "F"}}},
			{Name: "lateskip", Files: files, Body: []Action{{Op: "G", ID: 51, Flag: true}, {Op: "K"}}},
		}
		addB(hb, "hand")
		hc := hb
		hc.Scripts = append([]Script{}, hb.Scripts...)
		hc.ContinueOnError = true
		addB(hc, "hand")
	}
	// Setup functions that replace or filter the variable list; deferred functions that do not return
	// combined with early exits and live background commands; [exec:...] conditions with a path
	addB(setupVarsBatch(), "hand-setup-vars")
	sv := setupVarsBatch()
	sv.Retain, sv.NonRoot, sv.Verbose = "testwork", rn.nonRoot, true
	addB(sv, "hand-setup-vars")
	addB(deferExitsBatch(), "hand-defer-exits")
	de := deferExitsBatch()
	de.NonRoot, de.ContinueOnError, de.Procs = rn.nonRoot, true, 2
	{
		// (a third of the scripts: each of them is also run alone)
		var sub []Script
		for i := range de.Scripts {
			if i%3 == 1 {
				sub = append(sub, de.Scripts[i])
			}
		}
		de.Scripts = sub
	}
	addB(de, "hand-defer-exits")
	// large work directories whose clean-ups overlap, the last script to finish among them
	addB(bigTreesBatch(400), "hand-big-trees")
	bt2 := bigTreesBatch(160)
	bt2.Procs, bt2.NonRoot = 8, rn.nonRoot
	addB(bt2, "hand-big-trees")
	addB(execPathCondPair(), "hand")
	epr := execPathCondPair()
	epr.Scripts[0].DelayMs, epr.Scripts[1].DelayMs = 250, 0
	addB(epr, "hand")
	// the same scripts under a T that runs the subtests one after the other
	sq := exitPathsBatch()
	sq.SeqT, sq.NonRoot = true, rn.nonRoot
	addB(sq, "hand-sequential-T")
	sq2 := escapeBatch()
	sq2.SeqT = true
	addB(sq2, "hand-sequential-T")
	// 3. generated batches, each run free under three settings of GOMAXPROCS / parallelism / delays
	//    and gated under two schedules (one random, one script after the other in reverse order)
	r := common.NewRNG(f.Seed)
	n := rn.size("TSBATCH_C04_QUICK", 14)
	if f.Tier == "thorough" {
		n = rn.size("TSBATCH_C04_THOROUGH", 250)
	}
	for i := 0; i < n; i++ {
		b := genBatch(r, rn.nonRoot)
		addB(b, "generated")
		for rep := 0; rep < 2; rep++ {
			v := b
			v.Scripts = append([]Script{}, b.Scripts...)
			v.Procs = common.Pick(r, []int{1, 2, 4, 8, 16})
			v.Par = common.Pick(r, []int{1, 2, 8})
			v.Verbose = r.Chance(1, 3)
			for k := range v.Scripts {
				v.Scripts[k].DelayMs = r.Intn(3) * r.Intn(15)
			}
			addB(v, "generated-variant")
		}
		g := b
		g.Scripts = append([]Script{}, b.Scripts...)
		for k := range g.Scripts {
			g.Scripts[k].DelayMs = 0
		}
		var sc []int
		total := 0
		for k := range g.Scripts {
			total += turns(&g.Scripts[k])
		}
		for k := 0; k < total; k++ {
			sc = append(sc, r.Intn(len(g.Scripts)))
		}
		addG(g, "gated-random", sc)
		var seq []int
		for k := len(g.Scripts) - 1; k >= 0; k-- {
			for t := 0; t < turns(&g.Scripts[k]); t++ {
				seq = append(seq, k)
			}
		}
		addG(g, "gated-sequential", seq)
		if i%3 == 0 {
			q := b
			q.Scripts = append([]Script{}, b.Scripts...)
			q.SeqT = true
			addB(q, "generated-sequential-T")
		}
	}
	workers := 5
	var wg sync.WaitGroup
	var skipped atomic.Int64
	ch := make(chan int)
	for w := 0; w < workers; w++ {
		wg.Add(1)
		go func() {
			defer wg.Done()
			for i := range ch {
				if rn.hangs.Load() >= 3 {
					skipped.Add(1)
					continue
				}
				if items[i].clean != nil {
					rn.oneCleanup(items[i].clean, items[i].tag)
				} else if len(items[i].b.Scripts) == 0 {
					rn.emptyBatch(&items[i].b)
				} else {
					rn.one(&items[i].b, items[i].tag, true, items[i].sched)
				}
			}
		}()
	}
	for i := range items {
		ch <- i
	}
	close(ch)
	wg.Wait()
	if n := skipped.Load(); n > 0 {
		res.Notes = append(res.Notes, fmt.Sprintf("%d batches were not run: three children had already hung and had to be killed", n))
	}
	res.Rule = fmt.Sprintf("before and after every run a snapshot (names, types, sizes, modes, owners, times, content hashes) of sentinel trees outside the work directories (a host directory with files and directories of several modes, owned by the user the child runs as; the directory of the helper programs) is compared; scripts create symbolic links (to host sentinels, to siblings' files and directories, dangling, into their own tree), read-only files and directories, and use rm; clean-up jobs: trees of directories, files and links of every kind (absolute, relative, chained, looping) built by Setup, the script ending passed / failed / skipped / stopped, with and without `rm <sub>`, a parallel sibling recording its own directory after the clean-up, everything observed compared with remove_all_now of TsCleanup.v; a pair of scripts with links into each other's directory under schedules that put `rm` and the clean-up of one between two looks of the other; Params.Files with 2-5 script files of one base name in different directories mixed with base names that already carry counter-like suffixes (x#1.txt, x#2.txtar, x#1#1.txt, repeated ones), both extensions, each list in both orders: the names reported through T.Run and the work directories handed to Params.Setup must be pairwise distinct, every script must find its own files only and nothing may be left behind; corpus batches; the execCache pair in both start orders and, with the harness holding the turn (a T whose Parallel parks the subtest and a gate command before every script line), under all %d interleavings of its lines; the pair whose archive names files outside the work directory; RunT without any script; a hand-written batch covering every exit path (pass, fail, skip, stop, setup failure, panicking custom command, panicking deferred function) with defers, background processes and read-only directories under each retention mode, with and without ContinueOnError; then %d generated batches of 2-8 scripts (with kill / kill+wait, ContinueOnError, $WORK-named and escaping archive entries), each run free under three settings of GOMAXPROCS / subtest parallelism / start delays / verbosity and gated under a random and a sequential schedule, the model being asked for the same schedule; Setup functions that drop, empty or filter Env.Vars (allow-lists that may keep nothing) with programs started before the first env line, in the foreground and in the background (by name and by absolute path): every started program must see no host variable and a PWD equal to the directory it runs in; deferred functions (of Setup and of the script) that panic, call FailNow / Fatal / Skip on the T or call ts.Fatalf, in runs left early by a failing line, by T.Skip / T.FailNow / T.Fatal from a custom command or by a panicking command while background commands (one of them slow to shut down) are running: every recorded pid is looked up in /proc (pid and start time) at the moment the subtest function returns; [exec:...] conditions naming programs with a separator; a script with a large work directory and quick scripts that are made to finish while its clean-up is under way (two more deferred functions of Setup order the ends), the last of them having to remove the shared root; every script is also run alone; children built with -race, unprivileged when possible; a batch is non-trivial when some script has defers, background processes, probes or does not pass; distinct = distinct (retention, verdicts, defer orders, probe counts)",
		len(interleavings([]int{turns(&gp.Scripts[0]), turns(&gp.Scripts[1])}, 64)), n)
}

// size reads a run size from the environment (props: runner_env), with a default.
func (rn *runner) size(name string, dflt int) int {
	if v, err := strconv.Atoi(os.Getenv(name)); err == nil && v > 0 {
		return v
	}
	return dflt
}

// emptyBatch: RunT with Params.Files non-nil and empty must leave nothing behind either.
func (rn *runner) emptyBatch(b *Batch) {
	ro := rn.runBatch(b, nil, nil)
	defer ro.cleanup()
	rn.rmu.Lock()
	defer rn.rmu.Unlock()
	rn.res.Count("src:empty")
	rn.res.Count("retain:" + b.Retain)
	rn.res.Case("empty|"+b.Retain, true)
	j, _ := json.Marshal(b)
	in := map[string]string{"spec": string(j), "scripts_text": "(no script: testscript.Params{Files: []string{}})"}
	if ro.res == nil || ro.timedOut {
		rn.res.Violate(common.Violation{Kind: "correspondence", Oracle: "child-crashed", Key: "empty-crash", Input: in, Detail: tail(ro.output, 800)})
		return
	}
	ans := rn.ask(fmt.Sprintf("empty %s 0", b01(b.Retain != "")))
	wantLeft := 0
	if strings.Contains(ans, "root=1") {
		wantLeft = 1
	}
	if b.Retain == "" && len(ro.tmpLeft) > 0 {
		rn.res.Count("finding:leftover/empty-batch")
		rn.res.Violate(common.Violation{Kind: "impl-violation", Oracle: "leftover/empty-batch", Key: "leftover/empty-batch", Input: in,
			Detail: "RunT was called with Params.Files non-nil and empty: it returned normally and left the temporary root behind: " + strings.Join(ro.tmpLeft, ",")})
	}
	if len(ro.tmpLeft) != wantLeft {
		rn.res.Violate(common.Violation{Kind: "correspondence", Oracle: "model/empty-batch", Key: "model/empty-batch:" + b.Retain, Input: in,
			Model: ans, Impl: fmt.Sprintf("%d entries left", len(ro.tmpLeft))})
	}
}

// exitPathsBatch: one script per exit path, each with deferred functions, a background process and a
// read-only directory holding a file.
func exitPathsBatch() Batch {
	common := func(name string, tailActs ...Action) Script {
		sib := "pass"
		if name == "pass" {
			sib = "fail"
		}
		body := []Action{
			{Op: "D", ID: 1}, {Op: "M", Path: "ro/inner"}, {Op: "W", Path: "ro/inner/f", Data: "1"},
			// links out of the work directory: to sentinels of the host and to a sibling's files
			{Op: "Q", Path: "ro0.txt", Data: "ro\n"}, {Op: "L", Path: "lnk0", Key: "host-ro"}, {Op: "L", Path: "d/lnk2", Key: "host-rodir"},
			{Op: "L", Path: "ro/inner/lnk3", Key: "sibling:" + sib + ":ro0.txt"}, {Op: "L", Path: "lnk1", Key: "sibling:" + sib + ":ro"},
			{Op: "L", Path: "lnk4", Key: "dangling"}, {Op: "L", Path: "lnk5", Key: "host-dir"},
			{Op: "M", Path: "ro/inner", Flag: true}, {Op: "M", Path: "ro", Flag: true},
			{Op: "G", ID: 1, Flag: true}, {Op: "D", ID: 2}, {Op: "O"},
		}
		body = append(body, tailActs...)
		return Script{Name: name, Files: []File{{Path: "a.txt", Data: "x\n"}, {Path: "d/b.txt", Data: "y\n"}, {Path: escapePrefix + name + ".txt", Data: "z\n", Work: true}}, Adds: []KV{{"EXTRA", "v"}, {"SUB", "$WORK/sub"}},
			Defers: []DeferSpec{{ID: 100}}, Body: body}
	}
	b := Batch{Procs: 4, Par: 8, Canary: true, Cover: true}
	b.Scripts = []Script{
		common("pass", Action{Op: "C", Path: "d"}, Action{Op: "O"}),
		common("fail", Action{Op: "F"}, Action{Op: "D", ID: 3}),
		common("skip", Action{Op: "K"}),
		common("stop", Action{Op: "T"}, Action{Op: "F"}),
		common("panic", Action{Op: "Z"}),
		common("badwrite", Action{Op: "W", Path: "ro/inner/g", Data: "2"}),
		{Name: "setupfail", Files: []File{{Path: "d", Data: "file"}, {Path: "d/b.txt", Data: "y\n"}}, Body: []Action{{Op: "O"}}},
		{Name: "setuperr", Files: []File{{Path: "a.txt", Data: "x\n"}}, Defers: []DeferSpec{{ID: 100}, {ID: 101}}, SetupErr: true, Body: []Action{{Op: "O"}}},
	}
	bd := common("baddefer", Action{Op: "D", ID: 3, Flag: true}, Action{Op: "D", ID: 4})
	b.Scripts = append(b.Scripts, bd)
	// a bare wait that fails on the first command (it has exited with status 1) while the second one
	// is still running: the end of run() has to interrupt and wait for the second one all the same
	b.Scripts = append(b.Scripts, Script{Name: "waitfail", Files: []File{{Path: "a.txt", Data: "x\n"}},
		Body: []Action{{Op: "D", ID: 1}, {Op: "G", ID: 100}, {Op: "G", ID: 1}, {Op: "U"}, {Op: "O"}}})
	b.Scripts = append(b.Scripts, Script{Name: "waitok", Files: []File{{Path: "a.txt", Data: "x\n"}},
		Body: []Action{{Op: "G", ID: 100, Flag: true}, {Op: "G", ID: 101, Flag: true}, {Op: "U"}, {Op: "O"}}})
	return b
}

package runtest

import (
	"os"
	"strconv"
	"testing"
	"time"

	"github.com/rogpeppe/go-internal/testscript"
)

// TestParamsDeadline runs the scripts of $TSB_SCRIPT_DIR with Params.Deadline = now + $TSB_DEADLINE_MS.
// The binary is started with a much longer -test.timeout: the explicit, earlier deadline has to win.
func TestParamsDeadline(t *testing.T) {
	dir := os.Getenv("TSB_SCRIPT_DIR")
	ms, _ := strconv.Atoi(os.Getenv("TSB_DEADLINE_MS"))
	if dir == "" || ms <= 0 {
		t.Skip("run by the tsbatch runner only")
	}
	testscript.Run(t, testscript.Params{Dir: dir, Deadline: time.Now().Add(time.Duration(ms) * time.Millisecond)})
}

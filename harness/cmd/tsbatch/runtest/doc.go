// Package runtest exists for its test: a real `go test` binary that calls testscript.Run (the
// *testing.T entry point) with an explicit Params.Deadline, built and run by the tsbatch runner (C17).
package runtest

package main

// Clean-up jobs (C04): what removeAll -- the clean-up of a work directory at the end of a run, and
// the `rm` command -- does to the WHOLE file system.  One RunT call with two parallel scripts: c0,
// whose Params.Setup builds a tree of directories, files and symbolic links with given permission
// bits in its work directory (links to sentinels of the host, to the sibling's files, to its own
// files, dangling, looping, chained; written absolute or relative), and which ends passed / failed /
// skipped / stopped, possibly after `rm <sub>` (then with TestWork, so that what is left can be
// seen); and c1, a sibling with read-only files and directories of its own that waits until c0 has
// been cleaned up and then records its own work directory and what is left of c0's.
//
// Direct oracles: the host sentinels are as before (names, types, modes, times, contents); the
// sibling's work directory is as its Setup made it; without retention nothing is left of c0.
// Correspondence: the table of everything observed equals remove_all_now of TsCleanup.v on the
// table that was built.

import (
	"encoding/hex"
	"encoding/json"
	"fmt"
	"io/fs"
	"os"
	"path/filepath"
	"regexp"
	"sort"
	"strconv"
	"strings"
	"sync"
	"time"

	"github.com/rogpeppe/go-internal/testscript"

	"verif/harness/common"
)

type CleanEntry struct {
	Rel  string `json:"rel"`
	Kind string `json:"kind"` // d | f | l
	Perm int    `json:"perm,omitempty"`
	Data string `json:"data,omitempty"`
	// links: Base says which tree the target is in (host | sib | work), or none (dangling) or self (a
	// loop); Target is relative to that tree ("" = its top); RelForm: the link is written relative to
	// its own directory, not absolute
	Base    string `json:"base,omitempty"`
	Target  string `json:"target,omitempty"`
	RelForm bool   `json:"rel_form,omitempty"`
}

type CleanJob struct {
	Entries []CleanEntry `json:"entries"`
	Sibling []CleanEntry `json:"sibling"`
	Rm      string       `json:"rm,omitempty"`
	End     string       `json:"end"` // pass | fail | skip | stop
	NonRoot bool         `json:"nonroot,omitempty"`
	Procs   int          `json:"procs,omitempty"`
}

var reCleanRel = regexp.MustCompile(`^[a-z0-9_.]{1,12}(/[a-z0-9_.]{1,12}){0,4}$`)

func (cj *CleanJob) validate() error {
	check := func(es []CleanEntry, what string) error {
		seen := map[string]string{}
		for _, e := range es {
			if !reCleanRel.MatchString(e.Rel) || strings.Contains(e.Rel, "..") || e.Rel == ".tmp" || strings.HasPrefix(e.Rel, ".tmp/") {
				return fmt.Errorf("%s: name %q refused", what, e.Rel)
			}
			if _, dup := seen[e.Rel]; dup {
				return fmt.Errorf("%s: %q twice", what, e.Rel)
			}
			if d := filepath.Dir(e.Rel); d != "." && seen[d] != "d" {
				return fmt.Errorf("%s: %q comes before its directory", what, e.Rel)
			}
			seen[e.Rel] = e.Kind
			switch e.Kind {
			case "d", "f":
				if e.Perm < 0 || e.Perm > 0o777 {
					return fmt.Errorf("%s: mode of %q refused", what, e.Rel)
				}
			case "l":
				switch e.Base {
				case "host", "sib", "work", "none", "self":
				default:
					return fmt.Errorf("%s: link base %q refused", what, e.Base)
				}
				if e.Target != "" && (!reCleanRel.MatchString(e.Target) || strings.Contains(e.Target, "..")) {
					return fmt.Errorf("%s: link target %q refused", what, e.Target)
				}
			default:
				return fmt.Errorf("%s: kind %q refused", what, e.Kind)
			}
		}
		return nil
	}
	if err := check(cj.Entries, "c0"); err != nil {
		return err
	}
	if err := check(cj.Sibling, "c1"); err != nil {
		return err
	}
	if cj.Rm != "" && (!reCleanRel.MatchString(cj.Rm) || strings.Contains(cj.Rm, "..") || cj.rmThrough("l")) {
		return fmt.Errorf("rm %q refused", cj.Rm)
	}
	switch cj.End {
	case "pass", "fail", "skip", "stop":
	default:
		return fmt.Errorf("end %q refused", cj.End)
	}
	return nil
}

// hostSentinelSpec: the tree makeHostSentinels builds, as entries.
var hostSentinelSpec = []CleanEntry{
	{Rel: "dir", Kind: "d", Perm: 0o755}, {Rel: "dir/sub", Kind: "d", Perm: 0o700}, {Rel: "rodir", Kind: "d", Perm: 0o555},
	{Rel: "f644", Kind: "f", Perm: 0o644}, {Rel: "f444", Kind: "f", Perm: 0o444}, {Rel: "f600", Kind: "f", Perm: 0o600}, {Rel: "x755", Kind: "f", Perm: 0o755},
	{Rel: "dir/inner.txt", Kind: "f", Perm: 0o640}, {Rel: "dir/sub/deep", Kind: "f", Perm: 0o604}, {Rel: "rodir/inner", Kind: "f", Perm: 0o444},
	{Rel: "hlink", Kind: "l", Base: "host", Target: "f644", RelForm: true}, {Rel: "hdangling", Kind: "l", Base: "none", Target: "nowhere", RelForm: true},
}

func sentinelData(rel string) string { return "sentinel " + rel + "\n" }

func init() {
	for i := range hostSentinelSpec {
		if hostSentinelSpec[i].Kind == "f" {
			hostSentinelSpec[i].Data = sentinelData(hostSentinelSpec[i].Rel)
		}
	}
}

// linkText: what is written into the link at linkPath.
func (e *CleanEntry) linkText(linkPath, hostDir, sibDir, workDir string) string {
	abs := e.physical(linkPath, hostDir, sibDir, workDir)
	if e.Base == "none" {
		return e.Target // a relative name that does not exist
	}
	if e.RelForm {
		if r, err := filepath.Rel(filepath.Dir(linkPath), abs); err == nil {
			return r
		}
	}
	return abs
}

// physical: the absolute path the link leads to.
func (e *CleanEntry) physical(linkPath, hostDir, sibDir, workDir string) string {
	switch e.Base {
	case "host":
		return filepath.Join(hostDir, e.Target)
	case "sib":
		return filepath.Join(sibDir, e.Target)
	case "work":
		return filepath.Join(workDir, e.Target)
	case "self":
		return linkPath
	}
	return filepath.Join(filepath.Dir(linkPath), e.Target)
}

// buildTree makes the entries below dir; modes are set at the end, the deepest entries first.
func buildTree(dir string, es []CleanEntry, hostDir, sibDir, workDir string) error {
	for _, e := range es {
		p := filepath.Join(dir, e.Rel)
		var err error
		switch e.Kind {
		case "d":
			err = os.Mkdir(p, 0o777)
		case "f":
			err = os.WriteFile(p, []byte(e.Data), 0o666)
		case "l":
			err = os.Symlink(e.linkText(p, hostDir, sibDir, workDir), p)
		}
		if err != nil {
			return err
		}
	}
	for i := len(es) - 1; i >= 0; i-- {
		if es[i].Kind != "l" {
			if err := os.Chmod(filepath.Join(dir, es[i].Rel), os.FileMode(es[i].Perm)); err != nil {
				return err
			}
		}
	}
	return nil
}

// tableOf: every entry below dir (not dir itself) as "<prefix>/<rel>:<kind>:..." in the format of the
// model's answer; canon maps an absolute path to the model's name for it.  As root, also through
// directories without permissions.
func tableOf(prefix, dir string, canon func(string) string) []string {
	var out []string
	filepath.WalkDir(dir, func(p string, d fs.DirEntry, err error) error {
		if p == dir || err != nil {
			return nil // err: the root is not there, or the second call for a directory that cannot be read
		}
		rel, _ := filepath.Rel(dir, p)
		info, lerr := os.Lstat(p)
		if lerr != nil {
			out = append(out, prefix+"/"+rel+":unreadable")
			return nil
		}
		switch {
		case info.IsDir():
			out = append(out, fmt.Sprintf("%s/%s:d:%d", prefix, rel, info.Mode().Perm()))
		case info.Mode().IsRegular():
			data, _ := os.ReadFile(p)
			h := hex.EncodeToString(data)
			if h == "" {
				h = "-"
			}
			out = append(out, fmt.Sprintf("%s/%s:f:%d:%s", prefix, rel, info.Mode().Perm(), h))
		case info.Mode()&fs.ModeSymlink != 0:
			tg, _ := os.Readlink(p)
			if !filepath.IsAbs(tg) {
				tg = filepath.Join(filepath.Dir(p), tg)
			}
			out = append(out, fmt.Sprintf("%s/%s:l:%s", prefix, rel, canon(filepath.Clean(tg))))
		default:
			out = append(out, prefix+"/"+rel+":other")
		}
		return nil
	})
	sort.Strings(out)
	return out
}

var reRootDir = regexp.MustCompile(`go-test-script[0-9]+`)

func cleanCanon(rundir string) func(string) string {
	return func(abs string) string {
		if abs == rundir {
			return "R"
		}
		if rest, ok := strings.CutPrefix(abs, rundir+"/"); ok {
			return "R/" + reRootDir.ReplaceAllString(rest, "ROOT")
		}
		return strings.TrimPrefix(abs, "/")
	}
}

// ---------------------------------------------------------------- the child

func runCleanupChild(job *Job) {
	cj := job.Clean
	res := &ChildResult{Uid: os.Getuid()}
	write := func() {
		out, _ := json.Marshal(res)
		if err := os.WriteFile(job.Out, out, 0o666); err != nil {
			fmt.Fprintln(os.Stderr, "child:", err)
			os.Exit(3)
		}
	}
	hostDir := filepath.Join(job.Dir, "host")
	var files []string
	body0 := "waitsetup c1\n"
	if cj.Rm != "" {
		body0 += "rm " + cj.Rm + "\n"
	}
	switch cj.End {
	case "fail":
		body0 += "exists no-such-file-anywhere\n"
	case "skip":
		body0 += "skip\n"
	case "stop":
		body0 += "stop\nexists not-reached\n"
	}
	for i, text := range []string{body0, "waitscript c0\nsnap\n"} {
		dir := filepath.Join(job.Dir, "scripts", strconv.Itoa(i))
		os.MkdirAll(dir, 0o777)
		f := filepath.Join(dir, fmt.Sprintf("c%d.txt", i))
		if err := os.WriteFile(f, []byte(text), 0o666); err != nil {
			res.Error = err.Error()
			write()
			return
		}
		files = append(files, f)
	}
	root := &rootT{release: make(chan struct{}), sem: make(chan struct{}, 8)}
	setupDone := map[string]chan struct{}{"c0": make(chan struct{}), "c1": make(chan struct{})}
	var mu sync.Mutex
	var setupErr string
	workdirs := map[string]string{}
	canon := cleanCanon(job.Dir)
	p := testscript.Params{Files: files, TestWork: cj.Rm != ""}
	p.Setup = func(env *testscript.Env) error {
		name := strings.TrimPrefix(filepath.Base(env.WorkDir), "script-")
		defer close(setupDone[name])
		rootDir := filepath.Dir(env.WorkDir)
		mu.Lock()
		workdirs[name] = env.WorkDir
		mu.Unlock()
		es := cj.Entries
		if name == "c1" {
			es = cj.Sibling
		}
		if err := buildTree(env.WorkDir, es, hostDir, filepath.Join(rootDir, "script-c1"), filepath.Join(rootDir, "script-c0")); err != nil {
			mu.Lock()
			setupErr = name + ": " + err.Error()
			mu.Unlock()
			return err
		}
		return nil
	}
	subDone := func(name string) chan struct{} {
		for k := 0; k < 3000; k++ {
			root.mu.Lock()
			for _, s := range root.subs {
				if s.name == name {
					root.mu.Unlock()
					return s.done
				}
			}
			root.mu.Unlock()
			time.Sleep(time.Millisecond)
		}
		return nil
	}
	p.Cmds = map[string]func(ts *testscript.TestScript, neg bool, args []string){
		"waitsetup": func(ts *testscript.TestScript, neg bool, args []string) {
			select {
			case <-setupDone[args[0]]:
			case <-time.After(30 * time.Second):
				ts.Fatalf("setup of %s not seen", args[0])
			}
		},
		"waitscript": func(ts *testscript.TestScript, neg bool, args []string) {
			ch := subDone(args[0])
			if ch == nil {
				ts.Fatalf("no subtest %s", args[0])
			}
			select {
			case <-ch:
			case <-time.After(40 * time.Second):
				ts.Fatalf("subtest %s did not finish", args[0])
			}
		},
		"snap": func(ts *testscript.TestScript, neg bool, args []string) {
			mu.Lock()
			w0, w1 := workdirs["c0"], workdirs["c1"]
			mu.Unlock()
			res.SiblingSnap = append(tableOf("R/tmp/ROOT/script-c1", w1, canon), tableOf("R/tmp/ROOT/script-c0", w0, canon)...)
			if st, err := os.Lstat(w0); err == nil {
				res.SiblingSnap = append(res.SiblingSnap, fmt.Sprintf("R/tmp/ROOT/script-c0:d:%d", st.Mode().Perm()))
			}
			res.SiblingSeen = true
		},
	}
	t0 := time.Now()
	res.T0 = t0.UnixNano()
	ran := make(chan struct{})
	go func() {
		defer close(ran)
		testscript.RunT(root, p)
	}()
	<-ran
	close(root.release)
	for _, s := range root.subs {
		<-s.done
	}
	res.RunTNs = time.Since(t0).Nanoseconds()
	res.RootFatal = root.fatal
	res.Error = setupErr
	for _, s := range root.subs {
		res.Names = append(res.Names, s.name)
		s.mu.Lock()
		o := &ScriptObs{Name: s.name, Log: strings.Join(s.logs, "\n"), Panic: s.panicv}
		s.mu.Unlock()
		o.Verdict = s.verdict()
		res.Scripts = append(res.Scripts, o)
	}
	write()
}

// ---------------------------------------------------------------- the parent

func modelEntry(prefix string, e *CleanEntry, linkPhys string) string {
	p := prefix + "/" + e.Rel
	switch e.Kind {
	case "d":
		return fmt.Sprintf("%s d %d", p, e.Perm)
	case "f":
		return fmt.Sprintf("%s f %d %s", p, e.Perm, hx(e.Data))
	}
	return fmt.Sprintf("%s l %s", p, linkPhys)
}

func specLine(prefix string, e *CleanEntry, linkPhys string) string {
	p := prefix + "/" + e.Rel
	switch e.Kind {
	case "d":
		return fmt.Sprintf("%s:d:%d", p, e.Perm)
	case "f":
		return fmt.Sprintf("%s:f:%d:%s", p, e.Perm, hx(e.Data))
	}
	return fmt.Sprintf("%s:l:%s", p, linkPhys)
}

const (
	cleanHost = "R/host"
	cleanW0   = "R/tmp/ROOT/script-c0"
	cleanW1   = "R/tmp/ROOT/script-c1"
)

// cleanModelPhys: the model's name of where a link leads.
func cleanModelPhys(prefix string, e *CleanEntry) string {
	link := prefix + "/" + e.Rel
	join := func(base, t string) string {
		if t == "" {
			return base
		}
		return base + "/" + t
	}
	switch e.Base {
	case "host":
		return join(cleanHost, e.Target)
	case "sib":
		return join(cleanW1, e.Target)
	case "work":
		return join(cleanW0, e.Target)
	case "self":
		return link
	}
	return filepath.Dir(link) + "/" + e.Target
}

func (rn *runner) evalCleanup(cj *CleanJob) []finding {
	var fs []finding
	add := func(kind, oracle, detail, model, impl string) {
		fs = append(fs, finding{kind, oracle, detail, model, impl})
	}
	if err := cj.validate(); err != nil {
		add("correspondence", "spec-refused", err.Error(), "", "")
		return fs
	}
	nonRoot := cj.NonRoot && rn.nonRoot
	b := &Batch{NonRoot: nonRoot, Procs: cj.Procs}
	ro := rn.runJob(b, nil, cj, nil)
	defer ro.cleanup()
	if strings.Contains(ro.output, "DATA RACE") {
		add("impl-violation", "race-detector", "data race: "+tail(ro.output, 1500), "", "")
	}
	if ro.timedOut {
		add("impl-violation", "hang", "the clean-up job did not finish within 60 s: "+tail(ro.output, 1200), "", "")
		return fs
	}
	if ro.res == nil {
		add("correspondence", "child-crashed", fmt.Sprintf("the child produced no result (exit %d): %s", ro.exitCode, tail(ro.output, 1200)), "", "")
		return fs
	}
	if ro.res.Error != "" || ro.res.RootFatal != "" || !ro.res.SiblingSeen {
		logs := ""
		for _, o := range ro.res.Scripts {
			logs += o.Name + ": " + o.Verdict + ": " + tail(o.Log, 300) + "; "
		}
		add("correspondence", "child-error", fmt.Sprintf("%s %s (sibling snapshot taken: %v) %s", ro.res.Error, ro.res.RootFatal, ro.res.SiblingSeen, logs), "", "")
		return fs
	}
	// ---- direct oracles
	if len(ro.outside) > 0 {
		add("impl-violation", "outside/modified", "cleaning up a work directory (or `rm`) changed files outside the work directories, which its scripts only name as targets of symbolic links: "+strings.Join(ro.outside, "; "), "", "")
	}
	var wantSib []string
	wantSib = append(wantSib, cleanW1+"/.tmp:d:493")
	for i := range cj.Sibling {
		wantSib = append(wantSib, specLine(cleanW1, &cj.Sibling[i], cleanModelPhys(cleanW1, &cj.Sibling[i])))
	}
	sort.Strings(wantSib)
	var gotSib, gotC0 []string
	for _, l := range ro.res.SiblingSnap {
		if strings.HasPrefix(l, cleanW1+"/") {
			gotSib = append(gotSib, l)
		} else {
			gotC0 = append(gotC0, l)
		}
	}
	sort.Strings(gotSib)
	sort.Strings(gotC0)
	if strings.Join(gotSib, ",") != strings.Join(wantSib, ",") {
		add("impl-violation", "outside/sibling-modified", "after script c0 had been cleaned up (or had run `rm`) the work directory of its parallel sibling c1 was no longer as c1's Setup had made it", strings.Join(wantSib, ","), strings.Join(gotSib, ","))
	}
	if cj.Rm == "" {
		if len(gotC0) > 0 {
			add("impl-violation", "leftover/workdir", "the work directory of c0 is still there after the script has ended: "+strings.Join(gotC0, ","), "", "")
		}
		if len(ro.tmpLeft) > 0 {
			add("impl-violation", "leftover/tmp", "the private TMPDIR/GOTMPDIR is not empty after the run: "+strings.Join(ro.tmpLeft, ","), "", "")
		}
	}
	// ---- the model: removeAll(dir) on the table that was built
	var ents []string
	ents = append(ents, ". d 493", "R d 511", "R/tmp d 511", "R/tmp/ROOT d 448", cleanHost+" d 493", cleanW0+" d 493", cleanW1+" d 493", cleanW0+"/.tmp d 493", cleanW1+"/.tmp d 493")
	for i := range hostSentinelSpec {
		e := hostSentinelSpec[i]
		ents = append(ents, modelEntry(cleanHost, &e, cleanHost+"/"+e.Target))
	}
	for i := range cj.Entries {
		ents = append(ents, modelEntry(cleanW0, &cj.Entries[i], cleanModelPhys(cleanW0, &cj.Entries[i])))
	}
	for i := range cj.Sibling {
		ents = append(ents, modelEntry(cleanW1, &cj.Sibling[i], cleanModelPhys(cleanW1, &cj.Sibling[i])))
	}
	target := cleanW0
	if cj.Rm != "" {
		target = cleanW0 + "/" + cj.Rm
	}
	mine := "M 2 R/host R/tmp/ROOT"
	req := fmt.Sprintf("cleanup now %s %s N %d %s DIR %s", b01(!nonRoot), mine, len(ents), strings.Join(ents, " "), target)
	ans := rn.ask(req)
	if strings.HasPrefix(ans, "MODEL-") || ans == "BAD-REQUEST" {
		add("correspondence", "model/answer", "unusable model answer", tail(ans, 400), "")
		return fs
	}
	var want []string
	for _, l := range strings.Split(ans, ",") {
		if strings.HasPrefix(l, cleanHost+"/") || strings.HasPrefix(l, cleanW0+":") || strings.HasPrefix(l, cleanW0+"/") || strings.HasPrefix(l, cleanW1+"/") {
			want = append(want, l)
		}
	}
	got := append([]string{}, ro.res.SiblingSnap...)
	got = append(got, tableOf(cleanHost, filepath.Join(ro.dir, "host"), cleanCanon(ro.dir))...)
	sort.Strings(want)
	sort.Strings(got)
	if strings.Join(want, ",") != strings.Join(got, ",") {
		add("correspondence", "model/cleanup", "the file system after removeAll differs from remove_all_now of the model", diffLists(want, got), "")
	}
	// the verdict of c0: a failing `rm` fails the script, otherwise as it ends
	for _, o := range ro.res.Scripts {
		if o.Name == "c1" && o.Verdict != "PASS" {
			add("correspondence", "child-error", "the sibling did not pass: "+tail(o.Log, 300), "", "")
		}
		if o.Name == "c0" {
			wantV := map[string]string{"pass": "PASS", "fail": "FAIL", "skip": "SKIP", "stop": "PASS"}[cj.End]
			rmStays := false
			for _, l := range want {
				if strings.HasPrefix(l, target+":") {
					rmStays = true
				}
			}
			if cj.Rm != "" && (rmStays || cj.rmThrough("f")) {
				wantV = "FAIL" // it cannot be unlinked, or a file is in the way (ENOTDIR)
			}
			rn.rmu.Lock()
			rn.res.Count("cleanup-verdict:" + o.Verdict)
			rn.rmu.Unlock()
			if o.Verdict != wantV {
				add("correspondence", "model/cleanup-verdict", fmt.Sprintf("script c0 was expected to be reported %s, was %s: %s", wantV, o.Verdict, tail(o.Log, 300)), wantV, o.Verdict)
			}
		}
	}
	return fs
}

func diffLists(want, got []string) string {
	w := map[string]bool{}
	g := map[string]bool{}
	for _, x := range want {
		w[x] = true
	}
	for _, x := range got {
		g[x] = true
	}
	var out []string
	for _, x := range want {
		if !g[x] {
			out = append(out, "model only: "+x)
		}
	}
	for _, x := range got {
		if !w[x] {
			out = append(out, "observed only: "+x)
		}
	}
	return strings.Join(out, "; ")
}

// ---------------------------------------------------------------- generation

var cleanNames = []string{"a", "b", "k", "sub", "ro", "x.txt", "y.txt", "z", "m", "n.txt"}

func genCleanTree(r *common.RNG, withLinks bool, sib []CleanEntry, anyPerm func(rel string) bool) []CleanEntry {
	var es []CleanEntry
	dirs := []string{""}
	have := map[string]bool{}
	n := 3 + r.Intn(8)
	for i := 0; i < n; i++ {
		parent := common.Pick(r, dirs)
		name := common.Pick(r, cleanNames)
		rel := name
		if parent != "" {
			rel = parent + "/" + name
		}
		if have[rel] || strings.Count(rel, "/") > 3 {
			continue
		}
		have[rel] = true
		switch k := r.Intn(10); {
		case k < 3:
			perms := []int{0o755, 0o555, 0o700, 0o500, 0o777}
			if anyPerm(rel) {
				perms = append(perms, 0, 0o111, 0o444, 0o311, 0o200)
			}
			es = append(es, CleanEntry{Rel: rel, Kind: "d", Perm: common.Pick(r, perms)})
			dirs = append(dirs, rel)
		case k < 6 || !withLinks:
			es = append(es, CleanEntry{Rel: rel, Kind: "f", Perm: common.Pick(r, []int{0o644, 0o444, 0o600, 0o400, 0o755, 0o440, 0o666}), Data: common.Pick(r, []string{"", "x\n", "data"})})
		default:
			e := CleanEntry{Rel: rel, Kind: "l", RelForm: r.Chance(1, 2)}
			switch r.Intn(8) {
			case 0, 1:
				e.Base, e.Target = "host", common.Pick(r, []string{"f644", "f444", "f600", "x755", "dir", "rodir", "rodir/inner", "dir/sub", "dir/inner.txt", "hlink", "", "missing"})
			case 2, 3:
				e.Base = "sib"
				if len(sib) > 0 && r.Chance(3, 4) {
					e.Target = sib[r.Intn(len(sib))].Rel
				}
			case 4, 5:
				e.Base = "work"
				if len(es) > 0 && r.Chance(3, 4) {
					e.Target = es[r.Intn(len(es))].Rel // possibly another link: a chain
				}
			case 6:
				e.Base, e.Target = "none", "nowhere"
			default:
				e.Base = "self"
			}
			es = append(es, e)
		}
	}
	return es
}

func genCleanJob(r *common.RNG, canNonRoot bool) CleanJob {
	cj := CleanJob{End: common.Pick(r, []string{"pass", "fail", "skip", "stop"}), NonRoot: canNonRoot && r.Chance(2, 3), Procs: common.Pick(r, []int{2, 4, 8})}
	cj.Sibling = genCleanTree(r, false, nil, func(string) bool { return false })
	rm := ""
	if r.Chance(1, 2) {
		rm = common.Pick(r, []string{"a", "sub", "k", "ro", "a/b", "sub/k", "x.txt", "missing", "a/sub"})
	}
	cj.Rm = rm
	below := func(rel string) bool { return rm == "" || rel == rm || strings.HasPrefix(rel, rm+"/") }
	cj.Entries = genCleanTree(r, true, cj.Sibling, below)
	// `rm a/b` where a is a link would follow it: a script may do that, but it is no business of this check
	if cj.rmThrough("l") {
		cj.Rm = ""
	}
	return cj
}

// rmThrough: a proper prefix of the rm argument is an entry of that kind.
func (cj *CleanJob) rmThrough(kind string) bool {
	segs := strings.Split(cj.Rm, "/")
	for i := 1; i < len(segs); i++ {
		pre := strings.Join(segs[:i], "/")
		for _, e := range cj.Entries {
			if e.Rel == pre && e.Kind == kind {
				return true
			}
		}
	}
	return false
}

// handCleanJobs: every kind of link in one tree, under each way a script can end, with and without rm.
func handCleanJobs(canNonRoot bool) []CleanJob {
	sib := []CleanEntry{{Rel: "ro.txt", Kind: "f", Perm: 0o444, Data: "sibling\n"}, {Rel: "rodir", Kind: "d", Perm: 0o555}, {Rel: "rodir/f", Kind: "f", Perm: 0o400},
		{Rel: "w.txt", Kind: "f", Perm: 0o644}, {Rel: "d", Kind: "d", Perm: 0o755}, {Rel: "d/priv", Kind: "d", Perm: 0o700}}
	tree := []CleanEntry{
		{Rel: "keep.txt", Kind: "f", Perm: 0o444, Data: "kept\n"}, {Rel: "keepdir", Kind: "d", Perm: 0o555},
		{Rel: "sub", Kind: "d", Perm: 0o755}, {Rel: "sub/ro", Kind: "d", Perm: 0o555}, {Rel: "sub/ro/f", Kind: "f", Perm: 0o444, Data: "1"},
		{Rel: "sub/none", Kind: "d", Perm: 0},
		{Rel: "sub/l0", Kind: "l", Base: "host", Target: "f444"}, {Rel: "sub/l1", Kind: "l", Base: "host", Target: "rodir", RelForm: true},
		{Rel: "sub/l2", Kind: "l", Base: "host", Target: "rodir/inner"}, {Rel: "sub/l3", Kind: "l", Base: "sib", Target: "ro.txt", RelForm: true},
		{Rel: "sub/l4", Kind: "l", Base: "sib", Target: "rodir"}, {Rel: "sub/l5", Kind: "l", Base: "sib", Target: ""},
		{Rel: "sub/l6", Kind: "l", Base: "none", Target: "nowhere"}, {Rel: "sub/l7", Kind: "l", Base: "self"},
		{Rel: "sub/l8", Kind: "l", Base: "work", Target: "keep.txt", RelForm: true}, {Rel: "sub/l9", Kind: "l", Base: "work", Target: "keepdir"},
		{Rel: "sub/ro/la", Kind: "l", Base: "work", Target: "sub/l0"}, {Rel: "sub/lb", Kind: "l", Base: "host", Target: "hlink"},
		{Rel: "sub/lc", Kind: "l", Base: "host", Target: "dir/sub", RelForm: true}, {Rel: "sub/ld", Kind: "l", Base: "host", Target: "x755"},
		{Rel: "sub/le", Kind: "l", Base: "sib", Target: "d/priv"}, {Rel: "top", Kind: "l", Base: "host", Target: "f600"},
	}
	var out []CleanJob
	for k, end := range []string{"pass", "fail", "skip", "stop"} {
		out = append(out, CleanJob{Entries: tree, Sibling: sib, End: end, NonRoot: canNonRoot && k%2 == 0, Procs: 4})
	}
	out = append(out, CleanJob{Entries: tree, Sibling: sib, End: "pass", Rm: "sub", NonRoot: canNonRoot, Procs: 4})
	out = append(out, CleanJob{Entries: tree, Sibling: sib, End: "fail", Rm: "sub/ro", NonRoot: false, Procs: 2})
	out = append(out, CleanJob{Entries: tree, Sibling: sib, End: "pass", Rm: "sub/l4", NonRoot: canNonRoot, Procs: 2})
	out = append(out, CleanJob{Entries: tree, Sibling: sib, End: "pass", Rm: "top", NonRoot: false, Procs: 2})
	return out
}

func (rn *runner) oneCleanup(cj *CleanJob, tag string) {
	var fs []finding
	// a finding has to show twice (nothing here depends on time, but the machine is shared)
	for try := 0; try < 2; try++ {
		fs = rn.evalCleanup(cj)
		if len(fs) == 0 {
			break
		}
	}
	rn.rmu.Lock()
	rn.res.Count("src:" + tag)
	rn.res.Count("cleanup-end:" + cj.End)
	if cj.Rm != "" {
		rn.res.Count("cleanup:rm")
	} else {
		rn.res.Count("cleanup:end-of-run")
	}
	nl := 0
	for _, e := range cj.Entries {
		if e.Kind == "l" {
			nl++
			rn.res.Count("cleanup-link:" + e.Base)
		}
	}
	rn.res.Case(fmt.Sprintf("cleanup|%s|%s|%d|%d", cj.End, cj.Rm, len(cj.Entries), nl), nl > 0)
	rn.rmu.Unlock()
	if len(fs) == 0 {
		return
	}
	j, _ := json.Marshal(cj)
	seen := map[string]bool{}
	rn.rmu.Lock()
	defer rn.rmu.Unlock()
	for _, f := range fs {
		if seen[f.oracle] {
			continue
		}
		seen[f.oracle] = true
		rn.res.Count("finding:" + f.oracle)
		h := specKey(&Batch{Retain: string(j)})
		rn.res.Violate(common.Violation{Kind: f.kind, Oracle: f.oracle, Input: map[string]string{"clean_job": string(j)},
			Model: f.model, Impl: f.impl, Detail: f.detail, Key: f.oracle + ":" + h})
	}
}

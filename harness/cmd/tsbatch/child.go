package main

// Child mode: one process per batch.  The parent prepares a scratch directory and the
// environment (private TMPDIR/GOTMPDIR, canary variable, PATH with the helper), the child calls
// testscript.RunT with a recording T that behaves like testing.T (Run starts a goroutine and
// returns when the subtest calls Parallel or finishes; parallel subtests resume when the parent's
// function has returned; FailNow/Skip leave through runtime.Goexit) and writes what it saw.

import (
	"encoding/hex"
	"encoding/json"
	"flag"
	"fmt"
	"io/fs"
	"os"
	"os/signal"
	"path/filepath"
	"runtime"
	"sort"
	"strconv"
	"strings"
	"sync"
	"syscall"
	"time"

	"github.com/rogpeppe/go-internal/testscript"
)

type Job struct {
	Kind     string       `json:"kind"` // batch | deadline
	Batch    Batch        `json:"batch"`
	Dir      string       `json:"dir"`
	Helper   string       `json:"helper"`
	WorkRoot string       `json:"work_root,omitempty"`
	Deadline *DeadlineJob `json:"deadline,omitempty"`
	Clean    *CleanJob    `json:"clean,omitempty"`
	Out      string       `json:"out"`
	// Gated: the harness decides the interleaving.  Every script line is preceded by a `gate`
	// command; a subtest runs only while it holds the turn, from one gate (or from Parallel) to the
	// next gate or to its end.  Sched lists whose turn it is; it is completed round-robin.
	Gated bool  `json:"gated,omitempty"`
	Sched []int `json:"sched,omitempty"`
}

type ProbeObs struct {
	Pid  int      `json:"pid"`
	Cwd  string   `json:"cwd"`
	Env  []string `json:"env"`
	Tree string   `json:"tree"`
	// Modes: the permission bits of every entry of the work directory (not known to the model; compared
	// between the run in the batch and the run alone)
	Modes string `json:"modes,omitempty"`
}

type BgObs struct {
	H   int `json:"h"`
	Pid int `json:"pid"`
	// Start: the start time of the process as /proc/<pid>/stat has it (tells a reused pid apart)
	Start string `json:"start,omitempty"`
}

type ScriptObs struct {
	Name       string     `json:"name"`
	Workdir    string     `json:"workdir"`
	Verdict    string     `json:"verdict"`
	Regs       []int      `json:"regs"`
	Runs       []int      `json:"runs"`
	Bg         []BgObs    `json:"bg"`
	HaveSetup  bool       `json:"have_setup"`
	RootIno    uint64     `json:"root_ino,omitempty"` // inode of the shared root at Setup (the directory is kept open, so the number cannot be reused)
	SetupEnv   []string   `json:"setup_env"`
	SetupTree  string     `json:"setup_tree"`
	SetupModes string     `json:"setup_modes,omitempty"`
	Probes     []ProbeObs `json:"probes"`
	Log        string     `json:"log"`
	Panic      string     `json:"panic,omitempty"`
	// AliveAtEnd: the background commands of the script (handle:pid) that were still running, not even
	// waited for, at the moment its subtest function returned
	AliveAtEnd []string `json:"alive_at_end,omitempty"`
	StartNs    int64    `json:"start_ns"`
	EndNs      int64    `json:"end_ns"`
}

type ChildResult struct {
	Scripts   []*ScriptObs `json:"scripts"`
	RunTNs    int64        `json:"runt_ns"` // when RunT and every subtest had finished, relative to T0
	T0        int64        `json:"t0"`      // unix nanoseconds just before RunT
	Uid       int          `json:"uid"`
	Error     string       `json:"error,omitempty"`
	RootFatal string       `json:"root_fatal,omitempty"`
	Names     []string     `json:"names"` // the names RunT gave the subtests, in the order of Params.Files
	// SetupDirs: every work directory handed to Params.Setup, in the order of the calls
	SetupDirs []string `json:"setup_dirs,omitempty"`
	// Prior: the RunT calls the process made before this one (deadline jobs with a history)
	Prior []*ChildResult `json:"prior,omitempty"`
	// SiblingSnap: clean-up jobs: the sibling's work directory as it was after the script under test had
	// been cleaned up ("rel kind perm data|target" per entry), and whether it was taken at all
	SiblingSnap []string `json:"sibling_snap,omitempty"`
	SiblingSeen bool     `json:"sibling_seen,omitempty"`
}

// ---------------------------------------------------------------- recording T

type rootT struct {
	mu      sync.Mutex
	subs    []*subT
	release chan struct{} // closed when RunT has returned: parallel subtests resume
	sem     chan struct{} // at most cap(sem) parallel subtests run at a time
	verbose bool
	fatal   string
	gs      *gateSched
	index   map[string]int
	seq     bool              // a sequential T (as cmd/testscript's): Run runs the subtest to its end, Parallel does nothing
	atEnd   func(name string) // called when the function of a subtest has returned (or has been left)
}

// procStart: field 22 (starttime) of /proc/<pid>/stat and the state of the process; "" when it is gone.
func procStart(pid int) (start string, state byte) {
	st, err := os.ReadFile(fmt.Sprintf("/proc/%d/stat", pid))
	if err != nil {
		return "", 0
	}
	i := strings.LastIndexByte(string(st), ')')
	if i < 0 || i+2 >= len(st) {
		return "", 0
	}
	f := strings.Fields(string(st[i+2:]))
	if len(f) < 20 {
		return "", 0
	}
	return f[19], f[0][0]
}

type gateEv struct {
	i    int
	done bool
}

// gateSched hands the turn to one subtest at a time.
type gateSched struct {
	resume []chan struct{}
	events chan gateEv
}

func newGateSched(n int) *gateSched {
	g := &gateSched{events: make(chan gateEv, 4*n+4)}
	for i := 0; i < n; i++ {
		g.resume = append(g.resume, make(chan struct{}))
	}
	return g
}

// park is called by subtest i when it reaches a gate: it gives the turn back and waits for it.
func (g *gateSched) park(i int) {
	g.events <- gateEv{i, false}
	<-g.resume[i]
}

// drive runs the schedule; it returns an error text when a subtest does not come back.
func (g *gateSched) drive(n int, sched []int) string {
	done := make([]bool, n)
	parked := make([]bool, n)
	left := n
	wait := func(i int) string {
		for {
			select {
			case ev := <-g.events:
				if ev.done {
					if !done[ev.i] {
						done[ev.i] = true
						left--
					}
				} else {
					parked[ev.i] = true
				}
				if ev.i == i {
					return ""
				}
			case <-time.After(40 * time.Second):
				return fmt.Sprintf("subtest %d did not reach its next gate within 40 s", i)
			}
		}
	}
	// every subtest first parks in Parallel (or ends before it)
	for i := 0; i < n; i++ {
		if !parked[i] && !done[i] {
			if e := wait(i); e != "" {
				return e
			}
		}
	}
	step := func(i int) string {
		if i < 0 || i >= n || done[i] {
			return ""
		}
		parked[i] = false
		g.resume[i] <- struct{}{}
		return wait(i)
	}
	for _, i := range sched {
		if e := step(i); e != "" {
			return e
		}
	}
	for left > 0 {
		for i := 0; i < n; i++ {
			if e := step(i); e != "" {
				return e
			}
		}
	}
	return ""
}

type subT struct {
	root    *rootT
	name    string
	mu      sync.Mutex
	failed  bool
	skipped bool
	logs    []string
	paused  chan struct{} // closed when the subtest calls Parallel
	done    chan struct{}
	panicv  string
	start   time.Time
	end     time.Time
	held    bool
}

func (r *rootT) Skip(a ...any)  { r.fatal = "root Skip: " + fmt.Sprint(a...); runtime.Goexit() }
func (r *rootT) Fatal(a ...any) { r.fatal = "root Fatal: " + fmt.Sprint(a...); runtime.Goexit() }
func (r *rootT) FailNow()       { r.fatal = "root FailNow"; runtime.Goexit() }
func (r *rootT) Parallel()      {}
func (r *rootT) Log(a ...any)   {}
func (r *rootT) Verbose() bool  { return r.verbose }

func (r *rootT) Run(name string, f func(testscript.T)) {
	s := &subT{root: r, name: name, paused: make(chan struct{}), done: make(chan struct{})}
	r.mu.Lock()
	r.subs = append(r.subs, s)
	r.mu.Unlock()
	go func() {
		defer func() {
			if e := recover(); e != nil {
				s.mu.Lock()
				s.panicv = fmt.Sprint(e)
				s.mu.Unlock()
			}
			if r.atEnd != nil {
				r.atEnd(name)
			}
			s.mu.Lock()
			s.end = time.Now()
			held := s.held
			s.mu.Unlock()
			if held {
				<-r.sem
			}
			if r.gs != nil {
				r.gs.events <- gateEv{r.index[name], true}
			}
			close(s.done)
		}()
		s.start = time.Now()
		f(s)
	}()
	if r.seq {
		<-s.done
		return
	}
	// like testing.T.Run: return when the subtest has finished or has called Parallel
	select {
	case <-s.paused:
	case <-s.done:
	}
}

func (s *subT) Parallel() {
	if s.root.seq {
		return
	}
	close(s.paused)
	if s.root.gs != nil {
		s.root.gs.park(s.root.index[s.name])
		return
	}
	<-s.root.release
	s.root.sem <- struct{}{}
	s.mu.Lock()
	s.held = true
	s.mu.Unlock()
}
func (s *subT) Log(a ...any) {
	s.mu.Lock()
	s.logs = append(s.logs, fmt.Sprint(a...))
	s.mu.Unlock()
}
func (s *subT) FailNow() {
	s.mu.Lock()
	s.failed = true
	s.mu.Unlock()
	runtime.Goexit()
}
func (s *subT) Fatal(a ...any) { s.Log(a...); s.FailNow() }
func (s *subT) Skip(a ...any) {
	s.Log(a...)
	s.mu.Lock()
	s.skipped = true
	s.mu.Unlock()
	runtime.Goexit()
}
func (s *subT) Verbose() bool                         { return s.root.verbose }
func (s *subT) Run(name string, f func(testscript.T)) { panic("nested Run not expected") }

func (s *subT) verdict() string {
	s.mu.Lock()
	defer s.mu.Unlock()
	switch {
	case s.panicv != "":
		return "PANIC"
	case s.failed:
		return "FAIL"
	case s.skipped:
		return "SKIP"
	}
	return "PASS"
}

// ---------------------------------------------------------------- observations

type collector struct {
	mu      sync.Mutex
	scripts map[string]*ScriptObs
	bgSeen  map[string]int
	nProbe  int
	keep    []*os.File
}

func (c *collector) get(name string) *ScriptObs {
	o := c.scripts[name]
	if o == nil {
		o = &ScriptObs{Name: name}
		c.scripts[name] = o
	}
	return o
}

// treeString lists what is below dir: "rel:kind" sorted; kind d (directory), D (directory without
// owner write permission), f<hex> (file), x<hex> (file with an execute bit), l<hex> (symbolic link and
// its target, with workdir written $WORK and rundir written $RUN).  Links are not followed.
func treeString(dir string) string { return treeStringIn(dir, dir, "") }

func treeStringIn(dir, workdir, rundir string) string {
	var ents []string
	filepath.WalkDir(dir, func(p string, d fs.DirEntry, err error) error {
		if err != nil || p == dir {
			return nil
		}
		rel, _ := filepath.Rel(dir, p)
		info, err := d.Info()
		if err != nil {
			ents = append(ents, rel+":?")
			return nil
		}
		switch {
		case info.IsDir():
			if info.Mode().Perm()&0o200 == 0 {
				ents = append(ents, rel+":D")
			} else {
				ents = append(ents, rel+":d")
			}
		case info.Mode().IsRegular():
			data, _ := os.ReadFile(p)
			k := "f"
			if info.Mode().Perm()&0o111 != 0 {
				k = "x"
			}
			h := hex.EncodeToString(data)
			if h == "" {
				h = "-"
			}
			ents = append(ents, rel+":"+k+h)
		case info.Mode()&fs.ModeSymlink != 0:
			tg, _ := os.Readlink(p)
			if workdir != "" {
				tg = strings.ReplaceAll(tg, workdir, "$WORK")
			}
			if rundir != "" {
				tg = strings.ReplaceAll(tg, rundir, "$RUN")
			}
			ents = append(ents, rel+":l"+hex.EncodeToString([]byte(tg)))
		default:
			ents = append(ents, rel+":other")
		}
		return nil
	})
	sort.Strings(ents)
	return "[" + strings.Join(ents, ",") + "]"
}

// modesString: "rel:perm" of every entry below dir that is not a symbolic link, sorted.
func modesString(dir string) string {
	var ents []string
	filepath.WalkDir(dir, func(p string, d fs.DirEntry, err error) error {
		if err != nil || p == dir {
			return nil
		}
		rel, _ := filepath.Rel(dir, p)
		info, err := d.Info()
		if err != nil || info.Mode()&fs.ModeSymlink != 0 {
			return nil
		}
		ents = append(ents, fmt.Sprintf("%s:%o", rel, info.Mode().Perm()))
		return nil
	})
	sort.Strings(ents)
	return strings.Join(ents, ",")
}

// endDeferred: the way a deferred function of the given kind ends (deferKind).
func endDeferred(kind string, id int, t testscript.T, ts *testscript.TestScript) {
	switch kind {
	case "panic":
		panic(fmt.Sprintf("deferred function %d panics", id))
	case "failnow":
		t.FailNow()
	case "fatal":
		t.Fatal(fmt.Sprintf("deferred function %d fails the test", id))
	case "skip":
		t.Skip(fmt.Sprintf("deferred function %d skips the test", id))
	case "tsfatalf":
		if ts != nil {
			ts.Fatalf("deferred function %d calls ts.Fatalf", id)
		}
		panic(fmt.Sprintf("deferred function %d panics", id))
	}
}

func runChild(jobPath string) {
	var job Job
	b, err := os.ReadFile(jobPath)
	if err == nil {
		err = json.Unmarshal(b, &job)
	}
	if err != nil {
		fmt.Fprintln(os.Stderr, "child: bad job:", err)
		os.Exit(3)
	}
	syscall.Umask(0o022)
	// A process started with SIGINT ignored (a background job of a non-interactive shell, nohup, some
	// CI runners) passes that on to everything it starts, and the Go runtime keeps it ignored: the
	// background commands of the scripts would then never die on testscript's os.Interrupt and run()
	// would wait for them for ever.  Installing a handler makes the children start with the default
	// disposition again (handlers are not inherited across exec); the signal itself stays without effect here.
	if signal.Ignored(os.Interrupt) {
		signal.Notify(make(chan os.Signal, 1), os.Interrupt)
	}
	if job.Batch.Procs > 0 {
		runtime.GOMAXPROCS(job.Batch.Procs)
	}
	if job.Kind == "deadline" {
		runDeadlineChild(&job)
		return
	}
	if job.Kind == "cleanup" {
		runCleanupChild(&job)
		return
	}
	res := runBatchChild(&job, time.Time{})
	out, _ := json.Marshal(res)
	if err := os.WriteFile(job.Out, out, 0o666); err != nil {
		fmt.Fprintln(os.Stderr, "child:", err)
		os.Exit(3)
	}
}

func runBatchChild(job *Job, deadline time.Time) *ChildResult {
	bt := &job.Batch
	res := &ChildResult{Uid: os.Getuid()}
	col := &collector{scripts: map[string]*ScriptObs{}, bgSeen: map[string]int{}}
	byName := map[string]*Script{}
	tByName := map[string]testscript.T{}
	endMarks := map[string]bool{}
	var files []string
	for i := range bt.Scripts {
		s := &bt.Scripts[i]
		byName[s.Name] = s
		dir := filepath.Join(job.Dir, "scripts", strconv.Itoa(i))
		os.MkdirAll(dir, 0o777)
		f := filepath.Join(dir, s.fileName())
		if err := os.WriteFile(f, s.archiveIn(job.Dir, job.Gated), 0o666); err != nil {
			res.Error = err.Error()
			return res
		}
		files = append(files, f)
		col.get(s.Name)
	}
	obsDir := filepath.Join(job.Dir, "obs")
	os.MkdirAll(obsDir, 0o777)

	p := testscript.Params{Files: files, ContinueOnError: bt.ContinueOnError}
	if files == nil {
		p.Files = []string{} // a batch without scripts: Files non-nil and empty
	}
	switch bt.Retain {
	case "testwork":
		p.TestWork = true
	case "workdirroot":
		p.WorkdirRoot = job.WorkRoot
	case "flag":
		if err := flag.Set("testwork", "true"); err != nil {
			res.Error = "cannot set -testwork: " + err.Error()
			return res
		}
	}
	if !deadline.IsZero() {
		p.Deadline = deadline
	}
	var gs *gateSched
	index := map[string]int{}
	for i := range bt.Scripts {
		index[bt.Scripts[i].Name] = i
	}
	if job.Gated {
		gs = newGateSched(len(bt.Scripts))
	}
	p.Setup = func(env *testscript.Env) error {
		name := strings.TrimPrefix(filepath.Base(env.WorkDir), "script-")
		col.mu.Lock()
		res.SetupDirs = append(res.SetupDirs, env.WorkDir)
		col.mu.Unlock()
		s := byName[name]
		if s == nil {
			return fmt.Errorf("harness: unknown script %q", name)
		}
		if s.DelayMs > 0 {
			time.Sleep(time.Duration(s.DelayMs) * time.Millisecond)
		}
		t := env.T()
		col.mu.Lock()
		tByName[name] = t
		col.mu.Unlock()
		// what a hermetic Setup does to the variable list: nothing, drop it, or filter it by an allow-list
		switch names, isKeep := keepNames(s.SetupVars); {
		case s.SetupVars == "nil":
			env.Vars = nil
		case s.SetupVars == "empty":
			env.Vars = []string{}
		case isKeep:
			var keep []string
			for _, kv := range env.Vars {
				k, _, _ := strings.Cut(kv, "=")
				for _, n := range names {
					if n == k {
						keep = append(keep, kv)
						break
					}
				}
			}
			env.Vars = keep
		}
		for _, kv := range s.Adds {
			env.Vars = append(env.Vars, kv.K+"="+strings.Replace(kv.V, "$WORK", env.WorkDir, 1))
		}
		// ordering of the ends of scripts (see Script.EndMark): registered first, so they run last
		if s.EndMark {
			env.Defer(func() {
				col.mu.Lock()
				endMarks[name] = true
				col.mu.Unlock()
			})
		}
		if len(s.EndAfter) > 0 {
			env.Defer(func() {
				for k := 0; k < 3000; k++ {
					col.mu.Lock()
					all := true
					for _, n := range s.EndAfter {
						// (a script that is not part of this batch - the solitary run - is not waited for)
						if byName[n] != nil && !endMarks[n] {
							all = false
						}
					}
					col.mu.Unlock()
					if all {
						return
					}
					time.Sleep(time.Millisecond)
				}
			})
		}
		var regs []int
		for _, d := range s.Defers {
			d := d
			regs = append(regs, d.ID)
			env.Defer(func() {
				col.mu.Lock()
				o := col.get(name)
				o.Runs = append(o.Runs, d.ID)
				col.mu.Unlock()
				endDeferred(deferKind(d.ID, d.Bad), d.ID, t, nil)
			})
		}
		tree := treeStringIn(env.WorkDir, env.WorkDir, job.Dir)
		setupModes := modesString(env.WorkDir)
		var ino uint64
		if rf, err := os.Open(filepath.Dir(env.WorkDir)); err == nil {
			if st, err := rf.Stat(); err == nil {
				if sys, ok := st.Sys().(*syscall.Stat_t); ok {
					ino = sys.Ino
				}
			}
			col.mu.Lock()
			col.keep = append(col.keep, rf) // stays open until the process ends
			col.mu.Unlock()
		}
		col.mu.Lock()
		o := col.get(name)
		o.RootIno = ino
		o.Workdir = env.WorkDir
		o.HaveSetup = true
		o.SetupEnv = append([]string{}, env.Vars...)
		o.SetupTree = tree
		o.SetupModes = setupModes
		o.Regs = append(o.Regs, regs...)
		col.mu.Unlock()
		if s.SetupErr {
			return fmt.Errorf("setup of %s fails on request", name)
		}
		return nil
	}
	p.Cmds = map[string]func(ts *testscript.TestScript, neg bool, args []string){
		"wfile": func(ts *testscript.TestScript, neg bool, args []string) {
			if len(args) != 2 {
				ts.Fatalf("usage: wfile path hexdata")
			}
			data, err := hex.DecodeString(strings.TrimSuffix(args[1], "x"))
			ts.Check(err)
			ts.Check(os.WriteFile(ts.MkAbs(args[0]), data, 0o666))
		},
		"rofile": func(ts *testscript.TestScript, neg bool, args []string) {
			// a file that is made read-only (as the files of the module cache are)
			if len(args) != 2 {
				ts.Fatalf("usage: rofile path hexdata")
			}
			data, err := hex.DecodeString(strings.TrimSuffix(args[1], "x"))
			ts.Check(err)
			ts.Check(os.WriteFile(ts.MkAbs(args[0]), data, 0o666))
			ts.Check(os.Chmod(ts.MkAbs(args[0]), 0o444))
		},
		"mkdirro": func(ts *testscript.TestScript, neg bool, args []string) {
			if len(args) != 1 {
				ts.Fatalf("usage: mkdirro dir")
			}
			ts.Check(os.MkdirAll(ts.MkAbs(args[0]), 0o777))
			ts.Check(os.Chmod(ts.MkAbs(args[0]), 0o555))
		},
		"regdefer": func(ts *testscript.TestScript, neg bool, args []string) {
			id, _ := strconv.Atoi(args[0])
			bad := len(args) > 1
			name := ts.Name()
			col.mu.Lock()
			o := col.get(name)
			o.Regs = append(o.Regs, id)
			col.mu.Unlock()
			col.mu.Lock()
			t := tByName[name]
			col.mu.Unlock()
			ts.Defer(func() {
				col.mu.Lock()
				o := col.get(name)
				o.Runs = append(o.Runs, id)
				col.mu.Unlock()
				endDeferred(deferKind(id, bad), id, t, ts)
			})
		},
		// custom commands that end the run through the T of the subtest instead of ts.Fatalf
		"tskip": func(ts *testscript.TestScript, neg bool, args []string) {
			col.mu.Lock()
			t := tByName[ts.Name()]
			col.mu.Unlock()
			t.Skip("custom command skips the test through Env.T()")
		},
		"tfailnow": func(ts *testscript.TestScript, neg bool, args []string) {
			col.mu.Lock()
			t := tByName[ts.Name()]
			col.mu.Unlock()
			if len(args) > 0 {
				t.Fatal("custom command fails the test through Env.T()")
			}
			t.FailNow()
		},
		"bgrecord": func(ts *testscript.TestScript, neg bool, args []string) {
			h, _ := strconv.Atoi(args[0])
			cmds := ts.BackgroundCmds()
			name := ts.Name()
			col.mu.Lock()
			defer col.mu.Unlock()
			if len(cmds) > col.bgSeen[name] {
				col.bgSeen[name] = len(cmds)
				c := cmds[len(cmds)-1]
				if c.Process != nil {
					o := col.get(name)
					start, _ := procStart(c.Process.Pid)
					o.Bg = append(o.Bg, BgObs{H: h, Pid: c.Process.Pid, Start: start})
					if h >= 50 && h < 100 {
						// this kind announces when its signal handler is in place
						ready := filepath.Join(obsDir, fmt.Sprintf("ready-%d", c.Process.Pid))
						col.mu.Unlock()
						for k := 0; k < 300; k++ {
							if _, err := os.Stat(ready); err == nil {
								break
							}
							time.Sleep(10 * time.Millisecond)
						}
						col.mu.Lock()
					}
				}
			}
		},
		"gate": func(ts *testscript.TestScript, neg bool, args []string) {
			if gs != nil {
				gs.park(index[ts.Name()])
			}
		},
		"boom": func(ts *testscript.TestScript, neg bool, args []string) {
			panic("custom command panics on request")
		},
		"probe": func(ts *testscript.TestScript, neg bool, args []string) {
			name := ts.Name()
			col.mu.Lock()
			col.nProbe++
			n := col.nProbe
			wd := col.get(name).Workdir
			col.mu.Unlock()
			out := filepath.Join(obsDir, fmt.Sprintf("probe-%d.json", n))
			ts.Check(ts.Exec(job.Helper, "probe", out))
			var pr struct {
				Pid int      `json:"pid"`
				Cwd string   `json:"cwd"`
				Env []string `json:"env"`
			}
			b, err := os.ReadFile(out)
			ts.Check(err)
			ts.Check(json.Unmarshal(b, &pr))
			tree := treeStringIn(wd, wd, job.Dir)
			modes := modesString(wd)
			col.mu.Lock()
			o := col.get(name)
			o.Probes = append(o.Probes, ProbeObs{Pid: pr.Pid, Cwd: pr.Cwd, Env: pr.Env, Tree: tree, Modes: modes})
			col.mu.Unlock()
		},
	}

	par := bt.Par
	if par <= 0 {
		par = 8
	}
	root := &rootT{release: make(chan struct{}), sem: make(chan struct{}, par), verbose: bt.Verbose, gs: gs, index: index, seq: bt.SeqT}
	// "When a run ends ... no process it started is still alive": looked at the moment the subtest function
	// returns.  run() has then waited for every background command (cmd.Wait has returned), so not even
	// a zombie of that pid and start time can be left.
	root.atEnd = func(name string) {
		col.mu.Lock()
		defer col.mu.Unlock()
		o := col.get(name)
		for _, b := range o.Bg {
			if b.Start == "" {
				continue
			}
			if start, state := procStart(b.Pid); start == b.Start && state != 'Z' && state != 'X' {
				o.AliveAtEnd = append(o.AliveAtEnd, fmt.Sprintf("b%d:pid%d", b.H, b.Pid))
			}
		}
	}
	t0 := time.Now()
	res.T0 = t0.UnixNano()
	ran := make(chan struct{})
	go func() { // RunT may leave through root.Fatal (Goexit)
		defer close(ran)
		testscript.RunT(root, p)
	}()
	<-ran
	if gs != nil {
		if e := gs.drive(len(root.subs), job.Sched); e != "" {
			res.Error = "gated run: " + e
			return res
		}
	}
	close(root.release)
	for _, s := range root.subs {
		<-s.done
	}
	res.RunTNs = time.Since(t0).Nanoseconds()
	res.RootFatal = root.fatal
	for _, s := range root.subs {
		res.Names = append(res.Names, s.name)
	}
	for _, s := range root.subs {
		col.mu.Lock()
		o := col.get(s.name)
		o.Verdict = s.verdict()
		s.mu.Lock()
		o.Log = strings.Join(s.logs, "\n")
		o.Panic = s.panicv
		o.StartNs = s.start.Sub(t0).Nanoseconds()
		o.EndNs = s.end.Sub(t0).Nanoseconds()
		s.mu.Unlock()
		col.mu.Unlock()
	}
	for i := range bt.Scripts {
		res.Scripts = append(res.Scripts, col.get(bt.Scripts[i].Name))
	}
	return res
}

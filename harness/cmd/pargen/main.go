// Command pargen regenerates harness/gen/parv from $VERIF_REPO/par/work.go (default /repo): a
// copy of the file in which the imports "sync", "sync/atomic" and "math/rand" are redirected to
// verif/harness/internal/vsync and every go statement becomes vsync.Go(func(){...}), so that the
// real code of par.Work / par.Cache runs on the cooperative scheduler.  Nothing under the
// repository is touched.
//
// A go statement with arguments evaluates them first: go f(a) becomes { _ga0 := a; vsync.Go(func() { f(_ga0) }) }.
// The shim provides Mutex, Cond, Map (all methods), Once, RWMutex, WaitGroup, the function forms and the typed
// values of sync/atomic, and Intn / Int31n / Int63n of math/rand.
//
// Fail soft: if the source can still not be put on the scheduler (a selector of a shimmed package the shim does
// not provide, channel operations, an import of time / runtime, a compile error of the copy), a stub package
// with Available = false and the reason is written instead; the runner then reports that the source can no longer
// be tied to the model (a correspondence finding) after running its direct oracles on the unmodified package.
//
// usage (from /verif/harness): go run ./cmd/pargen [-out gen/parv]
package main

import (
	"bytes"
	"flag"
	"fmt"
	"go/ast"
	"go/parser"
	"go/printer"
	"go/token"
	"os"
	"os/exec"
	"path/filepath"
	"strconv"
	"strings"

	"golang.org/x/tools/go/ast/astutil"
)

const shimPath = "verif/harness/internal/vsync"

var shimmed = map[string]string{"sync": "sync", "sync/atomic": "atomic", "math/rand": "rand"}

// what the shim provides, per original package
var provided = map[string]map[string]bool{
	"sync": set("Mutex", "Cond", "NewCond", "Map", "Locker", "Once", "RWMutex", "WaitGroup"), // Mutex incl. TryLock; Map with all its methods
	"sync/atomic": set("LoadUint32", "StoreUint32",
		"LoadInt32", "LoadInt64", "LoadUint64", "LoadUintptr", "StoreInt32", "StoreInt64", "StoreUint64", "StoreUintptr",
		"AddInt32", "AddInt64", "AddUint32", "AddUint64", "SwapInt32", "SwapInt64", "SwapUint32", "SwapUint64",
		"CompareAndSwapInt32", "CompareAndSwapInt64", "CompareAndSwapUint32", "CompareAndSwapUint64",
		"Int32", "Int64", "Uint32", "Uint64", "Bool", "Pointer", "Value"),
	"math/rand": set("Intn", "Int31n", "Int63n"),
}

func set(names ...string) map[string]bool {
	m := map[string]bool{}
	for _, n := range names {
		m[n] = true
	}
	return m
}

// shimType: is the type expression a type of one of the shimmed packages (sync.Mutex, atomic.Int32,
// atomic.Pointer[T], ...)?  Fields of such types are synchronisation objects, not ordinary shared variables.
func shimType(e ast.Expr, local map[string]string) bool {
	for {
		switch x := e.(type) {
		case *ast.IndexExpr:
			e = x.X
			continue
		case *ast.IndexListExpr:
			e = x.X
			continue
		case *ast.SelectorExpr:
			id, ok := x.X.(*ast.Ident)
			return ok && local[id.Name] != ""
		}
		return false
	}
}

// plainFields: the fields of struct cacheEntry that are ordinary shared variables: not of a sync type and
// never passed by address to sync/atomic.
func plainFields(f *ast.File, local map[string]string) map[string]bool {
	res := map[string]bool{}
	ast.Inspect(f, func(n ast.Node) bool {
		ts, ok := n.(*ast.TypeSpec)
		if !ok || ts.Name.Name != "cacheEntry" {
			return true
		}
		st, ok := ts.Type.(*ast.StructType)
		if !ok {
			return true
		}
		for _, fl := range st.Fields.List {
			if shimType(fl.Type, local) {
				continue // sync.Mutex etc.
			}
			for _, nm := range fl.Names {
				res[nm.Name] = true
			}
		}
		return false
	})
	ast.Inspect(f, func(n ast.Node) bool { // &e.done handed to atomic.*: not plain
		c, ok := n.(*ast.CallExpr)
		if !ok {
			return true
		}
		if sel, ok := c.Fun.(*ast.SelectorExpr); ok {
			if x, ok := sel.X.(*ast.Ident); ok && local[x.Name] == "sync/atomic" {
				for _, a := range c.Args {
					if u, ok := a.(*ast.UnaryExpr); ok && u.Op == token.AND {
						if fs, ok := u.X.(*ast.SelectorExpr); ok {
							delete(res, fs.Sel.Name)
						}
					}
				}
			}
		}
		return true
	})
	return res
}

// instrumentPlain rewrites assignments to and reads of the plain fields of cacheEntry into
// vsyncgo.PlainStore(&x.f, v) / vsyncgo.PlainLoad(&x.f).  Returns the number of rewritten accesses.
func instrumentPlain(f *ast.File, fields map[string]bool) (int, error) {
	n := 0
	var bad error
	generated := map[ast.Node]bool{}
	isPlain := func(e ast.Expr) (*ast.SelectorExpr, bool) {
		sel, ok := e.(*ast.SelectorExpr)
		if !ok || !fields[sel.Sel.Name] {
			return nil, false
		}
		if _, ok := sel.X.(*ast.Ident); !ok {
			return nil, false
		}
		return sel, true
	}
	call := func(fn string, args ...ast.Expr) *ast.CallExpr {
		c := &ast.CallExpr{Fun: &ast.SelectorExpr{X: ast.NewIdent("vsyncgo"), Sel: ast.NewIdent(fn)}, Args: args}
		generated[c] = true
		return c
	}
	astutil.Apply(f, func(c *astutil.Cursor) bool {
		if generated[c.Node()] {
			return false
		}
		switch x := c.Node().(type) {
		case *ast.AssignStmt:
			for _, l := range x.Lhs {
				if _, ok := isPlain(l); ok {
					if len(x.Lhs) != 1 || len(x.Rhs) != 1 || x.Tok != token.ASSIGN {
						bad = fmt.Errorf("unsupported form of assignment to a plain field")
						return false
					}
				}
			}
			if sel, ok := isPlain(x.Lhs[0]); ok && len(x.Lhs) == 1 {
				// the right-hand side may itself read plain fields: instrument it first
				rhs := x.Rhs[0]
				st := &ast.ExprStmt{X: call("PlainStore", &ast.UnaryExpr{Op: token.AND, X: sel}, rhs)}
				generated[st] = true
				n++
				c.Replace(st)
				return false
			}
		case *ast.IncDecStmt:
			if _, ok := isPlain(x.X); ok {
				bad = fmt.Errorf("unsupported ++/-- on a plain field")
				return false
			}
		case *ast.UnaryExpr:
			if x.Op == token.AND {
				if _, ok := isPlain(x.X); ok {
					bad = fmt.Errorf("address of a plain field is taken")
					return false
				}
			}
		}
		return true
	}, func(c *astutil.Cursor) bool {
		if sel, ok := c.Node().(*ast.SelectorExpr); ok && !generated[sel] {
			if _, ok := isPlain(sel); ok {
				if _, isField := c.Parent().(*ast.Field); !isField {
					n++
					c.Replace(call("PlainLoad", &ast.UnaryExpr{Op: token.AND, X: sel}))
				}
			}
		}
		return true
	})
	return n, bad
}

// instrumentWork inserts vsyncgo.Touch(&w.field, isWrite) in front of every statement of the methods of Work
// that uses one of Work's ordinary fields (those not of a sync type).  Returns the number of Touch calls.
func instrumentWork(f *ast.File, local map[string]string) int {
	fields := map[string]bool{}
	ast.Inspect(f, func(n ast.Node) bool {
		ts, ok := n.(*ast.TypeSpec)
		if !ok || ts.Name.Name != "Work" {
			return true
		}
		if st, ok := ts.Type.(*ast.StructType); ok {
			for _, fl := range st.Fields.List {
				if shimType(fl.Type, local) {
					continue
				}
				for _, nm := range fl.Names {
					fields[nm.Name] = true
				}
			}
		}
		return false
	})
	if len(fields) == 0 {
		return 0
	}
	total := 0
	for _, d := range f.Decls {
		fd, ok := d.(*ast.FuncDecl)
		if !ok || fd.Recv == nil || fd.Body == nil || len(fd.Recv.List) != 1 || len(fd.Recv.List[0].Names) != 1 {
			continue
		}
		t := fd.Recv.List[0].Type
		if st, ok := t.(*ast.StarExpr); ok {
			t = st.X
		}
		if id, ok := t.(*ast.Ident); !ok || id.Name != "Work" {
			continue
		}
		recv := fd.Recv.List[0].Names[0].Name
		type use struct {
			field string
			write bool
		}
		fieldOf := func(e ast.Expr) (string, bool) {
			sel, ok := e.(*ast.SelectorExpr)
			if !ok || !fields[sel.Sel.Name] {
				return "", false
			}
			x, ok := sel.X.(*ast.Ident)
			return sel.Sel.Name, ok && x.Name == recv
		}
		var reads func(e ast.Expr, acc *[]use)
		reads = func(e ast.Expr, acc *[]use) {
			if e == nil {
				return
			}
			ast.Inspect(e, func(n ast.Node) bool {
				if _, isLit := n.(*ast.FuncLit); isLit {
					return false
				}
				if x, ok := n.(ast.Expr); ok {
					if fn, ok := fieldOf(x); ok {
						*acc = append(*acc, use{fn, false})
					}
				}
				return true
			})
		}
		root := func(e ast.Expr) ast.Expr {
			for {
				switch x := e.(type) {
				case *ast.IndexExpr:
					e = x.X
				case *ast.SliceExpr:
					e = x.X
				case *ast.ParenExpr:
					e = x.X
				case *ast.StarExpr:
					e = x.X
				default:
					return e
				}
			}
		}
		var usesOf func(s ast.Stmt) []use
		usesOf = func(s ast.Stmt) []use {
			var acc []use
			switch x := s.(type) {
			case *ast.AssignStmt:
				for _, l := range x.Lhs {
					if fn, ok := fieldOf(root(l)); ok {
						acc = append(acc, use{fn, true})
						if ix, ok := l.(*ast.IndexExpr); ok {
							reads(ix.Index, &acc)
						}
					} else {
						reads(l, &acc)
					}
				}
				for _, r := range x.Rhs {
					reads(r, &acc)
				}
			case *ast.IncDecStmt:
				if fn, ok := fieldOf(root(x.X)); ok {
					acc = append(acc, use{fn, true})
				}
			case *ast.ExprStmt:
				reads(x.X, &acc)
			case *ast.ReturnStmt:
				for _, r := range x.Results {
					reads(r, &acc)
				}
			case *ast.IfStmt:
				if x.Init != nil {
					acc = append(acc, usesOf(x.Init)...)
				}
				reads(x.Cond, &acc)
			case *ast.ForStmt:
				if x.Init != nil {
					acc = append(acc, usesOf(x.Init)...)
				}
				reads(x.Cond, &acc)
				if x.Post != nil {
					acc = append(acc, usesOf(x.Post)...)
				}
			case *ast.RangeStmt:
				reads(x.X, &acc)
			case *ast.SwitchStmt:
				if x.Init != nil {
					acc = append(acc, usesOf(x.Init)...)
				}
				reads(x.Tag, &acc)
			case *ast.GoStmt:
				reads(x.Call, &acc)
			case *ast.DeferStmt:
				reads(x.Call, &acc)
			}
			return acc
		}
		touches := func(us []use) []ast.Stmt {
			seen := map[use]bool{}
			var out []ast.Stmt
			for _, u := range us {
				if seen[u] || (!u.write && seen[use{u.field, true}]) {
					continue
				}
				seen[u] = true
				w := "false"
				if u.write {
					w = "true"
				}
				out = append(out, &ast.ExprStmt{X: &ast.CallExpr{
					Fun:  &ast.SelectorExpr{X: ast.NewIdent("vsyncgo"), Sel: ast.NewIdent("Touch")},
					Args: []ast.Expr{&ast.UnaryExpr{Op: token.AND, X: &ast.SelectorExpr{X: ast.NewIdent(recv), Sel: ast.NewIdent(u.field)}}, ast.NewIdent(w)},
				}})
				total++
			}
			return out
		}
		var doList func(list []ast.Stmt) []ast.Stmt
		var doStmt func(s ast.Stmt)
		doStmt = func(s ast.Stmt) {
			switch x := s.(type) {
			case *ast.BlockStmt:
				x.List = doList(x.List)
			case *ast.IfStmt:
				x.Body.List = doList(x.Body.List)
				if x.Else != nil {
					doStmt(x.Else)
				}
			case *ast.ForStmt:
				x.Body.List = doList(x.Body.List)
				// the condition is evaluated again after every iteration
				var acc []use
				reads(x.Cond, &acc)
				x.Body.List = append(x.Body.List, touches(acc)...)
			case *ast.RangeStmt:
				x.Body.List = doList(x.Body.List)
			case *ast.SwitchStmt:
				for _, c := range x.Body.List {
					if cc, ok := c.(*ast.CaseClause); ok {
						cc.Body = doList(cc.Body)
					}
				}
			case *ast.LabeledStmt:
				doStmt(x.Stmt)
			}
		}
		doList = func(list []ast.Stmt) []ast.Stmt {
			var out []ast.Stmt
			for _, s := range list {
				out = append(out, touches(usesOf(s))...)
				doStmt(s)
				out = append(out, s)
			}
			return out
		}
		fd.Body.List = doList(fd.Body.List)
	}
	return total
}

func rewrite(src string, plain bool) ([]byte, error) {
	fset := token.NewFileSet()
	f, err := parser.ParseFile(fset, src, nil, parser.ParseComments)
	if err != nil {
		return nil, err
	}
	f.Name.Name = "parv"
	local := map[string]string{} // local import name -> original path
	for _, im := range f.Imports {
		p, _ := strconv.Unquote(im.Path.Value)
		base, ok := shimmed[p]
		if !ok {
			if strings.Contains(p, ".") || strings.HasPrefix(p, "sync") || strings.HasPrefix(p, "math/rand") || p == "time" || p == "runtime" {
				return nil, fmt.Errorf("import %q cannot be run on the cooperative scheduler", p)
			}
			continue
		}
		name := base
		if im.Name != nil {
			if im.Name.Name == "_" || im.Name.Name == "." {
				return nil, fmt.Errorf("import %s %q not supported", im.Name.Name, p)
			}
			name = im.Name.Name
		}
		local[name] = p
		im.Name = ast.NewIdent(name)
		im.Path.Value = strconv.Quote(shimPath)
	}
	if len(local) == 0 {
		return nil, fmt.Errorf("none of sync, sync/atomic, math/rand is imported: nothing to control")
	}
	var bad error
	nGo := 0
	var fix func(list []ast.Stmt)
	fixStmt := func(s ast.Stmt) ast.Stmt {
		g, ok := s.(*ast.GoStmt)
		if !ok {
			return s
		}
		var pre ast.Stmt
		if len(g.Call.Args) != 0 {
			// go f(a, b)  ==>  { _ga0, _ga1 := a, b; vsyncgo.Go(func() { f(_ga0, _ga1) }) }: the arguments are
			// evaluated by the goroutine that executes the go statement
			as := &ast.AssignStmt{Tok: token.DEFINE}
			call := &ast.CallExpr{Fun: g.Call.Fun, Ellipsis: g.Call.Ellipsis}
			for i, a := range g.Call.Args {
				id := fmt.Sprintf("_ga%d", i)
				as.Lhs = append(as.Lhs, ast.NewIdent(id))
				as.Rhs = append(as.Rhs, a)
				call.Args = append(call.Args, ast.NewIdent(id))
			}
			if call.Ellipsis.IsValid() {
				call.Ellipsis = token.Pos(1)
			}
			pre, g = as, &ast.GoStmt{Go: g.Go, Call: call}
		}
		if _, isLit := g.Call.Fun.(*ast.FuncLit); !isLit {
			if sel, ok := g.Call.Fun.(*ast.SelectorExpr); !ok {
				if _, ok := g.Call.Fun.(*ast.Ident); !ok {
					bad = fmt.Errorf("%s: unsupported go statement", fset.Position(g.Pos()))
					return s
				}
			} else if _, ok := sel.X.(*ast.Ident); !ok {
				bad = fmt.Errorf("%s: go statement on a computed receiver is not supported", fset.Position(g.Pos()))
				return s
			}
		}
		nGo++
		spawn := &ast.ExprStmt{X: &ast.CallExpr{
			Fun: &ast.SelectorExpr{X: ast.NewIdent("vsyncgo"), Sel: ast.NewIdent("Go")},
			Args: []ast.Expr{&ast.FuncLit{
				Type: &ast.FuncType{Params: &ast.FieldList{}},
				Body: &ast.BlockStmt{List: []ast.Stmt{&ast.ExprStmt{X: g.Call}}},
			}},
		}}
		if pre != nil {
			return &ast.BlockStmt{List: []ast.Stmt{pre, spawn}}
		}
		return spawn
	}
	fix = func(list []ast.Stmt) {
		for i := range list {
			list[i] = fixStmt(list[i])
		}
	}
	ast.Inspect(f, func(n ast.Node) bool {
		switch n := n.(type) {
		case *ast.BlockStmt:
			fix(n.List)
		case *ast.CaseClause:
			fix(n.Body)
		case *ast.CommClause:
			fix(n.Body)
		case *ast.LabeledStmt:
			n.Stmt = fixStmt(n.Stmt)
		case *ast.SelectorExpr:
			if x, ok := n.X.(*ast.Ident); ok && x.Obj == nil {
				if p, ok := local[x.Name]; ok && !provided[p][n.Sel.Name] {
					bad = fmt.Errorf("%s: %s.%s is not provided by the scheduler shim", fset.Position(n.Pos()), x.Name, n.Sel.Name)
				}
			}
		case *ast.SelectStmt, *ast.SendStmt:
			bad = fmt.Errorf("%s: channel operations cannot be controlled", fset.Position(n.Pos()))
		case *ast.UnaryExpr:
			if n.Op == token.ARROW {
				bad = fmt.Errorf("%s: channel operations cannot be controlled", fset.Position(n.Pos()))
			}
		}
		return true
	})
	if bad != nil {
		return nil, bad
	}
	nPlain, nTouch := 0, 0
	if plain {
		fields := plainFields(f, local)
		if len(fields) == 0 {
			return nil, fmt.Errorf("struct cacheEntry has no plain field to instrument")
		}
		var err error
		nPlain, err = instrumentPlain(f, fields)
		if err != nil {
			return nil, err
		}
		if nPlain == 0 {
			return nil, fmt.Errorf("no access to a plain field of cacheEntry found")
		}
		nTouch = instrumentWork(f, local)
		f.Comments = nil // positions of comments no longer fit the rewritten statements
	}
	// import used by the rewritten go statements
	f.Decls = append([]ast.Decl{&ast.GenDecl{Tok: token.IMPORT, Specs: []ast.Spec{
		&ast.ImportSpec{Name: ast.NewIdent("vsyncgo"), Path: &ast.BasicLit{Kind: token.STRING, Value: strconv.Quote(shimPath)}},
	}}}, f.Decls...)
	var buf bytes.Buffer
	fmt.Fprintf(&buf, "// Code generated by harness/cmd/pargen from %s. DO NOT EDIT.\n\n", src)
	if err := printer.Fprint(&buf, fset, f); err != nil {
		return nil, err
	}
	fmt.Fprintf(&buf, "\nvar _ = vsyncgo.Go\n\n// GoStatements is the number of go statements that were rewritten.\nconst GoStatements = %d\n\n// PlainAccesses is the number of plain accesses to cacheEntry fields that were made scheduling points.\nconst PlainAccesses = %d\n\n// WorkTouches is the number of access markers inserted in the methods of Work.\nconst WorkTouches = %d\n", nGo, nPlain, nTouch)
	return buf.Bytes(), nil
}

const apiCheck = `package parv

// compile-time check that the copy still has the API the runner drives
var _ = func(w *Work, c *Cache) {
	w.Add(1)
	w.Do(1, func(any) {})
	var _ any = c.Do(1, func() any { return nil })
	var _ any = c.Get(1)
}
`

func writeStub(out, reason string) {
	os.RemoveAll(out)
	os.MkdirAll(out, 0o755)
	stub := fmt.Sprintf(`// Code generated by harness/cmd/pargen. DO NOT EDIT.
// The instrumented copy of par/work.go could not be produced; this stub keeps the runner building.
package parv

const Available = false
const Reason = %q
const GoStatements = 0
const PlainAccesses = 0
const WorkTouches = 0

type Work struct{}

func (w *Work) Add(item any)               {}
func (w *Work) Do(n int, f func(item any)) {}

type Cache struct{}

func (c *Cache) Do(key any, f func() any) any { return nil }
func (c *Cache) Get(key any) any              { return nil }
`, reason)
	os.WriteFile(filepath.Join(out, "stub.go"), []byte(stub), 0o644)
}

func main() {
	out := flag.String("out", "gen/parv", "output directory (inside the harness module)")
	wantPlain := flag.Bool("plain", false, "also make the plain accesses to cacheEntry fields scheduling points")
	flag.Parse()
	repo := os.Getenv("VERIF_REPO")
	if repo == "" {
		repo = "/repo"
	}
	src := filepath.Join(repo, "par", "work.go")
	var lastErr string
	for _, plain := range []bool{true, false} {
		if plain && !*wantPlain {
			continue
		}
		code, err := rewrite(src, plain)
		if err != nil {
			lastErr = err.Error()
			if plain {
				fmt.Println("pargen: plain accesses not instrumented:", err)
				continue
			}
			writeStub(*out, "rewrite of "+src+" failed: "+err.Error())
			fmt.Println("pargen: STUB:", err)
			return
		}
		os.RemoveAll(*out)
		os.MkdirAll(*out, 0o755)
		os.WriteFile(filepath.Join(*out, "work.go"), code, 0o644)
		os.WriteFile(filepath.Join(*out, "meta.go"), []byte("// Code generated by harness/cmd/pargen. DO NOT EDIT.\npackage parv\n\nconst Available = true\nconst Reason = \"\"\n"), 0o644)
		os.WriteFile(filepath.Join(*out, "api_check.go"), []byte("// Code generated by harness/cmd/pargen. DO NOT EDIT.\n"+apiCheck), 0o644)
		cmd := exec.Command("go", "build", "./"+filepath.ToSlash(*out))
		b, err := cmd.CombinedOutput()
		if err == nil {
			break
		}
		msg := strings.TrimSpace(string(b))
		if len(msg) > 600 {
			msg = msg[:600]
		}
		lastErr = msg
		if plain {
			fmt.Println("pargen: copy with instrumented plain accesses does not compile:", msg)
			continue
		}
		writeStub(*out, "the instrumented copy of "+src+" does not compile: "+msg)
		fmt.Println("pargen: STUB: copy does not compile:", msg)
		return
	}
	_ = lastErr
	fmt.Println("pargen: ok", filepath.Join(*out, "work.go"))
}

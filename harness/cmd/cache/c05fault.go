package main

// C05, the first clause under faults and under concurrent lookups: "after Put(id, data) returns
// without error, GetBytes(id) returns exactly data and GetFile(id) names a file holding exactly
// data".  A Put whose file operations fail may fail -- but when it returns nil the entry must be
// there.  Every file operation of Put / PutBytes (through the os shim) is made to fail or to be
// short, from new / overwritten / re-stored / shared / partial / damaged stores; the calls that
// return nil are followed by exact lookups (direct oracles; the comparison with the model's
// faulty semantics is C12's).  Then the lookups of intact entries by goroutines sharing ONE
// *cache.Cache (replayed schedules, one file operation per turn) must return what was stored.
// Finally descriptors: a call repeated on one Cache value with few descriptors to spare must
// not make an intact entry unreadable.

import (
	"fmt"
	"os"
	"path/filepath"
	"strings"

	"verif/harness/common"
)

func runC05Faults(f *common.Flags, res *common.Result, m *mdl) string {
	shim, real, _ := buildWorkers(f.Work)
	if shim == "" {
		if real != "" {
			return "no os-shimmed build: file-operation faults not injected; " + runRepeats(f, res, real, false)
		}
		return "no worker: neither faults nor descriptor exhaustion exercised"
	}
	var scs []c12Scenario
	for _, sc := range c12AllScenarios(f.Tier) {
		if sc.Reader != "" || len(sc.Before) > 0 || len(sc.After) > 0 || (len(sc.Data) > 5000 && f.Tier != "thorough") || len(sc.Data) == 1 {
			continue
		}
		scs = append(scs, sc)
	}
	ns := c12Shards()
	var shards []*c12Runner
	for i := 0; i < ns; i++ {
		rn, done, err := newC12Shard(f, shim, 300+i, nil, "c05f")
		if err != nil {
			break
		}
		defer done()
		shards = append(shards, rn)
	}
	if len(shards) == 0 {
		return "cannot start the shimmed worker"
	}
	order := make([]int, len(scs))
	for i := range order {
		order[i] = i
	}
	recs := make([]*recorder, len(scs))
	parallelUnits(len(shards), order, func(sh, u int) {
		rec := newRecorder()
		recs[u] = rec
		rn := shards[sh]
		rn.res = rec
		sc := &scs[u]
		base := rn.runCase(sc, nil, nil, false)
		rec.Case("fault:"+sc.Name+":none", true)
		if base.impl != "" {
			rn.report(sc, nil, base)
		}
		for k := 0; k < base.nops; k++ {
			plans := []c12Plan{{k, "fail", 0}, {k, "short", 1}}
			if base.log[k].Name == "write" {
				plans = append(plans, c12Plan{k, "short", 0}, c12Plan{k, "short", base.log[k].N - 1})
			}
			for pi := range plans {
				o := rn.runCase(sc, &plans[pi], nil, false)
				rec.Case("fault:"+sc.Name+":"+plans[pi].String(), true)
				rec.Count("put-under-fault:" + o.res)
				if o.impl != "" {
					rn.report(sc, &plans[pi], o)
				}
			}
		}
	})
	for _, r := range recs {
		if r != nil {
			r.mergeInto(res)
		}
	}
	// goroutines sharing one Cache value, each looking up an intact entry
	nsh, nrs := 0, 0
	{
		w, err := startWorker(shim)
		if err == nil {
			defer w.close()
			dir := filepath.Join(f.Work, "c05shared")
			os.MkdirAll(dir, 0o777)
			if r, err := w.call(map[string]any{"cmd": "open", "dir": dir}); err == nil && r.Res == "ok" {
				rn := &c11Runner{f: f, res: res, m: m, w: w, dir: dir}
				rn.c12 = &c12Runner{f: f, res: res, m: m, w: w, dir: dir, touched: map[string]bool{}}
				rn.prefix = "c05"
				for _, c := range c11Contents {
					m.hash(c)
				}
				for _, sc := range systematicC11() {
					if sc.Shared {
						rn.one(sc, "shared-handle")
						nsh++
					} else if sc.Restore {
						// an entry stored before, re-stored with the same bytes while it is looked up: it was
						// neither overwritten with other data, nor trimmed, nor damaged -- the lookup must hit
						rn.one(sc, "restore-same")
						nrs++
					}
				}
			}
		}
	}
	rp := runRepeats(f, res, shim, true)
	return fmt.Sprintf("%d fault scenarios (every file operation of Put and of PutBytes made to fail / to be short, from new, overwritten, re-stored, shared, partial and damaged stores; a call that returns nil must be followed by exact GetBytes / GetFile, every lookup keeps its checksum / size guarantee, every call that returns leaves the descriptors it found); %d replayed schedules of goroutines sharing ONE Cache value, each looking up an intact entry (must hit, with the stored bytes); %d replayed schedules of a re-store of identical content at every operation boundary of a lookup of that id and vice versa (must hit); %s", len(scs), nsh, nrs, strings.TrimSpace(rp))
}

// replayBorrowed re-executes a finding of the machinery borrowed from C12 / C11 (fault scenario,
// shared-handle schedule, descriptor exhaustion); false when the input is not one of those.
func replayBorrowed(f *common.Flags, res *common.Result, m *mdl, in map[string]string) bool {
	if in["repeat"] == "" && in["scenario"] == "" {
		return false
	}
	shim, real, _ := buildWorkers(f.Work)
	if in["repeat"] != "" {
		replayC12History(f, res, shim, real, in)
		return true
	}
	if shim == "" {
		res.Notes = append(res.Notes, "replay needs the os-shimmed build")
		return true
	}
	if in["plan"] != "" {
		rn, done, err := newC12Shard(f, shim, 0, res, keyPrefixOf(res)+"f")
		if err != nil {
			return true
		}
		defer done()
		scs := c12AllScenarios(f.Tier)
		for i := range scs {
			if scs[i].Name == in["scenario"] {
				var plan *c12Plan
				if ps := strings.Split(in["plan"], ":"); len(ps) == 3 {
					var k, j int
					fmt.Sscan(ps[0], &k)
					fmt.Sscan(ps[2], &j)
					plan = &c12Plan{k, ps[1], j}
				}
				o := rn.runCase(&scs[i], plan, nil, false)
				res.Case(scs[i].Name+plan.String(), true)
				rn.report(&scs[i], plan, o)
			}
		}
		return true
	}
	if sc := parseC11(in["scenario"]); sc != nil {
		w, err := startWorker(shim)
		if err != nil {
			return true
		}
		defer w.close()
		dir := filepath.Join(f.Work, "replaydir")
		os.MkdirAll(dir, 0o777)
		if r, err := w.call(map[string]any{"cmd": "open", "dir": dir}); err == nil && r.Res == "ok" {
			rn := &c11Runner{f: f, res: res, m: m, w: w, dir: dir, prefix: keyPrefixOf(res)}
			rn.c12 = &c12Runner{f: f, res: res, m: m, w: w, dir: dir, touched: map[string]bool{}}
			for _, c := range c11Contents {
				m.hash(c)
			}
			rn.one(sc, "replay")
		}
	}
	return true
}

package main

// C05, operation traces: histories are run, call by call, through the os-shimmed copy of the
// package and through the model; beside the results, the sequence of file operations of every
// Put / PutBytes / Get / GetBytes / GetFile / OutputFile (including the Stat / Chtimes of c.used)
// is compared with the model's.

import (
	"encoding/hex"
	"fmt"
	"os"
	"path/filepath"
	"strings"

	"verif/harness/common"
)

func runC05Traces(f *common.Flags, res *common.Result, m *mdl, n int) {
	shim, _, notes := buildWorkers(f.Work)
	if shim == "" {
		res.Notes = append(res.Notes, notes...)
		res.Notes = append(res.Notes, "operation traces of the C05 calls not compared (no os-shimmed build)")
		return
	}
	w, err := startWorker(shim)
	if err != nil {
		res.Notes = append(res.Notes, "cannot start the shimmed worker: "+err.Error())
		return
	}
	defer w.close()
	dir := filepath.Join(f.Work, "c05trace")
	os.MkdirAll(dir, 0o777)
	if r, err := w.call(map[string]any{"cmd": "open", "dir": dir}); err != nil || r.Res != "ok" {
		res.Notes = append(res.Notes, "shimmed worker cannot open the cache directory")
		return
	}
	r := common.NewRNG(f.Seed ^ 0x5ca1ab1e)
	for hi := 0; hi < n; hi++ {
		hs, _ := genHistory(r)
		for _, p := range knownFiles(dir) {
			os.Remove(p)
		}
		m.ask("reset")
		hstr := histString(hs)
		bad := func(i int, what, impl, model string) {
			violate(res, common.Violation{Kind: "correspondence", Oracle: "op-trace:" + what,
				Input: map[string]string{"history": hstr, "step": fmt.Sprint(i)}, Impl: trunc(impl), Model: trunc(model),
				Key: "c05t:" + what + ":" + hstr, Detail: fmt.Sprintf("step %d (%s) of the history, through the os shim", i, hs[i].Kind)})
		}
		ok := true
		for i, h := range hs {
			if !ok {
				break
			}
			id := ids[h.ID%len(ids)]
			idhex := hex.EncodeToString(id[:])
			switch h.Kind {
			case "put", "putbytes", "get", "getbytes", "getfile", "outputfile":
				req := map[string]any{"cmd": "op", "reader": h.Kind, "id": idhex}
				var d []byte
				if h.Kind == "put" || h.Kind == "putbytes" {
					d = contents[h.C%len(contents)]
					req["data"] = hex.EncodeToString(d)
				}
				if h.Kind == "outputfile" {
					o := outOf(contents[h.C%len(contents)])
					idhex = hex.EncodeToString(o[:])
					req["id"] = idhex
				}
				resp, err := w.call(req)
				if err != nil || len(resp.Results) != 1 || len(resp.Results[0]) != 1 {
					res.Notes = append(res.Notes, "shimmed worker failed during the trace comparison")
					return
				}
				if resp.FdLeak != "" {
					violate(res, common.Violation{Kind: "impl-violation", Oracle: "fd-baseline",
						Input: map[string]string{"history": hstr, "step": fmt.Sprint(i)}, Detail: fmt.Sprintf("step %d (%s) returned with descriptors still open: %s", i, h.Kind, resp.FdLeak),
						Key: "c05t:fd:" + hstr})
				}
				// C05 promises the size of GetFile's file, not its bytes: drop the worker's content marker
				impl := strings.TrimSuffix(resp.Results[0][0], " BADFILE")
				var tr []string
				for _, o := range resp.Log {
					tr = append(tr, shimOpString(o))
				}
				implTrace := strings.Join(tr, " ")
				var ans string
				if d != nil {
					m.hash(d)
					if h.Kind == "putbytes" {
						var ch []string
						for _, x := range chunk32k(d, len(d)-1) {
							ch = append(ch, m.ref(x))
						}
						ans = m.ask(fmt.Sprintf("putbf -1 fail 0 %s %d %s", idhex, entryTm(resp.Log), strings.Join(ch, " ")))
					} else {
						ans = m.ask(strings.Replace(m.honestPutReq(id, entryTm(resp.Log), d), "put ", "putf -1 fail 0 ", 1))
					}
					var fds string
					ans, _, fds = splitPutAnswer(ans)
					if c := fdsDisagree(fds, "ok", resp.FdLeak); c != "" {
						bad(i, h.Kind+"/descriptors", resp.FdLeak, c)
						ok = false
					}
					ans = strings.TrimPrefix(ans, "DONE ")
				} else {
					ans = m.ask("tlook " + h.Kind + " " + idhex)
				}
				parts := strings.SplitN(ans, " | ", 2)
				mres, mtrace := parts[0], ""
				if len(parts) == 2 {
					mtrace = strings.TrimSpace(parts[1])
				}
				switch h.Kind {
				case "get":
					mres = canonModel(mres, false)
				case "getbytes", "getfile":
					mres = canonModel(mres, true)
				}
				res.Case("trace:"+h.Kind+":"+implTrace, true)
				res.Count("trace:" + h.Kind)
				if mres != impl {
					bad(i, h.Kind+"/result", impl, mres)
					ok = false
				} else if mtrace != implTrace {
					bad(i, h.Kind, implTrace, mtrace)
					ok = false
				}
			case "putoff", "putreuse", "putcb", "special":
				// covered by the main runs only
			default: // damage, applied to the files and to the model directly
				path, k, name := h.target(dir)
				old, rerr := os.ReadFile(path)
				write := func(nb []byte) {
					os.WriteFile(path, nb, 0o666)
					if k == "d" {
						m.hash(nb)
					}
				}
				switch h.Kind {
				case "trunc":
					if rerr == nil {
						nn := h.N
						if nn > len(old) {
							nn = len(old)
						}
						write(old[:nn])
					}
					m.ask(fmt.Sprintf("dmg trunc %s %s %d", k, name, h.N))
				case "extend":
					if rerr == nil {
						write(append(append([]byte{}, old...), h.Raw...))
					}
					m.ask(fmt.Sprintf("dmg extend %s %s %s", k, name, m.ref(h.Raw)))
				case "flip":
					if rerr == nil && h.N < len(old) {
						nb := append([]byte{}, old...)
						nb[h.N] ^= 1
						write(nb)
					}
					m.ask(fmt.Sprintf("dmg flip %s %s %d", k, name, h.N))
				case "delete":
					os.Remove(path)
					m.ask(fmt.Sprintf("dmg delete %s %s", k, name))
				case "repl":
					if rerr == nil {
						write(contents[h.T%len(contents)])
						m.ask(fmt.Sprintf("dmg write %s %s %s", k, name, m.ref(contents[h.T%len(contents)])))
					}
				case "write":
					write(h.Raw)
					m.ask(fmt.Sprintf("dmg write %s %s %s", k, name, m.ref(h.Raw)))
				}
			}
		}
	}
}

package main

// A sink receives what a run records.  *common.Result is one; a recorder buffers the records of
// one unit of work so that units can run in parallel (each with its own worker process, model
// process and cache directory) and be merged in a fixed order afterwards: the result of a run
// does not depend on how the units were scheduled.

import (
	"sync"

	"verif/harness/common"
)

type sink interface {
	Count(bucket string)
	Case(key string, nontrivial bool)
	Sample(s any)
	Violate(v common.Violation)
}

type caseRec struct {
	key        string
	nontrivial bool
}

type recorder struct {
	counts  map[string]int
	order   []string
	cases   []caseRec
	samples []any
	viols   []common.Violation
	notes   []string
}

func newRecorder() *recorder { return &recorder{counts: map[string]int{}} }

func (r *recorder) Count(b string) {
	if _, ok := r.counts[b]; !ok {
		r.order = append(r.order, b)
	}
	r.counts[b]++
}
func (r *recorder) Case(key string, nontrivial bool) {
	r.cases = append(r.cases, caseRec{key, nontrivial})
}
func (r *recorder) Sample(s any) {
	if len(r.samples) < 2 {
		r.samples = append(r.samples, s)
	}
}
func (r *recorder) Violate(v common.Violation) { r.viols = append(r.viols, v) }

func (r *recorder) mergeInto(res *common.Result) {
	for _, b := range r.order {
		res.Distribution[b] += r.counts[b]
	}
	for _, c := range r.cases {
		res.Case(c.key, c.nontrivial)
	}
	for _, s := range r.samples {
		if res.Evaluations%5 == 1 || len(res.Samples) < 3 {
			res.Sample(s)
		}
	}
	for _, v := range r.viols {
		violate(res, v)
	}
	res.Notes = append(res.Notes, r.notes...)
}

// violate records a finding.  On the final result it keeps at most three witnesses per oracle
// and separate budgets for the two kinds, so that findings of the direct oracles (failing
// inputs) are never crowded out by model/implementation disagreements recorded earlier.
func violate(s sink, v common.Violation) {
	res, ok := s.(*common.Result)
	if !ok {
		s.Violate(v)
		return
	}
	const maxImpl, maxCorr = 12, 8
	same, kind := 0, 0
	for _, o := range res.Violations {
		if o.Key == v.Key && o.Kind == v.Kind {
			return
		}
		if o.Kind == v.Kind {
			kind++
			if o.Oracle == v.Oracle {
				same++
			}
		}
	}
	if same >= 3 || (v.Kind == "impl-violation" && kind >= maxImpl) || (v.Kind != "impl-violation" && kind >= maxCorr) {
		return
	}
	res.Violations = append(res.Violations, v)
}

// parallelUnits runs body(shard, unit) for unit = order[0], order[1], ... on nshards goroutines
// (shard i is only ever used by one goroutine) and returns when all are done.
func parallelUnits(nshards int, order []int, body func(shard, unit int)) {
	ch := make(chan int, len(order))
	for _, u := range order {
		ch <- u
	}
	close(ch)
	var wg sync.WaitGroup
	for s := 0; s < nshards; s++ {
		wg.Add(1)
		go func(s int) {
			defer wg.Done()
			for u := range ch {
				body(s, u)
			}
		}(s)
	}
	wg.Wait()
}

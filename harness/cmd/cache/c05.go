package main

// C05: op histories (Put/Get/GetBytes/GetFile/OutputFile interleaved with damage of index and
// data files and raw index entries) through the real cache.Cache and through the model.

import (
	"bytes"
	"crypto/sha256"
	"encoding/hex"
	"fmt"
	"io"
	"os"
	"path/filepath"
	"sort"
	"strconv"
	"strings"
	"syscall"
	"time"

	"github.com/rogpeppe/go-internal/cache"

	"verif/harness/common"
)

// ---- the small universe of a history

var ids [4]cache.ActionID
var contents [][]byte

func init() {
	for i := range ids {
		ids[i] = sha256.Sum256([]byte(fmt.Sprintf("verif-action-%d", i)))
	}
	pat := func(n int, seed byte) []byte {
		b := make([]byte, n)
		for i := range b {
			b[i] = byte(i*7) ^ seed ^ byte(i>>8)
		}
		return b
	}
	contents = [][]byte{
		{},              // empty
		[]byte("x"),     // equal-length pair
		[]byte("y"),     //
		pat(300, 0x11),  // equal-length pair
		pat(300, 0x5a),  //
		pat(40000, 0x3), // crosses the 32 KiB buffer of io.Copy
	}
}

func outOf(c []byte) [32]byte { return sha256.Sum256(c) }

// hop is one step of a history.
type hop struct {
	Kind string // put putbytes get getbytes getfile outputfile | trunc extend flip delete repl write
	ID   int    // index into ids (API ops; damage with K == "a")
	C    int    // index into contents (put; damage with K == "d"; repl: the replacing content)
	K    string // "a" index file of ids[ID], "d" data file of contents[C]
	N    int    // trunc length / flip position
	Raw  []byte // extend bytes / write contents
	T    int    // repl: content index written
	Hd   int    // API ops: which of the *cache.Cache values opened on the directory makes the call
	CB   *cbSpec
}

// cbSpec (kind putcb): the source reader given to Put makes a lookup of its own, through handle
// Hd, when its Read is called for the N-th time (0-based) in pass Pass (1: the hash pass, 2: the
// copy pass, where the output file is open and partly written).  A deterministic interleaving of
// a lookup with a Put in progress: what another goroutine or process may do at that moment.
type cbSpec struct {
	Pass, N int
	Op      string // get | getbytes | getfile
	ID, Hd  int
}

const nHandles = 3

func (h hop) String() string {
	s := fmt.Sprintf("%s:%d:%d:%s:%d:%d:%s", h.Kind, h.ID, h.C, h.K, h.N, h.T, common.Hex(h.Raw))
	if h.Hd != 0 || h.CB != nil {
		s += fmt.Sprintf(":%d", h.Hd)
		if h.CB != nil {
			s += fmt.Sprintf("/%d.%d.%s.%d.%d", h.CB.Pass, h.CB.N, h.CB.Op, h.CB.ID, h.CB.Hd)
		}
	}
	return s
}

func parseHop(s string) (hop, error) {
	p := strings.Split(s, ":")
	if len(p) == 8 {
		hd, cb, _ := strings.Cut(p[7], "/")
		h, err := parseHop(strings.Join(p[:7], ":"))
		if err != nil {
			return h, err
		}
		h.Hd, _ = strconv.Atoi(hd)
		if f := strings.Split(cb, "."); len(f) == 5 {
			c := &cbSpec{Op: f[2]}
			c.Pass, _ = strconv.Atoi(f[0])
			c.N, _ = strconv.Atoi(f[1])
			c.ID, _ = strconv.Atoi(f[3])
			c.Hd, _ = strconv.Atoi(f[4])
			h.CB = c
		}
		return h, nil
	}
	if len(p) != 7 {
		return hop{}, fmt.Errorf("bad hop %q", s)
	}
	var h hop
	h.Kind = p[0]
	h.ID, _ = strconv.Atoi(p[1])
	h.C, _ = strconv.Atoi(p[2])
	h.K = p[3]
	h.N, _ = strconv.Atoi(p[4])
	h.T, _ = strconv.Atoi(p[5])
	h.Raw = common.UnHex(p[6])
	return h, nil
}

func histString(hs []hop) string {
	var parts []string
	for _, h := range hs {
		parts = append(parts, h.String())
	}
	return strings.Join(parts, " ")
}

func parseHist(s string) []hop {
	var hs []hop
	for _, w := range strings.Fields(s) {
		if h, err := parseHop(w); err == nil {
			hs = append(hs, h)
		}
	}
	return hs
}

// target file of a damage op: real path and model coordinates
func (h hop) target(dir string) (path, kind, idhex string) {
	if h.K == "a" {
		id := ids[h.ID%len(ids)]
		name := hex.EncodeToString(id[:])
		return filepath.Join(dir, name[:2], name+"-a"), "a", name
	}
	o := outOf(contents[h.C%len(contents)])
	name := hex.EncodeToString(o[:])
	return filepath.Join(dir, name[:2], name+"-d"), "d", name
}

// ---- model answers

func parseModelNum(s string) (int64, bool) {
	if s == "0" {
		return 0, true
	}
	if len(s) < 2 {
		return 0, false
	}
	u, err := strconv.ParseUint(s[1:], 2, 64)
	if err != nil {
		return 0, false
	}
	if s[0] == '-' {
		return -int64(u), true
	}
	return int64(u), u < 1<<63
}

// canonical form of a model lookup answer: "NF" or "F <payload> <out> <size> <tm>"
func canonModel(ans string, payload bool) string {
	f := strings.Fields(ans)
	if len(f) == 0 || f[0] != "F" {
		return ans
	}
	off := 1
	pl := ""
	if payload {
		if len(f) < 5 {
			return ans
		}
		pl = f[1] + " "
		off = 2
	}
	if len(f) < off+3 {
		return ans
	}
	size, ok1 := parseModelNum(f[off+1])
	tm, ok2 := parseModelNum(f[off+2])
	if !ok1 || !ok2 {
		return ans
	}
	return fmt.Sprintf("F %s%s %d %d", pl, f[off], size, tm)
}

func showEntry(e cache.Entry) string {
	return fmt.Sprintf("%s %d %d", hex.EncodeToString(e.OutputID[:]), e.Size, e.Time.UnixNano())
}

// ---- running one history on both sides

type histOutcome struct {
	corr  *common.Violation // first model/implementation disagreement
	impl  *common.Violation // first direct-oracle failure
	tags  map[string]int
	steps []string // per step "impl | model" for samples
}

// readTm returns the timestamp field of the entry file of id (written by a successful Put).
func readTm(dir string, id cache.ActionID) (int64, bool) {
	name := hex.EncodeToString(id[:])
	b, err := os.ReadFile(filepath.Join(dir, name[:2], name+"-a"))
	if err != nil || len(b) < 22 {
		return 0, false
	}
	t, err := strconv.ParseInt(strings.TrimSpace(string(b[len(b)-21:len(b)-1])), 10, 64)
	return t, err == nil
}

func chunk32k(d []byte, limit int) [][]byte {
	// what io.CopyN(w, bytes.Reader, limit) hands to w.Write, then the rest in one piece
	var out [][]byte
	if limit > len(d) {
		limit = len(d)
	}
	if limit < 0 {
		limit = 0
	}
	buf := 32 * 1024
	if limit < buf {
		buf = limit
	}
	for o := 0; o < limit; o += buf {
		e := o + buf
		if e > limit {
			e = limit
		}
		out = append(out, d[o:e])
	}
	if limit < len(d) {
		out = append(out, d[limit:])
	}
	return out
}

func (m *mdl) honestPutReq(id cache.ActionID, tm int64, d []byte) string {
	var chunks []string
	for _, ch := range chunk32k(d, len(d)-1) {
		chunks = append(chunks, m.ref(ch))
	}
	return fmt.Sprintf("put %s %d 1 1 %s 1 %s", hex.EncodeToString(id[:]), tm, m.ref(d), strings.Join(chunks, " "))
}

// srcPutReq: a Put from an in-memory source that is at offset pos when Put gets it.
func (m *mdl) srcPutReq(id cache.ActionID, tm int64, d []byte, pos int) string {
	var chunks []string
	for _, ch := range chunk32k(d, len(d)-1) {
		chunks = append(chunks, m.ref(ch))
	}
	return fmt.Sprintf("putsrc %s %d %d %s", hex.EncodeToString(id[:]), tm, pos, strings.Join(chunks, " "))
}

func showBytes(b []byte) string {
	if len(b) <= 512 {
		return common.Hex(b)
	}
	s := sha256.Sum256(b)
	return fmt.Sprintf("#%d:%s", len(b), hex.EncodeToString(s[:]))
}

var histSeq int

// knownFiles are the only files a history can create: the index files of the four ids and the
// data files of the six contents.
func knownFiles(dir string) []string {
	var out []string
	for i := range ids {
		p, _, _ := hop{K: "a", ID: i}.target(dir)
		out = append(out, p)
	}
	for i := range contents {
		p, _, _ := hop{K: "d", C: i}.target(dir)
		out = append(out, p)
	}
	return out
}

// one cache directory is reused by all histories (cache.Open creates 256 subdirectories); it is
// emptied of files before each history, and every 64th history starts from a brand-new directory
// and ends with a walk of the whole tree.
var sharedDir string

func runHistory(work string, m *mdl, hs []hop) histOutcome {
	out := histOutcome{tags: map[string]int{}}
	histSeq++
	fullWalk := histSeq%64 == 1
	if fullWalk || sharedDir == "" || sharedCache == nil {
		if sharedDir != "" {
			os.RemoveAll(sharedDir)
		}
		sharedDir = filepath.Join(work, fmt.Sprintf("h%d", histSeq))
		os.MkdirAll(sharedDir, 0o777)
		c, err := cache.Open(sharedDir)
		if err != nil {
			out.tags["open-failed"]++
			return out
		}
		sharedCache = c
	}
	// every history starts with fresh handles: nothing a handle may remember is carried over from the
	// previous history (a history is replayable on its own)
	sharedHandles = make([]*cache.Cache, nHandles)
	dir := sharedDir
	handle := func(k int) *cache.Cache {
		if k < 0 {
			k = -k
		}
		k %= nHandles
		if sharedHandles[k] == nil { // opened when the history first uses it
			c, err := cache.Open(sharedDir)
			if err != nil {
				out.tags["open-failed"]++
				return sharedCache
			}
			sharedHandles[k] = c
		}
		return sharedHandles[k]
	}
	several := false // does the history use more than one handle?
	for _, h := range hs {
		if h.Hd%nHandles != 0 || (h.CB != nil && h.CB.Hd%nHandles != 0) {
			several = true
		}
	}
	for _, p := range knownFiles(dir) {
		os.Remove(p)
	}
	hstr := histString(hs)
	// the model's requests are collected and asked in one batch after the real run
	type mstep struct {
		req, want, what string
		i               int
	}
	steps := []mstep{{req: "reset", want: "ok", what: "reset"}}
	holdsReq := func(i int) { steps = append(steps, mstep{"holds05", "true", "c05_holds_on", i}) }
	ask := func(i int, what, req, want string) { steps = append(steps, mstep{req, want, what, i}) }
	viol := func(i int, oracle, detail string) {
		if out.impl == nil {
			out.impl = &common.Violation{Kind: "impl-violation", Oracle: oracle,
				Input: map[string]string{"history": hstr, "step": fmt.Sprint(i)}, Detail: detail,
				Key: "c05:" + oracle + ":" + hstr}
		}
	}
	// what every id must read: set by a successful Put, dropped when the history overwrites, damages
	// (index file of the id, data file of the content) or specially damages anything.  "After Put
	// returns without error GetBytes returns exactly data, until that entry is overwritten, trimmed
	// or damaged": a Put of ANOTHER id, or of another content, is none of these.
	expect := map[int][]byte{}
	checkOthers := func(i, justPut int) {
		for oi, want := range expect {
			if oi == justPut {
				continue
			}
			oid := ids[oi]
			for hk := 0; hk < nHandles; hk++ {
				if (!several && hk != 0) || (len(want) > 4096 && several && hk != (i+oi)%nHandles) {
					continue // one handle when the history uses one; the big content through one handle per step (cost)
				}
				got := common.Safely(func() string {
					b, _, err := handle(hk).GetBytes(oid)
					if err != nil {
						return "NF"
					}
					defer scribble(b)
					if !bytes.Equal(b, want) {
						return "F other bytes " + showBytes(b)
					}
					return "same"
				})
				if got != "same" {
					viol(i, "unrelated-entry-lost", fmt.Sprintf("id%d was stored (%d bytes) and never overwritten or damaged since; after the Put of id%d at step %d GetBytes(id%d) through handle %d gives %s", oi, len(want), justPut, i, oi, hk, trunc(got)))
				}
			}
		}
	}
	for i, h := range hs {
		id := ids[h.ID%len(ids)]
		idhex := hex.EncodeToString(id[:])
		c := handle(h.Hd)
		if h.Hd != 0 {
			out.tags["handle:other"]++
		}
		var impl string
		switch h.Kind {
		case "get", "getbytes", "getfile":
			if want, ok := expect[h.ID%len(ids)]; ok && h.Kind != "get" {
				got := common.Safely(func() string {
					if h.Kind == "getfile" {
						file, _, err := c.GetFile(id)
						if err != nil {
							return "NF"
						}
						if b, _ := os.ReadFile(file); !bytes.Equal(b, want) {
							return "a file holding other bytes " + showBytes(b)
						}
						return "same"
					}
					b, _, err := c.GetBytes(id)
					if err != nil {
						return "NF"
					}
					defer scribble(b)
					if !bytes.Equal(b, want) {
						return "other bytes " + showBytes(b)
					}
					return "same"
				})
				if got != "same" {
					viol(i, "stored-then-lost", fmt.Sprintf("id%d was stored (%d bytes) and never overwritten or damaged since, yet %s at step %d gives %s", h.ID%len(ids), len(want), h.Kind, i, trunc(got)))
				}
			}
		case "special":
			expect = map[int][]byte{}
		case "put", "putbytes", "putfile", "putoff", "putreuse", "putcb", "outputfile":
		default: // damage
			if h.K == "a" {
				delete(expect, h.ID%len(ids))
			} else {
				for oi, want := range expect {
					if bytes.Equal(want, contents[h.C%len(contents)]) {
						delete(expect, oi)
					}
				}
			}
		}
		switch h.Kind {
		case "put", "putbytes", "putfile", "putoff", "putreuse", "putcb":
			d := contents[h.C%len(contents)]
			var reused *bytes.Reader
			outPath, _, _ := hop{K: "d", C: h.C}.target(dir)
			_, statErr := os.Stat(outPath)
			outputExisted := statErr == nil
			inner := "NOCB"
			aliased := ""
			impl = common.Safely(func() string {
				var err error
				var o cache.OutputID
				var n int64
				if h.Kind == "put" {
					o, n, err = c.Put(id, bytes.NewReader(d))
				} else if h.Kind == "putcb" && h.CB != nil {
					// the source makes a lookup of its own in the middle of the Put
					cb := *h.CB
					cid := ids[cb.ID%len(ids)]
					rd := &cbReader{rd: bytes.NewReader(d), want: cb}
					rd.fire = func() {
						out.tags["putcb:fired:pass"+fmt.Sprint(cb.Pass)]++
						inner = common.Safely(func() string {
							ch := handle(cb.Hd)
							switch cb.Op {
							case "get":
								e, err := ch.Get(cid)
								if err != nil {
									return "NF"
								}
								return "F " + showEntry(e)
							case "getfile":
								file, e, err := ch.GetFile(cid)
								if err != nil {
									return "NF"
								}
								if st, err := os.Stat(file); err != nil || st.Size() != e.Size {
									viol(i, "getfile-size", fmt.Sprintf("GetFile(id%d), called while a Put was in progress, named %s whose length is not the reported size %d", cb.ID%len(ids), filepath.Base(file), e.Size))
								}
								if want, ok := expect[cb.ID%len(ids)]; ok {
									if b, _ := os.ReadFile(file); !bytes.Equal(b, want) {
										viol(i, "stored-then-lost", fmt.Sprintf("id%d was stored (%d bytes) and never overwritten or damaged since, yet the file GetFile names while a Put (id%d) is in progress holds %s", cb.ID%len(ids), len(want), h.ID%len(ids), showBytes(b)))
									}
								}
								return "F " + filepath.Base(file) + " " + showEntry(e)
							default:
								b, e, err := ch.GetBytes(cid)
								if err != nil {
									return "NF"
								}
								defer scribble(b)
								if sha256.Sum256(b) != e.OutputID {
									viol(i, "getbytes-checksum", fmt.Sprintf("GetBytes(id%d), called while a Put was in progress, returned %d bytes whose SHA-256 is not the reported OutputID %x", cb.ID%len(ids), len(b), e.OutputID))
								}
								if want, ok := expect[cb.ID%len(ids)]; ok && !bytes.Equal(b, want) {
									viol(i, "stored-then-lost", fmt.Sprintf("id%d was stored (%d bytes) and never overwritten or damaged since, yet GetBytes while a Put (id%d) is in progress returns other bytes %s", cb.ID%len(ids), len(want), h.ID%len(ids), showBytes(b)))
								}
								return "F " + showBytes(b) + " " + showEntry(e)
							}
						})
						if _, ok := expect[cb.ID%len(ids)]; ok && inner == "NF" {
							viol(i, "stored-then-lost", fmt.Sprintf("id%d was stored and never overwritten or damaged since, yet %s(id%d), called while the Put of step %d (id%d) was in progress, misses", cb.ID%len(ids), cb.Op, cb.ID%len(ids), i, h.ID%len(ids)))
						}
						if inner == "PANIC" {
							viol(i, "no-panic", fmt.Sprintf("%s(id%d) panicked when called while a Put was in progress", cb.Op, cb.ID%len(ids)))
						}
					}
					o, n, err = c.Put(id, rd)
				} else if h.Kind == "putoff" || h.Kind == "putreuse" {
					// the source is not at offset 0 when Put gets it (partly consumed); Put must rewind
					rd := bytes.NewReader(d)
					off := h.N
					if off > len(d) {
						off = len(d)
					}
					rd.Seek(int64(off), io.SeekStart)
					reused = rd
					if h.Kind == "putoff" && h.T == 1 {
						o, n, err = c.PutNoVerify(id, rd)
					} else {
						o, n, err = c.Put(id, rd)
					}
				} else if h.Kind == "putfile" {
					// the source is a FILE of the caller's, on the file system of the cache directory (a build
					// artifact next to the cache).  It is the caller's again once Put has returned: it is
					// then rewritten in place, patched, truncated, appended to, removed or replaced (h.N).
					// Nothing of that overwrites, trims or damages the entry.
					src := filepath.Join(work, "caller-artifact")
					os.Remove(src)
					os.WriteFile(src, d, 0o666)
					f, ferr := os.Open(src)
					if ferr != nil {
						out.tags["putfile:no-source"]++
						o, n, err = c.Put(id, bytes.NewReader(d))
					} else {
						o, n, err = c.Put(id, f)
						if h.T%2 == 0 {
							f.Close()
						}
						aliased = sharesInode(src, outPath)
						callerReuses(src, h.N, d)
						if h.T%2 == 1 {
							f.Close()
						}
						out.tags["putfile:then-"+callerActions[h.N%len(callerActions)]]++
					}
				} else {
					mine := append(make([]byte, 0, len(d)+16), d...)
					err = c.PutBytes(id, mine)
					scribble(mine) // the data is the caller's again once PutBytes has returned
					o, n = outOf(d), int64(len(d))
				}
				if err != nil {
					return "PUTFAILED"
				}
				if o != outOf(d) || n != int64(len(d)) {
					viol(i, "put-result", fmt.Sprintf("%s(id%d) of %d bytes returned OutputID %x and size %d, which are not the SHA-256 and length of the data it was given", h.Kind, h.ID%len(ids), len(d), o, n))
				}
				return fmt.Sprintf("PUTOK %s %d", hex.EncodeToString(o[:]), n)
			})
			if impl == "PUTFAILED" {
				// nothing was injected: the source is a well-behaved in-memory reader and the directory is writable
				what := "on a store that held no file for this output"
				oname := "put-failed"
				if outputExisted {
					what = "although a later Put of the same content must repair a damaged stored output (a file for this output, intact or damaged, existed)"
					oname = "put-repairs"
				}
				viol(i, oname, fmt.Sprintf("%s(id%d) of content %d (%d bytes) from a well-behaved source failed %s", h.Kind, h.ID%len(ids), h.C%len(contents), len(d), what))
			}
			tm, ok := readTm(dir, id)
			if !ok {
				tm = 1
			}
			if strings.HasPrefix(impl, "PUTOK") && len(d) <= 512 {
				// the boolean form of put_get, on the model state before the Put (the 40000-byte content is left out: cost)
				var ch []string
				for _, x := range chunk32k(d, len(d)-1) {
					ch = append(ch, m.ref(x))
				}
				ask(i, "c05_put_holds_on", fmt.Sprintf("putholds05 %s %d %s", idhex, tm, strings.Join(ch, " ")), "true")
			}
			if h.Kind == "putcb" && h.CB != nil {
				// the model: the Put program with the lookup program run to completion before its N-th write
				// to the output file (pass 2), or before its first operation (pass 1); "NOCB" when that point is never reached
				var ch []string
				for _, x := range chunk32k(d, len(d)-1) {
					ch = append(ch, m.ref(x))
				}
				pass := h.CB.Pass
				if inner == "NOCB" && pass == 1 {
					pass = 0 // a Read of the hash pass that never happens (the data was shorter)
				}
				cid := ids[h.CB.ID%len(ids)]
				ask(i, "putcb:"+h.CB.Op, fmt.Sprintf("putcb %s %d %d %d %s %s %s", idhex, tm, pass, h.CB.N, h.CB.Op, hex.EncodeToString(cid[:]), strings.Join(ch, " ")), impl+" ;; "+inner)
			} else if h.Kind == "putoff" || h.Kind == "putreuse" {
				// the model's positioned source (reader_of_memsrc): what a pass reads depends on whether the code rewinds first
				ask(i, h.Kind, m.srcPutReq(id, tm, d, min(h.N, len(d))), impl)
			} else {
				ask(i, h.Kind, m.honestPutReq(id, tm, d), impl)
			}
			if len(d) <= 512 {
				holdsReq(i)
			}
			out.tags["op:put"]++
			out.tags["op:"+h.Kind]++
			if strings.HasPrefix(impl, "PUTOK") {
				expect[h.ID%len(ids)] = d
				checkOthers(i, h.ID%len(ids))
			} else {
				delete(expect, h.ID%len(ids))
			}
			if strings.HasPrefix(impl, "PUTOK") {
				// direct oracle: Put then GetBytes returns the data; GetFile names a file holding it
				got := common.Safely(func() string {
					b, e, err := c.GetBytes(id)
					if err != nil {
						return "NF"
					}
					defer scribble(b)
					if !bytes.Equal(b, d) {
						return "F other bytes " + showBytes(b)
					}
					return "F " + showBytes(b) + " " + showEntry(e)
				})
				want := outOf(d)
				if !strings.HasPrefix(got, "F "+showBytes(d)+" "+hex.EncodeToString(want[:])+" ") {
					viol(i, "put-then-getbytes", "GetBytes after a successful Put did not return the stored data: "+trunc(got))
				}
				gf := common.Safely(func() string {
					file, _, err := c.GetFile(id)
					if err != nil {
						return "NF"
					}
					b, _ := os.ReadFile(file)
					if bytes.Equal(b, d) {
						return "same"
					}
					return "F " + showBytes(b)
				})
				if gf != "same" {
					viol(i, "put-then-getfile", "GetFile after a successful Put does not name a file holding the stored data: "+trunc(gf))
				}
				ask(i, "getbytes-after-put", "getbytes "+idhex, got)
			}
			if aliased == "" && strings.HasPrefix(impl, "PUTOK") {
				aliased = linkedElsewhere(outPath)
			}
			if aliased != "" {
				viol(i, "output-owned-by-cache", fmt.Sprintf("after %s(id%d) of content %d (%d bytes) the stored output %s %s: whoever owns that other name changes the cache's bytes without touching the cache", h.Kind, h.ID%len(ids), h.C%len(contents), len(d), filepath.Base(outPath), aliased))
			}
			if h.Kind == "putreuse" && reused != nil && strings.HasPrefix(impl, "PUTOK") {
				// the same io.ReadSeeker, left at its end by the first Put, stored again under the next id
				id2 := ids[(h.ID+1)%len(ids)]
				id2hex := hex.EncodeToString(id2[:])
				impl2 := common.Safely(func() string {
					o, n, err := c.Put(id2, reused)
					if err != nil {
						return "PUTFAILED"
					}
					return fmt.Sprintf("PUTOK %s %d", hex.EncodeToString(o[:]), n)
				})
				tm2, ok2 := readTm(dir, id2)
				if !ok2 {
					tm2 = 1
				}
				ask(i, "putreuse-second", m.srcPutReq(id2, tm2, d, len(d)), impl2)
				if strings.HasPrefix(impl2, "PUTOK") {
					expect[(h.ID+1)%len(ids)] = d
					checkOthers(i, (h.ID+1)%len(ids))
				} else {
					delete(expect, (h.ID+1)%len(ids))
				}
				got2 := common.Safely(func() string {
					b, e, err := c.GetBytes(id2)
					if err != nil {
						return "NF"
					}
					if !bytes.Equal(b, d) {
						return "F other bytes " + showBytes(b)
					}
					return "F " + showBytes(b) + " " + showEntry(e)
				})
				want2 := outOf(d)
				if !strings.HasPrefix(got2, "F "+showBytes(d)+" "+hex.EncodeToString(want2[:])+" ") {
					viol(i, "put-then-getbytes", "GetBytes after a successful Put from a reused io.ReadSeeker did not return the whole data: "+trunc(got2))
				}
				ask(i, "getbytes-after-put", "getbytes "+id2hex, got2)
			}
		case "get":
			impl = common.Safely(func() string {
				e, err := c.Get(id)
				if err != nil {
					return "NF"
				}
				return "F " + showEntry(e)
			})
			ask(i, "get", "get "+idhex, impl)
			out.tags["op:get"]++
		case "getbytes":
			impl = common.Safely(func() string {
				b, e, err := c.GetBytes(id)
				if err != nil {
					return "NF"
				}
				defer scribble(b)
				if sha256.Sum256(b) != e.OutputID {
					viol(i, "getbytes-checksum", fmt.Sprintf("GetBytes returned %d bytes whose SHA-256 is not the reported OutputID %x", len(b), e.OutputID))
				}
				return "F " + showBytes(b) + " " + showEntry(e)
			})
			ask(i, "getbytes", "getbytes "+idhex, impl)
			out.tags["op:getbytes"]++
			if strings.HasPrefix(impl, "F") {
				out.tags["getbytes:found"]++
			} else {
				out.tags["getbytes:notfound"]++
			}
		case "getfile":
			impl = common.Safely(func() string {
				file, e, err := c.GetFile(id)
				if err != nil {
					return "NF"
				}
				st, err := os.Stat(file)
				if err != nil || st.Size() != e.Size {
					viol(i, "getfile-size", fmt.Sprintf("GetFile named %s whose length is not the reported size %d", filepath.Base(file), e.Size))
				}
				return "F " + filepath.Base(file) + " " + showEntry(e)
			})
			ask(i, "getfile", "getfile "+idhex, impl)
			out.tags["op:getfile"]++
			if strings.HasPrefix(impl, "F") {
				out.tags["getfile:found"]++
			} else {
				out.tags["getfile:notfound"]++
			}
		case "outputfile":
			o := outOf(contents[h.C%len(contents)])
			impl = common.Safely(func() string { return filepath.Base(c.OutputFile(o)) })
			ask(i, "outputfile", "outputfile "+hex.EncodeToString(o[:]), impl)
			out.tags["op:outputfile"]++
		case "special":
			// damage that makes a file or its directory something else than a regular file; it is
			// undone afterwards (the model is not told): during it, every lookup must answer, none may
			// panic, and GetFile (and Get, for an index file) of the targeted entry must say not-found
			path, k, _ := h.target(dir)
			impl = "ok"
			old, rerr := os.ReadFile(path)
			sub := filepath.Dir(path)
			out.tags["special:"+specialNames[h.N%len(specialNames)]+":"+k]++
			var undo func()
			switch specialNames[h.N%len(specialNames)] {
			case "symlink-loop":
				os.Remove(path)
				os.Symlink(path, path)
				undo = func() { os.Remove(path) }
			case "symlink-dangling":
				os.Remove(path)
				os.Symlink(path+".nowhere", path)
				undo = func() { os.Remove(path) }
			case "directory":
				os.Remove(path)
				os.Mkdir(path, 0o777)
				undo = func() { os.Remove(path) }
			case "subdir-is-file":
				os.Rename(sub, sub+".saved")
				os.WriteFile(sub, []byte("not a directory"), 0o666)
				undo = func() { os.Remove(sub); os.Rename(sub+".saved", sub) }
			case "unreadable":
				if os.Geteuid() == 0 || rerr != nil {
					undo = func() {}
				} else {
					os.Chmod(path, 0)
					undo = func() { os.Chmod(path, 0o666) }
				}
			}
			for ti := range ids {
				tid := ids[ti]
				r1 := common.Safely(func() string {
					if _, err := c.Get(tid); err != nil {
						return "NF"
					}
					return "F"
				})
				r2 := common.Safely(func() string {
					b, e, err := c.GetBytes(tid)
					if err != nil {
						return "NF"
					}
					if sha256.Sum256(b) != e.OutputID {
						return "BADSUM"
					}
					return "F"
				})
				r3 := common.Safely(func() string {
					file, e, err := c.GetFile(tid)
					if err != nil {
						return "NF"
					}
					if st, err := os.Stat(file); err != nil || st.Size() != e.Size {
						return "BADSIZE"
					}
					return "F"
				})
				for qi, r := range []string{r1, r2, r3} {
					call := []string{"Get", "GetBytes", "GetFile"}[qi]
					switch r {
					case "PANIC":
						viol(i, "no-panic", fmt.Sprintf("%s(id%d) panicked while the %s file of the history's target was damaged (%s)", call, ti, k, specialNames[h.N%len(specialNames)]))
					case "BADSUM":
						viol(i, "getbytes-checksum", "GetBytes returned bytes whose SHA-256 is not the reported OutputID during special damage")
					case "BADSIZE":
						viol(i, "getfile-size", "GetFile named a file whose length is not the reported size during special damage")
					}
				}
				targeted := (k == "a" && ti == h.ID%len(ids)) || (k == "d" && strings.HasPrefix(lookupOut(c, tid), hex.EncodeToString(func() []byte { o := outOf(contents[h.C%len(contents)]); return o[:] }())))
				if targeted && specialNames[h.N%len(specialNames)] != "unreadable" {
					if r3 == "F" {
						viol(i, "special-not-found", fmt.Sprintf("GetFile(id%d) succeeded although its %s file is %s", ti, k, specialNames[h.N%len(specialNames)]))
					}
					if k == "a" && r1 == "F" {
						viol(i, "special-not-found", fmt.Sprintf("Get(id%d) succeeded although its index file is %s", ti, specialNames[h.N%len(specialNames)]))
					}
				}
			}
			undo()
			if rerr == nil && specialNames[h.N%len(specialNames)] != "subdir-is-file" && specialNames[h.N%len(specialNames)] != "unreadable" {
				os.WriteFile(path, old, 0o666)
			}
		default: // damage
			path, k, name := h.target(dir)
			impl = "ok"
			old, rerr := os.ReadFile(path)
			out.tags["dmg:"+h.Kind+":"+k]++
			write := func(nb []byte) {
				os.WriteFile(path, nb, 0o666)
				if k == "d" {
					if hr := m.hashReq(nb); hr != "" {
						ask(i, "hash", hr, "ok")
					}
				}
			}
			switch h.Kind {
			case "trunc":
				if rerr == nil {
					n := h.N
					if n > len(old) {
						n = len(old)
					}
					write(old[:n])
				}
				ask(i, h.Kind, fmt.Sprintf("dmg trunc %s %s %d", k, name, h.N), "ok")
			case "extend":
				if rerr == nil {
					write(append(append([]byte{}, old...), h.Raw...))
				}
				ask(i, h.Kind, fmt.Sprintf("dmg extend %s %s %s", k, name, m.ref(h.Raw)), "ok")
			case "flip":
				if rerr == nil && h.N < len(old) {
					nb := append([]byte{}, old...)
					nb[h.N] ^= 1
					write(nb)
				}
				ask(i, h.Kind, fmt.Sprintf("dmg flip %s %s %d", k, name, h.N), "ok")
			case "delete":
				os.Remove(path)
				ask(i, h.Kind, fmt.Sprintf("dmg delete %s %s", k, name), "ok")
			case "repl": // replace an existing file by another content
				if rerr == nil {
					write(contents[h.T%len(contents)])
					ask(i, h.Kind, fmt.Sprintf("dmg write %s %s %s", k, name, m.ref(contents[h.T%len(contents)])), "ok")
				}
			case "write": // raw bytes, creating the file if need be
				write(h.Raw)
				ask(i, h.Kind, fmt.Sprintf("dmg write %s %s %s", k, name, m.ref(h.Raw)), "ok")
			}
		}
		if impl == "PANIC" {
			viol(i, "no-panic", "a cache method panicked at step "+fmt.Sprint(i))
		}
		if len(out.steps) < 40 {
			out.steps = append(out.steps, h.Kind+" -> "+trunc(impl))
		}
	}
	// final directory listing with contents
	var items []string
	addFile := func(p string) {
		base := filepath.Base(p)
		if len(base) == 66 && (strings.HasSuffix(base, "-a") || strings.HasSuffix(base, "-d")) {
			b, _ := os.ReadFile(p)
			items = append(items, base[65:]+":"+base[:64]+"="+showBytes(b))
		} else {
			items = append(items, "other:"+base)
		}
	}
	if fullWalk {
		filepath.Walk(dir, func(p string, info os.FileInfo, err error) error {
			if err == nil && !info.IsDir() {
				addFile(p)
			}
			return nil
		})
	} else {
		for _, p := range knownFiles(dir) {
			if _, err := os.Stat(p); err == nil {
				addFile(p)
			}
		}
	}
	sort.Strings(items)
	if len(hs) > 0 {
		holdsReq(len(hs) - 1)
		ask(len(hs)-1, "final-listing", "list", strings.Join(append([]string{"L"}, items...), " "))
	}
	// ---- the model, in one batch (re-asked from "reset" when it needed a hash value)
	reqs := make([]string, len(steps))
	for i, s := range steps {
		reqs[i] = s.req
	}
	var ans []string
	tm0 := time.Now()
	defer func() { modelTime += time.Since(tm0) }()
	for try := 0; try < 40; try++ {
		var err error
		ans, err = m.m.Ask(reqs)
		if err != nil {
			out.corr = &common.Violation{Kind: "correspondence", Oracle: "model", Input: map[string]string{"history": hstr},
				Detail: err.Error(), Key: "c05:model-died"}
			return out
		}
		need := false
		for _, a := range ans {
			if strings.HasPrefix(a, "NEED ") {
				cn := common.UnHex(strings.TrimPrefix(a, "NEED "))
				delete(m.sent, string(cn))
				m.hash(cn)
				need = true
				break
			}
		}
		if !need {
			break
		}
	}
	for k, s := range steps {
		got := ans[k]
		switch s.what {
		case "get":
			got = canonModel(got, false)
		case "getbytes", "getfile", "getbytes-after-put":
			got = canonModel(got, true)
		case "putcb:get", "putcb:getbytes", "putcb:getfile":
			if a, b, ok := strings.Cut(got, " ;; "); ok {
				got = a + " ;; " + canonModel(b, s.what != "putcb:get")
			}
		}
		if got != s.want && out.corr == nil {
			out.corr = &common.Violation{Kind: "correspondence", Oracle: s.what,
				Input: map[string]string{"history": hstr, "step": fmt.Sprint(s.i)}, Impl: trunc(s.want), Model: trunc(got),
				Key: "c05:" + s.what + ":" + hstr, Detail: fmt.Sprintf("step %d of the history", s.i)}
		}
	}
	return out
}

var sharedCache *cache.Cache

// modelTime: time spent waiting for the model's answers to the batches of the histories
var modelTime time.Duration

// sharedHandles: several *cache.Cache values opened on the one directory (cache.Open documents
// that any number of them, in any number of processes, may use a directory at once); every API
// step of a history names the one it goes through.
var sharedHandles []*cache.Cache

// callerActions: what the owner of a file that was given to Put does with it afterwards.
var callerActions = []string{"keep", "rewrite", "patch", "truncate", "append", "remove", "replace", "rewrite-longer"}

func callerReuses(src string, n int, d []byte) {
	other := append([]byte{}, d...)
	for i := range other {
		other[i] ^= 0x3C
	}
	switch callerActions[n%len(callerActions)] {
	case "rewrite": // os.WriteFile on the same path: O_TRUNC, same length, other bytes
		os.WriteFile(src, other, 0o666)
	case "patch": // one byte in place, no truncation
		if f, err := os.OpenFile(src, os.O_WRONLY, 0); err == nil {
			if len(other) > 0 {
				f.WriteAt(other[len(other)/2:len(other)/2+1], int64(len(other)/2))
			}
			f.Close()
		}
	case "truncate":
		os.Truncate(src, int64(len(d)/2))
	case "append":
		if f, err := os.OpenFile(src, os.O_WRONLY|os.O_APPEND, 0); err == nil {
			f.Write([]byte("the next build's output"))
			f.Close()
		}
	case "remove":
		os.Remove(src)
	case "replace": // a new file renamed over it
		os.WriteFile(src+".new", other, 0o666)
		os.Rename(src+".new", src)
	case "rewrite-longer":
		os.WriteFile(src, append(other, []byte("and more")...), 0o666)
	}
}

// sharesInode: do two paths name one file?
func sharesInode(a, b string) string {
	sa, err1 := os.Stat(a)
	sb, err2 := os.Stat(b)
	if err1 == nil && err2 == nil && os.SameFile(sa, sb) {
		return "is the very file (same device and inode) the caller handed to Put, " + filepath.Base(a)
	}
	return ""
}

// linkedElsewhere: a regular file of the cache with more than one name.
func linkedElsewhere(p string) string {
	if fi, err := os.Lstat(p); err == nil && fi.Mode().IsRegular() {
		if st, ok := fi.Sys().(*syscall.Stat_t); ok && st.Nlink > 1 {
			return fmt.Sprintf("has %d names (st_nlink; inode %d)", st.Nlink, st.Ino)
		}
	}
	return ""
}

// scribble is what a caller is free to do with a slice GetBytes returned to it, or with the data it
// gave to PutBytes once that has returned: overwrite it in place, and use its spare capacity.
func scribble(b []byte) {
	for i := range b {
		b[i] ^= 0xA5
	}
	spare := b[len(b):cap(b)]
	for i := range spare {
		spare[i] = 0x5A
	}
}

// cbReader is an io.ReadSeeker over data that calls fire once, when its Read is called for the
// n-th time in the given pass (a pass starts with each Seek).
type cbReader struct {
	rd    *bytes.Reader
	pass  int
	nread int
	want  cbSpec
	fire  func()
	fired bool
}

func (r *cbReader) Seek(off int64, whence int) (int64, error) {
	r.pass++
	r.nread = 0
	return r.rd.Seek(off, whence)
}

func (r *cbReader) Read(p []byte) (int, error) {
	if !r.fired && r.pass == r.want.Pass && r.nread == r.want.N {
		r.fired = true
		r.fire()
	}
	r.nread++
	return r.rd.Read(p)
}

func trunc(s string) string {
	if len(s) > 400 {
		return s[:200] + "…" + s[len(s)-150:]
	}
	return s
}

var specialNames = []string{"symlink-loop", "symlink-dangling", "directory", "subdir-is-file", "unreadable"}

// lookupOut returns the hex OutputID the index entry of id names ("" when Get fails); used while a
// data file is specially damaged, when Get itself still works.
func lookupOut(c *cache.Cache, id cache.ActionID) string {
	r := common.Safely(func() string {
		e, err := c.Get(id)
		if err != nil {
			return ""
		}
		return hex.EncodeToString(e.OutputID[:])
	})
	if r == "PANIC" {
		return ""
	}
	return r
}

// ---- generators

func validEntry(id cache.ActionID, out [32]byte, size, tm int64) []byte {
	return []byte(fmt.Sprintf("v1 %x %x %20d %20d\n", id, out, size, tm))
}

func setField(e []byte, start int, s string) []byte {
	// right-align s in the 20-byte field starting at start
	nb := append([]byte{}, e...)
	for i := 0; i < 20; i++ {
		nb[start+i] = ' '
	}
	if len(s) > 20 {
		s = s[:20]
	}
	copy(nb[start+20-len(s):], s)
	return nb
}

const sizeField = 3 + 64 + 1 + 64 + 1
const timeField = sizeField + 21

// genRaw produces index-entry bytes: valid entries and mutations of them.
func genRaw(r *common.RNG, idIdx int) ([]byte, string) {
	id := ids[idIdx]
	ci := pickContent(r)
	d := contents[ci]
	e := validEntry(id, outOf(d), int64(len(d)), int64(1700000000000000000+r.Intn(1000000)))
	switch k := r.Intn(16); k {
	case 0:
		return e, "valid"
	case 1:
		nb := append([]byte{}, e...)
		lo, hi := 3, 3+64
		if r.Bool() {
			lo, hi = 3+65, 3+65+64
		}
		for i := lo; i < hi; i++ {
			if r.Chance(2, 3) && nb[i] >= 'a' && nb[i] <= 'f' {
				nb[i] -= 32
			}
		}
		return nb, "upper-hex"
	case 2:
		switch r.Intn(5) {
		case 0:
			return e[:len(e)-1], "short-1"
		case 1:
			return append(append([]byte{}, e...), '\n'), "long+1"
		case 2:
			return e[:r.Intn(len(e))], "prefix"
		case 3:
			return []byte{}, "empty"
		default:
			return append(append([]byte{}, e...), e...), "double"
		}
	case 3:
		f := sizeField
		if r.Bool() {
			f = timeField
		}
		v := []string{"+5", "-5", "-0", "+0", "+", "-", "+-5", "5+"}[r.Intn(8)]
		if f == sizeField && r.Bool() {
			v = fmt.Sprintf("+%d", len(d))
		}
		return setField(e, f, v), "sign"
	case 4:
		f := sizeField
		if r.Bool() {
			f = timeField
		}
		v := []string{"99999999999999999999", "9223372036854775808", "9223372036854775807", "-9223372036854775808",
			"18446744073709551616", "09223372036854775807", "00000000000000000001"}[r.Intn(7)]
		return setField(e, f, v), "overflow"
	case 5:
		nb := append([]byte{}, e...)
		nb[r.Intn(len(nb))] ^= byte(1 << uint(r.Intn(8)))
		return nb, "bitflip"
	case 6:
		other := ids[(idIdx+1+r.Intn(len(ids)-1))%len(ids)]
		return validEntry(other, outOf(d), int64(len(d)), 5), "other-id"
	case 7:
		nb := append([]byte{}, e...)
		pos := []int{0, 1, 2, 3 + 64, 3 + 64 + 1 + 64, sizeField + 20, len(e) - 1}[r.Intn(7)]
		nb[pos] = []byte{'\t', 'V', '2', '\n', 0, 'x'}[r.Intn(6)]
		return nb, "separator"
	case 8:
		return validEntry(id, outOf(d), int64(len(d)+[]int{1, -1, 1000}[r.Intn(3)]), 7), "size-mismatch"
	case 9:
		f := sizeField
		if r.Bool() {
			f = timeField
		}
		v := []string{"1 2", "1_0", "0x10", "1e3", "5 ", "00000000000000000005", "٣", "5\t"}[r.Intn(8)]
		return setField(e, f, v), "number-syntax"
	case 10:
		// an entry for another content of the same length (equal-length pair): size gate passes, checksum decides
		oc := contents[(ci+1)%len(contents)]
		return validEntry(id, outOf(oc), int64(len(d)), 9), "other-output"
	case 11:
		nb := make([]byte, len(e))
		for i := range nb {
			nb[i] = byte(r.Intn(256))
		}
		return nb, "random-175"
	case 12:
		return validEntry(id, outOf(d), 0, 0), "zeros"
	case 13:
		// non-hex characters in a hash field
		nb := append([]byte{}, e...)
		nb[3+r.Intn(64)] = []byte{'g', 'G', ' ', 'z', '-'}[r.Intn(5)]
		return nb, "non-hex"
	case 14:
		// the empty content's output with its file possibly missing
		return validEntry(id, outOf([]byte{}), 0, 3), "empty-output"
	default:
		return e, "valid"
	}
}

// pickContent: the 40000-byte content (expensive in the model) is drawn less often
func pickContent(r *common.RNG) int {
	if r.Chance(1, 16) {
		return len(contents) - 1
	}
	return r.Intn(len(contents) - 1)
}

// setFieldLeft left-aligns s in the 20-byte field starting at start.
func setFieldLeft(e []byte, start int, s string) []byte {
	nb := append([]byte{}, e...)
	for i := 0; i < 20; i++ {
		nb[start+i] = ' '
	}
	if len(s) > 20 {
		s = s[:20]
	}
	copy(nb[start:], s)
	return nb
}

type rawCase struct {
	raw []byte
	tag string
}

// degenerateEntries enumerates, systematically, entries that are valid except for one
// degenerate field: each numeric field blank, nearly blank, a lone sign, signed, overflowing,
// with trailing or inner junk, left-aligned; each position of each hex field replaced by a
// non-hex character, a separator, NUL, and by the other case.  The entry names the output of
// content ci for id idIdx.
func degenerateEntries(idIdx, ci int) []rawCase {
	id := ids[idIdx]
	d := contents[ci]
	e := validEntry(id, outOf(d), int64(len(d)), 1700000000000000123)
	var out []rawCase
	add := func(b []byte, tag string) { out = append(out, rawCase{b, tag}) }
	add(e, "deg:valid")
	ok := fmt.Sprint(len(d))
	nums := []string{"", ok, "0", "-", "+", "+" + ok, "-" + ok, "-0", "+0", "--1", "+-1", "0000000000000000000" + ok,
		"00000000000000000000", "99999999999999999999", "18446744073709551616", "18446744073709551615",
		"9223372036854775808", "9223372036854775807", "-9223372036854775808", "-9223372036854775809",
		ok + " ", ok + "\n", ok + "\x00", " " + ok + " ", "0x1", "1e0", "1_0", "\u0661", "\t" + ok, "\x00", "a", ".", ok + ".0"}
	for fi, f := range []int{sizeField, timeField} {
		fn := []string{"size", "time"}[fi]
		for _, v := range nums {
			add(setField(e, f, v), fmt.Sprintf("deg:%s:right:%q", fn, v))
			if v != "" {
				add(setFieldLeft(e, f, v), fmt.Sprintf("deg:%s:left:%q", fn, v))
			}
		}
		// every single position of the field holding the only non-space character
		for pos := 0; pos < 20; pos++ {
			nb := setField(e, f, "")
			nb[f+pos] = '1'
			add(nb, fmt.Sprintf("deg:%s:lone-digit@%d", fn, pos))
			nb2 := setField(e, f, "")
			nb2[f+pos] = '-'
			add(nb2, fmt.Sprintf("deg:%s:lone-minus@%d", fn, pos))
		}
	}
	for fi, f := range []int{3, 3 + 65} {
		fn := []string{"id", "out"}[fi]
		for pos := 0; pos < 64; pos++ {
			for _, ch := range []byte{'g', 'G', ' ', 0, ':', '-', 0xff} {
				nb := append([]byte{}, e...)
				nb[f+pos] = ch
				add(nb, fmt.Sprintf("deg:%s:nonhex", fn))
			}
			if c := e[f+pos]; c >= 'a' && c <= 'f' {
				nb := append([]byte{}, e...)
				nb[f+pos] = c - 32
				add(nb, fmt.Sprintf("deg:%s:upper", fn))
			} else {
				// another digit: a different (well-formed) id / output
				nb := append([]byte{}, e...)
				nb[f+pos] = '0' + (c-'0'+1)%10
				add(nb, fmt.Sprintf("deg:%s:other-digit", fn))
			}
		}
		up := append([]byte{}, e...)
		for pos := 0; pos < 64; pos++ {
			if c := up[f+pos]; c >= 'a' && c <= 'f' {
				up[f+pos] = c - 32
			}
		}
		add(up, fmt.Sprintf("deg:%s:all-upper", fn))
	}
	// separators, header, terminator, length
	for _, pos := range []int{0, 1, 2, 3 + 64, 3 + 64 + 1 + 64, sizeField + 20, len(e) - 1} {
		for _, ch := range []byte{' ', '\t', '\n', 0, 'v', '1', '2', 'x'} {
			if e[pos] != ch {
				nb := append([]byte{}, e...)
				nb[pos] = ch
				add(nb, "deg:separator")
			}
		}
	}
	for cut := 0; cut <= 3; cut++ {
		add(e[:len(e)-cut], "deg:length")
		add(append(append([]byte{}, e...), make([]byte, cut)...), "deg:length")
		add(append(append([]byte{}, e...), []byte("\n\n\n")[:cut]...), "deg:length")
	}
	add([]byte{}, "deg:length")
	return out
}

func genHistory(r *common.RNG) ([]hop, []string) {
	n := 3 + r.Intn(28)
	var hs []hop
	var kinds []string
	for len(hs) < n {
		id := r.Intn(len(ids))
		c := pickContent(r)
		switch x := r.Intn(100); {
		case x < 24:
			k := "put"
			if r.Chance(1, 3) {
				k = "putbytes"
			}
			if r.Chance(1, 6) {
				// a source that is not at offset 0 / that is used for two Puts
				k = "putoff"
				if r.Chance(1, 3) {
					k = "putreuse"
				}
				hs = append(hs, hop{Kind: k, ID: id, C: c, N: 1 + r.Intn(len(contents[c])+1), T: r.Intn(2)})
				continue
			}
			if r.Chance(1, 6) {
				// the source is a file of the caller's, which the caller goes on using afterwards
				hs = append(hs, hop{Kind: "putfile", ID: id, C: c, N: r.Intn(len(callerActions)), T: r.Intn(2)})
				continue
			}
			if r.Chance(1, 5) {
				// the source looks something up while the Put is in progress
				hs = append(hs, hop{Kind: "putcb", ID: id, C: c, CB: &cbSpec{Pass: 1 + r.Intn(2), N: r.Intn(3),
					Op: []string{"get", "getbytes", "getfile"}[r.Intn(3)], ID: r.Intn(len(ids)), Hd: r.Intn(nHandles)}})
				continue
			}
			hs = append(hs, hop{Kind: k, ID: id, C: c})
		case x < 34:
			hs = append(hs, hop{Kind: "get", ID: id})
		case x < 48:
			hs = append(hs, hop{Kind: "getbytes", ID: id})
		case x < 60:
			hs = append(hs, hop{Kind: "getfile", ID: id})
		case x < 63:
			hs = append(hs, hop{Kind: "outputfile", C: c})
		case x < 66:
			k := "d"
			if r.Chance(1, 3) {
				k = "a"
			}
			hs = append(hs, hop{Kind: "special", K: k, ID: id, C: c, N: r.Intn(len(specialNames))})
		case x < 78:
			raw, tag := genRaw(r, id)
			kinds = append(kinds, tag)
			hs = append(hs, hop{Kind: "write", K: "a", ID: id, Raw: raw})
		default:
			k := "d"
			if r.Chance(1, 3) {
				k = "a"
			}
			ln := len(contents[c])
			if k == "a" {
				ln = 175
			}
			switch r.Intn(6) {
			case 0:
				nn := 0
				if ln > 0 {
					nn = r.Intn(ln + 1)
				}
				if r.Chance(1, 3) && ln > 0 {
					nn = ln - 1
				}
				hs = append(hs, hop{Kind: "trunc", K: k, ID: id, C: c, N: nn})
			case 1:
				ext := []byte{byte(r.Intn(256))}
				if r.Bool() {
					ext = []byte("extra bytes")
				}
				hs = append(hs, hop{Kind: "extend", K: k, ID: id, C: c, Raw: ext})
			case 2:
				pos := 0
				if ln > 0 {
					pos = r.Intn(ln)
				}
				hs = append(hs, hop{Kind: "flip", K: k, ID: id, C: c, N: pos})
			case 3:
				hs = append(hs, hop{Kind: "delete", K: k, ID: id, C: c})
			case 4:
				hs = append(hs, hop{Kind: "repl", K: k, ID: id, C: c, T: pickContent(r)})
			default:
				// write a content under another content's name (data), equal-length partner preferred
				t := c ^ 1
				if c == 0 || c == 5 || r.Chance(1, 4) {
					t = r.Intn(len(contents))
				}
				if k == "a" {
					raw, tag := genRaw(r, id)
					kinds = append(kinds, tag)
					hs = append(hs, hop{Kind: "write", K: "a", ID: id, Raw: raw})
				} else {
					hs = append(hs, hop{Kind: "write", K: "d", C: c, Raw: contents[t%len(contents)]})
				}
			}
		}
	}
	// which of the handles opened on the directory makes each call: mostly one, every fourth history several
	if r.Chance(1, 4) {
		for i := range hs {
			switch hs[i].Kind {
			case "put", "putbytes", "putfile", "putoff", "putreuse", "putcb", "get", "getbytes", "getfile", "outputfile":
				hs[i].Hd = r.Intn(nHandles)
			}
		}
	}
	return hs, kinds
}

func runC05(f *common.Flags, res *common.Result, m *mdl) {
	t0, tlast, tname := time.Now(), time.Now(), "setup"
	var phases []string
	phase := func(name string) {
		phases = append(phases, fmt.Sprintf("%s %.1fs", tname, time.Since(tlast).Seconds()))
		tlast, tname = time.Now(), name
	}
	defer func() {
		phase("end")
		res.Notes = append(res.Notes, fmt.Sprintf("time per part of the C05 run (total %.1fs, of which %.1fs waiting for the model on histories): %s", time.Since(t0).Seconds(), modelTime.Seconds(), strings.Join(phases, ", ")))
	}()
	report := func(hs []hop, o histOutcome) {
		bad := func(cand []hop) bool {
			oo := runHistory(f.Work, m, cand)
			if o.impl != nil {
				return oo.impl != nil && oo.impl.Oracle == o.impl.Oracle
			}
			return oo.corr != nil
		}
		small := common.ShrinkList(hs, bad)
		oo := runHistory(f.Work, m, small)
		if oo.impl != nil {
			violate(res, *oo.impl)
		} else if o.impl != nil {
			violate(res, *o.impl)
		}
		if oo.corr != nil {
			violate(res, *oo.corr)
		} else if o.corr != nil {
			violate(res, *o.corr)
		}
	}
	one := func(hs []hop, src string) {
		o := runHistory(f.Work, m, hs)
		for k, v := range o.tags {
			res.Distribution[k] += v
		}
		res.Count("src:" + src)
		res.Count(fmt.Sprintf("len:%d-%d", len(hs)/10*10, len(hs)/10*10+9))
		nontrivial := o.tags["getbytes:found"]+o.tags["getfile:found"] > 0 &&
			o.tags["getbytes:notfound"]+o.tags["getfile:notfound"] > 0
		res.Case(histString(hs), nontrivial)
		if res.Evaluations%400 == 1 {
			res.Sample(map[string]any{"source": src, "steps": o.steps})
		}
		if o.impl != nil || o.corr != nil {
			report(hs, o)
		}
	}
	for i, cn := range contents {
		if len(cn) > 512 {
			m.define(fmt.Sprintf("c%d", i), cn)
		}
		m.hash(cn)
	}
	{
		var hx []string
		for i := range ids {
			hx = append(hx, hex.EncodeToString(ids[i][:]))
		}
		m.ask("ids " + strings.Join(hx, " "))
	}
	if f.Replay != "" {
		rp, err := common.LoadReplay(f.Replay)
		if err != nil {
			fmt.Fprintln(os.Stderr, err)
			os.Exit(2)
		}
		if !replayBorrowed(f, res, m, rp.Violation.Input) {
			one(parseHist(rp.Violation.Input["history"]), "replay")
		}
		return
	}
	phase("1")
	// 1. corpus: one history per file
	if f.Corpus != "" {
		ents, _ := filepath.Glob(filepath.Join(f.Corpus, "*"))
		sort.Strings(ents)
		for _, e := range ents {
			if b, err := os.ReadFile(e); err == nil {
				one(parseHist(string(b)), "corpus")
			}
		}
	}
	phase("1b")
	// 1b. systematically degenerate entries, with the named output present
	for _, ci := range []int{1, 0} {
		for _, rc := range degenerateEntries(0, ci) {
			if ci == 0 && (strings.HasPrefix(rc.tag, "deg:id") || strings.HasPrefix(rc.tag, "deg:out")) {
				continue // the hex-position families once, with the one-byte content
			}
			hs := []hop{{Kind: "put", ID: 1, C: ci}, {Kind: "write", K: "a", ID: 0, Raw: rc.raw}, {Kind: "get", ID: 0},
				{Kind: "getbytes", ID: 0}, {Kind: "getfile", ID: 0}}
			tagParts := strings.SplitN(strings.SplitN(rc.tag, "@", 2)[0], ":", 4)
			if len(tagParts) > 3 {
				tagParts = tagParts[:3]
			}
			res.Count("raw:" + strings.Join(tagParts, ":"))
			one(hs, "degenerate")
		}
	}
	phase("1c")
	// 1c. sources that are not at offset 0, a reused source, and every special damage of an index
	// and of a data file, with the entry present
	for _, ci := range []int{1, 3, 0} {
		for _, off := range []int{1, len(contents[ci]) / 2, len(contents[ci]), len(contents[ci]) + 5} {
			for t := 0; t < 2; t++ {
				one([]hop{{Kind: "putoff", ID: 0, C: ci, N: off, T: t}, {Kind: "getbytes", ID: 0}, {Kind: "getfile", ID: 0}}, "source-offset")
			}
			one([]hop{{Kind: "putreuse", ID: 0, C: ci, N: off}, {Kind: "getbytes", ID: 0}, {Kind: "getbytes", ID: 1}}, "source-offset")
		}
		for sp := range specialNames {
			for _, k := range []string{"a", "d"} {
				one([]hop{{Kind: "put", ID: 0, C: ci}, {Kind: "put", ID: 2, C: 4}, {Kind: "special", K: k, ID: 0, C: ci, N: sp},
					{Kind: "getbytes", ID: 0}, {Kind: "getfile", ID: 0}, {Kind: "getbytes", ID: 2}}, "special-damage")
			}
		}
	}
	// 1c'. Put from a file of the caller's next to the cache (contents: one byte, 40, empty, the big one), then every
	// thing the caller may do with ITS file; the entry must read back the data, now and after a later Put
	for _, ci := range []int{1, 3, 0, 5} {
		for a := range callerActions {
			for t := 0; t < 2; t++ {
				one([]hop{{Kind: "putfile", ID: 0, C: ci, N: a, T: t}, {Kind: "getbytes", ID: 0}, {Kind: "getfile", ID: 0},
					{Kind: "putfile", ID: 1, C: ci, N: a}, {Kind: "getbytes", ID: 0}, {Kind: "getbytes", ID: 1}}, "caller-file")
			}
		}
	}
	phase("1d")
	// 1d. Put, damage of the stored output (same length and other), Put of the same content again
	// (same id or another one), lookups; and two or three ids sharing one output of which one is
	// re-pointed to another content
	for _, ci := range []int{1, 3} {
		ln := len(contents[ci])
		dmgs := []hop{{Kind: "flip", K: "d", C: ci, N: 0}, {Kind: "flip", K: "d", C: ci, N: ln - 1}, {Kind: "repl", K: "d", C: ci, T: ci ^ 1},
			{Kind: "trunc", K: "d", C: ci, N: ln - 1}, {Kind: "trunc", K: "d", C: ci, N: 0}, {Kind: "extend", K: "d", C: ci, Raw: []byte("z")}, {Kind: "delete", K: "d", C: ci},
			{Kind: "write", K: "d", C: ci, Raw: contents[5]}}
		for _, dm := range dmgs {
			for _, again := range []int{0, 1} {
				for _, pk := range []string{"put", "putbytes"} {
					one([]hop{{Kind: pk, ID: 0, C: ci}, dm, {Kind: "getbytes", ID: 0}, {Kind: pk, ID: again, C: ci}, {Kind: "getbytes", ID: 0}, {Kind: "getfile", ID: 0},
						{Kind: "getbytes", ID: again}, {Kind: "getfile", ID: again}}, "damage-then-put")
				}
			}
		}
		for _, other := range []int{ci ^ 1, 0, 5} {
			for _, pk := range []string{"put", "putbytes"} {
				one([]hop{{Kind: pk, ID: 0, C: ci}, {Kind: pk, ID: 1, C: ci}, {Kind: pk, ID: 0, C: other}, {Kind: "getbytes", ID: 1}, {Kind: "getfile", ID: 1}, {Kind: "getbytes", ID: 0}}, "shared-output-repointed")
				one([]hop{{Kind: pk, ID: 0, C: ci}, {Kind: pk, ID: 1, C: ci}, {Kind: pk, ID: 2, C: ci}, {Kind: pk, ID: 1, C: other}, {Kind: pk, ID: 0, C: other},
					{Kind: "getbytes", ID: 2}, {Kind: "getfile", ID: 2}, {Kind: "getbytes", ID: 0}, {Kind: "getbytes", ID: 1}}, "shared-output-repointed")
			}
		}
	}
	phase("1e")
	// 1e. several handles on the directory: one looks an id up before another stores it (never stored,
	// or its index entry deleted), then looks it up again
	for _, ci := range []int{1, 3, 0} {
		for _, lk := range []string{"get", "getbytes", "getfile"} {
			for _, ab := range [][2]int{{1, 0}, {0, 1}, {1, 2}} {
				a, b := ab[0], ab[1]
				one([]hop{{Kind: lk, ID: 0, Hd: a}, {Kind: "put", ID: 0, C: ci, Hd: b}, {Kind: "getbytes", ID: 0, Hd: a}, {Kind: "getfile", ID: 0, Hd: a}, {Kind: "get", ID: 0, Hd: a},
					{Kind: "getbytes", ID: 0, Hd: b}}, "handles")
				one([]hop{{Kind: "putbytes", ID: 0, C: ci, Hd: a}, {Kind: "delete", K: "a", ID: 0}, {Kind: lk, ID: 0, Hd: a}, {Kind: "putbytes", ID: 0, C: ci, Hd: b},
					{Kind: "getbytes", ID: 0, Hd: a}, {Kind: "getfile", ID: 0, Hd: a}, {Kind: "put", ID: 1, C: ci ^ 1, Hd: a}, {Kind: "getbytes", ID: 1, Hd: b}}, "handles")
			}
		}
	}
	phase("1f")
	// 1f. a lookup made by the source reader of a Put (before its first file operation / before its
	// first and its last write to the output), of an id that names the output being written or another
	// one, with that output intact, damaged with and without change of length, or gone
	for _, ci := range []int{1, 3, 5} {
		ln := len(contents[ci])
		dmgs := []*hop{nil, {Kind: "flip", K: "d", C: ci, N: ln / 2}, {Kind: "trunc", K: "d", C: ci, N: ln - 1}, {Kind: "trunc", K: "d", C: ci, N: 0},
			{Kind: "delete", K: "d", C: ci}, {Kind: "extend", K: "d", C: ci, Raw: []byte("zz")}}
		last := len(chunk32k(contents[ci], ln-1)) - 1
		for di, dm := range dmgs {
			for _, op := range []string{"get", "getbytes", "getfile"} {
				for _, at := range [][2]int{{1, 0}, {2, 0}, {2, last}} {
					if ci == 5 && (op != "getbytes" || di == 3 || di == 5 || at[0] == 1) {
						continue // the 40000-byte content (two writes before the committing one): a subset (cost of the model)
					}
					for _, own := range []bool{false, true} {
						if ci == 5 && own {
							continue
						}
						putID := 0
						if own {
							putID = 1
						}
						hs := []hop{{Kind: "put", ID: 1, C: ci}}
						if dm != nil {
							hs = append(hs, *dm)
						}
						hs = append(hs, hop{Kind: "putcb", ID: putID, C: ci, CB: &cbSpec{Pass: at[0], N: at[1], Op: op, ID: 1, Hd: 1}},
							hop{Kind: "getbytes", ID: putID}, hop{Kind: "getfile", ID: putID}, hop{Kind: "getbytes", ID: 1, Hd: 1})
						one(hs, "lookup-inside-put")
					}
				}
			}
		}
	}
	r := common.NewRNG(f.Seed)
	phase("2")
	// 2. the entry codec alone: raw entry, then Get / GetBytes / GetFile (with and without the output present)
	nCodec, nHist, nTrace := 600, 1300, 120
	if f.Tier == "thorough" {
		nCodec, nHist, nTrace = 30000, 40000, 3000
	}
	for i := 0; i < nCodec; i++ {
		raw, tag := genRaw(r, 0)
		hs := []hop{}
		if r.Bool() {
			hs = append(hs, hop{Kind: "put", ID: 1, C: pickContent(r)})
		}
		hs = append(hs, hop{Kind: "write", K: "a", ID: 0, Raw: raw}, hop{Kind: "get", ID: 0},
			hop{Kind: "getbytes", ID: 0}, hop{Kind: "getfile", ID: 0})
		res.Count("raw:" + tag)
		one(hs, "codec")
	}
	phase("3")
	// 3. random histories
	for i := 0; i < nHist; i++ {
		hs, kinds := genHistory(r)
		for _, k := range kinds {
			res.Count("raw:" + k)
		}
		one(hs, "history")
	}
	phase("3b")
	// 3b. cache.Open: 256 two-digit subdirectories in a fresh directory, idempotent; refuses a file and a missing directory
	{
		od := filepath.Join(f.Work, "c05open")
		os.MkdirAll(od, 0o777)
		okOpen := common.Safely(func() string {
			if _, err := cache.Open(od); err != nil {
				return "open failed: " + err.Error()
			}
			ents, _ := os.ReadDir(od)
			if len(ents) != 256 {
				return fmt.Sprintf("%d entries after Open", len(ents))
			}
			for i, e := range ents {
				if !e.IsDir() || e.Name() != fmt.Sprintf("%02x", i) {
					return "unexpected entry " + e.Name()
				}
			}
			if _, err := cache.Open(od); err != nil {
				return "second Open failed"
			}
			fp := filepath.Join(od, "00", "plainfile")
			os.WriteFile(fp, []byte("x"), 0o666)
			if _, err := cache.Open(fp); err == nil {
				return "Open of a regular file succeeded"
			}
			if _, err := cache.Open(filepath.Join(od, "missing")); err == nil {
				return "Open of a missing directory succeeded"
			}
			return "ok"
		})
		res.Case("open", true)
		if okOpen != "ok" {
			violate(res, common.Violation{Kind: "impl-violation", Oracle: "open-layout", Input: map[string]string{"dir": "fresh directory"},
				Detail: "cache.Open: " + okOpen, Key: "c05:open"})
		}
		os.RemoveAll(od)
	}
	phase("4")
	// 4. the operations every call performs, through the os shim
	runC05Traces(f, res, m, nTrace)
	phase("5")
	// 5. Put under file-operation faults, lookups on a shared Cache value, descriptor exhaustion
	faults := ""
	if f.Replay == "" {
		faults = runC05Faults(f, res, m) + "; " + runC05Hash(f, res, m)
	}
	res.Rule = faults + "; dimensions of CONVENTIONS addendum 4 in the history run: (1) state carried between calls -- every API step goes through one of three *cache.Cache values opened on the one directory (fresh ones per history; a systematic family in which one handle looks an id up before another stores it, never stored or with its index entry deleted, and every fourth random history with random handles), and every id stored and neither overwritten nor damaged since must read exactly, through EVERY handle, after every later Put; sources that are not at their start and readers used for two Puts (compared with the model's positioned source); a source whose Read makes a lookup of its own while the Put is in progress (at the first Read of the hash pass, before the first and before the last write of the copy pass; of an id naming the output being written or another one; with that output intact, damaged with and without change of length, or gone), compared with the model's put_cb; (2) caller's memory -- the slice GetBytes returned and the data given to PutBytes are overwritten in place (and their spare capacity used) as soon as the call has been examined: nothing returned later may change; direct oracles added: Put returns the SHA-256 and length of the data; a Put from a well-behaved source does not fail (on a store holding a file for that output, intact or damaged: the repair clause); " + fmt.Sprintf("corpus, a systematic family of entries valid but for one degenerate field (each numeric field blank, a lone digit or sign at each of its 20 positions, signed, zero-padded, overflowing int64/uint64, trailing/inner junk, left-aligned; each of the 2x64 hex positions replaced by non-hex bytes, the other case, another digit; every separator and the header replaced; lengths +-3), %d raw index entries (valid, upper-case hex, wrong lengths, signs, overflowing and malformed numbers, foreign id, bad separators, random bytes) looked up through Get/GetBytes/GetFile, then %d random histories of 3..30 operations over 4 ids and 6 contents (empty, two equal-length pairs, one 40000-byte content) mixing Put/PutBytes/Get/GetBytes/GetFile/OutputFile with truncate/extend/flip/delete/replace of index and data files and raw entries; every result (found or not, bytes, size, OutputID, time, file name) and the final directory listing with contents are compared with the model; direct oracles: SHA-256 of returned bytes, os.Stat size of the named file, no panic, Put-then-GetBytes/GetFile; a history is non-trivial when it contains both a successful and a rejected GetBytes/GetFile; finally %d histories run call by call through the os-shimmed copy of the package, where beside the result the sequence of file operations of every Put/PutBytes/Get/GetBytes/GetFile/OutputFile (with the Stat/Chtimes of c.used) is compared with the model's; the extracted booleans c05_holds_on / c05_put_holds_on are evaluated on every history", nCodec, nHist, nTrace)
}

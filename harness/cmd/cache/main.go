// Command cache is the correspondence + oracle runner of the Cache group:
//
//	VERIF_PROP=C05  op histories with on-disk damage, real cache.Cache vs the extracted model
//	VERIF_PROP=C12  fault / crash injection at every file operation of a real Put
//	VERIF_PROP=C11  replayed schedules (cooperative scheduler in the os shim) and multi-process stress
//
// The model (bin/model_cache) is the extraction of coq/theories/Cache; the hash H of the model is
// the table of SHA-256 values this runner sends it (request "hash"); a value the model needs and
// does not have is asked for with "NEED <content>".
package main

import (
	"bytes"
	"crypto/sha256"
	"fmt"
	"os"
	"strings"

	"verif/harness/common"
)

func repoDir() string {
	if d := os.Getenv("VERIF_REPO"); d != "" {
		return d
	}
	return "/repo"
}

// mdl wraps the model pipe with the NEED protocol.
type mdl struct {
	m    *common.Model
	sent map[string]bool
	defs []bigDef
}

func newModel(path string) (*mdl, error) {
	m, err := common.StartModel(path)
	if err != nil {
		return nil, err
	}
	return &mdl{m: m, sent: map[string]bool{}}, nil
}

func (m *mdl) hash(content []byte) {
	k := string(content)
	if m.sent[k] {
		return
	}
	m.sent[k] = true
	s := sha256.Sum256(content)
	m.m.Ask1("hash " + common.Hex(content) + " " + common.Hex(s[:]))
}

// big contents are sent once ("def") and referred to afterwards as @name:off:len
type bigDef struct {
	name string
	data []byte
}

func (m *mdl) define(name string, d []byte) {
	m.m.Ask1("def " + name + " " + common.Hex(d))
	m.defs = append(m.defs, bigDef{name, d})
}

func (m *mdl) ref(d []byte) string {
	if len(d) >= 256 {
		for _, b := range m.defs {
			if i := bytes.Index(b.data, d); i >= 0 {
				return fmt.Sprintf("@%s:%d:%d", b.name, i, len(d))
			}
		}
	}
	return common.Hex(d)
}

// hashReq returns the request that teaches the model the SHA-256 of content ("" when known).
func (m *mdl) hashReq(content []byte) string {
	k := string(content)
	if m.sent[k] {
		return ""
	}
	m.sent[k] = true
	s := sha256.Sum256(content)
	return "hash " + m.ref(content) + " " + common.Hex(s[:])
}

// ask sends one request, feeding the hash table on demand.
func (m *mdl) ask(req string) string {
	for i := 0; i < 64; i++ {
		a := m.m.Ask1(req)
		if strings.HasPrefix(a, "NEED ") {
			c := common.UnHex(strings.TrimPrefix(a, "NEED "))
			delete(m.sent, string(c))
			m.hash(c)
			continue
		}
		return a
	}
	return "MODEL-ERROR need loop"
}

func main() {
	f := common.ParseFlags()
	prop := os.Getenv("VERIF_PROP")
	if prop == "" {
		prop = "C05"
	}
	res := common.NewResult(prop, f.Tier, f.Seed)
	m, err := newModel(f.Model)
	if err != nil {
		fmt.Fprintln(os.Stderr, "cannot start model:", err)
		os.Exit(2)
	}
	defer m.m.Close()
	if f.Work == "" {
		d, _ := os.MkdirTemp("", "verif-cache-")
		f.Work = d
		defer os.RemoveAll(d)
	}
	os.Unsetenv("GODEBUG") // verify mode / debug hashing are not modelled
	switch prop {
	case "C05":
		runC05(f, res, m)
		runSrcSegments(f, res, m) // c05src.go: the translated segments of cache.go against the implementation
	case "C12":
		runC12(f, res, m)
	case "C11":
		runC11(f, res, m)
	default:
		fmt.Fprintln(os.Stderr, "unknown VERIF_PROP", prop)
		os.Exit(2)
	}
	reportTieBroken(res, prop)
	res.Write(f.Out)
}

func sha256sum(b []byte) [32]byte { return sha256.Sum256(b) }

package main

// C11: (i) schedules drawn from the seed, replayed on the real code (goroutines of one process
// under the cooperative scheduler of the os shim: one file operation per turn) and on the
// interleaved semantics of the model; (ii) uncontrolled stress of several processes x goroutines
// on one directory with self-describing payloads.

import (
	"encoding/hex"
	"fmt"
	"os"
	"path/filepath"
	"sort"
	"strconv"
	"strings"
	"time"

	"verif/harness/common"
)

type c11Call struct {
	Op   string // put putat putagain putdiff get getbytes getfile
	ID   int
	Data []byte
	R    int // putdiff: offset from which the second pass differs; putat: offset the source is at when Put gets it
}

// isPut: a Put from a well-behaved source: at its start (put), somewhere else (putat), or the very
// reader the client's previous Put was given, left at its end (putagain).  All three must store
// exactly Data: Put rewinds its source.
func (c c11Call) isPut() bool { return c.Op == "put" || c.Op == "putat" || c.Op == "putagain" }

type c11Scenario struct {
	Pre      map[string][]byte
	Clients  [][]c11Call
	Schedule []int
	Shared   bool     // the clients are goroutines sharing one *cache.Cache
	Handles  []int    // else, when set: per client the index of the *cache.Cache it uses (equal indices share one)
	MustHit  []string // "client:call" lookups that must find their content (direct oracle)
	Restore  bool     // an id stored beforehand, re-stored with the same content while it is looked up
}

func (sc *c11Scenario) String() string {
	var cl []string
	for _, c := range sc.Clients {
		var ops []string
		for _, o := range c {
			ops = append(ops, fmt.Sprintf("%s.%d.%s.%d", o.Op, o.ID, common.Hex(o.Data), o.R))
		}
		cl = append(cl, strings.Join(ops, ","))
	}
	var pre []string
	for k, v := range sc.Pre {
		pre = append(pre, k+"="+common.Hex(v))
	}
	sort.Strings(pre)
	var s []string
	for _, x := range sc.Schedule {
		s = append(s, fmt.Sprint(x))
	}
	opt := ""
	if sc.Shared {
		opt = "shared"
	} else if len(sc.Handles) == len(sc.Clients) {
		var hs []string
		for _, h := range sc.Handles {
			hs = append(hs, fmt.Sprint(h))
		}
		opt = "handles=" + strings.Join(hs, ".")
	}
	return strings.Join(pre, ",") + "|" + strings.Join(cl, "/") + "|" + strings.Join(s, ",") + "|" + opt + "|" + strings.Join(sc.MustHit, ",")
}

func parseC11(s string) *c11Scenario {
	parts := strings.Split(s, "|")
	if len(parts) != 3 && len(parts) != 5 {
		return nil
	}
	sc := &c11Scenario{Pre: map[string][]byte{}}
	if len(parts) == 5 {
		sc.Shared = parts[3] == "shared"
		if strings.HasPrefix(parts[3], "handles=") {
			for _, x := range strings.Split(strings.TrimPrefix(parts[3], "handles="), ".") {
				n, _ := strconv.Atoi(x)
				sc.Handles = append(sc.Handles, n)
			}
		}
		if parts[4] != "" {
			sc.MustHit = strings.Split(parts[4], ",")
		}
	}
	for _, kv := range strings.Split(parts[0], ",") {
		if i := strings.Index(kv, "="); i > 0 {
			sc.Pre[kv[:i]] = common.UnHex(kv[i+1:])
		}
	}
	for _, c := range strings.Split(parts[1], "/") {
		var calls []c11Call
		for _, o := range strings.Split(c, ",") {
			f := strings.Split(o, ".")
			if len(f) >= 3 {
				id, _ := strconv.Atoi(f[1])
				r := 0
				if len(f) >= 4 {
					r, _ = strconv.Atoi(f[3])
				}
				calls = append(calls, c11Call{f[0], id, common.UnHex(f[2]), r})
			}
		}
		sc.Clients = append(sc.Clients, calls)
	}
	for _, x := range strings.Split(parts[2], ",") {
		if n, err := strconv.Atoi(x); err == nil {
			sc.Schedule = append(sc.Schedule, n)
		}
	}
	return sc
}

var c11Contents = [][]byte{{}, []byte("a"), []byte("b"), []byte("hello, cache"), c12pat(700, 3), c12pat(700, 8), c12pat(3000, 5)}

func genC11(r *common.RNG) *c11Scenario {
	sc := &c11Scenario{Pre: map[string][]byte{}}
	nid := 1 + r.Intn(3)
	// per id a small set of contents; often a single one (re-stores of identical content)
	perID := make([][]int, nid)
	for i := range perID {
		n := 1
		if r.Chance(1, 2) {
			n = 2 + r.Intn(2)
		}
		for k := 0; k < n; k++ {
			perID[i] = append(perID[i], r.Intn(len(c11Contents)))
		}
		if r.Chance(1, 2) { // already stored before the clients start
			d := c11Contents[perID[i][0]]
			sc.Pre["a:"+idHex(i)] = entryBytes(i, d, 1700000000000000000+int64(r.Intn(1000)))
			sc.Pre["d:"+outHex(d)] = d
		}
	}
	ncl := 2 + r.Intn(3)
	for c := 0; c < ncl; c++ {
		var calls []c11Call
		for k := 1 + r.Intn(3); k > 0; k-- {
			id := r.Intn(nid)
			switch r.Intn(5) {
			case 0, 1:
				d := c11Contents[common.Pick(r, perID[id])]
				switch r.Intn(8) {
				case 0, 1:
					// the source is not at its start when Put gets it
					calls = append(calls, c11Call{Op: "putat", ID: id, Data: d, R: r.Intn(len(d) + 1)})
				case 2:
					// the reader of this client's previous Put, given to Put again
					calls = append(calls, c11Call{Op: "putagain", ID: id, Data: d})
				default:
					calls = append(calls, c11Call{Op: "put", ID: id, Data: d})
				}
			case 2:
				calls = append(calls, c11Call{Op: "getbytes", ID: id})
			case 3:
				calls = append(calls, c11Call{Op: "getfile", ID: id})
			default:
				calls = append(calls, c11Call{Op: "get", ID: id})
			}
		}
		sc.Clients = append(sc.Clients, calls)
	}
	switch r.Intn(4) {
	case 0:
		sc.Shared = true // goroutines of one program on one handle
	case 1:
		for range sc.Clients { // two handles on the directory, shared by some clients
			sc.Handles = append(sc.Handles, r.Intn(2))
		}
	}
	n := 20 + r.Intn(120)
	burst := r.Chance(1, 3)
	for i := 0; i < n; i++ {
		x := r.Intn(64)
		sc.Schedule = append(sc.Schedule, x)
		if burst && r.Chance(2, 3) { // runs of the same pick: long stretches of one client
			for k := r.Intn(6); k > 0; k-- {
				sc.Schedule = append(sc.Schedule, x)
			}
		}
	}
	return sc
}

// systematicC11: two clients; the second runs to completion at every operation boundary of the
// first (and the other way round), for every pair of calls on one id, with the id stored
// beforehand or not.
func systematicC11() []*c11Scenario {
	d, d2 := c11Contents[3], c11Contents[4]
	callsA := []c11Call{{Op: "put", ID: 0, Data: d}, {Op: "put", ID: 0, Data: d2}, {Op: "put", ID: 0, Data: []byte{}}}
	callsB := []c11Call{{Op: "getbytes", ID: 0}, {Op: "getfile", ID: 0}, {Op: "get", ID: 0}, {Op: "put", ID: 0, Data: d}, {Op: "put", ID: 0, Data: d2}, {Op: "put", ID: 1, Data: d}}
	var out []*c11Scenario
	// two staggered writers of identical content (same id or another id), then a reader of the
	// first writer's id once that writer has finished, while the second is still catching up
	for _, dd := range [][]byte{d, d2, []byte("ab")} {
		for _, bid := range []int{0, 1} {
			for k := 0; k <= 9; k++ {
				for m := 1; m <= 5; m++ {
					for _, rdc := range []string{"getfile", "getbytes"} {
						sc := &c11Scenario{Pre: map[string][]byte{},
							Clients: [][]c11Call{{{Op: "put", ID: 0, Data: dd}}, {{Op: "put", ID: bid, Data: dd}}, {{Op: rdc, ID: 0}, {Op: rdc, ID: 0}}},
							MustHit: []string{"2:0", "2:1"}}
						// A up to operation k, B for m operations, A to the end, the reader, then B catches up
						for i := 0; i < k; i++ {
							sc.Schedule = append(sc.Schedule, 0)
						}
						for i := 0; i < m; i++ {
							sc.Schedule = append(sc.Schedule, 1)
						}
						for i := 0; i < 40; i++ {
							sc.Schedule = append(sc.Schedule, 0)
						}
						for i := 0; i < 40; i++ {
							sc.Schedule = append(sc.Schedule, 2)
						}
						for i := 0; i < 40; i++ {
							sc.Schedule = append(sc.Schedule, 1)
						}
						out = append(out, sc)
					}
				}
			}
		}
	}
	// an id whose output file was removed (trimmed) or damaged, then re-stored with identical
	// content by two writers at once: when both have finished the id must be readable again
	for _, dd := range [][]byte{d, []byte("ab")} {
		flip := append([]byte{}, dd...)
		flip[len(dd)/2] ^= 2
		for vi, dat := range [][]byte{nil, flip, dd[:len(dd)-1], {}} {
			for k := 0; k <= 13; k++ {
				for _, first := range []int{0, 1} {
					sc := &c11Scenario{Pre: map[string][]byte{"a:" + idHex(0): entryBytes(0, dd, 1700000000000000666)},
						Clients: [][]c11Call{{{Op: "put", ID: 0, Data: dd}}, {{Op: "put", ID: 0, Data: dd}, {Op: "getbytes", ID: 0}}}}
					if vi > 0 {
						sc.Pre["d:"+outHex(dd)] = dat
					}
					for i := 0; i < k; i++ {
						sc.Schedule = append(sc.Schedule, first)
					}
					for i := 0; i < 60; i++ {
						sc.Schedule = append(sc.Schedule, 1-first)
					}
					for i := 0; i < 60; i++ {
						sc.Schedule = append(sc.Schedule, first)
					}
					out = append(out, sc)
				}
			}
		}
	}
	// a handle that looked an id up BEFORE it existed must see it once another handle has stored it
	for _, dd := range [][]byte{d, []byte("ab"), {}} {
		for _, lk := range []string{"getbytes", "getfile", "get"} {
			for _, lk2 := range []string{"getbytes", "getfile"} {
				sc := &c11Scenario{Pre: map[string][]byte{},
					Clients: [][]c11Call{{{Op: lk, ID: 0}, {Op: lk2, ID: 0}, {Op: lk2, ID: 0}}, {{Op: "put", ID: 0, Data: dd}}, {{Op: "put", ID: 0, Data: dd}}}}
				// the first lookup (a miss: one operation), then both writers to the end, then the same
				// handle again; the lookups that start after a Put has returned must hit (general oracle)
				sc.Schedule = append(sc.Schedule, 0)
				for i := 0; i < 40; i++ {
					sc.Schedule = append(sc.Schedule, 1, 2)
				}
				for i := 0; i < 60; i++ {
					sc.Schedule = append(sc.Schedule, 0)
				}
				out = append(out, sc)
			}
		}
	}
	// goroutines sharing ONE handle, each looking up its own id (stored before, never rewritten),
	// one running to completion at every operation boundary of the other
	for _, pair := range [][2]string{{"getbytes", "getbytes"}, {"getfile", "getbytes"}, {"get", "getfile"}, {"getbytes", "get"}} {
		for k := 0; k <= 10; k++ {
			for _, first := range []int{0, 1} {
				sc := &c11Scenario{Shared: true, Pre: map[string][]byte{
					"a:" + idHex(0): entryBytes(0, d, 1700000000000000444), "d:" + outHex(d): d,
					"a:" + idHex(1): entryBytes(1, d2, 1700000000000000555), "d:" + outHex(d2): d2},
					Clients: [][]c11Call{{{Op: pair[0], ID: 0}, {Op: pair[0], ID: 0}}, {{Op: pair[1], ID: 1}, {Op: pair[1], ID: 1}}},
					MustHit: []string{"0:0", "0:1", "1:0", "1:1"}}
				for i := 0; i < k; i++ {
					sc.Schedule = append(sc.Schedule, first)
				}
				for i := 0; i < 12; i++ {
					sc.Schedule = append(sc.Schedule, 1-first)
				}
				for i := 0; i < 3; i++ {
					sc.Schedule = append(sc.Schedule, first, 1-first)
				}
				for i := 0; i < 60; i++ {
					sc.Schedule = append(sc.Schedule, first)
				}
				for i := 0; i < 60; i++ {
					sc.Schedule = append(sc.Schedule, 1-first)
				}
				out = append(out, sc)
			}
		}
	}
	// an entry whose output file is gone (as after Trim), a writer whose source changes on the
	// second pass (or an honest one), and a reader of that entry at every boundary of the writer
	for _, dd := range [][]byte{[]byte("a"), []byte("ab"), d, d2} {
		for _, wr := range []c11Call{{Op: "putdiff", ID: 0, Data: dd, R: 0}, {Op: "putdiff", ID: 0, Data: dd, R: len(dd) - 1},
			{Op: "putdiff", ID: 1, Data: dd, R: len(dd) / 2}, {Op: "put", ID: 0, Data: dd}} {
			for _, rdc := range []c11Call{{Op: "getfile", ID: 1}, {Op: "getbytes", ID: 1}} {
				for k := 0; k <= 14; k++ {
					sc := &c11Scenario{Pre: map[string][]byte{"a:" + idHex(1): entryBytes(1, dd, 1700000000000000333)},
						Clients: [][]c11Call{{wr}, {rdc, rdc}}}
					for i := 0; i < k; i++ {
						sc.Schedule = append(sc.Schedule, 0)
					}
					for i := 0; i < 60; i++ {
						sc.Schedule = append(sc.Schedule, 1)
					}
					for i := 0; i < 60; i++ {
						sc.Schedule = append(sc.Schedule, 0)
					}
					out = append(out, sc)
				}
			}
		}
	}
	// two writers of DIFFERENT outputs that are not stored yet (both copy), as goroutines on ONE handle
	// and as users with a handle each: one runs to completion at every operation boundary of the other
	for _, pr := range [][2][]byte{{[]byte("ab"), []byte("xy")}, {d, d2}, {[]byte("a"), []byte("b")}} {
		for _, shared := range []bool{true, false} {
			for k := 0; k <= 12; k++ {
				for _, first := range []int{0, 1} {
					sc := &c11Scenario{Pre: map[string][]byte{}, Shared: shared,
						Clients: [][]c11Call{{{Op: "put", ID: 0, Data: pr[0]}}, {{Op: "put", ID: 1, Data: pr[1]}}}}
					for i := 0; i < k; i++ {
						sc.Schedule = append(sc.Schedule, first)
					}
					for i := 0; i < 40; i++ {
						sc.Schedule = append(sc.Schedule, 1-first)
					}
					for i := 0; i < 40; i++ {
						sc.Schedule = append(sc.Schedule, first)
					}
					out = append(out, sc)
				}
			}
		}
	}
	// a Put whose source is NOT at its start (partly consumed, or at its end), for a new id and as a
	// re-store of identical content, with a reader of that id at every operation boundary; and one
	// reader object given to three Puts in a row
	for _, dd := range [][]byte{d, []byte("ab"), d2} {
		for _, off := range []int{1, len(dd) / 2, len(dd)} {
			for _, pre := range []bool{false, true} {
				for k := 0; k <= 12; k++ {
					sc := &c11Scenario{Pre: map[string][]byte{},
						Clients: [][]c11Call{{{Op: "putat", ID: 0, Data: dd, R: off}}, {{Op: "getbytes", ID: 0}, {Op: "getfile", ID: 0}}}}
					if pre {
						sc.Pre["a:"+idHex(0)] = entryBytes(0, dd, 1700000000000000777)
						sc.Pre["d:"+outHex(dd)] = dd
						sc.MustHit = []string{"1:0", "1:1"}
						sc.Restore = true
					}
					for i := 0; i < k; i++ {
						sc.Schedule = append(sc.Schedule, 0)
					}
					for i := 0; i < 60; i++ {
						sc.Schedule = append(sc.Schedule, 1)
					}
					for i := 0; i < 60; i++ {
						sc.Schedule = append(sc.Schedule, 0)
					}
					out = append(out, sc)
				}
			}
		}
		for k := 0; k <= 24; k += 2 {
			sc := &c11Scenario{Pre: map[string][]byte{},
				Clients: [][]c11Call{{{Op: "put", ID: 0, Data: dd}, {Op: "putagain", ID: 1, Data: dd}, {Op: "putagain", ID: 0, Data: dd}}, {{Op: "getbytes", ID: 1}, {Op: "getbytes", ID: 0}}}}
			for i := 0; i < k; i++ {
				sc.Schedule = append(sc.Schedule, 0)
			}
			for i := 0; i < 60; i++ {
				sc.Schedule = append(sc.Schedule, 1)
			}
			for i := 0; i < 90; i++ {
				sc.Schedule = append(sc.Schedule, 0)
			}
			out = append(out, sc)
		}
	}
	for _, pre := range []int{0, 1, 2} {
		for _, a := range callsA {
			for _, b := range callsB {
				for k := 0; k <= 18; k++ {
					for _, first := range []int{0, 1} {
						sc := &c11Scenario{Pre: map[string][]byte{}, Clients: [][]c11Call{{a}, {b, b}}}
						switch pre {
						case 1:
							sc.Pre["a:"+idHex(0)] = entryBytes(0, d, 1700000000000000111)
							sc.Pre["d:"+outHex(d)] = d
							sc.Restore = string(a.Data) == string(d) && b.ID == 0 && (b.Op != "put" || string(b.Data) == string(d))
						case 2: // stored for another id: the output exists already
							sc.Pre["a:"+idHex(2)] = entryBytes(2, d, 1700000000000000222)
							sc.Pre["d:"+outHex(d)] = d
						}
						for i := 0; i < k; i++ {
							sc.Schedule = append(sc.Schedule, first)
						}
						for i := 0; i < 60; i++ {
							sc.Schedule = append(sc.Schedule, 1-first)
						}
						for i := 0; i < 60; i++ {
							sc.Schedule = append(sc.Schedule, first)
						}
						out = append(out, sc)
					}
				}
			}
		}
	}
	return out
}

type c11Runner struct {
	f      *common.Flags
	res    *common.Result
	m      *mdl
	w      *worker
	dir    string
	c12    *c12Runner
	prefix string // key prefix of the findings ("c11" unless another property's run borrows the machinery)
}

func (rn *c11Runner) keyPrefix() string {
	if rn.prefix != "" {
		return rn.prefix
	}
	return "c11"
}

// runScenario replays sc on the real code and on the model; it returns a correspondence
// complaint and a direct-oracle complaint ("" = none).
func (rn *c11Runner) runScenario(sc *c11Scenario) (corr, impl, oname string, tags []string) {
	rn.c12.materialize(sc.Pre)
	var clients [][]map[string]any
	for _, c := range sc.Clients {
		var ops []map[string]any
		for _, o := range c {
			ops = append(ops, map[string]any{"op": o.Op, "id": idHex(o.ID), "data": hex.EncodeToString(o.Data), "r": o.R})
		}
		clients = append(clients, ops)
	}
	resp, err := rn.w.call(map[string]any{"cmd": "conc", "clients": clients, "schedule": sc.Schedule, "shared": sc.Shared, "handles": sc.Handles})
	if err != nil {
		return "worker: " + err.Error(), "", "", nil
	}
	if resp.Res != "ok" {
		return "", "", "", []string{"scheduler-error:" + resp.Err}
	}
	for _, o := range resp.Log {
		rn.c12.touched[o.Path] = true
	}
	if resp.FdLeak != "" {
		impl, oname = "after all clients of the schedule had returned the process held descriptors it did not hold before: "+resp.FdLeak, "fd-baseline"
	}
	// ---- direct oracles on the real results
	stored := map[int]map[string]bool{} // id -> showBytes of every content some Put (or the initial store) holds for it
	single := map[int]bool{}
	addStored := func(id int, d []byte) {
		if stored[id] == nil {
			stored[id] = map[string]bool{}
		}
		stored[id][showBytes(d)+" "+outHex(d)+" "+fmt.Sprint(len(d))] = true
	}
	preStored := map[int]bool{}
	var candidates [][]byte
	for k2, d := range sc.Pre {
		if k2[0] == 'd' {
			candidates = append(candidates, d)
		}
	}
	for _, c := range sc.Clients {
		for _, o := range c {
			if o.isPut() || o.Op == "putdiff" {
				candidates = append(candidates, o.Data)
			}
		}
	}
	for k, v := range sc.Pre {
		if k[0] != 'a' {
			continue
		}
		for i := 0; i < 4; i++ {
			if idHex(i) != k[2:] {
				continue
			}
			// an entry present before the clients start: what it names was stored for that id earlier
			for _, d := range candidates {
				if strings.Contains(string(v), outHex(d)) {
					addStored(i, d)
					if c, ok := sc.Pre["d:"+outHex(d)]; ok && string(c) == string(d) {
						preStored[i] = true
					}
				}
			}
		}
	}
	putIDs := map[int]bool{}
	for _, c := range sc.Clients {
		for _, o := range c {
			if o.isPut() {
				addStored(o.ID, o.Data)
				putIDs[o.ID] = true
			}
			if o.Op == "putdiff" {
				addStored(o.ID, o.Data) // it fails, but the output may be completed by it only with these bytes
			}
		}
	}
	for id, set := range stored {
		single[id] = len(set) == 1 && preStored[id]
	}
	for ci, c := range sc.Clients {
		for oi, o := range c {
			if ci >= len(resp.Results) || oi >= len(resp.Results[ci]) {
				continue
			}
			r := resp.Results[ci][oi]
			if strings.HasPrefix(r, "PANIC") && impl == "" {
				impl, oname = fmt.Sprintf("client %d call %d (%s id%d) panicked: %s", ci, oi, o.Op, o.ID, r), "no-panic"
			}
			if strings.HasSuffix(r, " BADFILE") {
				if impl == "" {
					impl, oname = fmt.Sprintf("client %d: GetFile(id%d) named a file that does not hold exactly the bytes with the reported OutputID and size: %s", ci, o.ID, r), "getfile-exact"
				}
				r = strings.TrimSuffix(r, " BADFILE")
				resp.Results[ci][oi] = r
			}
			if o.isPut() && r == "PUTFAILED" && impl == "" {
				impl, oname = fmt.Sprintf("client %d: Put(id%d) (%s) failed although nothing was injected", ci, o.ID, o.Op), "put-failed"
			}
			if o.isPut() && strings.HasPrefix(r, "PUTOK ") && r != fmt.Sprintf("PUTOK %s %d", outHex(o.Data), len(o.Data)) && impl == "" {
				impl, oname = fmt.Sprintf("client %d: Put(id%d) of %d bytes (%s, source offset %d) returned %s: not the OutputID and size of the data it was given", ci, o.ID, len(o.Data), o.Op, o.R, r), "put-result"
			}
			if o.Op == "getbytes" || o.Op == "getfile" {
				if r == "NF" {
					tags = append(tags, o.Op+":miss")
					if single[o.ID] && impl == "" {
						impl, oname = fmt.Sprintf("client %d: %s(id%d) missed although id%d was stored before and is only ever re-stored with identical content", ci, o.Op, o.ID, o.ID), "restore-invisible"
					}
				} else {
					tags = append(tags, o.Op+":hit")
				}
			}
			if o.Op == "getbytes" && strings.HasPrefix(r, "F ") {
				f := strings.Fields(r)
				if len(f) >= 5 && !stored[o.ID][f[1]+" "+f[2]+" "+f[3]] && impl == "" {
					// a torn read of an entry being rewritten could only change the reported size; bytes and hash must match a stored content
					okBytes := false
					for k := range stored[o.ID] {
						if strings.HasPrefix(k, f[1]+" "+f[2]+" ") {
							okBytes = true
						}
					}
					if !okBytes {
						impl, oname = fmt.Sprintf("client %d: GetBytes(id%d) returned %s with OutputID %s, which no Put stored for that id", ci, o.ID, trunc(f[1]), f[2]), "foreign-data"
					}
				}
			}
		}
	}
	// general form: a lookup that starts after a successful Put of that id has returned must hit,
	// when every Put of that id in the scenario (and the initial store) carries the same content
	// and its output was not damaged beforehand
	if len(resp.Spans) == len(sc.Clients) {
		for ci, c := range sc.Clients {
			for oi, o := range c {
				if (o.Op != "getbytes" && o.Op != "getfile" && o.Op != "get") || oi >= len(resp.Spans[ci]) || oi >= len(resp.Results[ci]) {
					continue
				}
				if len(stored[o.ID]) != 1 || strings.HasPrefix(resp.Results[ci][oi], "F") {
					continue
				}
				damagedPre := false
				for k2, dv := range sc.Pre {
					if k2[0] == 'd' && outHex(dv) != k2[2:] {
						damagedPre = true
					}
				}
				if damagedPre {
					continue
				}
				start := resp.Spans[ci][oi][0]
				for pc, c2 := range sc.Clients {
					for po, o2 := range c2 {
						if o2.isPut() && o2.ID == o.ID && po < len(resp.Spans[pc]) && po < len(resp.Results[pc]) &&
							strings.HasPrefix(resp.Results[pc][po], "PUTOK") && resp.Spans[pc][po][1] <= start && impl == "" {
							impl, oname = fmt.Sprintf("client %d: %s(id%d) missed (%s) although client %d's Put of that id (the only content ever stored for it) had already returned successfully", ci, o.Op, o.ID, resp.Results[ci][oi], pc), "spurious-miss"
						}
					}
				}
			}
		}
	}
	for _, mh := range sc.MustHit {
		var ci, oi int
		if _, err := fmt.Sscanf(mh, "%d:%d", &ci, &oi); err == nil && ci < len(resp.Results) && oi < len(resp.Results[ci]) && ci < len(sc.Clients) && oi < len(sc.Clients[ci]) {
			o := sc.Clients[ci][oi]
			if !strings.HasPrefix(resp.Results[ci][oi], "F ") && impl == "" {
				impl, oname = fmt.Sprintf("client %d: %s(id%d) missed (%s) although that id was stored with this content before the lookup started and is never stored with another content", ci, o.Op, o.ID, resp.Results[ci][oi]), "spurious-miss"
			}
		}
	}
	// quiescence: every id that was stored is readable
	allIDs := []string{idHex(0), idHex(1), idHex(2), idHex(3)}
	lk, err := rn.w.call(map[string]any{"cmd": "lookups", "ids": allIDs})
	if err != nil {
		return "worker: " + err.Error(), "", "", nil
	}
	for id := range putIDs {
		l := lk.Lookups[id]
		if (l.GetBytes == "NF" || l.GetFile == "NF") && impl == "" {
			impl, oname = fmt.Sprintf("after all clients finished id%d is not readable: GetBytes %s, GetFile %s", id, trunc(l.GetBytes), l.GetFile), "quiescent-readable"
		}
		if strings.HasPrefix(l.GetBytes, "F ") {
			f := strings.Fields(l.GetBytes)
			if len(f) >= 5 && !stored[id][f[1]+" "+f[2]+" "+f[3]] && impl == "" {
				impl, oname = fmt.Sprintf("after all clients finished GetBytes(id%d) returns %s %s %s, which no Put stored for that id", id, trunc(f[1]), f[2], f[3]), "foreign-data"
			}
		}
		for _, o := range l.Oracle {
			if impl == "" {
				impl, oname = o, strings.SplitN(o, ":", 2)[0]
			}
		}
	}
	// ---- the model on the same schedule (the clients actually chosen, turn by turn)
	// timestamps of the entries written, per client in order
	tms := map[int][]int64{}
	for _, o := range resp.Log {
		if o.Name == "write" && strings.HasSuffix(o.Path, "-a") && len(o.Data) > 22 {
			t, err := strconv.ParseInt(strings.TrimSpace(string(o.Data[len(o.Data)-21:len(o.Data)-1])), 10, 64)
			if err == nil {
				tms[o.Client] = append(tms[o.Client], t)
			}
		}
	}
	reqs := []string{"reset"}
	var preKeys []string
	for k := range sc.Pre {
		preKeys = append(preKeys, k)
	}
	sort.Strings(preKeys)
	for _, k := range preKeys {
		if k[0] == 'd' {
			if hr := rn.m.hashReq(sc.Pre[k]); hr != "" {
				reqs = append(reqs, hr)
			}
		}
		reqs = append(reqs, fmt.Sprintf("dmg write %s %s %s", k[:1], k[2:], rn.m.ref(sc.Pre[k])))
	}
	var sb strings.Builder
	sb.WriteString("conc")
	for ci, c := range sc.Clients {
		sb.WriteString(" C")
		np := 0
		for _, o := range c {
			if o.Op == "putdiff" {
				if hr := rn.m.hashReq(o.Data); hr != "" {
					reqs = append(reqs, hr)
				}
				d2 := append([]byte{}, o.Data...)
				for i := o.R; i < len(d2); i++ {
					d2[i] ^= 0x55
				}
				ch := chunk32k(d2, len(d2)-1)
				fmt.Fprintf(&sb, " putr %s 1 1 1 %s 1 %d", idHex(o.ID), rn.m.ref(o.Data), len(ch))
				for _, x := range ch {
					sb.WriteString(" " + rn.m.ref(x))
				}
			} else if o.isPut() {
				// the model's Put rewinds its source first: where the source was does not matter
				if hr := rn.m.hashReq(o.Data); hr != "" {
					reqs = append(reqs, hr)
				}
				tm := int64(1)
				if np < len(tms[ci]) {
					tm = tms[ci][np]
				}
				np++
				ch := chunk32k(o.Data, len(o.Data)-1)
				fmt.Fprintf(&sb, " put %s %d %d", idHex(o.ID), tm, len(ch))
				for _, x := range ch {
					sb.WriteString(" " + rn.m.ref(x))
				}
			} else {
				fmt.Fprintf(&sb, " %s %s", o.Op, idHex(o.ID))
			}
		}
	}
	sb.WriteString(" S")
	for _, c := range resp.Chosen {
		if c < 0 {
			continue // a turn the client spent between two calls: no operation, nothing happens in the model
		}
		fmt.Fprintf(&sb, " %d", c)
	}
	nSetup := len(reqs)
	reqs = append(reqs, sb.String())
	keysSet := map[string]bool{}
	for k := range sc.Pre {
		keysSet[k] = true
	}
	for i := 0; i < 4; i++ {
		keysSet["a:"+idHex(i)] = true
	}
	for _, c := range sc.Clients {
		for _, o := range c {
			if o.isPut() {
				keysSet["d:"+outHex(o.Data)] = true
			}
		}
	}
	keysSet["d:"+outHex(nil)] = true // the empty output: what a Put that does not rewind a source at its end would store
	var keys []string
	for k := range keysSet {
		keys = append(keys, k)
	}
	sort.Strings(keys)
	for _, key := range keys {
		reqs = append(reqs, "file "+key[:1]+" "+key[2:])
	}
	ans := rn.c12.modelBatch(reqs)
	if ans == nil || len(ans) != len(reqs) {
		return "model did not answer", impl, oname, tags
	}
	parts := strings.Split(ans[nSetup], " ## ")
	if len(parts) != len(sc.Clients)+2 {
		return "model answer malformed: " + trunc(ans[nSetup]), impl, oname, tags
	}
	if parts[0] != "DONE" {
		return "the model's clients have not finished after the schedule the real clients finished with", impl, oname, tags
	}
	// operation trace, turn by turn
	var implTrace []string
	for _, o := range resp.Log {
		k := "?"
		if strings.HasSuffix(o.Path, "-a") {
			k = "a"
		} else if strings.HasSuffix(o.Path, "-d") {
			k = "d"
		}
		implTrace = append(implTrace, fmt.Sprintf("%d:%s:%s", o.Client, o.Name, k))
	}
	if got := strings.TrimSpace(parts[len(parts)-1]); got != strings.Join(implTrace, " ") {
		return fmt.Sprintf("operation trace: implementation [%s], model [%s]", trunc(strings.Join(implTrace, " ")), trunc(got)), impl, oname, tags
	}
	for ci := range sc.Clients {
		var mres []string
		if strings.TrimSpace(parts[1+ci]) != "" {
			mres = strings.Split(parts[1+ci], " ;; ")
		}
		for oi, o := range sc.Clients[ci] {
			var mr, ir string
			if oi < len(mres) {
				mr = strings.TrimSpace(mres[oi])
			}
			if oi < len(resp.Results[ci]) {
				ir = resp.Results[ci][oi]
			}
			switch o.Op {
			case "get":
				mr = canonModel(mr, false)
			case "getbytes", "getfile":
				mr = canonModel(mr, true)
			}
			if mr != ir {
				return fmt.Sprintf("client %d call %d (%s id%d): implementation %s, model %s", ci, oi, o.Op, o.ID, trunc(ir), trunc(mr)), impl, oname, tags
			}
		}
	}
	p := nSetup + 1
	for _, key := range keys {
		im := "none"
		if b, err := os.ReadFile(realPath(rn.dir, key)); err == nil {
			im = showBytes(b)
		}
		if im != ans[p] {
			return fmt.Sprintf("content of %s-%s after the run: implementation %s, model %s", key[2:10], key[:1], trunc(im), trunc(ans[p])), impl, oname, tags
		}
		p++
	}
	return "", impl, oname, tags
}

func (rn *c11Runner) one(sc *c11Scenario, src string) {
	corr, impl, oname, tags := rn.runScenario(sc)
	res := rn.res
	res.Count("src:" + src)
	for _, t := range tags {
		res.Count(t)
	}
	nput := 0
	for _, c := range sc.Clients {
		for _, o := range c {
			if o.isPut() {
				nput++
			}
			if o.Op == "putat" || o.Op == "putagain" {
				res.Count("source:" + o.Op)
			}
		}
	}
	if sc.Shared {
		res.Count("handles:one-shared")
	} else if len(sc.Handles) > 0 {
		res.Count("handles:some-shared")
	} else {
		res.Count("handles:one-each")
	}
	res.Count(fmt.Sprintf("clients:%d", len(sc.Clients)))
	res.Case(sc.String(), nput >= 2)
	if res.Evaluations%60 == 1 {
		res.Sample(map[string]any{"source": src, "scenario": trunc(sc.String())})
	}
	in := map[string]string{"scenario": sc.String()}
	if impl != "" {
		violate(res, common.Violation{Kind: "impl-violation", Oracle: oname, Input: in, Detail: impl, Key: rn.keyPrefix() + ":" + oname + ":" + sc.String()})
	}
	if corr != "" {
		violate(res, common.Violation{Kind: "correspondence", Oracle: "schedule-replay", Input: in, Detail: corr, Key: rn.keyPrefix() + ":corr:" + sc.String()})
	}
}

// ---- (ii) uncontrolled stress

func (rn *c11Runner) stress(real string, procs, routines, millis int) {
	res := rn.res
	dir := filepath.Join(rn.f.Work, "c11stress")
	os.MkdirAll(dir, 0o777)
	// pre-store the ids that are only ever re-stored with identical content
	pw, err := startWorker(real)
	if err != nil {
		res.Notes = append(res.Notes, "stress: cannot start worker: "+err.Error())
		return
	}
	pre, err := pw.call(map[string]any{"cmd": "stress", "dir": dir, "seed": 0, "millis": 300, "routines": 1, "proc": 99})
	pw.close()
	if err != nil || pre.Res != "ok" {
		res.Notes = append(res.Notes, "stress: warm-up failed")
		return
	}
	// the warm-up may not have stored ids 4 and 5: make sure through a dedicated pass
	for attempt := 0; attempt < 20; attempt++ {
		w, err := startWorker(real)
		if err != nil {
			return
		}
		r, _ := w.call(map[string]any{"cmd": "stress", "dir": dir, "seed": int64(1000 + attempt), "millis": 200, "routines": 2, "proc": 98})
		w.close()
		if r != nil && r.Counts["put"] > 40 {
			break
		}
	}
	// half of the processes are built with the race detector and let their goroutines share ONE
	// *cache.Cache value (a program with several goroutines on one handle)
	raceBin := filepath.Join(rn.f.Work, "cworker_race")
	if err := goBuildRace(raceBin, "./cmd/cache/worker"); err != nil {
		res.Notes = append(res.Notes, "stress: no race-detector build ("+err.Error()+"); shared-handle processes run without it")
		raceBin = real
	}
	type done struct {
		r      *wResp
		err    error
		stderr string
	}
	ch := make(chan done, procs)
	for p := 0; p < procs; p++ {
		go func(p int) {
			bin, shared := real, false
			if p%2 == 1 {
				bin, shared = raceBin, true
			}
			w, err := startWorkerCapture(bin, "GORACE=halt_on_error=0")
			if err != nil {
				ch <- done{nil, err, ""}
				return
			}
			r, err := w.call(map[string]any{"cmd": "stress", "dir": dir, "seed": int64(rn.f.Seed), "millis": millis, "routines": routines, "proc": p, "shared": shared})
			w.close()
			ch <- done{r, err, w.stderr.String()}
		}(p)
	}
	total := map[string]int{}
	for p := 0; p < procs; p++ {
		select {
		case d := <-ch:
			if i := strings.Index(d.stderr, "WARNING: DATA RACE"); i >= 0 {
				rep := d.stderr[i:]
				if strings.Contains(rep, "go-internal/cache.") {
					violate(res, common.Violation{Kind: "impl-violation", Oracle: "data-race",
						Input:  map[string]string{"stress": fmt.Sprintf("goroutines sharing one *cache.Cache, race detector, seed %d", rn.f.Seed)},
						Detail: "the race detector reports a data race inside the cache package when goroutines share one Cache value: " + trunc(rep), Key: "c11:stress:data-race"})
				} else {
					res.Notes = append(res.Notes, "stress: race report outside the cache package: "+trunc(rep))
				}
			}
			if d.err != nil || d.r == nil {
				res.Notes = append(res.Notes, "stress: a worker process failed to report")
				continue
			}
			for k, v := range d.r.Counts {
				total[k] += v
			}
			for _, v := range d.r.Viol {
				o := strings.SplitN(v, ":", 2)[0]
				if o == "restore-visible" {
					// a miss for an id only ever re-stored identically: re-check that the id had been stored before the run
					o = "restore-invisible"
				}
				violate(res, common.Violation{Kind: "impl-violation", Oracle: o,
					Input:  map[string]string{"stress": fmt.Sprintf("%d processes x %d goroutines for %d ms on one directory, seed %d", procs, routines, millis, rn.f.Seed)},
					Detail: v, Key: "c11:stress:" + o})
			}
		case <-time.After(time.Duration(millis)*time.Millisecond + 60*time.Second):
			res.Notes = append(res.Notes, "stress: a worker process did not finish in time")
		}
	}
	for k, v := range total {
		res.Distribution["stress:"+k] += v
	}
	res.Evaluations += total["put"] + total["getbytes-hit"] + total["getbytes-miss"] + total["getfile-hit"] + total["getfile-miss"]
	// quiescence: all six ids readable
	w, err := startWorker(real)
	if err != nil {
		return
	}
	defer w.close()
	w.call(map[string]any{"cmd": "open", "dir": dir})
	var idsHex []string
	for i := 0; i < 6; i++ {
		idsHex = append(idsHex, stressIDHex(i))
	}
	lk, err := w.call(map[string]any{"cmd": "lookups", "ids": idsHex})
	if err != nil {
		return
	}
	for i, l := range lk.Lookups {
		if (l.GetBytes == "NF" || l.GetFile == "NF") && (i >= 4 || total["put"] > 200) {
			violate(res, common.Violation{Kind: "impl-violation", Oracle: "quiescent-readable",
				Input:  map[string]string{"stress": fmt.Sprintf("%d processes x %d goroutines for %d ms, seed %d", procs, routines, millis, rn.f.Seed)},
				Detail: fmt.Sprintf("after all writers finished stress id %d is not readable (GetBytes %s, GetFile %s)", i, trunc(l.GetBytes), l.GetFile),
				Key:    "c11:stress:quiescent"})
		}
		for _, o := range l.Oracle {
			violate(res, common.Violation{Kind: "impl-violation", Oracle: strings.SplitN(o, ":", 2)[0], Input: map[string]string{"stress": "final lookups"}, Detail: o, Key: "c11:stress:final"})
		}
	}
}

func stressIDHex(i int) string {
	s := sha256sum([]byte(fmt.Sprintf("stress-id-%d", i)))
	return hex.EncodeToString(s[:])
}

func runC11(f *common.Flags, res *common.Result, m *mdl) {
	shim, real, notes := buildWorkers(f.Work)
	res.Notes = append(res.Notes, notes...)
	nSched, procs, routines, millis := 300, 4, 4, 6000
	if f.Tier == "thorough" {
		nSched, millis = 6000, 40000
	}
	rn := &c11Runner{f: f, res: res, m: m}
	if shim != "" {
		w, err := startWorker(shim)
		if err == nil {
			defer w.close()
			dir := filepath.Join(f.Work, "c11dir")
			os.MkdirAll(dir, 0o777)
			if r, err := w.call(map[string]any{"cmd": "open", "dir": dir}); err == nil && r.Res == "ok" {
				rn.w, rn.dir = w, dir
				rn.c12 = &c12Runner{f: f, res: res, m: m, w: w, dir: dir, touched: map[string]bool{}}
				for _, c := range c11Contents {
					m.hash(c)
				}
				inj, nh := checkHashHypotheses(append([][]byte{{}}, c11Contents...))
				res.Notes = append(res.Notes, fmt.Sprintf("hypotheses checked on the SHA-256 values of the contents of the schedule replay (with the empty content): H_inj_on=%v no_hybrid=%v", inj, nh))
				if f.Replay != "" {
					if rp, err := common.LoadReplay(f.Replay); err == nil {
						if rp.Violation.Input["repeat"] != "" {
							replayC12History(f, res, shim, real, rp.Violation.Input)
						} else if sc := parseC11(rp.Violation.Input["scenario"]); sc != nil {
							rn.one(sc, "replay")
						}
					}
					return
				}
				if f.Corpus != "" {
					ents, _ := filepath.Glob(filepath.Join(f.Corpus, "*"))
					sort.Strings(ents)
					for _, e := range ents {
						if b, err := os.ReadFile(e); err == nil {
							if sc := parseC11(strings.TrimSpace(string(b))); sc != nil {
								rn.one(sc, "corpus")
							}
						}
					}
				}
				for _, sc := range systematicC11() {
					rn.one(sc, "systematic")
				}
				r := common.NewRNG(f.Seed)
				for i := 0; i < nSched; i++ {
					rn.one(genC11(r), "schedule")
				}
			}
		} else {
			res.Notes = append(res.Notes, "cannot start the shimmed worker: "+err.Error())
		}
	} else {
		res.Notes = append(res.Notes, "schedule replay skipped (no os-shimmed build); only the uncontrolled stress runs")
	}
	repeats := ""
	if f.Replay == "" {
		// descriptors are shared by all users of the process: re-stores must not use them up
		if shim != "" {
			repeats = runRepeats(f, res, shim, true)
		} else if real != "" {
			repeats = runRepeats(f, res, real, false)
		}
	}
	if real != "" && f.Replay == "" {
		rn.stress(real, procs, routines, millis)
	}
	res.Rule = fmt.Sprintf("(i) a systematic family (two clients on one id: every pair of a Put with a lookup or another Put, the id stored beforehand / its output stored for another id / nothing stored; one client runs to completion at each of the first 19 operation boundaries of the other, both ways), then %d scenarios of 2-4 clients x 1-3 calls (Put/Get/GetBytes/GetFile over 1-3 ids, per id one content (re-stores) or several, some ids stored beforehand) with a schedule drawn from the seed, replayed on the real code under the os shim's cooperative scheduler (one file operation per turn) and on the interleaved semantics of the model: the sequence of (client, operation), every call's result and every file's final content are compared; direct oracles: returned bytes were stored for that id by some Put, no miss for ids only re-stored identically, every stored id readable at the end, no failing Put, no panic; (ii) %d processes x %d goroutines for %d ms on one directory with self-describing payloads and the same oracles; a scenario is non-trivial when it contains at least two Puts; every replayed schedule must leave the process with the descriptors it had; (iii) %s; dimensions added (CONVENTIONS addendum 4, items 1 and 2): the clients of a schedule use one *cache.Cache each, ONE shared by all (goroutines of a program), or two shared by some (drawn per scenario; a systematic family of two writers of different, not yet stored outputs on one handle and on two, one running to completion at every operation boundary of the other); Puts whose source is NOT at its start -- at an arbitrary offset (putat) or the very reader the client's previous Put was given, left at its end (putagain) -- in the systematic families (new id and re-store of identical content, a reader of that id at every boundary), in the drawn scenarios and in the stress; every slice GetBytes returns and the data given to PutBytes are overwritten in place by the caller once examined, in the replayed schedules and in the stress: later lookups by anyone must not change; direct oracle added: a successful Put returns the SHA-256 and the length of the data it was given", nSched, procs, routines, millis, repeats)
}

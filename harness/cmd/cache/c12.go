package main

// C12: fault and crash injection at every file operation of a real Put (the cache package
// regenerated with package os redirected to the shim verif/harness/vos), compared with the
// faulty semantics of the model and checked with direct oracles.

import (
	"crypto/sha256"
	"encoding/hex"
	"fmt"
	"os"
	"path/filepath"
	"runtime"
	"sort"
	"strconv"
	"strings"

	"verif/harness/common"
)

type c12Scenario struct {
	Name      string
	Pre       map[string][]byte // "a:<idhex>" / "d:<outhex>" -> file content
	ID        int
	Data      []byte
	Reader    string
	R         int
	Undamaged bool
	Combine   bool     // file faults are injected in addition to the reader's misbehaviour
	Before    []c12Put // healthy Puts performed (in the same process) before the Put under test
	After     []c12Put // healthy Puts performed after it, before the lookups
	API       string   // "" = Put, "putbytes" = PutBytes (the source cannot misbehave)
}

type c12Put struct {
	ID   int
	Data []byte
}

type c12Plan struct {
	K    int
	Kind string
	J    int
}

func (p *c12Plan) String() string {
	if p == nil {
		return "none"
	}
	return fmt.Sprintf("%d:%s:%d", p.K, p.Kind, p.J)
}

func apiName(api string) string {
	switch api {
	case "putbytes":
		return "PutBytes"
	case "putnoverify":
		return "PutNoVerify"
	}
	return "Put"
}

func idHex(i int) string { return hex.EncodeToString(ids[i%len(ids)][:]) }

func outHex(d []byte) string {
	o := sha256.Sum256(d)
	return hex.EncodeToString(o[:])
}

func realPath(dir, key string) string {
	k, name := key[:1], key[2:]
	return filepath.Join(dir, name[:2], name+"-"+k)
}

func entryBytes(idIdx int, d []byte, tm int64) []byte {
	return validEntry(ids[idIdx], sha256.Sum256(d), int64(len(d)), tm)
}

func c12pat(n int, seed byte) []byte {
	b := make([]byte, n)
	for i := range b {
		b[i] = byte(i*13) ^ seed ^ byte(i>>7)
	}
	return b
}

// the scenarios: new entry, overwrite, same content again, output shared with another id,
// pre-damaged outputs; sizes 0, 1, 2, 5000 and 100000 (70000 in the quick tier's model runs).
func c12Scenarios(tier string) []c12Scenario {
	big := 100000
	sizes := [][]byte{{}, []byte("a"), []byte("ab"), c12pat(5000, 1), c12pat(big, 2)}
	other := [][]byte{[]byte("q"), []byte("zz"), []byte("xy"), c12pat(5000, 9), c12pat(300, 4)}
	var out []c12Scenario
	for si, d := range sizes {
		tag := fmt.Sprintf("size%d", len(d))
		out = append(out, c12Scenario{Name: "new/" + tag, Pre: map[string][]byte{}, ID: 0, Data: d, Undamaged: true})
		o := other[si]
		out = append(out, c12Scenario{Name: "overwrite/" + tag, ID: 0, Data: d, Undamaged: true, Pre: map[string][]byte{
			"a:" + idHex(0): entryBytes(0, o, 1700000000000000001), "d:" + outHex(o): o}})
		out = append(out, c12Scenario{Name: "same/" + tag, ID: 0, Data: d, Undamaged: true, Pre: map[string][]byte{
			"a:" + idHex(0): entryBytes(0, d, 1700000000000000002), "d:" + outHex(d): d}})
		out = append(out, c12Scenario{Name: "shared/" + tag, ID: 0, Data: d, Undamaged: true, Pre: map[string][]byte{
			"a:" + idHex(1): entryBytes(1, d, 1700000000000000003), "d:" + outHex(d): d,
			"a:" + idHex(2): entryBytes(2, o, 1700000000000000004), "d:" + outHex(o): o}})
		if len(d) >= 2 && len(d) <= 5000 {
			// an interrupted earlier Put left a prefix (consistent with the invariant)
			out = append(out, c12Scenario{Name: "partial-output/" + tag, ID: 0, Data: d, Undamaged: true, Pre: map[string][]byte{
				"d:" + outHex(d): d[:len(d)/2]}})
			// damaged outputs: only the checksum-verified lookups are asserted
			flip := append([]byte{}, d...)
			flip[len(d)/2] ^= 4
			for _, dm := range []struct {
				n string
				c []byte
			}{{"truncated", d[:len(d)-1]}, {"flipped", flip}, {"longer", append(append([]byte{}, d...), 'X', 'Y')}, {"emptied", []byte{}}} {
				out = append(out, c12Scenario{Name: "damaged-" + dm.n + "/" + tag, ID: 0, Data: d, Pre: map[string][]byte{
					"a:" + idHex(1): entryBytes(1, d, 1700000000000000005), "d:" + outHex(d): dm.c}})
				out = append(out, c12Scenario{Name: "damaged-" + dm.n + "-own/" + tag, ID: 1, Data: d, Pre: map[string][]byte{
					"a:" + idHex(1): entryBytes(1, d, 1700000000000000006), "d:" + outHex(d): dm.c}})
			}
		}
	}
	// the output file was removed (as Trim may do) while an entry still names it; the source
	// delivers other bytes of the same length on the second pass AND the run is stopped / faulted
	// at every operation: the file must never reach its full size with unverified bytes
	for _, d := range sizes {
		if len(d) == 0 {
			continue
		}
		tag := fmt.Sprintf("size%d", len(d))
		for _, id := range []int{0, 1} {
			pre := map[string][]byte{"a:" + idHex(1): entryBytes(1, d, 1700000000000000009)}
			out = append(out, c12Scenario{Name: fmt.Sprintf("trimmed-output/id%d/%s", id, tag), Pre: pre, ID: id, Data: d, Undamaged: true})
			rs := []int{0, len(d) / 2, len(d) - 1}
			if len(d) > 50000 && tier != "thorough" {
				// the 100000-byte output (several chunks, above 64 KiB): one source-change offset in the quick tier
				if id == 1 {
					continue
				}
				rs = []int{70000}
			}
			for _, r := range rs {
				out = append(out, c12Scenario{Name: fmt.Sprintf("trimmed-output-diff2@%d/id%d/%s", r, id, tag), Pre: pre,
					ID: id, Data: d, Reader: "diff2", R: r, Undamaged: true, Combine: true})
			}
		}
	}
	// overwriting an action whose previous output was EMPTY (short index writes then mix the new
	// output id with the old size 0)
	for _, d := range sizes {
		if len(d) == 0 || len(d) > 5000 {
			continue
		}
		e := []byte{}
		out = append(out, c12Scenario{Name: fmt.Sprintf("overwrite-empty/size%d", len(d)), ID: 0, Data: d, Undamaged: true, Pre: map[string][]byte{
			"a:" + idHex(0): entryBytes(0, e, 1700000000000000010), "d:" + outHex(e): e}})
	}
	// three Puts in one process: a pre-damaged output of the right size is repaired by a healthy
	// Put; then a Put of the same output for another id whose source changes on the second pass
	for _, d := range sizes {
		if len(d) < 2 || len(d) > 5000 {
			continue
		}
		flip := append([]byte{}, d...)
		flip[len(d)/2] ^= 4
		for _, r := range []int{0, len(d) - 1} {
			out = append(out, c12Scenario{Name: fmt.Sprintf("repaired-then-diff2@%d/size%d", r, len(d)), ID: 0, Data: d, Reader: "diff2", R: r, Undamaged: true,
				Pre:    map[string][]byte{"a:" + idHex(1): entryBytes(1, d, 1700000000000000011), "d:" + outHex(d): flip},
				Before: []c12Put{{1, d}}})
		}
	}
	// two Puts: the first, from a source that changes on the second pass, is stopped at every
	// operation; the second is healthy and must leave exactly the data
	for _, d := range sizes {
		if len(d) < 2 || (len(d) > 50000 && tier != "thorough") {
			continue
		}
		for _, r := range []int{0, len(d) / 2} {
			for _, aid := range []int{0, 1} {
				out = append(out, c12Scenario{Name: fmt.Sprintf("diff2@%d-stopped-then-healthy-id%d/size%d", r, aid, len(d)), ID: 0, Data: d, Reader: "diff2", R: r,
					Undamaged: true, Combine: true, Pre: map[string][]byte{}, After: []c12Put{{aid, d}}})
			}
		}
	}
	// source-reader faults (no file fault)
	for si, d := range sizes {
		if len(d) == 0 {
			continue
		}
		tag := fmt.Sprintf("size%d", len(d))
		offs := []int{0, len(d) / 2, len(d) - 1}
		if len(d) > 32768 {
			offs = append(offs, 32768, 32767, 65536)
		}
		pres := []struct {
			n string
			p map[string][]byte
		}{
			{"new", map[string][]byte{}},
			{"overwrite", map[string][]byte{"a:" + idHex(0): entryBytes(0, other[si], 1700000000000000007), "d:" + outHex(other[si]): other[si]}},
			{"same", map[string][]byte{"a:" + idHex(0): entryBytes(0, d, 1700000000000000008), "d:" + outHex(d): d}},
			{"partial", map[string][]byte{"d:" + outHex(d): d[:len(d)/2]}},
			// the output of the faulty Put is complete already and named by another id
			{"shared", map[string][]byte{"a:" + idHex(1): entryBytes(1, d, 1700000000000000012), "d:" + outHex(d): d}},
		}
		for _, pr := range pres {
			for _, spec := range []string{"err1", "err2", "eof2", "diff2"} {
				for _, r := range offs {
					if r >= len(d) && spec != "diff2" {
						continue
					}
					out = append(out, c12Scenario{Name: fmt.Sprintf("reader-%s@%d/%s/%s", spec, r, pr.n, tag), Pre: pr.p,
						ID: 0, Data: d, Reader: spec, R: r, Undamaged: true})
				}
			}
			for _, spec := range []string{"seek1", "seek2"} {
				out = append(out, c12Scenario{Name: fmt.Sprintf("reader-%s/%s/%s", spec, pr.n, tag), Pre: pr.p,
					ID: 0, Data: d, Reader: spec, Undamaged: true})
			}
		}
	}
	// outputs past the size thresholds a cache might treat differently (1 MiB; in the thorough tier also
	// 64 KiB and 4 MiB): as a new entry, stored again, and with the output already stored for another id
	// -- under file faults at the first, the last and every eighth operation, and under every source
	// fault of the second pass.  Direct oracles only (the model is not run on contents of this size).
	for _, d := range hugeContents(tier) {
		tag := fmt.Sprintf("size%d", len(d))
		o := c12pat(300, 4)
		out = append(out, c12Scenario{Name: "new/" + tag, Pre: map[string][]byte{}, ID: 0, Data: d, Undamaged: true})
		out = append(out, c12Scenario{Name: "same/" + tag, ID: 0, Data: d, Undamaged: true, Pre: map[string][]byte{
			"a:" + idHex(0): entryBytes(0, d, 1700000000000000013), "d:" + outHex(d): d}})
		out = append(out, c12Scenario{Name: "shared/" + tag, ID: 0, Data: d, Undamaged: true, Pre: map[string][]byte{
			"a:" + idHex(1): entryBytes(1, d, 1700000000000000014), "d:" + outHex(d): d,
			"a:" + idHex(2): entryBytes(2, o, 1700000000000000015), "d:" + outHex(o): o}})
		pres := []struct {
			n string
			p map[string][]byte
		}{
			{"same", map[string][]byte{"a:" + idHex(0): entryBytes(0, d, 1700000000000000016), "d:" + outHex(d): d}},
			{"shared", map[string][]byte{"a:" + idHex(1): entryBytes(1, d, 1700000000000000017), "d:" + outHex(d): d}},
		}
		for _, pr := range pres {
			for _, spec := range []string{"err2", "eof2", "diff2"} {
				for _, r := range []int{0, 32768, len(d) / 2, len(d) - 1} {
					out = append(out, c12Scenario{Name: fmt.Sprintf("reader-%s@%d/%s/%s", spec, r, pr.n, tag), Pre: pr.p,
						ID: 0, Data: d, Reader: spec, R: r, Undamaged: true})
				}
			}
			out = append(out, c12Scenario{Name: fmt.Sprintf("reader-seek2/%s/%s", pr.n, tag), Pre: pr.p, ID: 0, Data: d, Reader: "seek2", Undamaged: true})
		}
	}
	return out
}

// hugeLimit: above it a content is exercised with the direct oracles only
const hugeLimit = 200000

// hugeContents: sizes just past powers of two that an implementation might single out
func hugeContents(tier string) [][]byte {
	out := [][]byte{c12pat((1<<20)+3, 6)}
	if tier == "thorough" {
		out = append(out, c12pat((1<<16)+1, 7), c12pat((4<<20)+1, 8))
	}
	return out
}

type c12Runner struct {
	f       *common.Flags
	res     sink
	m       *mdl
	w       *worker
	dir     string
	touched map[string]bool
	prefix  string // key prefix of the findings ("c12" unless another property's run borrows the machinery)
}

func (rn *c12Runner) materialize(pre map[string][]byte) {
	for p := range rn.touched {
		os.Remove(p)
	}
	for k, c := range pre {
		p := realPath(rn.dir, k)
		rn.touched[p] = true
		os.WriteFile(p, c, 0o666)
	}
}

func (rn *c12Runner) listing(keys []string) string {
	var items []string
	for _, k := range keys {
		if b, err := os.ReadFile(realPath(rn.dir, k)); err == nil {
			items = append(items, k+"="+showBytes(b))
		}
	}
	sort.Strings(items)
	return strings.Join(append([]string{"L"}, items...), " ")
}

func shimOpString(o wOp) string {
	k := "?"
	if strings.HasSuffix(o.Path, "-a") {
		k = "a"
	} else if strings.HasSuffix(o.Path, "-d") {
		k = "d"
	}
	switch o.Name {
	case "open":
		return "open:" + k + ":" + o.Flags
	case "read":
		return fmt.Sprintf("read:%s:%d:%d", k, o.Off, o.N)
	case "write":
		return fmt.Sprintf("write:%s:%d:%d", k, o.Off, o.N)
	case "truncate":
		return fmt.Sprintf("truncate:%s:%d", k, o.N)
	}
	return o.Name + ":" + k
}

// modelBatch asks the requests in one batch; when the model needs a hash value the batch
// (which starts with "reset") is asked again.
func (rn *c12Runner) modelBatch(reqs []string) []string {
	var ans []string
	for try := 0; try < 60; try++ {
		var err error
		ans, err = rn.m.m.Ask(reqs)
		if err != nil {
			return nil
		}
		need := false
		for _, a := range ans {
			if strings.HasPrefix(a, "NEED ") {
				cn := common.UnHex(strings.TrimPrefix(a, "NEED "))
				delete(rn.m.sent, string(cn))
				rn.m.hash(cn)
				need = true
				break
			}
		}
		if !need {
			return ans
		}
	}
	return ans
}

// pass2Data is what the source delivers on the second pass.
func pass2Data(sc *c12Scenario) []byte {
	if sc.Reader == "diff2" {
		d := append([]byte{}, sc.Data...)
		for i := sc.R; i < len(d); i++ {
			d[i] ^= 0x55
		}
		return d
	}
	return sc.Data
}

func entryTm(log []wOp) int64 {
	for _, o := range log {
		if o.Name == "write" && strings.HasSuffix(o.Path, "-a") && len(o.Data) > 22 {
			t, err := strconv.ParseInt(strings.TrimSpace(string(o.Data[len(o.Data)-21:len(o.Data)-1])), 10, 64)
			if err == nil {
				return t
			}
		}
	}
	return 1
}

type c12Outcome struct {
	nops  int
	log   []wOp
	res   string
	corr  string // description of a model/implementation disagreement
	impl  string // description of a direct-oracle failure
	oname string
}

// runCase executes scenario sc under plan (nil: no file fault) on the real code and on the model.
func (rn *c12Runner) runCase(sc *c12Scenario, plan *c12Plan, pre []wLookup, compareModel bool) (out c12Outcome) {
	rn.materialize(sc.Pre)
	healthy := func(ps []c12Put) (tms []int64, ok bool) {
		for _, bp := range ps {
			r, err := rn.w.call(map[string]any{"cmd": "put", "id": idHex(bp.ID), "data": hex.EncodeToString(bp.Data)})
			if err != nil {
				return nil, false
			}
			for _, o := range r.Log {
				rn.touched[o.Path] = true
			}
			if r.Res != "ok" && out.impl == "" {
				out.impl, out.oname = fmt.Sprintf("a healthy Put(id%d) of the history failed: %s", bp.ID, r.Err), "healthy-put-failed"
			}
			if r.FdLeak != "" && out.impl == "" {
				out.impl, out.oname = fmt.Sprintf("a healthy Put(id%d) of the history returned with descriptors still open: %s", bp.ID, r.FdLeak), "fd-baseline"
			}
			tms = append(tms, entryTm(r.Log))
		}
		return tms, true
	}
	beforeTm, okb := healthy(sc.Before)
	if !okb {
		out.corr = "worker failed"
		return
	}
	if len(sc.Before) > 0 {
		// the lookups the frame oracle compares with are those after the healthy Puts of this very run
		if lk0, err := rn.w.call(map[string]any{"cmd": "lookups", "ids": []string{idHex(0), idHex(1), idHex(2), idHex(3)}}); err == nil {
			pre = lk0.Lookups
		}
	}
	req := map[string]any{"cmd": "put", "id": idHex(sc.ID), "data": hex.EncodeToString(sc.Data), "reader": sc.Reader, "r": sc.R, "api": sc.API}
	if plan != nil {
		req["plan"] = map[string]any{"k": plan.K, "kind": plan.Kind, "j": plan.J}
	}
	resp, err := rn.w.call(req)
	if err != nil {
		out.corr = "worker: " + err.Error()
		return
	}
	out.log, out.nops, out.res = resp.Log, len(resp.Log), resp.Res
	for _, o := range resp.Log {
		rn.touched[o.Path] = true
	}
	afterTm, oka := healthy(sc.After)
	if !oka {
		out.corr = "worker failed"
		return
	}
	if resp.Res == "panic" {
		out.impl, out.oname = "Put panicked: "+resp.Err, "no-panic"
	}
	if resp.FdLeak != "" && resp.Res != "crash" && out.impl == "" {
		// the call returned (successfully or with an error): it must have closed what it opened
		out.impl, out.oname = fmt.Sprintf("%s returned (%s) with descriptors still open: %s", apiName(sc.API), resp.Res, resp.FdLeak), "fd-baseline"
	}
	allIDs := []string{idHex(0), idHex(1), idHex(2), idHex(3)}
	lk, err := rn.w.call(map[string]any{"cmd": "lookups", "ids": allIDs})
	if err != nil {
		out.corr = "worker: " + err.Error()
		return
	}
	// ---- direct oracles
	for i, l := range lk.Lookups {
		for _, o := range l.Oracle {
			if out.impl == "" {
				out.impl, out.oname = fmt.Sprintf("lookup of id%d after the fault: %s", i, o), strings.SplitN(o, ":", 2)[0]
			}
		}
		if sc.Undamaged && strings.HasPrefix(l.GetFile, "F ") {
			f := strings.Fields(l.GetFile)
			if len(f) >= 3 && l.FileSha != f[2] && out.impl == "" {
				out.impl, out.oname = fmt.Sprintf("GetFile(id%d) from an undamaged start names a file whose SHA-256 %s is not the reported OutputID %s", i, l.FileSha, f[2]), "getfile-exact"
			}
		}
		if pre != nil && i != sc.ID && i < len(pre) && sc.Undamaged {
			// an unrelated entry that was readable must stay readable, unchanged
			if (strings.HasPrefix(pre[i].GetBytes, "F") && pre[i].GetBytes != l.GetBytes) ||
				(strings.HasPrefix(pre[i].GetFile, "F") && pre[i].GetFile != l.GetFile) ||
				(strings.HasPrefix(pre[i].Get, "F") && pre[i].Get != l.Get) {
				if out.impl == "" {
					out.impl, out.oname = fmt.Sprintf("the lookups of the unrelated id%d changed: before %s / %s, after %s / %s", i, trunc(pre[i].GetBytes), pre[i].GetFile, trunc(l.GetBytes), l.GetFile), "failed-put-frame"
				}
			}
		}
	}
	if resp.Res == "ok" && sc.Undamaged {
		// (a pre-damaged output AND a failing operation are two faults at once: an over-long output whose
		// Stat fails is rewritten in place without O_TRUNC and keeps its tail -- outside the statement)
		want := "F " + showBytes(sc.Data) + " " + outHex(sc.Data) + " "
		if !strings.HasPrefix(lk.Lookups[sc.ID].GetBytes, want) && out.impl == "" {
			out.impl, out.oname = "Put returned nil but GetBytes does not return the data: "+trunc(lk.Lookups[sc.ID].GetBytes), "put-then-getbytes"
		}
	}
	if !compareModel {
		return
	}
	// ---- the model
	keysSet := map[string]bool{}
	for k := range sc.Pre {
		keysSet[k] = true
	}
	for i := 0; i < 4; i++ {
		keysSet["a:"+idHex(i)] = true
	}
	keysSet["d:"+outHex(sc.Data)] = true
	for _, bp := range append(append([]c12Put{}, sc.Before...), sc.After...) {
		keysSet["d:"+outHex(bp.Data)] = true
	}
	var keys []string
	for k := range keysSet {
		keys = append(keys, k)
	}
	sort.Strings(keys)
	reqs := []string{"reset"}
	{
		// the finite universe of the boolean statement: the data and the pre-state's complete contents
		uni := []string{rn.m.ref(sc.Data)}
		useen := map[string]bool{string(sc.Data): true}
		for k, c := range sc.Pre {
			if k[0] == 'd' && outHex(c) == k[2:] && !useen[string(c)] {
				useen[string(c)] = true
				uni = append(uni, rn.m.ref(c))
			}
		}
		if p2 := pass2Data(sc); !useen[string(p2)] {
			uni = append(uni, rn.m.ref(p2))
		}
		sort.Strings(uni[1:])
		reqs = append(reqs, "universe "+strings.Join(uni, " "), "ids "+strings.Join([]string{idHex(0), idHex(1), idHex(2), idHex(3)}, " "))
	}
	var preKeys []string
	for k := range sc.Pre {
		preKeys = append(preKeys, k)
	}
	sort.Strings(preKeys)
	for _, k := range preKeys {
		c := sc.Pre[k]
		if k[0] == 'd' {
			if hr := rn.m.hashReq(c); hr != "" {
				reqs = append(reqs, hr)
			}
		}
		reqs = append(reqs, fmt.Sprintf("dmg write %s %s %s", k[:1], k[2:], rn.m.ref(c)))
	}
	honestReq := func(bp c12Put, tm int64) string {
		if hr := rn.m.hashReq(bp.Data); hr != "" {
			reqs = append(reqs, hr)
		}
		var cr []string
		for _, c := range chunk32k(bp.Data, len(bp.Data)-1) {
			cr = append(cr, rn.m.ref(c))
		}
		return fmt.Sprintf("putf -1 fail 0 %s %d 1 1 %s 1 %s", idHex(bp.ID), tm, rn.m.ref(bp.Data), strings.Join(cr, " "))
	}
	for i, bp := range sc.Before {
		reqs = append(reqs, honestReq(bp, beforeTm[i]))
	}
	nSetup := len(reqs)
	// reader description
	seek1, ok1, seek2 := 1, 1, 1
	pass1 := sc.Data
	var chunks [][]byte
	if sc.Reader == "" || sc.Reader == "honest" {
		chunks = chunk32k(sc.Data, len(sc.Data)-1)
	} else if sc.Reader == "diff2" {
		// the source answers every Read in full: the pieces do not depend on how far the run got
		chunks = chunk32k(pass2Data(sc), len(sc.Data)-1)
	} else {
		if !resp.Seek1 {
			seek1 = 0
		}
		if !resp.Ok1 {
			ok1 = 0
		}
		pass1 = sc.Data[:min(resp.Pass1N, len(sc.Data))]
		if !resp.Seek2 && resp.Seeks >= 2 {
			seek2 = 0
		}
		d2 := pass2Data(sc)
		pos := 0
		for _, n := range resp.Pass2 {
			if pos+n > len(d2) {
				break
			}
			chunks = append(chunks, d2[pos:pos+n])
			pos += n
		}
	}
	if hr := rn.m.hashReq(pass1); hr != "" {
		reqs = append(reqs, hr)
		nSetup++
	}
	var crefs []string
	for _, c := range chunks {
		crefs = append(crefs, rn.m.ref(c))
	}
	k, kind, j := -1, "fail", 0
	if plan != nil {
		k, kind, j = plan.K, plan.Kind, plan.J
	}
	if sc.API == "putbytes" {
		reqs = append(reqs, fmt.Sprintf("putbf %d %s %d %s %d %s", k, kind, j, idHex(sc.ID), entryTm(resp.Log), strings.Join(crefs, " ")))
	} else {
		reqs = append(reqs, fmt.Sprintf("putf %d %s %d %s %d %d %d %s %d %s", k, kind, j, idHex(sc.ID), entryTm(resp.Log), seek1, ok1,
			rn.m.ref(pass1), seek2, strings.Join(crefs, " ")))
	}
	// the healthy Puts that follow (their hash values are supplied on demand)
	for i, ap := range sc.After {
		var cr []string
		for _, c := range chunk32k(ap.Data, len(ap.Data)-1) {
			cr = append(cr, rn.m.ref(c))
		}
		reqs = append(reqs, fmt.Sprintf("putf -1 fail 0 %s %d 1 1 %s 1 %s", idHex(ap.ID), afterTm[i], rn.m.ref(ap.Data), strings.Join(cr, " ")))
	}
	for _, id := range allIDs {
		reqs = append(reqs, "get "+id, "getbytes "+id, "getfile "+id)
	}
	for _, key := range keys {
		reqs = append(reqs, "file "+key[:1]+" "+key[2:])
	}
	ans := rn.modelBatch(reqs)
	if ans == nil || len(ans) != len(reqs) {
		out.corr = "model did not answer"
		return
	}
	// result and trace
	{
		body, holds, fds := splitPutAnswer(ans[nSetup])
		if holds != "" && holds != "true" && !(sc.Combine && plan != nil) { // two faults at once are outside the statement
			out.corr = "the boolean form c12_holds_on of the C12 statement is " + holds + " on this case (model level)"
			return
		}
		if c := fdsDisagree(fds, resp.Res, resp.FdLeak); c != "" {
			out.corr = c
			return
		}
		ans[nSetup] = body
	}
	parts := strings.SplitN(ans[nSetup], " | ", 2)
	mres := strings.Fields(parts[0])
	want := map[string]string{"ok": "DONE PUTOK", "err": "DONE PUT", "crash": "STOPPED"}[resp.Res]
	if want == "" || !strings.HasPrefix(parts[0], want) || (resp.Res == "err" && strings.HasPrefix(parts[0], "DONE PUTOK")) {
		out.corr = fmt.Sprintf("result: implementation %s, model %s", resp.Res, parts[0])
		return
	}
	if resp.Res == "ok" && len(mres) >= 4 && (mres[2] != resp.Out || mres[3] != fmt.Sprint(resp.Size)) {
		out.corr = fmt.Sprintf("result: implementation ok %s %d, model %s", resp.Out, resp.Size, parts[0])
		return
	}
	var implTrace []string
	for _, o := range resp.Log {
		implTrace = append(implTrace, shimOpString(o))
	}
	if plan != nil && plan.Kind == "stopbefore" && len(implTrace) > 0 {
		implTrace = implTrace[:len(implTrace)-1] // reached, not executed
	}
	mtrace := ""
	if len(parts) == 2 {
		mtrace = strings.TrimSpace(parts[1])
	}
	if strings.Join(implTrace, " ") != mtrace {
		out.corr = fmt.Sprintf("operation trace: implementation [%s], model [%s]", strings.Join(implTrace, " "), mtrace)
		return
	}
	// lookups
	p := nSetup + 1 + len(sc.After)
	for i := range allIDs {
		l := lk.Lookups[i]
		for q, pair := range [][2]string{{l.Get, canonModel(ans[p], false)}, {l.GetBytes, canonModel(ans[p+1], true)}, {l.GetFile, canonModel(ans[p+2], true)}} {
			if pair[0] != pair[1] {
				out.corr = fmt.Sprintf("%s(id%d) after the fault: implementation %s, model %s", []string{"Get", "GetBytes", "GetFile"}[q], i, trunc(pair[0]), trunc(pair[1]))
				return
			}
		}
		p += 3
	}
	// file contents
	for _, key := range keys {
		impl := "none"
		if b, err := os.ReadFile(realPath(rn.dir, key)); err == nil {
			impl = showBytes(b)
		}
		if impl != ans[p] {
			out.corr = fmt.Sprintf("content of %s-%s after the fault: implementation %s, model %s", key[2:10], key[:1], trunc(impl), trunc(ans[p]))
			return
		}
		p++
	}
	return
}

func (rn *c12Runner) report(sc *c12Scenario, plan *c12Plan, o c12Outcome) {
	in := map[string]string{"scenario": sc.Name, "plan": plan.String(), "id": fmt.Sprint(sc.ID), "data_len": fmt.Sprint(len(sc.Data)), "api": apiName(sc.API)}
	if len(sc.Data) <= 64 {
		in["data"] = fmt.Sprintf("%q", sc.Data)
	}
	var tr []string
	for _, x := range o.log {
		tr = append(tr, shimOpString(x))
	}
	in["operations"] = strings.Join(tr, " ")
	if o.impl != "" {
		violate(rn.res, common.Violation{Kind: "impl-violation", Oracle: o.oname, Input: in, Detail: o.impl,
			Key: rn.keyPrefix() + ":" + o.oname + ":" + sc.Name + ":" + plan.String()})
	}
	if o.corr != "" {
		violate(rn.res, common.Violation{Kind: "correspondence", Oracle: "faulty-put", Input: in, Detail: o.corr,
			Key: rn.keyPrefix() + ":corr:" + sc.Name + ":" + plan.String()})
	}
}

// splitPutAnswer splits the model's answer to putf / putbf: "<result> | <operations> | holds=<bool> fds=<n|stopped>".
func splitPutAnswer(a string) (body, holds, fds string) {
	i := strings.LastIndex(a, " | holds=")
	if i < 0 {
		return a, "", ""
	}
	body = a[:i]
	for _, f := range strings.Fields(a[i+3:]) {
		if strings.HasPrefix(f, "holds=") {
			holds = f[6:]
		}
		if strings.HasPrefix(f, "fds=") {
			fds = f[4:]
		}
	}
	return
}

// fdsDisagree compares the descriptors the model's call leaves open (fd_leak: a number, or
// "stopped") with what was measured on the implementation.
func fdsDisagree(fds, implRes, implLeak string) string {
	if fds == "" {
		return ""
	}
	if fds == "stopped" {
		if implRes != "crash" {
			return "descriptors: the model's run stops, the implementation's call returned (" + implRes + ")"
		}
		return ""
	}
	if implRes == "crash" {
		return "descriptors: the implementation's run stops, the model's call returned with " + fds + " descriptors open"
	}
	if (fds == "0") != (implLeak == "") {
		l := implLeak
		if l == "" {
			l = "none"
		}
		return "descriptors left open by the call: model " + fds + ", implementation: " + l
	}
	return ""
}

func (rn *c12Runner) keyPrefix() string {
	if rn.prefix != "" {
		return rn.prefix
	}
	return "c12"
}

// hypotheses of the theorems, checked on the SHA-256 values of the contents of the run
func checkHashHypotheses(cs [][]byte) (inj, nohybrid bool) {
	var hs []string
	seen := map[string]bool{}
	inj = true
	for _, c := range cs {
		h := outHex(c)
		hs = append(hs, h)
	}
	for i := range cs {
		for j := range cs {
			if i < j && hs[i] == hs[j] && string(cs[i]) != string(cs[j]) {
				inj = false
			}
		}
	}
	nohybrid = true
	for i := range hs {
		if seen[hs[i]] {
			continue
		}
		seen[hs[i]] = true
		unique := false
		for k := 0; k < len(hs[i]) && !unique; k++ {
			u := true
			for j := range hs {
				if hs[j] != hs[i] && hs[j][k] == hs[i][k] {
					u = false
					break
				}
			}
			unique = u
		}
		if !unique {
			nohybrid = false
		}
	}
	return
}

// c12AllScenarios: the Put scenarios, the same file-fault scenarios through PutBytes, and the
// source-reader faults also on a store where the output of the faulty Put is already complete
// and named by another id.
func c12AllScenarios(tier string) []c12Scenario {
	scs := c12Scenarios(tier)
	var out []c12Scenario
	out = append(out, scs...)
	for _, sc := range scs {
		if sc.Reader != "" || len(sc.Before) > 0 || len(sc.After) > 0 || strings.Contains(sc.Name, "-own/") || len(sc.Data) > hugeLimit {
			continue
		}
		pb := sc
		pb.API = "putbytes"
		pb.Name = "putbytes:" + sc.Name
		out = append(out, pb)
	}
	// PutNoVerify is a third entry point into the same put: file faults on the small scenarios, and
	// every source-reader fault where the output is already stored (for this id or for another one)
	for _, sc := range scs {
		if len(sc.Before) > 0 || len(sc.After) > 0 || len(sc.Data) > 5000 || strings.Contains(sc.Name, "damaged-") {
			continue
		}
		if sc.Reader != "" && !strings.Contains(sc.Name, "/shared/") && !strings.Contains(sc.Name, "/same/") {
			continue
		}
		if sc.Reader == "" && len(sc.Data) == 5000 && !strings.HasPrefix(sc.Name, "shared/") && !strings.HasPrefix(sc.Name, "same/") {
			continue
		}
		nv := sc
		nv.API = "putnoverify"
		nv.Name = "putnoverify:" + sc.Name
		out = append(out, nv)
	}
	return out
}

// newC12Shard starts a worker and a model process of their own and opens a cache directory.
func newC12Shard(f *common.Flags, shim string, idx int, rec sink, prefix string) (*c12Runner, func(), error) {
	m, err := newModel(f.Model)
	if err != nil {
		return nil, nil, err
	}
	w, err := startWorker(shim)
	if err != nil {
		m.m.Close()
		return nil, nil, err
	}
	dir := filepath.Join(f.Work, fmt.Sprintf("%sdir%d", prefix, idx))
	os.MkdirAll(dir, 0o777)
	if r, err := w.call(map[string]any{"cmd": "open", "dir": dir}); err != nil || r.Res != "ok" {
		w.close()
		m.m.Close()
		return nil, nil, fmt.Errorf("worker cannot open the cache directory")
	}
	rn := &c12Runner{f: f, res: rec, m: m, w: w, dir: dir, touched: map[string]bool{}, prefix: prefix}
	return rn, func() { w.close(); m.m.Close() }, nil
}

// scenarioAll runs one scenario: without file fault, then with every plan at every operation.
func (rn *c12Runner) scenarioAll(sc *c12Scenario) {
	res, w, f := rn.res, rn.w, rn.f
	big := len(sc.Data) > 50000
	huge := len(sc.Data) > hugeLimit
	// lookups of the pre-state (for the frame oracle)
	rn.materialize(sc.Pre)
	for _, bp := range sc.Before {
		if r, err := w.call(map[string]any{"cmd": "put", "id": idHex(bp.ID), "data": hex.EncodeToString(bp.Data)}); err == nil {
			for _, o := range r.Log {
				rn.touched[o.Path] = true
			}
		}
	}
	var pre []wLookup
	if lk, err := w.call(map[string]any{"cmd": "lookups", "ids": []string{idHex(0), idHex(1), idHex(2), idHex(3)}}); err == nil {
		pre = lk.Lookups
	}
	base := rn.runCase(sc, nil, pre, (!(big && sc.API != "") || f.Tier == "thorough") && !huge)
	if huge {
		res.Count("oracles-only")
		res.Count(fmt.Sprintf("huge:size%d", len(sc.Data)))
	}
	res.Case(sc.Name+":none", true)
	res.Count("scenario:" + strings.SplitN(sc.Name, "/", 2)[0])
	res.Count("outcome:" + base.res)
	if base.impl != "" || base.corr != "" {
		rn.report(sc, nil, base)
	}
	{
		var tr []string
		for _, x := range base.log {
			tr = append(tr, shimOpString(x))
		}
		res.Sample(map[string]any{"scenario": sc.Name, "result": base.res, "operations": strings.Join(tr, " ")})
	}
	if sc.Reader != "" {
		res.Count("reader-fault:" + sc.Reader)
		if !sc.Combine {
			return
		}
	}
	for k := 0; k < base.nops; k++ {
		if huge && !(k < 8 || k >= base.nops-8 || k%8 == 0) {
			continue // a 1 MiB output is written in some forty operations: the first, the last and every eighth
		}
		op := base.log[k]
		var plans []c12Plan
		plans = append(plans, c12Plan{k, "fail", 0}, c12Plan{k, "stopbefore", 0}, c12Plan{k, "stopafter", 0})
		if sc.Combine && op.Name != "write" {
			plans = plans[1:] // two faults at once: stops (and torn writes) only
		}
		switch op.Name {
		case "write":
			js := []int{0, 1, op.N / 2, op.N - 1}
			if strings.HasSuffix(op.Path, "-a") && strings.Contains(sc.Name, "overwrite") {
				// inside the id, inside the output id, right after it, inside the size and the time fields
				js = append(js, 40, 100, 132, 133, 140, 150, 153, 160)
			}
			for _, j := range js {
				if j >= 0 && j < op.N {
					plans = append(plans, c12Plan{k, "short", j}, c12Plan{k, "torn", j})
				}
			}
		case "readall":
			for _, j := range []int{0, len(sc.Data) / 2, len(sc.Data)} {
				plans = append(plans, c12Plan{k, "short", j})
			}
		default:
			if k%3 == 0 {
				plans = append(plans, c12Plan{k, "short", 1}, c12Plan{k, "torn", 1})
			}
		}
		seenPlan := map[string]bool{}
		for pi := range plans {
			pl := &plans[pi]
			if seenPlan[pl.String()] {
				continue
			}
			if !sc.Undamaged && f.Tier != "thorough" && (pl.Kind == "stopbefore" || (pl.Kind == "short" && pl.J > 1)) {
				continue // pre-damaged outputs (checksum oracles only): a thinner set of plans in the quick tier
			}
			seenPlan[pl.String()] = true
			// the model is expensive on the 100000-byte content: compare it on a subset there
			cmp := !huge && (!big || f.Tier == "thorough" || (sc.API == "" && (pl.Kind == "stopafter" || (pl.Kind == "fail" && k%2 == 0) || (pl.Kind == "torn" && pl.J > 1))))
			o := rn.runCase(sc, pl, pre, cmp)
			res.Case(sc.Name+":"+pl.String(), true)
			res.Count("fault:" + pl.Kind)
			res.Count("at:" + op.Name)
			res.Count("outcome:" + o.res)
			res.Count("api:" + apiName(sc.API))
			if !cmp {
				res.Count("oracles-only")
			}
			if o.impl != "" || o.corr != "" {
				rn.report(sc, pl, o)
			}
		}
	}
}

// c12Shards: how many units run at once (each a worker process and a model process)
func c12Shards() int {
	n := 6
	if c := runtime.NumCPU() / 2; c < n {
		n = c
	}
	if n < 1 {
		n = 1
	}
	if v, err := strconv.Atoi(os.Getenv("VERIF_CACHE_SHARDS")); err == nil && v > 0 {
		n = v
	}
	return n
}

// defineBig teaches a model process the big contents of the scenarios (referred to as @name:off:len).
func defineBig(m *mdl, scs []c12Scenario) (universe [][]byte) {
	seen := map[string]bool{}
	for i := range scs {
		cs := [][]byte{scs[i].Data}
		var keys []string
		for k := range scs[i].Pre {
			keys = append(keys, k)
		}
		sort.Strings(keys)
		for _, k := range keys {
			cs = append(cs, scs[i].Pre[k])
		}
		for _, c := range cs {
			if !seen[string(c)] {
				seen[string(c)] = true
				universe = append(universe, c)
				if len(c) > 512 && (len(c) == 5000 || len(c) == 100000) {
					m.define(fmt.Sprintf("u%d", len(universe)), c)
				}
			}
		}
	}
	return universe
}

func runC12(f *common.Flags, res *common.Result, m *mdl) {
	shim, real, notes := buildWorkers(f.Work)
	res.Notes = append(res.Notes, notes...)
	if os.Getenv("VERIF_CACHE_NO_SHIM") != "" {
		shim = "" // exercise the fallback route
	}
	if shim == "" {
		res.Notes = append(res.Notes, "falling back to strace injection on the worker built from the unmodified package")
		if real != "" {
			// everything that works on the unmodified package: histories on one Cache value with
			// misbehaving sources and file-size limits, the descriptor oracle, descriptor exhaustion
			runC12Histories(f, res, real, false)
		}
		runC12Strace(f, res, real)
		return
	}
	scs := c12AllScenarios(f.Tier)
	universe := defineBig(m, scs)
	inj, _ := checkHashHypotheses(universe)
	nhOK, nhAll := 0, 0
	for i := range scs {
		u := [][]byte{scs[i].Data, pass2Data(&scs[i])}
		for _, c := range scs[i].Pre {
			u = append(u, c)
		}
		_, nh := checkHashHypotheses(u)
		nhAll++
		if nh {
			nhOK++
		}
	}
	res.Notes = append(res.Notes, fmt.Sprintf("hypotheses checked on the SHA-256 values of the run: H_inj_on over all %d contents: %v; no_hybrid over the contents of each scenario: holds in %d of %d scenarios", len(universe), inj, nhOK, nhAll))

	if f.Replay != "" {
		rp, err := common.LoadReplay(f.Replay)
		if err != nil {
			fmt.Fprintln(os.Stderr, err)
			os.Exit(2)
		}
		if rp.Violation.Input["history"] != "" || rp.Violation.Input["repeat"] != "" {
			replayC12History(f, res, shim, real, rp.Violation.Input)
			return
		}
		rn, done, err := newC12Shard(f, shim, 0, res, "c12")
		if err != nil {
			res.Notes = append(res.Notes, "cannot start the shimmed worker: "+err.Error())
			return
		}
		defer done()
		defineBig(rn.m, scs)
		for i := range scs {
			if scs[i].Name == rp.Violation.Input["scenario"] {
				var plan *c12Plan
				if ps := strings.Split(rp.Violation.Input["plan"], ":"); len(ps) == 3 {
					k, _ := strconv.Atoi(ps[0])
					j, _ := strconv.Atoi(ps[2])
					plan = &c12Plan{k, ps[1], j}
				}
				o := rn.runCase(&scs[i], plan, nil, len(scs[i].Data) <= hugeLimit)
				res.Case(scs[i].Name+plan.String(), true)
				rn.report(&scs[i], plan, o)
			}
		}
		return
	}

	// the scenarios are independent: they run on several shards (each with its own worker, model
	// process and directory), the most expensive first; the records are merged in scenario order
	ns := c12Shards()
	shards := make([]*c12Runner, ns)
	for i := range shards {
		rn, done, err := newC12Shard(f, shim, i, nil, "c12")
		if err != nil {
			res.Notes = append(res.Notes, "cannot start the shimmed worker: "+err.Error())
			if i == 0 {
				return
			}
			shards = shards[:i]
			break
		}
		defer done()
		defineBig(rn.m, scs)
		shards[i] = rn
	}
	order := make([]int, len(scs))
	for i := range order {
		order[i] = i
	}
	cost := func(i int) int {
		c := len(scs[i].Data)
		if scs[i].Reader != "" && !scs[i].Combine {
			c /= 50
		}
		if scs[i].API != "" && c > 50000 {
			c /= 10
		}
		return c
	}
	sort.SliceStable(order, func(a, b int) bool { return cost(order[a]) > cost(order[b]) })
	recs := make([]*recorder, len(scs))
	parallelUnits(len(shards), order, func(sh, u int) {
		recs[u] = newRecorder()
		shards[sh].res = recs[u]
		shards[sh].scenarioAll(&scs[u])
	})
	for _, r := range recs {
		if r != nil {
			r.mergeInto(res)
		}
	}
	nh := runC12Histories(f, res, shim, true)
	if f.Tier == "thorough" && f.Replay == "" {
		// independently of the shim: real SIGKILLs / EIOs on the unmodified binary
		if n := straceSweep(f, res, real); n >= 0 {
			res.Notes = append(res.Notes, fmt.Sprintf("strace sweep on the unmodified binary: %d runs (SIGKILL / EIO at the k-th invocation of each of %s, per thread), direct oracles only", n, straceCalls))
		}
	}
	res.Rule = fmt.Sprintf("%d scenarios (an entry whose output file was removed, as Trim may do, with a source that delivers other bytes of the same length on the second pass AND a stop at every operation; new entry, overwrite, same content again, output shared with another id, partial output left by an earlier interruption, pre-damaged outputs: truncated / bit-flipped / longer / emptied; sizes 0, 1, 2, 5000, 100000; source-reader faults: error at offset r in either pass, early EOF, different bytes on the second pass, Seek failures, each also on a store where the output of the faulty Put is already complete and named by another id; every scenario without reader fault through Put AND through PutBytes); in each scenario without reader fault EVERY file operation of the real Put / PutBytes (observed through the os shim, os.WriteFile being open+write+close) is made to fail, to be a short write / short read, and the run is stopped before it, after it and in the middle of a write; after each, all lookups run in a fresh Cache value; compared with the faulty semantics of the model: result, operation trace, all lookups, contents of all files; direct oracles: SHA-256 of GetBytes, size of GetFile's file, from undamaged starts SHA-256 of GetFile's file, unrelated ids unchanged, no panic, every call that returns leaves the process with the descriptors it had (/proc/self/fd before and after, collector off); sizes past internal limits (CONVENTIONS addendum 4, item 4): an output of 1 MiB + 3 bytes (thorough: also 64 KiB + 1 and 4 MiB + 1) as a new entry, stored again for the same id and already stored for another id, with a fault at the first 8, the last 8 and every eighth file operation, and with every second-pass source fault (error, early end, other bytes at offsets 0, 32768, the middle, the last byte; failing Seek) on the two stores where the output is already complete -- direct oracles only (unrelated ids unchanged, checksum, size, exact file), the model is not run on contents of this size; then %s", len(scs), nh)
}

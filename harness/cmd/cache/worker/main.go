// Command worker executes cache operations on behalf of the runner harness/cmd/cache.
// It is built twice from this source: as it stands (the unmodified cache package of the tree
// being checked: multi-process stress, strace fallback), and as a generated copy under
// harness/gen/cworker whose import of the cache package is redirected to the generated copy
// harness/gen/cachev, in which package os is replaced by verif/harness/vos (fault and crash
// injection at every file operation, cooperative scheduling).
//
// Protocol: one JSON request per line on stdin, one JSON answer per line on stdout.
package main

import (
	"bufio"
	"bytes"
	"crypto/sha256"
	"encoding/hex"
	"encoding/json"
	"errors"
	"fmt"
	"io"
	"math/rand"
	"os"
	"os/signal"
	"path/filepath"
	"runtime"
	"runtime/debug"
	"sort"
	"strconv"
	"sync"
	"syscall"
	"time"

	"github.com/rogpeppe/go-internal/cache"
)

type planSpec struct {
	K    int    `json:"k"`
	Kind string `json:"kind"`
	J    int    `json:"j"`
}

type clientOp struct {
	Op   string `json:"op"` // put putdiff getbytes getfile get
	ID   string `json:"id"`
	Data string `json:"data,omitempty"`
	R    int    `json:"r,omitempty"` // putdiff: the source delivers other bytes from offset R on, on the second pass; putat: the offset the source is at when Put gets it
}

// clientState is what one client of a schedule carries from call to call: the io.ReadSeeker of its
// last Put (op "putagain" hands the very same reader, left wherever that Put left it, to Put again).
type clientState struct {
	last     *bytes.Reader
	lastData []byte
}

// scribble is what a caller is free to do with a slice the cache returned to it (or with the data
// it passed to PutBytes once the call is over): overwrite every byte in place and use the spare
// capacity.  Nothing the cache does or returns later may depend on that memory.
func scribble(b []byte) {
	for i := range b {
		b[i] ^= 0xA5
	}
	spare := b[len(b):cap(b)]
	for i := range spare {
		spare[i] = 0x5A
	}
}

type request struct {
	Cmd      string       `json:"cmd"`
	Dir      string       `json:"dir,omitempty"`
	ID       string       `json:"id,omitempty"`
	Data     string       `json:"data,omitempty"`
	Reader   string       `json:"reader,omitempty"`
	R        int          `json:"r,omitempty"`
	Plan     *planSpec    `json:"plan,omitempty"`
	IDs      []string     `json:"ids,omitempty"`
	Clients  [][]clientOp `json:"clients,omitempty"`
	Schedule []int        `json:"schedule,omitempty"`
	// stress
	Seed     int64 `json:"seed,omitempty"`
	Millis   int   `json:"millis,omitempty"`
	Routines int   `json:"routines,omitempty"`
	Proc     int   `json:"proc,omitempty"`
	// Shared: the clients / goroutines use ONE *cache.Cache value instead of one each
	Shared bool `json:"shared,omitempty"`
	// Handles: per client the index of the *cache.Cache value it uses (clients with equal indices share one)
	Handles []int `json:"handles,omitempty"`
	// API selects the entry point of "put": put (default) | putbytes | putnoverify
	API string `json:"api,omitempty"`
	// history: the steps run one after the other; Reuse: on ONE *cache.Cache value (else a fresh one per step)
	Steps []histStep `json:"steps,omitempty"`
	Reuse bool       `json:"reuse,omitempty"`
	// repeat: the call Steps[0] is made N times with at most Nofile descriptors to spare
	N      int `json:"n,omitempty"`
	Nofile int `json:"nofile,omitempty"`
}

// histStep is one Put of a history.
type histStep struct {
	API    string    `json:"api,omitempty"` // put | putbytes | putnoverify | getbytes | getfile | get
	ID     string    `json:"id"`
	Data   string    `json:"data,omitempty"`
	Reader string    `json:"reader,omitempty"`
	R      int       `json:"r,omitempty"`
	Plan   *planSpec `json:"plan,omitempty"`
	Fsize  int64     `json:"fsize,omitempty"` // > 0: RLIMIT_FSIZE is Fsize-1 bytes during the step
}

type stepRes struct {
	Res     string      `json:"res"`
	Err     string      `json:"err,omitempty"`
	Out     string      `json:"out,omitempty"`
	Size    int64       `json:"size"`
	Log     any         `json:"log,omitempty"`
	Seek1   bool        `json:"seek1"`
	Pass1N  int         `json:"pass1n"`
	Ok1     bool        `json:"ok1"`
	Seek2   bool        `json:"seek2"`
	Seeks   int         `json:"seeks"`
	Pass2   []int       `json:"pass2,omitempty"`
	FdLeak  string      `json:"fdleak,omitempty"`
	Lookups []lookupRes `json:"lookups,omitempty"` // all ids, through a fresh Cache value, after the step
}

type lookupRes struct {
	Get      string   `json:"get"`
	GetBytes string   `json:"getbytes"`
	GetFile  string   `json:"getfile"`
	FileSha  string   `json:"filesha,omitempty"` // SHA-256 of the file GetFile named
	Oracle   []string `json:"oracle,omitempty"`
}

type response struct {
	Res     string         `json:"res,omitempty"` // ok | err | crash | panic
	Err     string         `json:"err,omitempty"`
	Out     string         `json:"out,omitempty"`
	Size    int64          `json:"size,omitempty"`
	Log     any            `json:"log,omitempty"`
	Seek1   bool           `json:"seek1"`
	Pass1N  int            `json:"pass1n"`
	Ok1     bool           `json:"ok1"`
	Seek2   bool           `json:"seek2"`
	Seeks   int            `json:"seeks"`
	Pass2   []int          `json:"pass2,omitempty"`
	Lookups []lookupRes    `json:"lookups,omitempty"`
	Results [][]string     `json:"results,omitempty"`
	Spans   [][][2]int     `json:"spans,omitempty"` // per client, per call: operation counter at its start and end
	Chosen  []int          `json:"chosen,omitempty"`
	Shimmed bool           `json:"shimmed"`
	Viol    []string       `json:"viol,omitempty"`
	Counts  map[string]int `json:"counts,omitempty"`
	FdLeak  string         `json:"fdleak,omitempty"` // descriptors open after the call that were not open before it
	Hist    []stepRes      `json:"hist,omitempty"`
	Reused  []lookupRes    `json:"reused,omitempty"` // final lookups through the Cache value the history used
	Before  []lookupRes    `json:"before,omitempty"`
	NfdA    int            `json:"nfda,omitempty"`
	NfdB    int            `json:"nfdb,omitempty"`
}

// ---- descriptors as a resource: every API call must leave the process with the descriptors it
// had.  The set of open descriptors is read from /proc/self/fd before and after the call, with
// the collector switched off in between (debug.SetGCPercent(-1) returns only when no collection
// is running), so that a descriptor which only a finalizer would close counts as leaked.

// keepLeaks: leaked descriptors stay open (the exhaustion runs need them to add up)
var keepLeaks bool

func fdSet() map[int]string {
	out := map[int]string{}
	d, err := os.Open("/proc/self/fd")
	if err != nil {
		return nil
	}
	names, _ := d.Readdirnames(-1)
	self := int(d.Fd())
	for _, n := range names {
		k, err := strconv.Atoi(n)
		if err != nil || k == self {
			continue
		}
		t, err := os.Readlink("/proc/self/fd/" + n)
		if err != nil {
			continue // closed meanwhile
		}
		out[k] = t
	}
	d.Close()
	return out
}

// fdNames lists the descriptor numbers of the process (the one used for listing excluded).
func fdNames() []string {
	d, err := os.Open("/proc/self/fd")
	if err != nil {
		return nil
	}
	names, _ := d.Readdirnames(-1)
	self := strconv.Itoa(int(d.Fd()))
	d.Close()
	out := names[:0]
	for _, n := range names {
		if n != self {
			out = append(out, n)
		}
	}
	return out
}

// fdProbe runs f and describes the descriptors that are open afterwards and were not before
// ("" = none, or /proc is not available).  A panic of f passes through.  The collector is off
// for the whole command (gcOff in main), so nothing but f itself can close a descriptor.
func fdProbe(f func()) (leak string) {
	defer func() {
		if leak != "" && !keepLeaks {
			ctlCloseLeaked()
		}
	}()
	before := fdNames()
	f()
	if before == nil {
		return ""
	}
	after := fdNames()
	had := map[string]bool{}
	for _, n := range before {
		had[n] = true
	}
	var extra []string
	for _, n := range after {
		if !had[n] {
			t, err := os.Readlink("/proc/self/fd/" + n)
			if err != nil {
				continue
			}
			extra = append(extra, fmt.Sprintf("%s->%s", n, filepath.Base(t)))
		}
	}
	if len(extra) == 0 {
		return ""
	}
	sort.Strings(extra)
	return fmt.Sprintf("%d descriptors before the call, %d after it; new: %v", len(before), len(after), extra)
}

func unhex(s string) []byte {
	if s == "" || s == "-" {
		return []byte{}
	}
	b, err := hex.DecodeString(s)
	if err != nil {
		panic("bad hex")
	}
	return b
}

func showBytes(b []byte) string {
	if len(b) == 0 {
		return "-"
	}
	if len(b) <= 512 {
		return hex.EncodeToString(b)
	}
	s := sha256.Sum256(b)
	return fmt.Sprintf("#%d:%s", len(b), hex.EncodeToString(s[:]))
}

func showEntry(e cache.Entry) string {
	return fmt.Sprintf("%s %d %d", hex.EncodeToString(e.OutputID[:]), e.Size, e.Time.UnixNano())
}

func actionID(s string) cache.ActionID {
	var id cache.ActionID
	copy(id[:], unhex(s))
	return id
}

// ---- the source reader with injectable misbehaviour

type srcReader struct {
	data   []byte
	spec   string // honest err1 err2 eof2 diff2 seek1 seek2
	r      int
	pass   int
	pos    int
	seek1  bool
	seek2  bool
	seeks  int
	pass1n int
	ok1    bool
	pass2  []int
}

func (s *srcReader) cur() []byte {
	if s.spec == "diff2" && s.pass >= 2 {
		d := append([]byte{}, s.data...)
		for i := s.r; i < len(d); i++ {
			d[i] ^= 0x55
		}
		return d
	}
	return s.data
}

func (s *srcReader) Seek(off int64, whence int) (int64, error) {
	s.seeks++
	s.pass++
	s.pos = 0
	if s.pass == 1 {
		if s.spec == "seek1" {
			return 0, errors.New("injected seek error")
		}
		s.seek1 = true
	} else {
		if s.spec == "seek2" {
			return 0, errors.New("injected seek error")
		}
		s.seek2 = true
	}
	return 0, nil
}

func (s *srcReader) Read(p []byte) (int, error) {
	d := s.cur()
	limit := len(d)
	failing := (s.spec == "err1" && s.pass == 1) || (s.spec == "err2" && s.pass == 2)
	if (failing || (s.spec == "eof2" && s.pass == 2)) && s.r < limit {
		limit = s.r
	}
	if s.pos >= limit {
		if failing && limit < len(d) {
			return 0, errors.New("injected read error")
		}
		if s.pass == 1 {
			s.ok1 = true
		}
		return 0, io.EOF
	}
	n := copy(p, d[s.pos:limit])
	s.pos += n
	if s.pass == 1 {
		s.pass1n += n
	} else {
		s.pass2 = append(s.pass2, n)
	}
	return n, nil
}

// ---- commands

var dir string
var curCache *cache.Cache

func openCache() *cache.Cache {
	c, err := cache.Open(dir)
	if err != nil {
		panic("cache.Open: " + err.Error())
	}
	return c
}

// putCall makes one Put-like call on c and fills the step result; crash = the shim stopped the "process".
func putCall(c *cache.Cache, st *histStep) (sr stepRes) {
	src := &srcReader{data: unhex(st.Data), spec: st.Reader, r: st.R}
	if src.spec == "" {
		src.spec = "honest"
	}
	ctlReset(st.Plan)
	if st.Fsize > 0 {
		var old syscall.Rlimit
		if syscall.Getrlimit(syscall.RLIMIT_FSIZE, &old) == nil {
			lim := old
			lim.Cur = uint64(st.Fsize - 1)
			if syscall.Setrlimit(syscall.RLIMIT_FSIZE, &lim) == nil {
				defer syscall.Setrlimit(syscall.RLIMIT_FSIZE, &old)
			}
		}
	}
	defer func() {
		if v := recover(); v != nil {
			if ctlIsCrash(v) {
				sr.Res = "crash"
			} else {
				sr.Res = "panic"
				sr.Err = fmt.Sprint(v)
			}
		}
		sr.Log = ctlLog()
		sr.Seek1, sr.Pass1N, sr.Ok1, sr.Seek2, sr.Pass2, sr.Seeks = src.seek1, src.pass1n, src.ok1, src.seek2, src.pass2, src.seeks
		ctlReset(nil)
	}()
	id := actionID(st.ID)
	sr.FdLeak = fdProbe(func() {
		var out cache.OutputID
		var size int64
		var err error
		switch st.API {
		case "putbytes":
			mine := append(make([]byte, 0, len(src.data)+16), src.data...)
			err = c.PutBytes(id, mine)
			scribble(mine) // the data belongs to the caller again once PutBytes has returned
			out, size = sha256.Sum256(src.data), int64(len(src.data))
		case "putnoverify":
			out, size, err = c.PutNoVerify(id, src)
		case "getbytes":
			var b []byte
			b, _, err = c.GetBytes(id)
			scribble(b)
		case "getfile":
			_, _, err = c.GetFile(id)
		case "get":
			_, err = c.Get(id)
		default:
			out, size, err = c.Put(id, src)
		}
		sr.Out, sr.Size = hex.EncodeToString(out[:]), size
		if err != nil {
			sr.Res, sr.Err = "err", err.Error()
		} else {
			sr.Res = "ok"
		}
	})
	return
}

func doPut(req *request) (resp response) {
	sr := putCall(openCache(), &histStep{API: req.API, ID: req.ID, Data: req.Data, Reader: req.Reader, R: req.R, Plan: req.Plan})
	resp.Res, resp.Err, resp.Out, resp.Size, resp.Log, resp.FdLeak = sr.Res, sr.Err, sr.Out, sr.Size, sr.Log, sr.FdLeak
	resp.Seek1, resp.Pass1N, resp.Ok1, resp.Seek2, resp.Pass2, resp.Seeks = sr.Seek1, sr.Pass1N, sr.Ok1, sr.Seek2, sr.Pass2, sr.Seeks
	return
}

// doHistory runs the steps one after the other, on one Cache value (Reuse) or on a fresh one per
// step; after every step all ids are looked up through a fresh Cache value, at the end also
// through the value the history used.  A stop of the "process" ends the history.
func doHistory(req *request) (resp response) {
	ctlReset(nil)
	var c *cache.Cache
	if req.Reuse {
		c = openCache()
	}
	look := func(cc *cache.Cache) []lookupRes {
		ctlReset(nil)
		var ls []lookupRes
		for _, id := range req.IDs {
			ls = append(ls, lookup(cc, id))
		}
		return ls
	}
	resp.Before = look(openCache())
	for i := range req.Steps {
		cc := c
		if cc == nil {
			cc = openCache()
		}
		sr := putCall(cc, &req.Steps[i])
		sr.Lookups = look(openCache())
		resp.Hist = append(resp.Hist, sr)
		if sr.Res == "crash" || sr.Res == "panic" {
			break
		}
	}
	if c != nil {
		resp.Reused = look(c)
	}
	resp.Res = "ok"
	return
}

// doRepeat: a victim entry is stored and read back; then, with the collector off and at most
// Nofile descriptors to spare (RLIMIT_NOFILE lowered), the call Steps[0] is made N times on one
// Cache value; then the victim is looked up again through that value.
func doRepeat(req *request) (resp response) {
	ctlReset(nil)
	c := openCache()
	victim := req.ID
	if err := c.PutBytes(actionID(victim), unhex(req.Data)); err != nil {
		resp.Res, resp.Err = "err", "storing the victim entry failed: "+err.Error()
		return
	}
	ctlReset(nil)
	resp.Before = []lookupRes{lookup(c, victim)}
	old := debug.SetGCPercent(-1)
	defer debug.SetGCPercent(old)
	before := fdSet()
	resp.NfdB = len(before)
	var lim syscall.Rlimit
	lowered := false
	if before != nil && syscall.Getrlimit(syscall.RLIMIT_NOFILE, &lim) == nil {
		maxfd := 0
		for k := range before {
			if k > maxfd {
				maxfd = k
			}
		}
		nl := lim
		nl.Cur = uint64(maxfd + 1 + req.Nofile)
		if nl.Cur < lim.Cur && syscall.Setrlimit(syscall.RLIMIT_NOFILE, &nl) == nil {
			lowered = true
		}
	}
	keepLeaks = true
	defer func() { keepLeaks = false; ctlCloseLeaked() }()
	for i := 0; i < req.N && len(req.Steps) > 0; i++ {
		st := req.Steps[0]
		sr := putCall(c, &st)
		if i == 0 || i == req.N-1 {
			sr.Log = nil
			resp.Hist = append(resp.Hist, sr)
		}
		if sr.Res == "crash" || sr.Res == "panic" {
			break
		}
	}
	ctlReset(nil)
	resp.Lookups = []lookupRes{lookup(c, victim)}
	if lowered {
		syscall.Setrlimit(syscall.RLIMIT_NOFILE, &lim)
	}
	resp.NfdA = len(fdSet())
	resp.Res = "ok"
	if !lowered {
		resp.Err = "RLIMIT_NOFILE could not be lowered"
	}
	return
}

func lookup(c *cache.Cache, idhex string) (lr lookupRes) {
	id := actionID(idhex)
	safely := func(f func() string) (s string) {
		defer func() {
			if v := recover(); v != nil {
				s = "PANIC"
				lr.Oracle = append(lr.Oracle, "no-panic: "+fmt.Sprint(v))
			}
		}()
		return f()
	}
	probed := func(call string, f func() string) string {
		var r string
		if leak := fdProbe(func() { r = safely(f) }); leak != "" {
			lr.Oracle = append(lr.Oracle, "fd-baseline: "+call+" left descriptors open: "+leak)
		}
		return r
	}
	lr.Get = probed("Get", func() string {
		e, err := c.Get(id)
		if err != nil {
			return "NF"
		}
		return "F " + showEntry(e)
	})
	lr.GetBytes = probed("GetBytes", func() string {
		b, e, err := c.GetBytes(id)
		if err != nil {
			return "NF"
		}
		if sha256.Sum256(b) != e.OutputID {
			lr.Oracle = append(lr.Oracle, fmt.Sprintf("getbytes-checksum: %d bytes returned whose SHA-256 is not the reported OutputID %x", len(b), e.OutputID))
		}
		r := "F " + showBytes(b) + " " + showEntry(e)
		scribble(b) // the returned slice is the caller's
		return r
	})
	lr.GetFile = probed("GetFile", func() string {
		file, e, err := c.GetFile(id)
		if err != nil {
			return "NF"
		}
		st, err := os.Stat(file)
		if err != nil || st.Size() != e.Size {
			lr.Oracle = append(lr.Oracle, fmt.Sprintf("getfile-size: %s does not have the reported size %d", filepath.Base(file), e.Size))
		}
		if b, err := os.ReadFile(file); err == nil {
			s := sha256.Sum256(b)
			lr.FileSha = hex.EncodeToString(s[:])
		}
		return "F " + filepath.Base(file) + " " + showEntry(e)
	})
	return
}

func doLookups(req *request) (resp response) {
	ctlReset(nil)
	c := openCache()
	for _, id := range req.IDs {
		resp.Lookups = append(resp.Lookups, lookup(c, id))
	}
	resp.Res = "ok"
	return
}

func runClientOp(c *cache.Cache, o clientOp, cs *clientState) (s string) {
	if cs == nil {
		cs = &clientState{}
	}
	defer func() {
		if v := recover(); v != nil {
			s = "PANIC " + fmt.Sprint(v)
		}
	}()
	id := actionID(o.ID)
	switch o.Op {
	case "put", "putat", "putagain":
		d := unhex(o.Data)
		rd := bytes.NewReader(d)
		switch o.Op {
		case "putat":
			// the source is somewhere else than at its start when Put gets it
			rd.Seek(int64(min(max(o.R, 0), len(d))), io.SeekStart)
		case "putagain":
			// the reader this client's previous Put was given (and left at its end), when it carries these bytes
			if cs.last != nil && bytes.Equal(cs.lastData, d) {
				rd = cs.last
			} else {
				rd.Seek(0, io.SeekEnd)
			}
		}
		cs.last, cs.lastData = rd, d
		out, n, err := c.Put(id, rd)
		if err != nil {
			return "PUTFAILED"
		}
		return fmt.Sprintf("PUTOK %s %d", hex.EncodeToString(out[:]), n)
	case "putbytes":
		d := unhex(o.Data)
		mine := append(make([]byte, 0, len(d)+16), d...)
		err := c.PutBytes(id, mine)
		scribble(mine)
		if err != nil {
			return "PUTFAILED"
		}
		out := sha256.Sum256(d)
		return fmt.Sprintf("PUTOK %s %d", hex.EncodeToString(out[:]), len(d))
	case "outputfile":
		return filepath.Base(c.OutputFile(cache.OutputID(id)))
	case "putdiff":
		out, n, err := c.Put(id, &srcReader{data: unhex(o.Data), spec: "diff2", r: o.R})
		if err != nil {
			return "PUTFAILED"
		}
		return fmt.Sprintf("PUTOK %s %d", hex.EncodeToString(out[:]), n)
	case "get":
		e, err := c.Get(id)
		if err != nil {
			return "NF"
		}
		return "F " + showEntry(e)
	case "getbytes":
		b, e, err := c.GetBytes(id)
		if err != nil {
			return "NF"
		}
		r := "F " + showBytes(b) + " " + showEntry(e)
		scribble(b) // the returned slice is the caller's
		return r
	case "getfile":
		file, e, err := c.GetFile(id)
		if err != nil {
			return "NF"
		}
		// direct oracle, evaluated at once (no file operation of the shim: no other client runs in between)
		bad := ""
		if b, err := os.ReadFile(file); err != nil || int64(len(b)) != e.Size || sha256.Sum256(b) != e.OutputID {
			bad = " BADFILE"
		}
		return "F " + filepath.Base(file) + " " + showEntry(e) + bad
	}
	return "BAD-OP"
}

func doConc(req *request) (resp response) {
	results := make([][]string, len(req.Clients))
	spans := make([][][2]int, len(req.Clients))
	var fns []func()
	caches := make([]*cache.Cache, len(req.Clients))
	var one *cache.Cache
	if req.Shared {
		one = openCache() // goroutines of one program sharing one handle
	}
	byIndex := map[int]*cache.Cache{}
	for i := range req.Clients {
		if req.Shared {
			caches[i] = one
		} else if len(req.Handles) == len(req.Clients) {
			// clients with equal handle indices share one Cache value
			if byIndex[req.Handles[i]] == nil {
				byIndex[req.Handles[i]] = openCache()
			}
			caches[i] = byIndex[req.Handles[i]]
		} else {
			caches[i] = openCache() // each client its own Cache value, as separate users of one directory
		}
	}
	ctlReset(nil) // the operations of cache.Open are not part of the schedule
	for i, ops := range req.Clients {
		i, ops := i, ops
		c := caches[i]
		fns = append(fns, func() {
			cs := &clientState{}
			for k, o := range ops {
				if k > 0 {
					// the start of a call is a scheduling point of its own: a call that performs no file
					// operation (an answer from memory) is placed by the schedule like any other
					ctlYield()
				}
				st := ctlCount()
				r := runClientOp(c, o, cs)
				results[i] = append(results[i], r)
				spans[i] = append(spans[i], [2]int{st, ctlCount()})
			}
		})
	}
	var chosen []int
	var err error
	resp.FdLeak = fdProbe(func() { chosen, err = ctlRunScheduled(fns, req.Schedule) })
	resp.Results, resp.Chosen, resp.Log, resp.Spans = results, chosen, ctlLog(), spans
	resp.Res = "ok"
	if err != nil {
		resp.Res, resp.Err = "err", err.Error()
	}
	ctlReset(nil)
	return
}

// ---- uncontrolled stress (C11 ii): goroutines of this process hammer the shared directory.
// Payloads are self-describing: "P<id index>:<variant>:" followed by filler derived from both,
// so a reader can tell whether bytes it got were ever stored for that id.

func payload(idx, variant, size int) []byte {
	head := []byte(fmt.Sprintf("P%d:%d:%d:", idx, variant, size))
	b := make([]byte, 0, len(head)+size)
	b = append(b, head...)
	for i := 0; i < size; i++ {
		b = append(b, byte(i*31+idx*7+variant*13))
	}
	return b
}

func checkPayload(idx int, b []byte) bool {
	var i, v, n int
	if _, err := fmt.Sscanf(string(b[:min(len(b), 40)]), "P%d:%d:%d:", &i, &v, &n); err != nil {
		return false
	}
	return i == idx && bytes.Equal(b, payload(i, v, n))
}

func stressID(i int) cache.ActionID {
	return sha256.Sum256([]byte(fmt.Sprintf("stress-id-%d", i)))
}

// ids 0..3: several variants (differing contents per id); ids 4..5: only ever one content
// (re-stored identically; pre-stored by the runner before the stress starts).
func doStress(req *request) (resp response) {
	resp.Counts = map[string]int{}
	var mu sync.Mutex
	viol := func(s string) {
		mu.Lock()
		if len(resp.Viol) < 10 {
			resp.Viol = append(resp.Viol, s)
		}
		mu.Unlock()
	}
	count := func(k string) { mu.Lock(); resp.Counts[k]++; mu.Unlock() }
	deadline := time.Now().Add(time.Duration(req.Millis) * time.Millisecond)
	var wg sync.WaitGroup
	var sharedHandle *cache.Cache
	if req.Shared {
		sharedHandle = openCache()
	}
	for g := 0; g < req.Routines; g++ {
		wg.Add(1)
		go func(g int) {
			defer wg.Done()
			defer func() {
				if v := recover(); v != nil {
					viol("no-panic: " + fmt.Sprint(v))
				}
			}()
			c := sharedHandle
			if c == nil {
				c = openCache()
			}
			r := rand.New(rand.NewSource(req.Seed*1000 + int64(req.Proc)*100 + int64(g)))
			sizes := []int{0, 1, 50, 3000, 70000}
			defer func() {
				// once every writer of every process has finished (they share the deadline), each
				// goroutine looks up, through the handle it has used all along, the ids this process
				// has stored: they must be readable whatever this handle saw earlier
				time.Sleep(700 * time.Millisecond)
				for idx := 0; idx < 6; idx++ {
					mu.Lock()
					stored := resp.Counts[fmt.Sprintf("stored-id%d", idx)] > 0 || idx >= 4
					mu.Unlock()
					if !stored {
						continue
					}
					if b, _, err := c.GetBytes(stressID(idx)); err != nil {
						viol(fmt.Sprintf("quiescent-readable: after all writers finished, GetBytes(id%d) through a handle that had been in use misses: %v", idx, err))
					} else if !checkPayload(idx, b) {
						viol(fmt.Sprintf("foreign-data: final GetBytes(id%d) returned bytes never stored for that id", idx))
					}
				}
			}()
			for time.Now().Before(deadline) {
				idx := r.Intn(6)
				id := stressID(idx)
				switch r.Intn(3) {
				case 0:
					var d []byte
					if idx >= 4 {
						d = payload(idx, 0, sizes[idx-1])
					} else {
						d = payload(idx, r.Intn(3), sizes[r.Intn(len(sizes))])
					}
					var err error
					how := "PutBytes"
					switch r.Intn(4) {
					case 0:
						// a source that is somewhere else than at its start when Put gets it
						how = "Put (source at an arbitrary offset)"
						rd := bytes.NewReader(d)
						rd.Seek(int64(r.Intn(len(d)+1)), io.SeekStart)
						var out cache.OutputID
						var n int64
						out, n, err = c.Put(id, rd)
						if err == nil && (out != sha256.Sum256(d) || n != int64(len(d))) {
							viol(fmt.Sprintf("put-result: Put(id%d) of %d bytes from a source that was not at its start returned OutputID %x and size %d, which are not those of the data", idx, len(d), out[:6], n))
						}
					case 1:
						// the same reader given to Put twice (left at its end by the first call)
						how = "Put (reader used for a second Put)"
						rd := bytes.NewReader(d)
						if _, _, err = c.Put(id, rd); err == nil {
							var out cache.OutputID
							var n int64
							out, n, err = c.Put(id, rd)
							if err == nil && (out != sha256.Sum256(d) || n != int64(len(d))) {
								viol(fmt.Sprintf("put-result: the second Put(id%d) from one reader of %d bytes returned OutputID %x and size %d, which are not those of the data", idx, len(d), out[:6], n))
							}
						}
					default:
						mine := append(make([]byte, 0, len(d)+8), d...)
						err = c.PutBytes(id, mine)
						scribble(mine)
					}
					if err != nil {
						viol(fmt.Sprintf("put-failed: %s(id%d) failed without any injected fault: %v", how, idx, err))
					} else {
						count(fmt.Sprintf("stored-id%d", idx))
					}
					count("put")
				case 1:
					b, e, err := c.GetBytes(id)
					if err != nil {
						count("getbytes-miss")
						if idx >= 4 {
							viol(fmt.Sprintf("restore-visible: GetBytes(id%d) missed although the id is only ever re-stored with identical content: %v", idx, err))
						}
						continue
					}
					count("getbytes-hit")
					if sha256.Sum256(b) != e.OutputID {
						viol(fmt.Sprintf("foreign-data: GetBytes(id%d) returned %d bytes not matching the reported hash", idx, len(b)))
					}
					if int64(len(b)) != e.Size {
						// only a torn read of an entry being rewritten can do this (GetBytes has no size gate); recorded, not raised
						count("getbytes-size-differs")
					}
					if !checkPayload(idx, b) {
						viol(fmt.Sprintf("foreign-data: GetBytes(id%d) returned bytes never stored for that id (%d bytes, head %q)", idx, len(b), b[:min(len(b), 24)]))
					}
					scribble(b) // the returned slice is the caller's to reuse
				case 2:
					file, e, err := c.GetFile(id)
					if err != nil {
						count("getfile-miss")
						if idx >= 4 {
							viol(fmt.Sprintf("restore-visible: GetFile(id%d) missed although the id is only ever re-stored with identical content: %v", idx, err))
						}
						continue
					}
					count("getfile-hit")
					b, err := os.ReadFile(file)
					if err != nil {
						continue
					}
					if int64(len(b)) != e.Size || sha256.Sum256(b) != e.OutputID || !checkPayload(idx, b) {
						viol(fmt.Sprintf("foreign-data: GetFile(id%d) named a file whose bytes do not match the entry or were never stored for that id (%d bytes)", idx, len(b)))
					}
				}
			}
		}(g)
	}
	wg.Wait()
	resp.Res = "ok"
	return
}

func main() {
	if os.Getenv("VERIF_LOCKTHREAD") != "" {
		// strace -e inject counts per thread: keep every file operation on one thread
		runtime.LockOSThread()
	} else {
		runtime.GOMAXPROCS(runtime.NumCPU())
	}
	// a write beyond RLIMIT_FSIZE must fail with EFBIG, not kill the process
	signal.Ignore(syscall.SIGXFSZ)
	// the runtime's own descriptors (poller) exist before the first probe
	if f, err := os.Open(os.DevNull); err == nil {
		f.Close()
	}
	if d, err := os.Open("/proc/self/fd"); err == nil {
		d.Readdirnames(-1)
		d.Close()
	}
	in := bufio.NewReaderSize(os.Stdin, 1<<20)
	out := bufio.NewWriter(os.Stdout)
	enc := json.NewEncoder(out)
	for {
		line, err := in.ReadBytes('\n')
		if len(line) > 0 {
			var req request
			var resp response
			if e := json.Unmarshal(line, &req); e != nil {
				resp = response{Res: "err", Err: "bad request: " + e.Error()}
			} else {
				func() {
					defer func() {
						if v := recover(); v != nil {
							resp = response{Res: "panic", Err: fmt.Sprint(v)}
						}
					}()
					if req.Cmd != "stress" {
						// no collection while a command runs: a descriptor only a finalizer would close is a
						// leak (SetGCPercent(-1) returns when no collection is in progress)
						old := debug.SetGCPercent(-1)
						defer debug.SetGCPercent(old)
					}
					switch req.Cmd {
					case "open":
						dir = req.Dir
						curCache = openCache()
						resp.Res = "ok"
					case "op":
						// one API call on the handle opened by "open", with the operations it performed
						ctlReset(nil)
						var r string
						resp.FdLeak = fdProbe(func() { r = runClientOp(curCache, clientOp{Op: req.Reader, ID: req.ID, Data: req.Data}, nil) })
						resp.Results = [][]string{{r}}
						resp.Log = ctlLog()
						ctlReset(nil)
						resp.Res = "ok"
					case "put":
						resp = doPut(&req)
					case "lookups":
						resp = doLookups(&req)
					case "history":
						resp = doHistory(&req)
					case "repeat":
						resp = doRepeat(&req)
					case "conc":
						resp = doConc(&req)
					case "stress":
						dir = req.Dir
						resp = doStress(&req)
					default:
						resp = response{Res: "err", Err: "unknown command"}
					}
				}()
			}
			resp.Shimmed = shimmed
			enc.Encode(&resp)
			out.Flush()
		}
		if err != nil {
			return
		}
	}
}

package main

// Control stubs for the worker built from the unmodified cache package: no fault injection,
// no operation log, no scheduler.

const shimmed = false

func ctlReset(p *planSpec)  {}
func ctlLog() any           { return nil }
func ctlCount() int         { return 0 }
func ctlCloseLeaked()       {}
func ctlYield()             {}
func ctlIsCrash(v any) bool { return false }
func ctlRunScheduled(fns []func(), schedule []int) ([]int, error) {
	for _, f := range fns {
		f()
	}
	return nil, nil
}

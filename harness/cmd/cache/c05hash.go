package main

// C05, cache/hash.go: the Hash object (NewHash / Write / Sum), Subkey, and the FileHash /
// SetFileHash memo table, against the model (Cache/CacheHash.v) and with direct oracles.
//
// Direct oracles (they do not assume which hash function is used): Sum does not depend on how
// the data is cut into Write calls and is the same for the same data, different data get
// different sums; Subkey is deterministic and distinct (parent, description) pairs get distinct
// keys; FileHash answers what SetFileHash set, answers the same on repetition (the documented
// caching), reports an unreadable file as an error WITHOUT remembering it, and leaves the
// descriptors of the process as it found them.  Correspondence: the sums are the model's H
// (SHA-256) of everything written, of prefix ++ parent ++ desc, of the file content at the first
// successful FileHash.

import (
	"crypto/sha256"
	"encoding/hex"
	"fmt"
	"os"
	"path/filepath"
	"runtime/debug"
	"strings"

	"github.com/rogpeppe/go-internal/cache"

	"verif/harness/common"
)

func fdCountRunner() int {
	d, err := os.Open("/proc/self/fd")
	if err != nil {
		return -1
	}
	names, _ := d.Readdirnames(-1)
	d.Close()
	return len(names)
}

func runC05Hash(f *common.Flags, res *common.Result, m *mdl) string {
	r := common.NewRNG(f.Seed ^ 0x4a54)
	n := 150
	if f.Tier == "thorough" {
		n = 5000
	}
	bad := func(kind, oracle, key string, in map[string]string, detail string) {
		violate(res, common.Violation{Kind: kind, Oracle: oracle, Input: in, Detail: detail, Key: "c05h:" + oracle + ":" + key})
	}
	randBytes := func(k int) []byte {
		b := make([]byte, k)
		for i := range b {
			b[i] = byte(r.Intn(256))
		}
		return b
	}
	// ---- the Hash object
	seenSum := map[string]string{}
	for i := 0; i < n; i++ {
		data := randBytes([]int{0, 1, 2, 31, 64, 300, 5000}[r.Intn(7)] + r.Intn(3))
		cut := func() [][]byte {
			var cs [][]byte
			rest := data
			for len(rest) > 0 {
				k := 1 + r.Intn(len(rest))
				if r.Chance(1, 5) {
					cs = append(cs, []byte{})
				}
				cs = append(cs, rest[:k])
				rest = rest[k:]
			}
			if len(cs) == 0 || r.Chance(1, 4) {
				cs = append(cs, []byte{})
			}
			return cs
		}
		sumOf := func(cs [][]byte) string {
			return common.Safely(func() string {
				h := cache.NewHash("verif")
				for _, c := range cs {
					h.Write(c)
				}
				s := h.Sum()
				return hex.EncodeToString(s[:])
			})
		}
		c1, c2 := cut(), cut()
		s1, s2 := sumOf(c1), sumOf(c2)
		var hx []string
		for _, c := range c1 {
			hx = append(hx, common.Hex(c))
		}
		in := map[string]string{"data": common.Hex(data), "writes": strings.Join(hx, " ")}
		res.Case("hashobj:"+in["writes"], len(c1) > 1)
		res.Count("hash:object")
		if s1 == "PANIC" || s2 == "PANIC" {
			bad("impl-violation", "no-panic", in["writes"], in, "NewHash / Write / Sum panicked")
			continue
		}
		if s1 != s2 {
			bad("impl-violation", "hash-chunking", in["writes"], in, fmt.Sprintf("the same %d bytes written in two different cuts give the sums %s and %s", len(data), s1, s2))
		}
		if prev, ok := seenSum[s1]; ok && prev != string(data) {
			bad("impl-violation", "hash-distinct", in["writes"], in, "two different inputs of this run have the same Sum "+s1)
		}
		seenSum[s1] = string(data)
		state := m.ask("hashobj " + strings.Join(hx, " "))
		want := sha256.Sum256(common.UnHex(state))
		if hex.EncodeToString(want[:]) != s1 {
			violate(res, common.Violation{Kind: "correspondence", Oracle: "hash-object", Input: in, Impl: s1, Model: "H(" + trunc(state) + ") = " + hex.EncodeToString(want[:]),
				Key: "c05h:corr:hashobj:" + in["writes"], Detail: "Hash.Sum is not the model's H (SHA-256) of everything written"})
		}
	}
	// ---- Subkey
	seenKey := map[string]string{}
	for i := 0; i < n; i++ {
		var parent cache.ActionID
		copy(parent[:], randBytes(32))
		if r.Chance(1, 4) {
			parent = ids[r.Intn(len(ids))]
		}
		desc := string(randBytes(r.Intn(12)))
		if r.Chance(1, 3) {
			desc = []string{"", "a", "subkey:", "link", "\x00", "ab"}[r.Intn(6)]
		}
		k1 := common.Safely(func() string { k := cache.Subkey(parent, desc); return hex.EncodeToString(k[:]) })
		k2 := common.Safely(func() string { k := cache.Subkey(parent, desc); return hex.EncodeToString(k[:]) })
		in := map[string]string{"parent": hex.EncodeToString(parent[:]), "desc": common.Hex([]byte(desc))}
		key := in["parent"] + "/" + in["desc"]
		res.Case("subkey:"+key, true)
		res.Count("hash:subkey")
		if k1 == "PANIC" {
			bad("impl-violation", "no-panic", key, in, "Subkey panicked")
			continue
		}
		if k1 != k2 {
			bad("impl-violation", "subkey-deterministic", key, in, "two calls of Subkey with the same arguments give "+k1+" and "+k2)
		}
		if prev, ok := seenKey[k1]; ok && prev != key {
			bad("impl-violation", "subkey-distinct", key, in, "Subkey gives "+k1+" for this pair and for "+prev)
		}
		seenKey[k1] = key
		if k1 == in["parent"] {
			bad("impl-violation", "subkey-distinct", key, in, "Subkey returned its parent")
		}
		pre := m.ask("subkeypre " + in["parent"] + " " + in["desc"])
		want := sha256.Sum256(common.UnHex(pre))
		if hex.EncodeToString(want[:]) != k1 {
			violate(res, common.Violation{Kind: "correspondence", Oracle: "subkey", Input: in, Impl: k1, Model: "H(" + pre + ") = " + hex.EncodeToString(want[:]),
				Key: "c05h:corr:subkey:" + key, Detail: "Subkey is not the model's H of prefix ++ parent ++ desc"})
		}
	}
	// ---- FileHash / SetFileHash (the table is global to the process: every case uses names of its own)
	dir := filepath.Join(f.Work, "c05hash")
	os.MkdirAll(dir, 0o777)
	defer os.RemoveAll(dir)
	m.ask("fh reset")
	old := debug.SetGCPercent(-1)
	defer debug.SetGCPercent(old)
	nf := n / 3
	for i := 0; i < nf; i++ {
		name := filepath.Join(dir, fmt.Sprintf("f%d", i))
		nhex := common.Hex([]byte(name))
		var steps []string
		exists := false
		var content []byte
		known := "" // what FileHash must answer once it has a sum for the name
		for k := 2 + r.Intn(5); k > 0; k-- {
			switch x := r.Intn(10); {
			case x < 3: // (re)write the file
				content = randBytes(r.Intn(40))
				os.WriteFile(name, content, 0o666)
				exists = true
				steps = append(steps, "write:"+common.Hex(content))
			case x < 4 && exists:
				os.Remove(name)
				exists = false
				steps = append(steps, "remove")
			case x < 6:
				var s [32]byte
				copy(s[:], randBytes(32))
				cache.SetFileHash(name, s)
				known = hex.EncodeToString(s[:])
				m.ask("fh set " + nhex + " " + known)
				steps = append(steps, "set:"+known)
			default:
				before := fdCountRunner()
				got := common.Safely(func() string {
					s, err := cache.FileHash(name)
					if err != nil {
						return "ERR"
					}
					return hex.EncodeToString(s[:])
				})
				after := fdCountRunner()
				steps = append(steps, "filehash="+got)
				in := map[string]string{"file": filepath.Base(name), "steps": strings.Join(steps, " ")}
				key := fmt.Sprint(i, len(steps))
				if got == "PANIC" {
					bad("impl-violation", "no-panic", key, in, "FileHash panicked")
					continue
				}
				if before >= 0 && after > before {
					bad("impl-violation", "fd-baseline", key, in, fmt.Sprintf("FileHash returned with descriptors still open: %d before the call, %d after it", before, after))
				}
				switch {
				case known != "" && got != known:
					bad("impl-violation", "filehash-memo", key, in, "FileHash gives "+got+" for a name whose sum is "+known+" (set by SetFileHash, or answered by an earlier FileHash): the documented caching")
				case known == "" && !exists && got != "ERR":
					bad("impl-violation", "filehash-missing", key, in, "FileHash of a file that does not exist and was never given a sum answers "+got)
				case known == "" && exists && got == "ERR":
					bad("impl-violation", "filehash-missing", key, in, "FileHash of a readable file that was never given a sum fails (an earlier failure must not be remembered)")
				}
				if got != "ERR" {
					known = got
				}
				c := "none"
				if exists {
					c = common.Hex(content)
					m.hash(content)
				}
				if ans := m.ask("fh get " + nhex + " " + c); ans != got {
					violate(res, common.Violation{Kind: "correspondence", Oracle: "filehash", Input: in, Impl: got, Model: ans,
						Key: "c05h:corr:filehash:" + key, Detail: "FileHash and the model's memo table disagree"})
				}
			}
		}
		res.Case("filehash:"+strings.Join(steps, " "), true)
		res.Count("hash:filehash")
	}
	return fmt.Sprintf("cache/hash.go: %d Hash objects written in two random cuts each (Sum independent of the cut, distinct for distinct data, = the model's H of everything written), %d Subkey calls (deterministic, distinct for distinct (parent, description), = H of the regenerated prefix ++ parent ++ description), %d FileHash / SetFileHash histories on files that are rewritten, removed and re-created in between (memo table compared with the model's; a set or once-answered sum is answered again, a failure is not remembered, no descriptor left open)", n, n, nf)
}

// The translated segments of cache/cache.go (Gen/CacheSrc.v, made by harness/go2coq on every
// run and extracted to a file of their own, Extract/CacheSrcExtract.v; second model binary
// bin/model_cache_src built by ocaml/build_src.sh) are RUN against the implementation: a test of the
// translator, of its semantic library (Lib/GoSem*.v) and of the library denotations of
// Cache/SrcLib.v, on the raw entries this runner generates anyway.
//
//	srcparse  the statements of get between io.ReadFull and c.used, then the final return,
//	          against (*Cache).Get on an index file holding the raw bytes
//	srcentry  the fmt.Sprintf of putIndexEntry against the index file a real Put writes
//	srcname   fileName against OutputFile and against where Put puts the index file
package main

import (
	"encoding/hex"
	"fmt"
	"os"
	"path/filepath"
	"strings"

	"github.com/rogpeppe/go-internal/cache"

	"verif/harness/common"
)

func srcParseCase(dir string, c *cache.Cache, m *common.Model, res *common.Result, raw []byte, tag string) {
	id := ids[0]
	name := hex.EncodeToString(id[:])
	p := filepath.Join(dir, name[:2], name+"-a")
	os.Remove(p)
	if err := os.WriteFile(p, raw, 0o666); err != nil {
		return
	}
	impl := common.Safely(func() string {
		e, err := c.Get(id)
		if err != nil {
			return "NF"
		}
		return "F " + showEntry(e)
	})
	ans := canonModel(m.Ask1("srcparse "+common.Hex(raw)+" "+name), false)
	kind := "notfound"
	if strings.HasPrefix(impl, "F ") {
		kind = "found"
	}
	if ans == "NA" {
		// not entrySize bytes: the length test in front of the segment rejects it
		res.Count("srcseg:parse:other-length")
		res.Case("srcparse:"+common.Hex(raw), false)
		if impl != "NF" {
			violate(res, common.Violation{Kind: "impl-violation", Oracle: "src-length", Key: "src-length:" + tag,
				Input:  map[string]string{"src": "parse", "entry": common.Hex(raw), "entry_text": fmt.Sprintf("%q", raw), "id": name},
				Impl:   impl,
				Detail: "Get accepted an index entry that is not entrySize bytes long"})
		}
		return
	}
	res.Count("srcseg:parse:" + kind)
	res.Case("srcparse:"+common.Hex(raw), kind == "found")
	if ans != impl {
		violate(res, common.Violation{Kind: "correspondence", Oracle: "src-parse", Key: "src-parse:" + tag,
			Input: map[string]string{"src": "parse", "entry": common.Hex(raw), "entry_text": fmt.Sprintf("%q", raw), "id": name},
			Model: ans, Impl: impl,
			Detail: "the translated statements of get (Gen/CacheSrc.v, evaluated through Lib/GoSem*.v and Cache/SrcLib.v) and (*Cache).Get disagree on this index entry"})
	}
}

func runSrcSegments(f *common.Flags, res *common.Result, _ *mdl) {
	// the translated segments live in a binary of their own, which ocaml/build_src.sh removes when
	// the translated text no longer fits its driver: everything else has run by now
	srcBin := f.Model + "_src"
	if _, err := os.Stat(srcBin); err != nil {
		res.Notes = append(res.Notes, "no "+filepath.Base(srcBin)+" (the translated segments of cache.go could not be extracted or no longer fit ocaml/cache/src_driver.ml): they were not run against the implementation")
		return
	}
	m, err := common.StartModel(srcBin)
	if err != nil {
		res.Notes = append(res.Notes, "cannot start "+filepath.Base(srcBin)+": "+err.Error())
		return
	}
	defer m.Close()
	if probe := m.Ask1("srcname 2f74 0abc 61"); probe != "2f742f30612f306162632d61" {
		res.Notes = append(res.Notes, filepath.Base(srcBin)+" does not answer the src requests ("+trunc(probe)+"): the translated segments were not run")
		return
	}
	dir, err := os.MkdirTemp(f.Work, "c05src")
	if err != nil {
		return
	}
	defer os.RemoveAll(dir)
	c, err := cache.Open(dir)
	if err != nil {
		res.Notes = append(res.Notes, "srcseg: cache.Open failed: "+err.Error())
		return
	}
	if f.Replay != "" {
		rp, err := common.LoadReplay(f.Replay)
		if err == nil && rp.Violation.Input["src"] == "parse" {
			srcParseCase(dir, c, m, res, common.UnHex(rp.Violation.Input["entry"]), "replay")
		}
		return
	}
	// 1. the parser: the systematic family and a random stream
	for _, rc := range degenerateEntries(0, 1) {
		srcParseCase(dir, c, m, res, rc.raw, rc.tag)
	}
	r := common.NewRNG(f.Seed + 77)
	n := 400
	if f.Tier == "thorough" {
		n = 20000
	}
	for i := 0; i < n; i++ {
		raw, tag := genRaw(r, 0)
		srcParseCase(dir, c, m, res, raw, fmt.Sprintf("%s:%x", tag, raw))
	}
	// 2. the formatter and fileName: what a real Put writes, and where
	for i, d := range contents {
		id := ids[i%len(ids)]
		out, size, err := c.Put(id, strings.NewReader(string(d)))
		if err != nil {
			continue
		}
		idhex, outhex := hex.EncodeToString(id[:]), hex.EncodeToString(out[:])
		wantA := filepath.Join(dir, idhex[:2], idhex+"-a")
		b, err := os.ReadFile(wantA)
		tm, ok := readTm(dir, id)
		if err != nil || !ok {
			continue
		}
		got := m.Ask1(fmt.Sprintf("srcentry %s %s %d %d", idhex, outhex, size, tm))
		res.Count("srcseg:entry")
		res.Case("srcentry:"+idhex+outhex, true)
		if got != common.Hex(b) {
			violate(res, common.Violation{Kind: "correspondence", Oracle: "src-entry", Key: "src-entry:" + idhex,
				Input: map[string]string{"src": "entry", "id": idhex, "out": outhex, "size": fmt.Sprint(size), "tm": fmt.Sprint(tm)},
				Model: got, Impl: common.Hex(b),
				Detail: "the translated fmt.Sprintf of putIndexEntry and the index file written by Put differ"})
		}
		for _, q := range []struct{ key, idhex, want string }{{"a", idhex, wantA}, {"d", outhex, c.OutputFile(out)}} {
			got := m.Ask1("srcname " + common.Hex([]byte(dir)) + " " + q.idhex + " " + common.Hex([]byte(q.key)))
			res.Count("srcseg:name")
			res.Case("srcname:"+q.idhex+q.key, true)
			_, serr := os.Stat(string(common.UnHex(got)))
			if got != common.Hex([]byte(q.want)) || serr != nil {
				violate(res, common.Violation{Kind: "correspondence", Oracle: "src-name", Key: "src-name:" + q.key + ":" + q.idhex,
					Input: map[string]string{"src": "name", "dir": dir, "id": q.idhex, "key": q.key},
					Model: string(common.UnHex(got)), Impl: q.want,
					Detail: "the translated fileName and the path the implementation uses differ"})
			}
		}
	}
	res.Rule += fmt.Sprintf("; the segments of get / putIndexEntry / fileName as TRANSLATED from the source (Gen/CacheSrc.v, extracted) are evaluated on the systematic family of degenerate entries and %d generated raw entries against (*Cache).Get, and on every content against the index file and the file names of a real Put", n)
}

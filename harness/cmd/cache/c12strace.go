package main

// Fallback of C12 when the os-shim rewrite cannot be applied to the source: crash and error
// injection with strace on a worker built from the unmodified package (direct oracles only).

import (
	"bytes"
	"encoding/hex"
	"encoding/json"
	"fmt"
	"os"
	"os/exec"
	"path/filepath"
	"strings"

	"verif/harness/common"
)

// stat/read calls are left out: cache.Open alone makes several hundred of them before the Put starts
const straceCalls = "openat,write,pwrite64,ftruncate,close,unlinkat,unlink,utimensat"

// straceOnce runs a one-shot worker (open dir, one Put) under strace with the given inject
// clause and reports whether the worker survived.
func straceOnce(real, dir string, sc *c12Scenario, call, inject string) (survived bool, err error) {
	var in bytes.Buffer
	enc := json.NewEncoder(&in)
	enc.Encode(map[string]any{"cmd": "open", "dir": dir})
	enc.Encode(map[string]any{"cmd": "put", "id": idHex(sc.ID), "data": hex.EncodeToString(sc.Data)})
	// strace keeps one invocation counter per system call: one call per run
	cmd := exec.Command("strace", "-f", "-qq", "-o", "/dev/null", "-e", "trace="+call, "-e", "inject="+call+":"+inject, real)
	cmd.Env = append(os.Environ(), "GODEBUG=", "GOMAXPROCS=1", "VERIF_LOCKTHREAD=1")
	cmd.Stdin = &in
	out, err := cmd.Output()
	if err != nil {
		if _, ok := err.(*exec.ExitError); ok {
			return false, nil
		}
		return false, err
	}
	return bytes.Count(out, []byte("\n")) >= 2, nil
}

func runC12Strace(f *common.Flags, res *common.Result, real string) {
	n := straceSweep(f, res, real)
	if n >= 0 {
		res.Rule = fmt.Sprintf("FALLBACK (os-shim rewrite not applicable): %d runs of a Put under strace -e inject (real SIGKILL at the k-th call of each file system call, per thread; EIO at the k-th) on the unmodified binary, lookups afterwards in a fresh process checked with the direct oracles only; no model comparison", n)
	}
}

// straceSweep kills (SIGKILL) or fails (EIO) the worker built from the UNMODIFIED package at the
// k-th invocation of each file system call of a Put (strace counts per thread and per system
// call: the worker keeps its file operations on one locked thread), then checks the direct
// oracles in a fresh process.  It returns the number of runs, -1 when it could not run.
func straceSweep(f *common.Flags, res *common.Result, real string) int {
	if real == "" {
		res.Notes = append(res.Notes, "no worker binary: the strace sweep could not run")
		return -1
	}
	if _, err := exec.LookPath("strace"); err != nil {
		res.Notes = append(res.Notes, "strace is not available: the strace sweep could not run")
		return -1
	}
	dir := filepath.Join(f.Work, "c12strace")
	os.MkdirAll(dir, 0o777)
	lw, err := startWorker(real)
	if err != nil {
		res.Notes = append(res.Notes, "cannot start worker: "+err.Error())
		return -1
	}
	defer lw.close()
	lw.call(map[string]any{"cmd": "open", "dir": dir})
	rn := &c12Runner{f: f, res: res, dir: dir, touched: map[string]bool{}}
	scs := c12Scenarios(f.Tier)
	n, used := 0, 0
	maxSc := 8
	if f.Tier == "thorough" {
		maxSc = 1000
	}
	for si := range scs {
		sc := &scs[si]
		if sc.Reader != "" || len(sc.Data) > 6000 || !sc.Undamaged || used >= maxSc {
			continue
		}
		used++
		for _, mode := range []string{"signal=KILL", "error=EIO"} {
			for _, call := range strings.Split(straceCalls, ",") {
				for k := 1; k < 40; k++ {
					rn.materialize(sc.Pre)
					// files the Put may create
					rn.touched[realPath(dir, "a:"+idHex(sc.ID))] = true
					rn.touched[realPath(dir, "d:"+outHex(sc.Data))] = true
					survived, err := straceOnce(real, dir, sc, call, fmt.Sprintf("%s:when=%d", mode, k))
					if err != nil {
						res.Notes = append(res.Notes, "strace could not run: "+err.Error())
						return n
					}
					lk, err := lw.call(map[string]any{"cmd": "lookups", "ids": []string{idHex(0), idHex(1), idHex(2), idHex(3)}})
					if err != nil {
						return n
					}
					n++
					res.Case(fmt.Sprintf("%s:%s:%s:%d", sc.Name, mode, call, k), true)
					res.Count("strace:" + strings.SplitN(mode, "=", 2)[1])
					for i, l := range lk.Lookups {
						bad := ""
						for _, o := range l.Oracle {
							bad = o
						}
						if strings.HasPrefix(l.GetFile, "F ") {
							if fl := strings.Fields(l.GetFile); len(fl) >= 3 && l.FileSha != fl[2] {
								bad = "getfile-exact: GetFile names a file whose SHA-256 is not the reported OutputID"
							}
						}
						if bad != "" {
							violate(res, common.Violation{Kind: "impl-violation", Oracle: strings.SplitN(bad, ":", 2)[0],
								Input:  map[string]string{"scenario": sc.Name, "strace_inject": fmt.Sprintf("%s:%s:when=%d", call, mode, k), "id": fmt.Sprint(i)},
								Detail: bad, Key: fmt.Sprintf("c12s:%s:%s:%s:%d", sc.Name, mode, call, k)})
						}
					}
					if survived && (mode == "signal=KILL" || k > 12) {
						break // k is beyond the last such system call of the run
					}
				}
			}
		}
	}
	return n
}

package main

// Histories of Puts on ONE *cache.Cache value, and descriptors as a resource.
//
// A history is 2-4 calls (Put / PutBytes, lookups in between) made one after the other in one
// process; any step may have a misbehaving source (error or early end in either pass, other bytes
// on the second pass, failing Seek), a fault plan on its file operations (fail / short / stop
// before / stop after / torn, through the os shim) or a file-size limit (RLIMIT_FSIZE: every write
// beyond it is cut short and fails, a persistent fault).  The same history is run twice from the
// same files: on one Cache value reused by all steps, and on a fresh Cache value per step.
//
// Direct oracles, after EVERY step (lookups through a fresh Cache value):
//   - every id that was readable before the step and is not the step's own id reads exactly as
//     before ("a failed Put never makes unrelated entries unreadable", also when the faulty Put's
//     output is the very file those ids name);
//   - GetBytes checksum, GetFile size, from undamaged starts GetFile's file has the OutputID;
//   - a Put that returned nil is followed by exact lookups;
//   - a call that returned left the process with the descriptors it had;
//   - at the end the value the history used and a fresh one give the same lookups.
// Correspondence: the model has no state beside the files (put is a function of the file map):
// the reused and the fresh run must agree step by step (result, operation trace) and in the final
// files; histories whose steps are each inside the model's fault regimes are also run through the
// model's faulty semantics (result, trace, lookups, files).
//
// Descriptor exhaustion ("repeat"): with the collector off and RLIMIT_NOFILE lowered to a few
// descriptors above those in use, one call is made N times on one Cache value; an intact victim
// entry stored beforehand must still be readable through that value afterwards.

import (
	"encoding/hex"
	"fmt"
	"os"
	"sort"
	"strconv"
	"strings"

	"verif/harness/common"
)

type hStep struct {
	API    string // put | putbytes | putnoverify | get | getbytes | getfile
	ID     int
	Data   []byte
	Reader string
	R      int
	Plan   *c12Plan
	Fsize  int64 // > 0: RLIMIT_FSIZE = Fsize-1 during the step
}

type c12History struct {
	Name      string
	Pre       map[string][]byte
	Steps     []hStep
	Undamaged bool
}

func (s hStep) isPut() bool { return s.API == "" || strings.HasPrefix(s.API, "put") }

func (s hStep) String() string {
	api := s.API
	if api == "" {
		api = "put"
	}
	rd := s.Reader
	if rd == "" {
		rd = "honest"
	}
	return fmt.Sprintf("%s.%d.%s.%s.%d.%s.%d", api, s.ID, common.Hex(s.Data), rd, s.R, strings.ReplaceAll(s.Plan.String(), ":", "_"), s.Fsize)
}

func (h *c12History) String() string {
	var pre []string
	for k, v := range h.Pre {
		pre = append(pre, k+"="+common.Hex(v))
	}
	sort.Strings(pre)
	var st []string
	for _, s := range h.Steps {
		st = append(st, s.String())
	}
	u := "damaged"
	if h.Undamaged {
		u = "undamaged"
	}
	return strings.Join(pre, ",") + "|" + strings.Join(st, "/") + "|" + u
}

func parseC12History(s string) *c12History {
	parts := strings.Split(s, "|")
	if len(parts) != 3 {
		return nil
	}
	h := &c12History{Name: "replay", Pre: map[string][]byte{}, Undamaged: parts[2] == "undamaged"}
	for _, kv := range strings.Split(parts[0], ",") {
		if i := strings.Index(kv, "="); i > 0 {
			h.Pre[kv[:i]] = common.UnHex(kv[i+1:])
		}
	}
	for _, t := range strings.Split(parts[1], "/") {
		f := strings.Split(t, ".")
		if len(f) != 7 {
			return nil
		}
		st := hStep{API: f[0], Data: common.UnHex(f[2]), Reader: f[3]}
		st.ID, _ = strconv.Atoi(f[1])
		st.R, _ = strconv.Atoi(f[4])
		if ps := strings.Split(f[5], "_"); len(ps) == 3 {
			k, _ := strconv.Atoi(ps[0])
			j, _ := strconv.Atoi(ps[2])
			st.Plan = &c12Plan{k, ps[1], j}
		}
		st.Fsize, _ = strconv.ParseInt(f[6], 10, 64)
		if st.API == "put" {
			st.API = ""
		}
		if st.Reader == "honest" {
			st.Reader = ""
		}
		h.Steps = append(h.Steps, st)
	}
	return h
}

func stepJSON(s hStep) map[string]any {
	m := map[string]any{"api": s.API, "id": idHex(s.ID), "data": hex.EncodeToString(s.Data), "reader": s.Reader, "r": s.R, "fsize": s.Fsize}
	if s.Plan != nil {
		m["plan"] = map[string]any{"k": s.Plan.K, "kind": s.Plan.Kind, "j": s.Plan.J}
	}
	return m
}

// pass2Of: what the source of the step delivers on the second pass
func pass2Of(s hStep) []byte {
	sc := c12Scenario{Data: s.Data, Reader: s.Reader, R: s.R}
	return pass2Data(&sc)
}

// histKeys: the files a history can touch
func histKeys(h *c12History) []string {
	set := map[string]bool{}
	for k := range h.Pre {
		set[k] = true
	}
	for i := 0; i < 4; i++ {
		set["a:"+idHex(i)] = true
	}
	for _, s := range h.Steps {
		if s.isPut() {
			set["d:"+outHex(s.Data)] = true
		}
	}
	var keys []string
	for k := range set {
		keys = append(keys, k)
	}
	sort.Strings(keys)
	return keys
}

var allIDsHex = func() []string { return []string{idHex(0), idHex(1), idHex(2), idHex(3)} }

type histRun struct {
	resp   *wResp
	files  map[string]string
	masked map[string]string // index entries without their time field (time.Now differs from run to run)
}

// maskTime blanks the 20-byte time field of a well-sized index entry.
func maskTime(b []byte) []byte {
	nb := append([]byte{}, b...)
	for i := timeField; i < timeField+20 && i < len(nb); i++ {
		nb[i] = 'T'
	}
	return nb
}

func (rn *c12Runner) histOnce(h *c12History, reuse bool) (*histRun, error) {
	rn.materialize(h.Pre)
	var steps []map[string]any
	for _, s := range h.Steps {
		steps = append(steps, stepJSON(s))
	}
	resp, err := rn.w.call(map[string]any{"cmd": "history", "steps": steps, "reuse": reuse, "ids": allIDsHex()})
	if err != nil {
		return nil, err
	}
	for _, st := range resp.Hist {
		for _, o := range st.Log {
			rn.touched[o.Path] = true
		}
	}
	hr := &histRun{resp: resp, files: map[string]string{}, masked: map[string]string{}}
	for _, k := range histKeys(h) {
		rn.touched[realPath(rn.dir, k)] = true
		if b, err := os.ReadFile(realPath(rn.dir, k)); err == nil {
			hr.files[k] = showBytes(b)
			hr.masked[k] = hr.files[k]
			if k[0] == 'a' {
				hr.masked[k] = showBytes(maskTime(b))
			}
		} else {
			hr.files[k], hr.masked[k] = "none", "none"
		}
	}
	return hr, nil
}

type finding struct{ oracle, detail string }

// histOracles evaluates the direct oracles on one run of the history.
func histOracles(h *c12History, r *wResp, how string) (out []finding) {
	add := func(o, d string) { out = append(out, finding{o, d + " [" + how + "]"}) }
	prev := r.Before
	for k, st := range r.Hist {
		s := h.Steps[k]
		what := fmt.Sprintf("step %d (%s id%d, source %s, plan %s, fsize %d: %s)", k, apiName(s.API), s.ID, orHonest(s.Reader), s.Plan.String(), s.Fsize, st.Res)
		if !s.isPut() {
			what = fmt.Sprintf("step %d (%s id%d: %s)", k, s.API, s.ID, st.Res)
		}
		if st.Res == "panic" {
			add("no-panic", what+" panicked: "+st.Err)
		}
		if st.FdLeak != "" && st.Res != "crash" {
			add("fd-baseline", what+" returned with descriptors still open: "+st.FdLeak)
		}
		for i, l := range st.Lookups {
			for _, o := range l.Oracle {
				add(strings.SplitN(o, ":", 2)[0], fmt.Sprintf("lookup of id%d after %s: %s", i, what, o))
			}
			if h.Undamaged && strings.HasPrefix(l.GetFile, "F ") {
				if f := strings.Fields(l.GetFile); len(f) >= 3 && l.FileSha != f[2] {
					add("getfile-exact", fmt.Sprintf("after %s GetFile(id%d), from an undamaged start, names a file whose SHA-256 %s is not the reported OutputID %s", what, i, l.FileSha, f[2]))
				}
			}
			if i < len(prev) && (i != s.ID || !s.isPut()) {
				p := prev[i]
				if (strings.HasPrefix(p.GetBytes, "F") && p.GetBytes != l.GetBytes) || (strings.HasPrefix(p.GetFile, "F") && p.GetFile != l.GetFile && h.Undamaged) ||
					(strings.HasPrefix(p.Get, "F") && p.Get != l.Get) {
					o := "failed-put-frame"
					if st.Res == "ok" {
						o = "unrelated-entry-changed"
					}
					add(o, fmt.Sprintf("%s changed the lookups of the unrelated id%d, which was readable: before %s / %s, after %s / %s", what, i, trunc(p.GetBytes), p.GetFile, trunc(l.GetBytes), l.GetFile))
				}
			}
		}
		if s.isPut() && st.Res == "ok" && s.ID < len(st.Lookups) {
			want := "F " + showBytes(s.Data) + " " + outHex(s.Data) + " "
			if !strings.HasPrefix(st.Lookups[s.ID].GetBytes, want) {
				add("put-then-getbytes", what+" returned nil but GetBytes does not return the data: "+trunc(st.Lookups[s.ID].GetBytes))
			}
			if !strings.HasPrefix(st.Lookups[s.ID].GetFile, "F ") || st.Lookups[s.ID].FileSha != outHex(s.Data) {
				add("put-then-getfile", what+" returned nil but GetFile does not name a file holding the data: "+st.Lookups[s.ID].GetFile)
			}
		}
		prev = st.Lookups
	}
	// the value the history used must see what a fresh value sees (a stopped process has no value left)
	if n := len(r.Hist); len(r.Reused) == len(prev) && (n == 0 || r.Hist[n-1].Res != "crash") {
		for i := range prev {
			if prev[i].GetBytes != r.Reused[i].GetBytes || prev[i].GetFile != r.Reused[i].GetFile {
				if strings.HasPrefix(prev[i].GetBytes, "F") {
					add("stale-handle", fmt.Sprintf("after the history id%d reads %s / %s through a fresh Cache value but %s / %s through the value the history used", i, trunc(prev[i].GetBytes), prev[i].GetFile, trunc(r.Reused[i].GetBytes), r.Reused[i].GetFile))
				}
			}
		}
	}
	return
}

func orHonest(s string) string {
	if s == "" {
		return "honest"
	}
	return s
}

// modelEligible: every step lies inside the model's fault regimes
func modelEligible(h *c12History) bool {
	for _, s := range h.Steps {
		if len(s.Data) > hugeLimit {
			return false
		}
		if s.Fsize != 0 {
			return false
		}
		if s.isPut() && s.Reader != "" && s.Plan != nil {
			return false
		}
		if !s.isPut() && s.Plan != nil {
			return false
		}
	}
	return true
}

// histModel runs the history through the faulty semantics of the model and compares.
func (rn *c12Runner) histModel(h *c12History, hr *histRun) string {
	keys := histKeys(h)
	reqs := []string{"reset"}
	{
		var uni []string
		seen := map[string]bool{}
		addU := func(c []byte) {
			if !seen[string(c)] {
				seen[string(c)] = true
				uni = append(uni, rn.m.ref(c))
			}
		}
		for _, s := range h.Steps {
			if s.isPut() {
				addU(s.Data)
				addU(pass2Of(s))
			}
		}
		for k, c := range h.Pre {
			if k[0] == 'd' && outHex(c) == k[2:] {
				addU(c)
			}
		}
		sort.Strings(uni)
		reqs = append(reqs, "universe "+strings.Join(uni, " "), "ids "+strings.Join(allIDsHex(), " "))
	}
	var preKeys []string
	for k := range h.Pre {
		preKeys = append(preKeys, k)
	}
	sort.Strings(preKeys)
	for _, k := range preKeys {
		c := h.Pre[k]
		if k[0] == 'd' {
			if hr := rn.m.hashReq(c); hr != "" {
				reqs = append(reqs, hr)
			}
		}
		reqs = append(reqs, fmt.Sprintf("dmg write %s %s %s", k[:1], k[2:], rn.m.ref(c)))
	}
	type at struct{ step, req int }
	var puts []at
	for k, st := range hr.resp.Hist {
		s := h.Steps[k]
		if !s.isPut() {
			continue
		}
		seek1, ok1, seek2 := 1, 1, 1
		pass1 := s.Data
		var chunks [][]byte
		switch s.Reader {
		case "", "honest":
			chunks = chunk32k(s.Data, len(s.Data)-1)
		case "diff2":
			chunks = chunk32k(pass2Of(s), len(s.Data)-1)
		default:
			if !st.Seek1 {
				seek1 = 0
			}
			if !st.Ok1 {
				ok1 = 0
			}
			pass1 = s.Data[:min(st.Pass1N, len(s.Data))]
			if !st.Seek2 && st.Seeks >= 2 {
				seek2 = 0
			}
			d2 := pass2Of(s)
			pos := 0
			for _, n := range st.Pass2 {
				if pos+n > len(d2) {
					break
				}
				chunks = append(chunks, d2[pos:pos+n])
				pos += n
			}
		}
		if hq := rn.m.hashReq(pass1); hq != "" {
			reqs = append(reqs, hq)
		}
		var crefs []string
		for _, c := range chunks {
			crefs = append(crefs, rn.m.ref(c))
		}
		kk, kind, j := -1, "fail", 0
		if s.Plan != nil {
			kk, kind, j = s.Plan.K, s.Plan.Kind, s.Plan.J
		}
		puts = append(puts, at{k, len(reqs)})
		if s.API == "putbytes" {
			reqs = append(reqs, fmt.Sprintf("putbf %d %s %d %s %d %s", kk, kind, j, idHex(s.ID), entryTm(st.Log), strings.Join(crefs, " ")))
		} else {
			reqs = append(reqs, fmt.Sprintf("putf %d %s %d %s %d %d %d %s %d %s", kk, kind, j, idHex(s.ID), entryTm(st.Log), seek1, ok1,
				rn.m.ref(pass1), seek2, strings.Join(crefs, " ")))
		}
	}
	lookAt := len(reqs)
	for _, id := range allIDsHex() {
		reqs = append(reqs, "get "+id, "getbytes "+id, "getfile "+id)
	}
	filesAt := len(reqs)
	for _, key := range keys {
		reqs = append(reqs, "file "+key[:1]+" "+key[2:])
	}
	ans := rn.modelBatch(reqs)
	if ans == nil || len(ans) != len(reqs) {
		return "model did not answer"
	}
	if os.Getenv("VERIF_CACHE_DEBUG") != "" {
		for i := range reqs {
			fmt.Fprintf(os.Stderr, "REQ %s\nANS %s\n", trunc(reqs[i]), trunc(ans[i]))
		}
	}
	for _, p := range puts {
		st := hr.resp.Hist[p.step]
		a, holds, fds := splitPutAnswer(ans[p.req])
		if holds != "" && holds != "true" {
			return fmt.Sprintf("step %d: the boolean form c12_holds_on of the C12 statement is %s on this step (model level)", p.step, holds)
		}
		if c := fdsDisagree(fds, st.Res, st.FdLeak); c != "" {
			return fmt.Sprintf("step %d: %s", p.step, c)
		}
		parts := strings.SplitN(a, " | ", 2)
		want := map[string]string{"ok": "DONE PUTOK", "err": "DONE PUT", "crash": "STOPPED"}[st.Res]
		if want == "" || !strings.HasPrefix(parts[0], want) || (st.Res == "err" && strings.HasPrefix(parts[0], "DONE PUTOK")) {
			return fmt.Sprintf("step %d: result: implementation %s, model %s", p.step, st.Res, parts[0])
		}
		var implTrace []string
		for _, o := range st.Log {
			implTrace = append(implTrace, shimOpString(o))
		}
		if pl := h.Steps[p.step].Plan; pl != nil && pl.Kind == "stopbefore" && len(implTrace) > 0 && st.Res == "crash" {
			implTrace = implTrace[:len(implTrace)-1]
		}
		mtrace := ""
		if len(parts) == 2 {
			mtrace = strings.TrimSpace(parts[1])
		}
		if strings.Join(implTrace, " ") != mtrace {
			return fmt.Sprintf("step %d: operation trace: implementation [%s], model [%s]", p.step, strings.Join(implTrace, " "), mtrace)
		}
	}
	if n := len(hr.resp.Hist); n > 0 {
		last := hr.resp.Hist[n-1].Lookups
		p := lookAt
		for i := range allIDsHex() {
			if i >= len(last) {
				break
			}
			l := last[i]
			for q, pair := range [][2]string{{l.Get, canonModel(ans[p], false)}, {l.GetBytes, canonModel(ans[p+1], true)}, {l.GetFile, canonModel(ans[p+2], true)}} {
				if pair[0] != pair[1] {
					return fmt.Sprintf("%s(id%d) after the history: implementation %s, model %s", []string{"Get", "GetBytes", "GetFile"}[q], i, trunc(pair[0]), trunc(pair[1]))
				}
			}
			p += 3
		}
	}
	for i, key := range keys {
		if hr.files[key] != ans[filesAt+i] {
			return fmt.Sprintf("content of %s-%s after the history: implementation %s, model %s", key[2:10], key[:1], trunc(hr.files[key]), trunc(ans[filesAt+i]))
		}
	}
	return ""
}

// runHistory: both runs, the oracles, the comparisons.  shimmed = plans and traces are available.
func (rn *c12Runner) runHistory(h *c12History, shimmed bool) {
	res := rn.res
	in := map[string]string{"history": h.String(), "name": h.Name}
	reused, err := rn.histOnce(h, true)
	if err != nil {
		violate(res, common.Violation{Kind: "correspondence", Oracle: "history", Input: in, Detail: "worker: " + err.Error(), Key: rn.keyPrefix() + ":hist:worker"})
		return
	}
	fresh, err := rn.histOnce(h, false)
	if err != nil {
		violate(res, common.Violation{Kind: "correspondence", Oracle: "history", Input: in, Detail: "worker: " + err.Error(), Key: rn.keyPrefix() + ":hist:worker"})
		return
	}
	res.Case("hist:"+h.String(), len(h.Steps) >= 2)
	res.Count(fmt.Sprintf("history:steps:%d", len(h.Steps)))
	for k, st := range reused.resp.Hist {
		res.Count("history:outcome:" + st.Res)
		s := h.Steps[k]
		if s.Plan != nil {
			res.Count("history:fault:" + s.Plan.Kind)
		}
		if s.Reader != "" {
			res.Count("history:reader:" + s.Reader)
		}
		if s.Fsize > 0 {
			res.Count("history:fsize")
		}
		res.Count("history:api:" + apiName(s.API))
	}
	seen := map[string]bool{}
	for _, fd := range append(histOracles(h, reused.resp, "one Cache value for all steps"), histOracles(h, fresh.resp, "a fresh Cache value per step")...) {
		if seen[fd.oracle] {
			continue
		}
		seen[fd.oracle] = true
		violate(res, common.Violation{Kind: "impl-violation", Oracle: fd.oracle, Input: in, Detail: fd.detail,
			Key: rn.keyPrefix() + ":hist:" + fd.oracle + ":" + h.String()})
	}
	// no state beside the files
	diff := ""
	if len(reused.resp.Hist) != len(fresh.resp.Hist) {
		diff = fmt.Sprintf("the history ran %d steps on one Cache value and %d steps on fresh ones", len(reused.resp.Hist), len(fresh.resp.Hist))
	}
	for k := 0; diff == "" && k < len(reused.resp.Hist); k++ {
		a, b := reused.resp.Hist[k], fresh.resp.Hist[k]
		if a.Res != b.Res {
			diff = fmt.Sprintf("step %d ends %s on the reused Cache value and %s on a fresh one", k, a.Res, b.Res)
			break
		}
		var ta, tb []string
		for _, o := range a.Log {
			ta = append(ta, shimOpString(o))
		}
		for _, o := range b.Log {
			tb = append(tb, shimOpString(o))
		}
		if strings.Join(ta, " ") != strings.Join(tb, " ") {
			diff = fmt.Sprintf("step %d performs [%s] on the reused Cache value and [%s] on a fresh one", k, strings.Join(ta, " "), strings.Join(tb, " "))
		}
	}
	if diff == "" {
		for _, k := range histKeys(h) {
			if reused.masked[k] != fresh.masked[k] {
				diff = fmt.Sprintf("after the history %s-%s holds %s when one Cache value was used and %s with a fresh one per step (time fields blanked)", k[2:10], k[:1], trunc(reused.masked[k]), trunc(fresh.masked[k]))
				break
			}
		}
	}
	if diff != "" {
		violate(res, common.Violation{Kind: "correspondence", Oracle: "cache-value-state", Input: in,
			Detail: "a Put depends on more than the files (the model's put is a function of the file map): " + diff, Key: rn.keyPrefix() + ":hist:state:" + h.String()})
	}
	if shimmed && modelEligible(h) {
		res.Count("history:model-compared")
		if c := rn.histModel(h, fresh); c != "" {
			violate(res, common.Violation{Kind: "correspondence", Oracle: "faulty-history", Input: in, Detail: c, Key: rn.keyPrefix() + ":hist:corr:" + h.String()})
		}
	}
}

// ---- descriptor exhaustion

type repeatCase struct {
	Name   string
	Pre    map[string][]byte
	Step   hStep
	N      int
	Nofile int
}

func (rc *repeatCase) String() string {
	h := c12History{Pre: rc.Pre, Steps: []hStep{rc.Step}, Undamaged: true}
	return fmt.Sprintf("%d;%d;%s", rc.N, rc.Nofile, h.String())
}

func parseRepeat(s string) *repeatCase {
	p := strings.SplitN(s, ";", 3)
	if len(p) != 3 {
		return nil
	}
	h := parseC12History(p[2])
	if h == nil || len(h.Steps) != 1 {
		return nil
	}
	rc := &repeatCase{Name: "replay", Pre: h.Pre, Step: h.Steps[0]}
	rc.N, _ = strconv.Atoi(p[0])
	rc.Nofile, _ = strconv.Atoi(p[1])
	return rc
}

var victimData = []byte("the victim entry: intact, stored before, never touched again")

func (rn *c12Runner) runRepeat(rc *repeatCase) {
	res := rn.res
	rn.materialize(rc.Pre)
	victim := idHex(3)
	in := map[string]string{"repeat": rc.String(), "name": rc.Name, "victim": "id3 = " + fmt.Sprintf("%q", victimData)}
	// the victim's files are the runner's to clean up
	rn.touched[realPath(rn.dir, "a:"+victim)] = true
	rn.touched[realPath(rn.dir, "d:"+outHex(victimData))] = true
	rn.touched[realPath(rn.dir, "d:"+outHex(rc.Step.Data))] = true
	rn.touched[realPath(rn.dir, "a:"+idHex(rc.Step.ID))] = true
	resp, err := rn.w.call(map[string]any{"cmd": "repeat", "id": victim, "data": hex.EncodeToString(victimData),
		"steps": []map[string]any{stepJSON(rc.Step)}, "n": rc.N, "nofile": rc.Nofile})
	if err != nil {
		violate(res, common.Violation{Kind: "correspondence", Oracle: "repeat", Input: in, Detail: "worker: " + err.Error(), Key: rn.keyPrefix() + ":repeat:worker"})
		return
	}
	res.Case("repeat:"+rc.String(), true)
	res.Count("repeat:" + strings.SplitN(rc.Name, "/", 2)[0])
	if resp.Res != "ok" || len(resp.Before) != 1 || len(resp.Lookups) != 1 {
		res.Count("repeat:not-run")
		return
	}
	if resp.Err != "" {
		res.Count("repeat:limit-not-lowered")
	}
	want := "F " + showBytes(victimData) + " " + outHex(victimData) + " "
	if !strings.HasPrefix(resp.Before[0].GetBytes, want) {
		return // the victim could not even be stored: nothing to conclude here
	}
	s := rc.Step
	call := fmt.Sprintf("%s(id%d, %d bytes, source %s, plan %s)", apiName(s.API), s.ID, len(s.Data), orHonest(s.Reader), s.Plan.String())
	if !s.isPut() {
		call = fmt.Sprintf("%s(id%d)", s.API, s.ID)
	}
	first, last := "", ""
	if len(resp.Hist) > 0 {
		first, last = resp.Hist[0].Res, resp.Hist[len(resp.Hist)-1].Res
		if resp.Hist[len(resp.Hist)-1].Err != "" {
			last += " (" + trunc(resp.Hist[len(resp.Hist)-1].Err) + ")"
		}
	}
	if strings.HasPrefix(resp.Lookups[0].GetBytes, "F ") && !strings.HasPrefix(resp.Lookups[0].GetBytes, want) {
		violate(res, common.Violation{Kind: "impl-violation", Oracle: "stored-then-other-bytes", Input: in,
			Detail: fmt.Sprintf("an intact entry (id3) was stored and read back (the caller then reused the slice it was given); then %s was called %d times on the same Cache value; now GetBytes(id3) = %s, which is not what was stored", call, rc.N, trunc(resp.Lookups[0].GetBytes)),
			Key:    rn.keyPrefix() + ":repeat:other-bytes:" + rc.String()})
	} else if !strings.HasPrefix(resp.Lookups[0].GetBytes, want) || !strings.HasPrefix(resp.Lookups[0].GetFile, "F ") {
		violate(res, common.Violation{Kind: "impl-violation", Oracle: "descriptor-exhaustion", Input: in,
			Detail: fmt.Sprintf("an intact entry (id3) was stored and read back; then %s was called %d times on the same Cache value (collector off, RLIMIT_NOFILE %d above the descriptors in use; first call: %s, last call: %s; descriptors open: %d before, %d after); now GetBytes(id3) = %s and GetFile(id3) = %s: calls that all returned have made an unrelated, intact entry unreadable",
				call, rc.N, rc.Nofile, first, last, resp.NfdB, resp.NfdA, trunc(resp.Lookups[0].GetBytes), resp.Lookups[0].GetFile),
			Key: rn.keyPrefix() + ":repeat:exhaustion:" + rc.String()})
	}
	for _, st := range resp.Hist {
		if st.FdLeak != "" && st.Res != "crash" {
			violate(res, common.Violation{Kind: "impl-violation", Oracle: "fd-baseline", Input: in,
				Detail: call + " returned (" + st.Res + ") with descriptors still open: " + st.FdLeak, Key: rn.keyPrefix() + ":repeat:fd:" + rc.String()})
			break
		}
	}
}

// ---- generation

var histX = c12pat(300, 21)
var histY = c12pat(300, 77)
var histZ = []byte("pq")

var readerKinds = []struct {
	spec string
	r    func(n int) int
}{
	{"", func(n int) int { return 0 }},
	{"err1", func(n int) int { return n / 2 }},
	{"err2", func(n int) int { return n / 2 }},
	{"eof2", func(n int) int { return n - 1 }},
	{"diff2", func(n int) int { return 0 }},
	{"diff2", func(n int) int { return n - 1 }},
	{"seek2", func(n int) int { return 0 }},
}

func sharedPre(d []byte, id int, tm int64) map[string][]byte {
	return map[string][]byte{"a:" + idHex(id): entryBytes(id, d, tm), "d:" + outHex(d): d}
}

func c12Histories(tier string, seed uint64, shimmed bool) []c12History {
	var out []c12History
	// A. three Puts of ONE content under three ids, every source behaviour at every step
	for _, d := range [][]byte{histX, histZ} {
		for a, ka := range readerKinds {
			for b, kb := range readerKinds {
				for c, kc := range readerKinds {
					out = append(out, c12History{Name: fmt.Sprintf("three-puts/%d%d%d/size%d", a, b, c, len(d)), Pre: map[string][]byte{}, Undamaged: true,
						Steps: []hStep{{ID: 0, Data: d, Reader: ka.spec, R: ka.r(len(d))}, {ID: 1, Data: d, Reader: kb.spec, R: kb.r(len(d))}, {ID: 2, Data: d, Reader: kc.spec, R: kc.r(len(d))}}})
				}
			}
		}
	}
	// A'. the same with PutNoVerify as the entry point of the last step
	for a, ka := range readerKinds {
		for c, kc := range readerKinds {
			d := histZ
			out = append(out, c12History{Name: fmt.Sprintf("three-puts-noverify/%d%d/size%d", a, c, len(d)), Pre: map[string][]byte{}, Undamaged: true,
				Steps: []hStep{{ID: 0, Data: d, Reader: ka.spec, R: ka.r(len(d))}, {ID: 1, Data: d}, {API: "putnoverify", ID: 2, Data: d, Reader: kc.spec, R: kc.r(len(d))}}})
		}
	}
	// B. the output of the faulty call is already stored for id3: every source behaviour, and (through
	// the shim) every fault kind at each of the first operations, by Put and by PutBytes; then a healthy Put
	for _, d := range [][]byte{histX, histZ, {}} {
		for _, api := range []string{"", "putbytes", "putnoverify"} {
			var faulty []hStep
			for _, k := range readerKinds {
				if api == "putbytes" && k.spec != "" {
					continue
				}
				if len(d) == 0 && k.spec != "" {
					continue
				}
				faulty = append(faulty, hStep{API: api, ID: 0, Data: d, Reader: k.spec, R: k.r(len(d))})
			}
			if shimmed && api != "putnoverify" {
				for k := 0; k < 14; k++ {
					for _, kind := range []string{"fail", "stopafter", "short", "torn"} {
						faulty = append(faulty, hStep{API: api, ID: 0, Data: d, Plan: &c12Plan{k, kind, 1}})
					}
				}
			}
			for _, fs := range faulty {
				out = append(out, c12History{Name: fmt.Sprintf("shared-output/%s/size%d", apiName(api), len(d)), Pre: sharedPre(d, 3, 1700000000000000021), Undamaged: true,
					Steps: []hStep{fs, {ID: 1, Data: histY}}})
			}
		}
	}
	// B'. the same with an output past 1 MiB (source behaviours only; direct oracles only)
	for _, d := range hugeContents("quick") {
		for _, api := range []string{"", "putnoverify"} {
			for _, k := range readerKinds {
				r := k.r(len(d))
				out = append(out, c12History{Name: fmt.Sprintf("shared-output/%s/size%d", apiName(api), len(d)), Pre: sharedPre(d, 3, 1700000000000000025), Undamaged: true,
					Steps: []hStep{{API: api, ID: 0, Data: d, Reader: k.spec, R: r}, {ID: 1, Data: histY}}})
			}
		}
	}
	// C. a file-size limit (every write beyond it fails): new entry, overwrite, shared output; then a healthy Put of the same content
	for _, lim := range []int64{0, 1, 100, 174, 175, 176, 250, 299, 300} {
		for _, api := range []string{"", "putbytes"} {
			for pi, pre := range []map[string][]byte{{}, sharedPre(histY, 0, 1700000000000000022), sharedPre(histX, 3, 1700000000000000023)} {
				out = append(out, c12History{Name: fmt.Sprintf("fsize%d/%s/pre%d", lim, apiName(api), pi), Pre: pre, Undamaged: true,
					Steps: []hStep{{API: api, ID: 0, Data: histX, Fsize: lim + 1}, {ID: 1, Data: histX}, {API: "getbytes", ID: 0}}})
			}
		}
	}
	// D. random histories of 2-4 steps
	n := 300
	if tier == "thorough" {
		n = 6000
	}
	r := common.NewRNG(seed ^ 0xc12c12)
	conts := [][]byte{histX, histY, histZ, {}, histX, histX}
	for i := 0; i < n; i++ {
		h := c12History{Name: "random", Pre: map[string][]byte{}, Undamaged: true}
		switch r.Intn(4) {
		case 0:
			h.Pre = sharedPre(histX, 3, 1700000000000000024)
		case 1:
			h.Pre = map[string][]byte{"d:" + outHex(histX): histX[:150]}
		}
		for k := 2 + r.Intn(3); k > 0; k-- {
			s := hStep{ID: r.Intn(3), Data: common.Pick(r, conts)}
			switch r.Intn(10) {
			case 0:
				s.API = []string{"getbytes", "getfile", "get"}[r.Intn(3)]
				s.Data = nil
			case 1, 2, 3:
				s.API = "putbytes"
			case 4:
				s.API = "putnoverify"
			}
			if s.isPut() {
				switch x := r.Intn(10); {
				case x < 3 && s.API != "putbytes" && len(s.Data) > 0:
					k := common.Pick(r, readerKinds[1:])
					s.Reader, s.R = k.spec, r.Intn(len(s.Data))
				case x < 7 && shimmed:
					s.Plan = &c12Plan{r.Intn(16), common.Pick(r, []string{"fail", "short", "stopbefore", "stopafter", "torn"}), common.Pick(r, []int{0, 1, 150, 299})}
				case x == 7:
					s.Fsize = 1 + int64(common.Pick(r, []int{0, 1, 100, 175, 176, 299}))
				}
			}
			h.Steps = append(h.Steps, s)
		}
		out = append(out, h)
	}
	return out
}

func c12Repeats(shimmed bool) []repeatCase {
	const n, spare = 40, 24
	var out []repeatCase
	add := func(name string, pre map[string][]byte, s hStep) {
		out = append(out, repeatCase{Name: name, Pre: pre, Step: s, N: n, Nofile: spare})
	}
	for _, d := range [][]byte{histX, {}} {
		tag := fmt.Sprintf("size%d", len(d))
		for _, api := range []string{"", "putbytes"} {
			add("restore-same-id/"+apiName(api)+"/"+tag, sharedPre(d, 0, 1700000000000000031), hStep{API: api, ID: 0, Data: d})
			add("store-shared-output/"+apiName(api)+"/"+tag, sharedPre(d, 1, 1700000000000000032), hStep{API: api, ID: 0, Data: d})
			add("store-new/"+apiName(api)+"/"+tag, map[string][]byte{}, hStep{API: api, ID: 0, Data: d})
		}
	}
	for _, k := range readerKinds[1:] {
		add("failing-source/"+k.spec, map[string][]byte{}, hStep{ID: 0, Data: histX, Reader: k.spec, R: k.r(len(histX))})
		add("failing-source-shared/"+k.spec, sharedPre(histX, 1, 1700000000000000033), hStep{ID: 0, Data: histX, Reader: k.spec, R: k.r(len(histX))})
	}
	flip := append([]byte{}, histX...)
	flip[7] ^= 1
	for _, lk := range []string{"getbytes", "getfile", "get"} {
		add("lookup-hit/"+lk, sharedPre(histX, 0, 1700000000000000034), hStep{API: lk, ID: 0})
		add("lookup-miss/"+lk, map[string][]byte{}, hStep{API: lk, ID: 0})
		add("lookup-damaged/"+lk, map[string][]byte{"a:" + idHex(0): entryBytes(0, histX, 1700000000000000035), "d:" + outHex(histX): flip}, hStep{API: lk, ID: 0})
		add("lookup-bad-entry/"+lk, map[string][]byte{"a:" + idHex(0): []byte("v1 garbage")}, hStep{API: lk, ID: 0})
	}
	if shimmed {
		// a failing file operation at each point of a storing and of a re-storing Put
		for k := 0; k < 16; k++ {
			for _, kind := range []string{"fail", "short"} {
				add(fmt.Sprintf("failing-operation/new/%s", kind), map[string][]byte{}, hStep{ID: 0, Data: histX, Plan: &c12Plan{k, kind, 1}})
				add(fmt.Sprintf("failing-operation/shared/%s", kind), sharedPre(histX, 1, 1700000000000000036), hStep{ID: 0, Data: histX, Plan: &c12Plan{k, kind, 1}})
			}
		}
	}
	return out
}

// histShards starts the shards of a history / repeat run.
func histShards(f *common.Flags, res *common.Result, bin string, base int) ([]*c12Runner, func()) {
	ns := c12Shards()
	var shards []*c12Runner
	var dones []func()
	for i := 0; i < ns; i++ {
		rn, done, err := newC12Shard(f, bin, base+i, nil, keyPrefixOf(res))
		if err != nil {
			res.Notes = append(res.Notes, "histories: cannot start a worker: "+err.Error())
			break
		}
		dones = append(dones, done)
		shards = append(shards, rn)
	}
	return shards, func() {
		for _, d := range dones {
			d()
		}
	}
}

const histUnit = 40

// runC12Histories runs the histories and the descriptor-exhaustion cases on bin (the shimmed
// worker, or the worker built from the unmodified package: then without plans, traces and model).
func runC12Histories(f *common.Flags, res *common.Result, bin string, shimmed bool) string {
	hs := c12Histories(f.Tier, f.Seed, shimmed)
	shards, done := histShards(f, res, bin, 100)
	defer done()
	if len(shards) == 0 {
		return "no histories (no worker)"
	}
	nu := (len(hs) + histUnit - 1) / histUnit
	order := make([]int, nu)
	for i := range order {
		order[i] = i
	}
	recs := make([]*recorder, nu)
	parallelUnits(len(shards), order, func(sh, u int) {
		recs[u] = newRecorder()
		rn := shards[sh]
		rn.res = recs[u]
		for i := u * histUnit; i < (u+1)*histUnit && i < len(hs); i++ {
			rn.runHistory(&hs[i], shimmed)
		}
	})
	for _, r := range recs {
		if r != nil {
			r.mergeInto(res)
		}
	}
	return fmt.Sprintf("%d histories of 2-4 calls on ONE Cache value and, from the same files, on a fresh Cache value per call (three Puts of one content under three ids with every source behaviour at every step; a faulty Put / PutBytes whose output is already stored for another id, with every source behaviour and every fault kind at each of its first 14 operations, followed by a healthy Put; RLIMIT_FSIZE at 9 limits around the entry and content sizes; random histories mixing Put / PutBytes / PutNoVerify / lookups, source faults, file-operation faults, size limits and pre-states), with after EVERY step: every previously readable unrelated id unchanged, checksum / size / exact-file oracles, successful Put followed by exact lookups, descriptors back at their baseline; reused and fresh runs agree step by step and in the final files, and the histories inside the model's fault regimes agree with its faulty semantics (result, trace, lookups, files); ", len(hs)) + runRepeats(f, res, bin, shimmed)
}

// runRepeats runs the descriptor-exhaustion cases.
func runRepeats(f *common.Flags, res *common.Result, bin string, shimmed bool) string {
	rcs := c12Repeats(shimmed)
	shards, done := histShards(f, res, bin, 200)
	defer done()
	if len(shards) == 0 {
		return "no descriptor-exhaustion cases (no worker)"
	}
	nu := (len(rcs) + histUnit - 1) / histUnit
	order := make([]int, nu)
	for i := range order {
		order[i] = i
	}
	recs := make([]*recorder, nu)
	parallelUnits(len(shards), order, func(sh, u int) {
		recs[u] = newRecorder()
		rn := shards[sh]
		rn.res = recs[u]
		for i := u * histUnit; i < (u+1)*histUnit && i < len(rcs); i++ {
			rn.runRepeat(&rcs[i])
		}
	})
	for _, r := range recs {
		if r != nil {
			r.mergeInto(res)
		}
	}
	return fmt.Sprintf("%d descriptor-exhaustion cases (a call repeated %d times on one Cache value with the collector off and RLIMIT_NOFILE %d above the descriptors in use: re-stores, stores of an already stored output, failing sources, failing file operations, hits and misses of every lookup; an intact entry stored beforehand must stay readable, and every call that returns leaves the descriptors it found)", len(rcs), 40, 24)
}

func keyPrefixOf(res *common.Result) string { return strings.ToLower(res.Property) }

func replayC12History(f *common.Flags, res *common.Result, shim, real string, in map[string]string) {
	bin, shimmed := shim, true
	if bin == "" {
		bin, shimmed = real, false
	}
	rn, done, err := newC12Shard(f, bin, 0, res, keyPrefixOf(res))
	if err != nil {
		res.Notes = append(res.Notes, "cannot start the worker: "+err.Error())
		return
	}
	defer done()
	if h := parseC12History(in["history"]); h != nil {
		rn.runHistory(h, shimmed)
	}
	if rc := parseRepeat(in["repeat"]); rc != nil {
		rn.runRepeat(rc)
	}
}

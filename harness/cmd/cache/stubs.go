package main

import "verif/harness/common"

func runC11(f *common.Flags, res *common.Result, m *mdl) { res.Rule = "not built yet" }

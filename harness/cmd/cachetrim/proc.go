package main

// Two-process blocks.  The helper is this binary, re-executed with VERIF_C13_HELPER set; it
// opens the cache directory like any other user of it (real clock) and either looks entries
// up or trims.
//
//   concurrent: all entries are six days old.  Process A looks the first third up and exits.
//     Then process B (Trim) and process C (lookups of the second third) run at the same time;
//     the last third is left alone.  Oracles: every file of the first third is there and fresh
//     (a lookup that completed before the trim started protects the entry); every file of the
//     last third is gone; a file of the second third may be there or not, but whatever is left
//     at the end is fresh (the trim removes every stale file it sees, a lookup refreshes).
//   killed: half of the entries are six days old, half one day; the trimming process is killed
//     after a random delay.  Oracles (trim_partial_safe): every one-day-old file and every
//     foreign file is there, only six-day-old entries are gone, and unless the trim finished
//     trim.txt is unchanged; a Trim run afterwards (trim_resume) removes exactly the rest.
//   record-locked: a trim completed an hour ago (trim.txt says so); stale entries exist.  The
//     record is being rewritten the way every Trim rewrites it -- lockedfile.Write: take the
//     write lock, truncate, write -- and is held in the truncated state for a while; a Trim in
//     another process starts meanwhile.  "Does nothing at all if a trim completed less than a
//     day ago": it must wait for the record and then leave every file where it is.

import (
	"bufio"
	"bytes"
	"fmt"
	"os"
	"os/exec"
	"path/filepath"
	"strconv"
	"strings"
	"time"

	"github.com/rogpeppe/go-internal/cache"
	"github.com/rogpeppe/go-internal/lockedfile"

	"verif/harness/common"
)

func helperMain(mode string) {
	args := os.Args[1:]
	if len(args) < 1 {
		os.Exit(2)
	}
	c, err := cache.Open(args[0])
	if err != nil {
		fmt.Println("open-error", err)
		os.Exit(2)
	}
	switch mode {
	case "lookup":
		w := bufio.NewWriter(os.Stdout)
		for _, a := range args[1:] {
			k, _ := strconv.Atoi(a)
			data, _, err := c.GetBytes(actionID(k))
			switch {
			case err != nil:
				fmt.Fprintf(w, "%d miss\n", k)
			case !bytes.Equal(data, content(k)):
				fmt.Fprintf(w, "%d wrong\n", k)
			default:
				fmt.Fprintf(w, "%d hit\n", k)
			}
		}
		w.Flush()
	case "trim":
		if err := c.Trim(); err != nil {
			fmt.Println("trim-error", err)
		} else {
			fmt.Println("trim-ok")
		}
	}
}

func helperCmd(mode, dir string, ids []int) *exec.Cmd {
	args := []string{dir}
	for _, k := range ids {
		args = append(args, strconv.Itoa(k))
	}
	cmd := exec.Command(os.Args[0], args...)
	cmd.Env = append(os.Environ(), "VERIF_C13_HELPER="+mode)
	return cmd
}

// procDir makes the cache directory of a two-process round: a plain name on even rounds, a name
// with glob / printf metacharacters and a blank on odd ones (the helper processes get it as an
// argument).
func procDir(work, base string, round int) (string, error) {
	if round%2 == 1 {
		base += " [r]?%d{x}-"
	}
	return os.MkdirTemp(work, base)
}

type procEntry struct {
	id     int
	pa, pd string
}

func (rn *runner) procPopulation(dir string, first, n int, age func(i int) time.Duration) ([]procEntry, error) {
	c, err := cache.Open(dir)
	if err != nil {
		return nil, err
	}
	var ents []procEntry
	now := time.Now()
	for i := 0; i < n; i++ {
		k := first + i
		if err := c.PutBytes(actionID(k), content(k)); err != nil {
			return nil, err
		}
		ia, na := indexPath(k)
		id, nd := dataPathOf(outputID(k))
		e := procEntry{id: k, pa: filepath.Join(dir, subName(ia), na), pd: filepath.Join(dir, subName(id), nd)}
		t := now.Add(-age(i))
		os.Chtimes(e.pa, t, t)
		os.Chtimes(e.pd, t, t)
		ents = append(ents, e)
	}
	return ents, nil
}

func fileAge(p string, now time.Time) (time.Duration, bool) {
	fi, err := os.Stat(p)
	if err != nil {
		return 0, false
	}
	return now.Sub(fi.ModTime()), true
}

func (rn *runner) procFinding(kind, oracle, key, detail string) {
	rn.res.Count("finding:" + oracle)
	rn.res.Violate(common.Violation{Kind: kind, Oracle: oracle, Key: key,
		Input: map[string]string{"source": "process-blocks", "text": "two-process block of the C13 runner (re-run with --replay)"}, Detail: detail})
}

func (rn *runner) concurrentRound(r *common.RNG, round int) {
	dir, err := procDir(rn.work, "conc", round)
	if err != nil {
		return
	}
	defer os.RemoveAll(dir)
	n := 900
	ents, err := rn.procPopulation(dir, 100000+round*10000, n, func(int) time.Duration { return 6 * 24 * time.Hour })
	if err != nil {
		rn.res.Notes = append(rn.res.Notes, "concurrent round: setup failed: "+err.Error())
		return
	}
	third := n / 3
	ids := func(l []procEntry) []int {
		var out []int
		for _, e := range l {
			out = append(out, e.id)
		}
		return out
	}
	// A: completes before the trim starts
	outA, err := helperCmd("lookup", dir, ids(ents[:third])).Output()
	if err != nil {
		rn.res.Notes = append(rn.res.Notes, "concurrent round: helper failed: "+err.Error())
		return
	}
	if strings.Count(string(outA), " hit") != third {
		rn.procFinding("impl-violation", "conc/lookup", "first-third-miss", "lookups of untouched six-day-old entries did not all hit: "+firstLines(string(outA), 3))
	}
	// B and C at the same time
	trimCmd := helperCmd("trim", dir, nil)
	lookCmd := helperCmd("lookup", dir, ids(ents[third:2*third]))
	var bufB, bufC bytes.Buffer
	trimCmd.Stdout, lookCmd.Stdout = &bufB, &bufC
	start := time.Now()
	if r.Bool() {
		trimCmd.Start()
		lookCmd.Start()
	} else {
		lookCmd.Start()
		trimCmd.Start()
	}
	trimCmd.Wait()
	lookCmd.Wait()
	now := time.Now()
	if !strings.Contains(bufB.String(), "trim-ok") {
		rn.procFinding("correspondence", "conc/trim", "trim-failed", "the trimming process said: "+bufB.String())
	}
	hits := strings.Count(bufC.String(), " hit")
	if strings.Contains(bufC.String(), " wrong") {
		rn.procFinding("impl-violation", "conc/lookup", "wrong-bytes", "a lookup concurrent with Trim returned bytes that were never stored")
	}
	fresh := func(p string) (present, ok bool) {
		a, there := fileAge(p, now)
		if !there {
			return false, true
		}
		return true, a < now.Sub(start)+time.Hour+time.Minute
	}
	survived, removed := 0, 0
	for i, e := range ents {
		for _, p := range []string{e.pa, e.pd} {
			present, isFresh := fresh(p)
			switch {
			case i < third:
				if !present || !isFresh {
					rn.procFinding("impl-violation", "conc/lookup-before-trim", "completed-lookup-lost",
						fmt.Sprintf("entry %d was looked up (hit) by a process that exited before the trimming process started, yet %s is present=%v fresh=%v", e.id, filepath.Base(p), present, isFresh))
				}
			case i >= 2*third:
				if present {
					rn.procFinding("impl-violation", "conc/stale-removed", "stale-survived",
						fmt.Sprintf("entry %d, six days old and never looked up, survived the trim (%s)", e.id, filepath.Base(p)))
				}
			default:
				if present {
					survived++
					if !isFresh {
						rn.procFinding("impl-violation", "conc/survivor-fresh", "stale-survivor",
							fmt.Sprintf("after Trim and the concurrent lookups both finished, %s of entry %d is still there with its six-day-old mtime", filepath.Base(p), e.id))
					}
				} else {
					removed++
				}
			}
		}
	}
	if b, err := os.ReadFile(filepath.Join(dir, "trim.txt")); err != nil || len(b) == 0 {
		rn.procFinding("impl-violation", "conc/record", "no-record", "no trim.txt after the trimming process finished")
	}
	rn.res.Case(fmt.Sprintf("conc-round %d", round), true)
	rn.res.Count("conc:rounds")
	rn.res.Distribution["conc:overlap-files-survived"] += survived
	rn.res.Distribution["conc:overlap-files-removed"] += removed
	rn.res.Distribution["conc:overlap-lookups-hit"] += hits
	rn.res.Distribution["conc:overlap-lookups-miss"] += third - hits
}

func (rn *runner) killedRound(r *common.RNG, round int) {
	dir, err := procDir(rn.work, "kill", round)
	if err != nil {
		return
	}
	defer os.RemoveAll(dir)
	n := 1200
	ents, err := rn.procPopulation(dir, 300000+round*10000, n, func(i int) time.Duration {
		if i%2 == 0 {
			return 6 * 24 * time.Hour
		}
		return 24 * time.Hour
	})
	if err != nil {
		rn.res.Notes = append(rn.res.Notes, "killed round: setup failed: "+err.Error())
		return
	}
	old := time.Now().Add(-30 * 24 * time.Hour)
	foreign := []string{filepath.Join(dir, "README"), filepath.Join(dir, "00", "notes"), filepath.Join(dir, "80", "x-b"), filepath.Join(dir, "ff", "log.txt")}
	for _, p := range foreign {
		os.WriteFile(p, []byte("foreign"), 0o666)
		os.Chtimes(p, old, old)
	}
	record := []byte("12345\n")
	os.WriteFile(filepath.Join(dir, "trim.txt"), record, 0o666)
	cmd := helperCmd("trim", dir, nil)
	var buf bytes.Buffer
	cmd.Stdout = &buf
	cmd.Start()
	time.Sleep(time.Duration(r.Intn(12000)) * time.Microsecond)
	cmd.Process.Kill()
	cmd.Wait()
	finished := strings.Contains(buf.String(), "trim-ok")
	rec, _ := os.ReadFile(filepath.Join(dir, "trim.txt"))
	gone := 0
	for i, e := range ents {
		for _, p := range []string{e.pa, e.pd} {
			_, there := fileAge(p, time.Now())
			if i%2 == 1 && !there {
				rn.procFinding("impl-violation", "killed/keep-recent", "recent-lost",
					fmt.Sprintf("the interrupted Trim removed %s of entry %d, which was one day old", filepath.Base(p), e.id))
			}
			if i%2 == 0 && !there {
				gone++
			}
		}
	}
	for _, p := range foreign {
		if b, err := os.ReadFile(p); err != nil || string(b) != "foreign" {
			rn.procFinding("impl-violation", "killed/non-entry-untouched", "foreign-lost", "the interrupted Trim touched "+p)
		}
	}
	if !bytes.Equal(rec, record) {
		// the record may only change once every stale entry is gone
		if gone != n {
			rn.procFinding("impl-violation", "killed/record-last", "record-before-scan-end",
				fmt.Sprintf("trim.txt was rewritten (%q) although only %d of %d stale files were gone", rec, gone, n))
		}
		rn.res.Count("killed:trim-finished")
	} else if finished {
		rn.procFinding("impl-violation", "killed/record-last", "finished-without-record", "the trimming process reported success but trim.txt is unchanged")
	} else {
		rn.res.Count(fmt.Sprintf("killed:interrupted-after-%s", bucketFrac(gone, n)))
	}
	// resume: a Trim in this process finishes the job
	c, err := cache.Open(dir)
	if err == nil {
		if bytes.Equal(rec, record) {
			if err := c.Trim(); err != nil {
				rn.procFinding("correspondence", "killed/resume", "resume-error", err.Error())
			}
		}
		for i, e := range ents {
			for _, p := range []string{e.pa, e.pd} {
				_, there := fileAge(p, time.Now())
				if there != (i%2 == 1) {
					rn.procFinding("impl-violation", "killed/resume", "resume-wrong",
						fmt.Sprintf("after the next Trim %s of entry %d (age %s) is present=%v", filepath.Base(p), e.id, map[bool]string{true: "1 day", false: "6 days"}[i%2 == 1], there))
				}
			}
		}
		if b, _ := os.ReadFile(filepath.Join(dir, "trim.txt")); bytes.Equal(b, record) {
			rn.procFinding("impl-violation", "killed/resume", "resume-no-record", "the Trim after the interrupted one did not rewrite trim.txt")
		}
	}
	rn.res.Case(fmt.Sprintf("killed-round %d", round), true)
	rn.res.Count("killed:rounds")
}

func (rn *runner) lockedRound(r *common.RNG, round int) {
	dir, err := procDir(rn.work, "lock", round)
	if err != nil {
		return
	}
	defer os.RemoveAll(dir)
	n := 60
	ents, err := rn.procPopulation(dir, 500000+round*10000, n, func(int) time.Duration { return 6*24*time.Hour + time.Duration(round)*time.Hour })
	if err != nil {
		rn.res.Notes = append(rn.res.Notes, "record-locked round: setup failed: "+err.Error())
		return
	}
	trimPath := filepath.Join(dir, "trim.txt")
	// a trim completed an hour (round 0), 23 hours (round 1), a minute (round 2) ... ago
	ago := []time.Duration{time.Hour, 23 * time.Hour, time.Minute, 12 * time.Hour}[round%4]
	record := []byte(strconv.FormatInt(time.Now().Add(-ago).Unix(), 10))
	if err := os.WriteFile(trimPath, record, 0o666); err != nil {
		return
	}
	// the writer of the record: lock, truncate (what lockedfile.Write does), hold, write, unlock
	f, err := lockedfile.OpenFile(trimPath, os.O_WRONLY|os.O_CREATE|os.O_TRUNC, 0o666)
	if err != nil {
		rn.res.Notes = append(rn.res.Notes, "record-locked round: cannot lock trim.txt: "+err.Error())
		return
	}
	hold := time.Duration(150+r.Intn(250)) * time.Millisecond
	done := make(chan struct{})
	go func() {
		time.Sleep(hold)
		f.Write(record)
		f.Close()
		close(done)
	}()
	var buf bytes.Buffer
	cmd := helperCmd("trim", dir, nil)
	cmd.Stdout = &buf
	start := time.Now()
	rerr := cmd.Run()
	took := time.Since(start)
	<-done
	if rerr != nil || !strings.Contains(buf.String(), "trim-ok") {
		rn.procFinding("correspondence", "locked/trim", "locked-trim-failed", "the trimming process said: "+buf.String())
	}
	gone := 0
	var first string
	for _, e := range ents {
		for _, p := range []string{e.pa, e.pd} {
			if _, there := fileAge(p, time.Now()); !there {
				gone++
				if first == "" {
					first = filepath.Base(p)
				}
			}
		}
	}
	rec, _ := os.ReadFile(trimPath)
	if gone > 0 {
		rn.procFinding("impl-violation", "locked/recent-trim-noop", "trim-during-record-write",
			fmt.Sprintf("trim.txt recorded a trim completed %v ago (%q before, %q after); while that record was being rewritten under its lock (lock, truncate, %v, write -- the steps of lockedfile.Write) a Trim in another process ran for %v and removed %d files (first: %s) although a trim completed less than a day ago", ago, record, rec, hold, took.Round(time.Millisecond), gone, first))
	}
	rn.res.Case(fmt.Sprintf("locked-round %d", round), true)
	rn.res.Count("locked:rounds")
	if took >= hold-20*time.Millisecond {
		rn.res.Count("locked:trim-waited-for-the-record")
	} else {
		rn.res.Count("locked:trim-did-not-wait")
	}
}

func bucketFrac(a, n int) string {
	switch {
	case a == 0:
		return "0%"
	case a*4 < n:
		return "<25%"
	case a*4 < 3*n:
		return "25-75%"
	case a < n:
		return ">75%"
	}
	return "100%"
}

func firstLines(s string, n int) string {
	l := strings.SplitN(s, "\n", n+1)
	if len(l) > n {
		l = l[:n]
	}
	return strings.Join(l, " | ")
}

func (rn *runner) processBlocks(r *common.RNG, nConc, nKill int) {
	if _, err := os.Stat(os.Args[0]); err != nil {
		rn.res.Notes = append(rn.res.Notes, "the runner cannot re-execute itself ("+err.Error()+"): two-process blocks skipped")
		return
	}
	for i := 0; i < nConc; i++ {
		rn.concurrentRound(r, i)
	}
	for i := 0; i < nKill; i++ {
		rn.killedRound(r, i)
	}
	nLock := 4
	if nKill > 20 {
		nLock = 40
	}
	for i := 0; i < nLock; i++ {
		rn.lockedRound(r, i)
	}
}

package main

import (
	"crypto/sha256"
	"encoding/hex"
	"encoding/json"
	"fmt"
	"math/big"
	"sort"
	"strconv"
	"strings"
	"time"

	"github.com/rogpeppe/go-internal/cache"

	"verif/harness/common"
)

// ---------------------------------------------------------------- scenarios

// Obj is a hand-made object of the initial population.
type Obj struct {
	Sub   int    `json:"sub"`  // 0..255, or -1 for the cache root
	Name  string `json:"name"` // hex of the name (any byte but '/' and NUL; "fuzz/x" allowed in the root)
	Age   int64  `json:"age"`  // mtime = Now - Age
	Kind  string `json:"kind"` // F regular file, S symlink to a regular file outside the cache, E empty directory, D non-empty directory, L dangling symlink
	Data  string `json:"data"`
	Depth int    `json:"depth,omitempty"` // D: 0 = one file inside, 1 = files and a directory, 2 = directories three levels down (run.go fillDir)
}

func (o Obj) name() string {
	b, err := hex.DecodeString(o.Name)
	if err != nil {
		return o.Name
	}
	return string(b)
}

// Entry is an entry of the initial population created through the real Put.
type Entry struct {
	ID   int   `json:"id"`
	Data int   `json:"data"`  // contents number; 0 is the EMPTY output
	AgeA int64 `json:"age_a"` // age given to the index file afterwards
	AgeD int64 `json:"age_d"` // age given to the data file afterwards
}

// Event is one operation of the history; At is relative to Now.
type Event struct {
	Op   string `json:"op"` // get getfile getbytes outputfile put trim
	At   int64  `json:"at"`
	ID   int    `json:"id"`
	Data int    `json:"data"`
}

// RecSpec describes trim.txt relative to the scenario's clock.
type RecSpec struct {
	Kind  string `json:"kind"`            // none | dir | rel | raw
	Delta string `json:"delta,omitempty"` // rel: the decimal of floor(Now/1e9) + Delta ...
	Pre   string `json:"pre,omitempty"`   // ... between Pre and Post (hex)
	Post  string `json:"post,omitempty"`
	Raw   string `json:"raw,omitempty"` // raw: the bytes (hex)
}

func (r RecSpec) render(now int64) ([]byte, string) {
	switch r.Kind {
	case "dir":
		return nil, "dir"
	case "raw":
		b, _ := hex.DecodeString(r.Raw)
		if b == nil {
			b = []byte{}
		}
		return b, "file"
	case "rel":
		d, ok := new(big.Int).SetString(r.Delta, 10)
		if !ok {
			d = big.NewInt(0)
		}
		v := new(big.Int).Add(big.NewInt(floorDiv(now, 1e9)), d)
		pre, _ := hex.DecodeString(r.Pre)
		post, _ := hex.DecodeString(r.Post)
		return []byte(string(pre) + v.String() + string(post)), "file"
	}
	return nil, "none"
}

type Scenario struct {
	Frac    int64   `json:"frac"` // the clock of the scenario is (real second at its start)*1e9 + Frac
	Rec     RecSpec `json:"rec"`
	Objs    []Obj   `json:"objs"`
	Entries []Entry `json:"entries"`
	Events  []Event `json:"events"`
	Missing []int   `json:"missing_subdirs"` // subdirectories removed before the history (if empty)
	Root    string  `json:"root,omitempty"`  // root class of the cache directory (roots.go); "" = a plain scratch directory
	TZ      string  `json:"tz,omitempty"`    // the process's local time zone during the scenario (IANA name); "" = as the runner found it
	Epoch   int64   `json:"epoch,omitempty"` // the clock of the scenario is Epoch*1e9 + Frac instead of the real second (0 = real time)
}

func actionID(k int) cache.ActionID {
	return cache.ActionID(sha256.Sum256([]byte(fmt.Sprintf("action-%d", k))))
}

// content 0 is the empty output
func content(k int) []byte {
	if k == 0 {
		return []byte{}
	}
	return []byte(fmt.Sprintf("content number %d of the C13 runner\n", k))
}
func outputID(k int) cache.OutputID { return cache.OutputID(sha256.Sum256(content(k))) }

func subName(i int) string { return fmt.Sprintf("%02x", i) }
func indexPath(k int) (int, string) {
	id := actionID(k)
	return int(id[0]), hex.EncodeToString(id[:]) + "-a"
}
func dataPathOf(out cache.OutputID) (int, string) {
	return int(out[0]), hex.EncodeToString(out[:]) + "-d"
}

func floorDiv(a, b int64) int64 {
	q := a / b
	if a%b != 0 && (a < 0) != (b < 0) {
		q--
	}
	return q
}

// ---------------------------------------------------------------- generators

func ages() []int64 {
	var out []int64
	deltas := []int64{-hour, -sec, -1, 0, 1, sec, hour}
	if !injectable {
		deltas = []int64{-hour, -10 * sec, 10 * sec, hour}
	}
	for _, th := range []int64{hour, day, fiveDays, fiveDays + hour} {
		for _, d := range deltas {
			out = append(out, th+d)
		}
	}
	extra := []int64{0, sec, 30 * 60 * sec, 2 * hour, 3 * day, 6 * day, 10 * day, 400 * day, -sec, -2 * hour, -10 * day}
	if !injectable {
		extra = []int64{10 * sec, 30 * 60 * sec, 2 * hour, 3 * day, 6 * day, 10 * day, 400 * day, -2 * hour, -10 * day}
	}
	return append(out, extra...)
}

var agePool []int64

func pickAge(r *common.RNG) int64 {
	a := common.Pick(r, agePool)
	if fsGran > 1 {
		a -= a % fsGran
	}
	return a
}

var handNames = []string{"x-a", "x-d", "-a", "-d", "a-d", "foo-a.tmp", "foo-b", "README", "-", "a", "d", "x-A", "x-a ",
	"é-d", "\xff-a", ".hidden-a", "trim.txt", "x-ad", "x-a-d", "x\n-a", "fuzz-d", "0123456789abcdef0123456789abcdef0123456789abcdef0123456789abcdef-a",
	"0123456789abcdef0123456789abcdef0123456789abcdef0123456789abcdef-d", "-a-", "a-", "--a", "x-aa", "x_d", " -d"}
var rootNames = []string{"README", "fuzz/corpus-a", "fuzz/x/seed-d", "log.txt", "x-a", "old-d", "trim.txt.bak", "trim.txt~", "zz", "100", "aa-d", "-a", "testcache.txt"}

func hx(s string) string { return hex.EncodeToString([]byte(s)) }

func relRec(delta int64, pre, post string) RecSpec {
	return RecSpec{Kind: "rel", Delta: strconv.FormatInt(delta, 10), Pre: hx(pre), Post: hx(post)}
}

func genRecord(r *common.RNG) RecSpec {
	big55 := new(big.Int).Lsh(big.NewInt(1), 55)
	switch r.Intn(13) {
	case 0:
		return RecSpec{Kind: "none"}
	case 1, 2, 3:
		ds := []int64{0, -1, -86399, -86400, -86401, -3599, -3600, -3601, 1, 3599, 3600, 3601, -6 * 86400, 86400, -43200, 1800}
		if !injectable {
			ds = []int64{-30, -86300, -86500, -6 * 86400, 86400, -43200, 1800, 3500, 3700}
		}
		return relRec(common.Pick(r, ds), "", "")
	case 4:
		ds := []int64{0, -86399, -86400, -3600, 3599, 3600, 3601, -100}
		if !injectable {
			ds = []int64{-30, -86300, -86500, 3500, 3700}
		}
		return relRec(common.Pick(r, ds),
			common.Pick(r, []string{" ", "\n", "\t", "\r\n", " ", "　", "\u0085", " ", "  \n\t", ""}),
			common.Pick(r, []string{"\n", " ", "\r\n", " ", " \n", "\t \t", ""}))
	case 5:
		return rawRec(common.Pick(r, []string{"", " ", "\n", "abc", "12x", "0x10", "1_0", "1e9", "１２３", "\xff", "\x00", "1 2", "--5", "+-5", "+", "-", "\ufeff1", "1.0", "0b1", "٣"}))
	case 6:
		return rawRec(common.Pick(r, []string{"9223372036854775807", "-9223372036854775808", "9223372036854775808", "-9223372036854775809",
			"18446744073709551616", "18446744073709551615", "99999999999999999999999999", "-99999999999999999999999999",
			"9223372036854775807\n", " 9223372036854775806", "9223372030000000000", "9223371974719179007", "9223371974719179008"}))
	case 7:
		k := new(big.Int).Mul(big55, big.NewInt(int64(r.Intn(200)+1)))
		if r.Bool() {
			k.Neg(k)
		}
		return RecSpec{Kind: "rel", Delta: k.String()}
	case 8:
		return rawRec(common.Pick(r, []string{"0", "-0", "+0", "1", "-1", "-5", "000", "1000000000", "-62135596800", "-62135596801", "253402300800"}))
	case 9:
		pre := "+"
		if r.Bool() {
			pre = "0000"
		}
		return relRec(common.Pick(r, []int64{0, -86399, -86400, 3600}), pre, "")
	case 10:
		return relRec(common.Pick(r, []int64{0, -100}), "", common.Pick(r, []string{"x", ".0", " 1", "\x00", "e0", "_", ",", "\n1"}))
	case 11:
		return RecSpec{Kind: "dir"}
	default:
		return rawRec(strconv.FormatInt(int64(r.Uint64()), 10))
	}
}

func genFrac(r *common.RNG) int64 {
	var n int64
	switch r.Intn(4) {
	case 0:
	case 1:
		n = 999999999
	case 2:
		n = 1
	default:
		n = int64(r.Intn(1000000000))
	}
	if fsGran > 1 {
		n -= n % fsGran
	}
	return n
}

// genNow: an arbitrary clock value (only for the blocks that involve no file the code creates)
func genNow(r *common.RNG) int64 {
	n := int64(1700000000)*1e9 + int64(r.Intn(300000000))*1e9 + genFrac(r)
	return n
}

func genScenario(r *common.RNG) *Scenario {
	s := &Scenario{Frac: genFrac(r), Root: genRoot(r)}
	if injectable && len(tzPool) > 0 && r.Chance(1, 6) {
		// another local time zone, at an instant near one of its clock changes
		z := common.Pick(r, tzPool)
		s.TZ, s.Epoch = z.TZ, z.Epoch
	}
	s.Rec = genRecord(r)
	frac := s.Frac
	for i, n := 0, r.Intn(5); i < n; i++ {
		e := Entry{ID: r.Intn(6), Data: r.Intn(4), AgeA: pickAge(r)}
		e.AgeD = e.AgeA
		if r.Chance(1, 2) {
			e.AgeD = pickAge(r)
		}
		s.Entries = append(s.Entries, e)
	}
	subs := []int{0, 1, 0x7f, 0xff, r.Intn(256)}
	for _, e := range s.Entries {
		ia, _ := indexPath(e.ID)
		subs = append(subs, ia)
	}
	for i, n := 0, r.Intn(9); i < n; i++ {
		o := Obj{Sub: common.Pick(r, subs), Name: hx(common.Pick(r, handNames)), Age: pickAge(r), Kind: "F", Data: fmt.Sprintf("hand %d", r.Intn(5))}
		switch r.Intn(14) {
		case 0:
			o.Kind = "E"
		case 1:
			o.Kind = "D"
			o.Depth = r.Intn(3)
		case 2:
			o.Kind = "L"
		case 3, 4:
			o.Kind = "S"
		}
		if r.Chance(1, 5) {
			o.Sub = -1
			o.Name = hx(common.Pick(r, rootNames))
			if o.Kind == "S" {
				o.Kind = "F"
			}
		}
		s.Objs = append(s.Objs, o)
	}
	if r.Chance(1, 6) {
		s.Objs = append(s.Objs, crowd(r, common.Pick(r, subs), 6+r.Intn(9))...)
	}
	// the history: events before the trim at offset 0, then possibly more
	var pre []Event
	for i, n := 0, r.Intn(6); i < n; i++ {
		a := pickAge(r)
		if a < 0 {
			a = -a
		}
		ev := Event{At: -a, ID: r.Intn(6), Data: r.Intn(4)}
		ev.Op = common.Pick(r, []string{"get", "get", "getfile", "getbytes", "getbytes", "outputfile", "put", "put"})
		if r.Chance(1, 12) {
			ev.Op = "trim"
		}
		pre = append(pre, ev)
	}
	sort.SliceStable(pre, func(i, j int) bool { return pre[i].At < pre[j].At })
	s.Events = pre
	if r.Chance(9, 10) {
		s.Events = append(s.Events, Event{Op: "trim", At: 0})
	}
	if r.Chance(1, 3) {
		offs := []int64{0, sec, hour, day - frac - 1, day - frac, day - frac + 1, day - sec, day, day + sec, 2 * day, 6 * day, fiveDays + hour, fiveDays + hour + 1}
		if !injectable {
			offs = []int64{0}
		}
		var post []Event
		for i, n := 0, r.Intn(4)+1; i < n; i++ {
			ev := Event{At: common.Pick(r, offs), ID: r.Intn(6), Data: r.Intn(4)}
			ev.Op = common.Pick(r, []string{"trim", "trim", "getbytes", "put", "getfile", "get"})
			post = append(post, ev)
		}
		sort.SliceStable(post, func(i, j int) bool { return post[i].At < post[j].At })
		s.Events = append(s.Events, post...)
	}
	if r.Chance(1, 8) {
		s.Missing = []int{r.Intn(256)}
		if r.Bool() {
			// a subdirectory some Put of the history needs
			k := r.Intn(6)
			if r.Bool() {
				i, _ := indexPath(k)
				s.Missing = []int{i}
			} else {
				i, _ := dataPathOf(outputID(k % 4))
				s.Missing = []int{i}
			}
		}
	}
	return s
}

// crowd: one subdirectory full of entry-named objects, most of them stale, a share of them
// objects that cannot be stat-ed or removed like a file (dangling links, empty and non-empty
// directories, links).  "Removes EVERY entry unused for longer than ...": no object may shield
// the entries that the directory listing happens to return after it, whatever the order.
func crowd(r *common.RNG, sub, n int) []Obj {
	var out []Obj
	for i := 0; i < n; i++ {
		name := fmt.Sprintf("%c%c%02d-%c", 'a'+byte(r.Intn(26)), 'a'+byte(r.Intn(26)), i, "ad"[r.Intn(2)])
		o := Obj{Sub: sub, Name: hx(name), Kind: "F", Data: fmt.Sprintf("crowd %d", i)}
		if r.Chance(3, 4) {
			o.Age = common.Pick(r, []int64{6 * day, 10 * day, fiveDays + hour + sec, 400 * day, fiveDays + 2*hour})
		} else {
			o.Age = pickAge(r)
		}
		switch r.Intn(8) {
		case 0, 1:
			o.Kind = "L"
		case 2:
			o.Kind = "E"
		case 3:
			o.Kind = "D"
			o.Depth = r.Intn(3)
		case 4:
			o.Kind = "S"
		}
		out = append(out, o)
	}
	return out
}

// crowdScenarios: for each kind of odd object, three of them among ten stale entries of one
// subdirectory (names spread over the alphabet), then a due trim.
func crowdScenarios() []*Scenario {
	var out []*Scenario
	for ki, kind := range []string{"L", "E", "D", "S"} {
		for v := 0; v < 3; v++ {
			var objs []Obj
			for i := 0; i < 13; i++ {
				c := byte('a' + (i*7+v*3+ki)%26)
				o := Obj{Sub: 5 + v, Name: hx(fmt.Sprintf("%c%c%d-%c", c, 'z'-c+'a', i, "ad"[i%2])), Age: 6*day + int64(i)*hour, Kind: "F", Data: "stale"}
				if i%4 == 1 {
					o.Kind = kind
				}
				objs = append(objs, o)
			}
			objs = append(objs, Obj{Sub: 5 + v, Name: hx("recent-a"), Age: day, Kind: "F", Data: "recent"})
			root := ""
			if v == 2 {
				root = []string{"space", "symlink", "glob-class", "printf"}[ki]
			}
			out = append(out, &Scenario{Root: root, Frac: int64(ki*3 + v), Rec: RecSpec{Kind: "none"}, Objs: objs, Events: []Event{{Op: "trim"}}})
		}
	}
	return out
}

// foreignDirScenarios: "never touches files that are not cache entries": directories with contents,
// named like entries and otherwise, one to three levels deep, of every age class, next to stale and
// recent entries; due trims and one that is not due.
func foreignDirScenarios() []*Scenario {
	var out []*Scenario
	names := []string{"saved-d", "x-a", "-a", "-d", "0123456789abcdef0123456789abcdef0123456789abcdef0123456789abcdef-d", "backup", "3c", "old-a.d", ".git-a"}
	k := 0
	for depth := 0; depth < 3; depth++ {
		for _, age := range []int64{10 * day, fiveDays + hour + sec, fiveDays, day, 0} {
			var objs []Obj
			for ni, n := range names {
				objs = append(objs, Obj{Sub: []int{0x3c, 0, 0xff}[ni%3], Name: hx(n), Age: age, Kind: "D", Depth: depth, Data: fmt.Sprintf("kept %d", ni)})
			}
			objs = append(objs, Obj{Sub: 0x3c, Name: hx("stale-a"), Age: 9 * day, Kind: "F", Data: "s"}, Obj{Sub: 0xff, Name: hx("recent-d"), Age: day, Kind: "F", Data: "r"},
				Obj{Sub: 0, Name: hx("empty-d"), Age: age, Kind: "E"})
			rec := RecSpec{Kind: "none"}
			if k%5 == 4 {
				rec = relRec(-3600, "", "")
			}
			out = append(out, &Scenario{Frac: int64(k), Rec: rec, Objs: objs, Entries: []Entry{{ID: 1, Data: 1, AgeA: 8 * day, AgeD: 8 * day}},
				Events: []Event{{Op: "trim"}, {Op: "trim", At: day}}})
			k++
		}
	}
	return out
}

// shortNameScenarios: foreign objects whose names are shorter than, as long as, or barely longer than
// the entry suffix, and other degenerate names, in a subdirectory that also holds stale entries
// sorting before and after them; stale entries in a later subdirectory too.  Trim must get through
// all of it, remove every stale entry and record the trim.
func shortNameScenarios() []*Scenario {
	var out []*Scenario
	for k, n := range []string{"a", "d", "-", "x", "0", "~", "\x7f", "\xff", "-a", "-d", "a-", "ad", "--", "\xc3\xa9", "x-a", "-ad", "a-d", "--a", "...", " -d", "\n-a", " "} {
		for _, kind := range []string{"F", "E", "D"} {
			sub := []int{0, 0x10, 0xfe}[k%3]
			objs := []Obj{
				{Sub: sub, Name: hx(n), Age: []int64{10 * day, day}[k%2], Kind: kind, Data: "odd", Depth: k % 3},
				{Sub: sub, Name: hx("!first-a"), Age: 9 * day, Kind: "F", Data: "s1"},
				{Sub: sub, Name: hx("zz-last-d"), Age: 9 * day, Kind: "F", Data: "s2"},
				{Sub: sub, Name: hx("\xff\xff-a"), Age: 9 * day, Kind: "F", Data: "s3"},
				{Sub: sub, Name: hx("recent-a"), Age: day, Kind: "F", Data: "r"},
				{Sub: 0xff, Name: hx("later-d"), Age: 7 * day, Kind: "F", Data: "s4"},
				{Sub: 0xff, Name: hx("later-recent-d"), Age: hour, Kind: "F", Data: "r2"},
			}
			out = append(out, &Scenario{Frac: int64(k), Rec: RecSpec{Kind: "none"}, Objs: objs, Events: []Event{{Op: "trim"}}})
		}
	}
	return out
}

// ---------------------------------------------------------------- time zones

// tzPoint is an instant near a clock change of a zone.
type tzPoint struct {
	TZ    string
	Epoch int64
	What  string
}

var tzPool []tzPoint

// tzZones: zones whose clocks change (northern and southern rules, a half-hour change) and controls.
var tzZones = []string{"America/New_York", "Europe/Berlin", "Australia/Lord_Howe", "America/Santiago", "Asia/Tokyo", "UTC"}

// tzPoints finds the clock changes of every zone in two years through Time.ZoneBounds and places
// instants at several distances after each (and, for zones without changes, on the same dates).
func tzPoints() []tzPoint {
	var out []tzPoint
	for _, z := range tzZones {
		loc, err := time.LoadLocation(z)
		if err != nil {
			continue
		}
		for _, year := range []int{2023, 2025} {
			t := time.Date(year, 1, 1, 12, 0, 0, 0, loc)
			endOfYear := time.Date(year+1, 1, 1, 0, 0, 0, 0, loc)
			var changes []time.Time
			for len(changes) < 4 {
				_, end := t.ZoneBounds()
				if end.IsZero() || !end.Before(endOfYear) {
					break
				}
				changes = append(changes, end)
				t = end.Add(time.Hour)
			}
			if len(changes) == 0 {
				// a zone that keeps its offset: the dates on which others change theirs
				changes = []time.Time{time.Date(year, 3, 12, 7, 0, 0, 0, time.UTC), time.Date(year, 11, 5, 6, 0, 0, 0, time.UTC)}
			}
			for _, ch := range changes {
				_, o1 := ch.Add(-time.Second).In(loc).Zone()
				_, o2 := ch.In(loc).Zone()
				for _, d := range []time.Duration{40 * time.Minute, 26 * time.Hour, 4*24*time.Hour + 23*time.Hour, 5*24*time.Hour + 30*time.Minute, 6 * 24 * time.Hour} {
					out = append(out, tzPoint{TZ: z, Epoch: ch.Add(d).Unix(), What: fmt.Sprintf("%s after the clocks of %s went from UTC%+ds to UTC%+ds", d, z, o1, o2)})
				}
			}
		}
	}
	return out
}

// tzScenarios: at each such instant one due trim over entries on both sides of every threshold:
// looked up just under five days ago with an mtime up to an hour older (must stay), unused for a
// second / half an hour / 59 minutes / two hours more than five days and one hour (must go), and
// a Put entry one day old; then a lookup and a second trim a day later (due again).
func tzScenarios() []*Scenario {
	pts := tzPoints()
	tzPool = nil
	for _, p := range pts {
		if p.TZ != "UTC" && p.TZ != "Asia/Tokyo" {
			tzPool = append(tzPool, p)
		}
	}
	var out []*Scenario
	for k, p := range pts {
		if !injectable {
			break
		}
		objs := []Obj{
			{Sub: 7, Name: hx("plus1s-a"), Age: fiveDays + hour + sec, Kind: "F", Data: "o1"},
			{Sub: 7, Name: hx("plus29m-d"), Age: fiveDays + hour + 29*60*sec, Kind: "F", Data: "o2"},
			{Sub: 7, Name: hx("plus59m-a"), Age: fiveDays + hour + 59*60*sec, Kind: "F", Data: "o3"},
			{Sub: 7, Name: hx("plus2h-d"), Age: fiveDays + 3*hour, Kind: "F", Data: "o4"},
			{Sub: 7, Name: hx("minus1s-a"), Age: fiveDays - sec, Kind: "F", Data: "o5"},
			{Sub: 7, Name: hx("minus59m-d"), Age: fiveDays - 59*60*sec, Kind: "F", Data: "o6"},
			{Sub: 7, Name: hx("README"), Age: 30 * day, Kind: "F", Data: "o7"},
		}
		ents := []Entry{
			{ID: 1, Data: 1, AgeA: fiveDays + 59*60*sec, AgeD: fiveDays + 59*60*sec},
			{ID: 2, Data: 2, AgeA: fiveDays + 20*60*sec, AgeD: fiveDays + 31*60*sec},
			{ID: 3, Data: 3, AgeA: day, AgeD: day},
			{ID: 4, Data: 0, AgeA: fiveDays + hour + sec, AgeD: fiveDays + hour + sec},
		}
		evs := []Event{{Op: "getbytes", At: -(fiveDays - sec), ID: 1}, {Op: []string{"getfile", "getbytes", "get"}[k%3], At: -(fiveDays - 10*60*sec), ID: 2},
			{Op: "trim"}, {Op: "getbytes", At: sec, ID: 1}, {Op: "trim", At: day + sec}}
		out = append(out, &Scenario{Frac: int64(k % 3), TZ: p.TZ, Epoch: p.Epoch, Rec: []RecSpec{{Kind: "none"}, relRec(-86400, "", "")}[k%2], Objs: objs, Entries: ents, Events: evs})
	}
	return out
}

func describeTZ(s *Scenario) string {
	if s.TZ == "" && s.Epoch == 0 {
		return ""
	}
	var b strings.Builder
	if s.TZ != "" {
		fmt.Fprintf(&b, "local time zone of the process %s (TZ=%s); ", s.TZ, s.TZ)
	}
	if s.Epoch != 0 {
		t := time.Unix(s.Epoch, 0).UTC()
		if loc, err := time.LoadLocation(s.TZ); err == nil && s.TZ != "" {
			t = t.In(loc)
		}
		fmt.Fprintf(&b, "clock = %s (unix %d) + %dns", t.Format("Mon 2006-01-02 15:04:05 -0700 MST"), s.Epoch, s.Frac)
		for _, p := range tzPool {
			if p.TZ == s.TZ && p.Epoch == s.Epoch {
				fmt.Fprintf(&b, ", %s", p.What)
			}
		}
		b.WriteString("; ")
	}
	return b.String()
}

// handScenarios are the hand-written histories: the defects found with this check and the
// special cases of the second wave.
func handScenarios() []*Scenario {
	ia5, _ := indexPath(5)
	id2, _ := dataPathOf(outputID(2))
	return []*Scenario{
		// an output stored six days ago and never looked up is stored again (same and another id) seconds before a trim
		{Frac: 123456789, Rec: RecSpec{Kind: "none"},
			Entries: []Entry{{ID: 1, Data: 1, AgeA: 6 * day, AgeD: 6 * day}},
			Events: []Event{{Op: "put", At: -2 * sec, ID: 1, Data: 1}, {Op: "put", At: -sec, ID: 2, Data: 1},
				{Op: "trim", At: 0}, {Op: "getbytes", At: sec, ID: 2}}},
		// the same with the EMPTY output (copyFile treats size 0 specially)
		{Frac: 5, Rec: RecSpec{Kind: "none"},
			Entries: []Entry{{ID: 1, Data: 0, AgeA: 6 * day, AgeD: 6 * day}},
			Events: []Event{{Op: "put", At: -2 * sec, ID: 1, Data: 0}, {Op: "put", At: -sec, ID: 2, Data: 0},
				{Op: "trim", At: 0}, {Op: "getfile", At: sec, ID: 2}, {Op: "getbytes", At: sec, ID: 1}}},
		// a new empty output created now, and one created by an event three days ago
		{Frac: 0, Rec: rawRec("5"),
			Events: []Event{{Op: "put", At: -3 * day, ID: 3, Data: 0}, {Op: "put", At: 0, ID: 4, Data: 0}, {Op: "trim", At: 0},
				{Op: "trim", At: 2 * day}, {Op: "getbytes", At: 2 * day, ID: 4, Data: 0}, {Op: "trim", At: fiveDays + hour + 2*day + 1}}},
		// an empty output looked up through one id protects the other id's output
		{Frac: 1, Rec: RecSpec{Kind: "none"},
			Entries: []Entry{{ID: 1, Data: 0, AgeA: 7 * day, AgeD: 7 * day}, {ID: 2, Data: 0, AgeA: 7 * day, AgeD: 7 * day}},
			Events:  []Event{{Op: "getbytes", At: -day, ID: 1}, {Op: "trim", At: 0}, {Op: "get", At: sec, ID: 2}}},
		// Put into a missing index subdirectory / a missing data subdirectory
		{Frac: 2, Rec: RecSpec{Kind: "none"}, Missing: []int{ia5},
			Events: []Event{{Op: "put", At: -sec, ID: 5, Data: 1}, {Op: "trim", At: 0}}},
		{Frac: 3, Rec: RecSpec{Kind: "none"}, Missing: []int{id2},
			Events: []Event{{Op: "put", At: -sec, ID: 5, Data: 2}, {Op: "trim", At: 0}}},
		// trim.txt is a directory: the scan runs, Trim returns the error, and runs again the next time
		{Frac: 4, Rec: RecSpec{Kind: "dir"},
			Entries: []Entry{{ID: 1, Data: 1, AgeA: 6 * day, AgeD: 6 * day}, {ID: 2, Data: 2, AgeA: day, AgeD: day}},
			Events:  []Event{{Op: "trim", At: 0}, {Op: "trim", At: sec}}},
		// symbolic links with entry names: old (removed, the target stays), young, and refreshed through OutputFile-like use
		{Frac: 6, Rec: RecSpec{Kind: "none"},
			Objs: []Obj{{Sub: 9, Name: hx("old-d"), Age: 9 * day, Kind: "S", Data: "t1"}, {Sub: 9, Name: hx("young-d"), Age: day, Kind: "S", Data: "t2"},
				{Sub: 9, Name: hx("plain"), Age: 9 * day, Kind: "S", Data: "t3"}},
			Events: []Event{{Op: "trim", At: 0}}},
		// only Get before the trim: the index entry survives, the output goes, GetBytes then misses
		{Frac: 8, Rec: RecSpec{Kind: "none"},
			Entries: []Entry{{ID: 1, Data: 1, AgeA: 9 * day, AgeD: 9 * day}},
			Events:  []Event{{Op: "get", At: -4 * day, ID: 1}, {Op: "trim", At: 0}, {Op: "get", At: sec, ID: 1}, {Op: "getbytes", At: 2 * sec, ID: 1}}},
	}
}

func scenarioJSON(s *Scenario) string {
	b, _ := json.Marshal(s)
	return string(b)
}

func describeScenario(s *Scenario) string {
	var b strings.Builder
	if sp := rootSpecOf(s.Root); sp != nil {
		op := sp.Open
		if op == "" {
			op = sp.Dir
		}
		fmt.Fprintf(&b, "cache directory <scratch>/%q (root class %s) opened as <scratch>/%q", sp.Dir, sp.Key, op)
		for _, l := range sp.Links {
			fmt.Fprintf(&b, ", %q a symbolic link to %q", l[0], l[1])
		}
		if len(sp.Siblings) > 0 {
			fmt.Fprintf(&b, ", next to other people's caches %q", sp.Siblings)
		}
		b.WriteString("; ")
	}
	b.WriteString(describeTZ(s))
	if s.Epoch == 0 {
		fmt.Fprintf(&b, "clock = start of the run + %dns", s.Frac)
	} else {
		b.WriteString("ages and offsets relative to that clock")
	}
	switch s.Rec.Kind {
	case "none", "":
		b.WriteString("; trim.txt missing")
	case "dir":
		b.WriteString("; trim.txt is a directory")
	case "raw":
		raw, _ := hex.DecodeString(s.Rec.Raw)
		fmt.Fprintf(&b, "; trim.txt=%q", raw)
	case "rel":
		pre, _ := hex.DecodeString(s.Rec.Pre)
		post, _ := hex.DecodeString(s.Rec.Post)
		fmt.Fprintf(&b, "; trim.txt=%q+decimal(now's second%+s)+%q", pre, s.Rec.Delta, post)
	}
	for _, e := range s.Entries {
		fmt.Fprintf(&b, "; Put(id%d,data%d) then index age %s, data age %s", e.ID, e.Data, time.Duration(e.AgeA), time.Duration(e.AgeD))
	}
	for _, o := range s.Objs {
		fmt.Fprintf(&b, "; %s %d/%q age %s", o.Kind, o.Sub, o.name(), time.Duration(o.Age))
		if o.Kind == "D" {
			fmt.Fprintf(&b, " (a directory with files below it, depth %d)", o.Depth+1)
		}
	}
	for _, i := range s.Missing {
		fmt.Fprintf(&b, "; subdirectory %02x removed", i&255)
	}
	for _, e := range s.Events {
		fmt.Fprintf(&b, "; %s(id%d,data%d)@%s", e.Op, e.ID, e.Data, time.Duration(e.At))
	}
	return b.String() + " (data0 is the empty output)"
}

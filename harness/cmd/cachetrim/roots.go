package main

// The cache directory's own path as an input dimension.
//
// Trim's rule is about the FILES of the cache; where the cache lives must not matter.  A
// scenario may therefore name a root class: the same population, record and history are then
// played on a cache whose path contains glob / regexp / printf metacharacters, white space,
// control characters, bytes that are not UTF-8, names that look like an entry, like trim.txt or
// like a subdirectory, metacharacters in an ANCESTOR of the cache directory; on a cache opened
// through a path with trailing or doubled separators, "." and ".." elements; and on a cache
// opened through a symbolic link (to a plain directory, to a directory with metacharacters, a
// link with metacharacters in its own name, a chain of links, a relative link).  The model knows
// nothing about paths: its answer for the directory contents is the same for every root, and the
// differential run as well as every direct oracle applies unchanged.
//
// Every non-plain root lives in a parent directory of its own together with SIBLING directories
// whose names are what the root's name matches when it is (wrongly) read as a pattern; the
// siblings look like caches of somebody else (subdirectories with stale entry-named files, a
// trim.txt, a README).  They, the parent's listing and the symbolic links are compared before
// and after every Trim: oracle outside-untouched.

import (
	"fmt"
	"os"
	"path/filepath"
	"sort"
	"strings"

	"github.com/rogpeppe/go-internal/cache"

	"verif/harness/common"
)

type rootSpec struct {
	Key      string      // stable name used in scenario JSON
	Dir      string      // the real directory, relative to the parent of this root ('/' = nested)
	Open     string      // path handed to cache.Open, relative to the parent; "" = Dir.  %P = the absolute parent
	Links    [][2]string // symbolic links created in the parent: name -> target (relative to the parent, or absolute with %P)
	Siblings []string    // sibling directories (relative to the parent) that look like other caches
}

var rootSpecs = []rootSpec{
	// --- glob metacharacters (path/filepath.Match syntax)
	{Key: "glob-class", Dir: "cache[v1]", Siblings: []string{"cachev", "cache1"}},
	{Key: "glob-class-ci", Dir: "go-build[ci]", Siblings: []string{"go-buildc", "go-buildi"}},
	{Key: "glob-star", Dir: "c*che", Siblings: []string{"cache", "cche", "c-other-che"}},
	{Key: "glob-question", Dir: "c?che", Siblings: []string{"cache", "cXche"}},
	{Key: "glob-range", Dir: "x[a-z]", Siblings: []string{"xq", "xa"}},
	{Key: "glob-negated", Dir: "x[^a]y[!b]", Siblings: []string{"xbyc"}},
	{Key: "glob-open-bracket", Dir: "a[b", Siblings: []string{"ab"}},
	{Key: "glob-close-bracket", Dir: "a]b[", Siblings: []string{"ab"}},
	{Key: "glob-backslash", Dir: `a\b\*`, Siblings: []string{"ab*", "ab"}},
	{Key: "glob-braces", Dir: "{a,b}", Siblings: []string{"a", "b"}},
	{Key: "glob-only-star", Dir: "*", Siblings: []string{"other", "x"}},
	{Key: "glob-in-ancestor", Dir: "p[x]/q*/cache", Siblings: []string{"px/q1/cache", "p[x]/q1/cache"}},
	// --- regexp and shell metacharacters
	{Key: "regexp", Dir: "^c(a|b)+.he$", Siblings: []string{"cache"}},
	{Key: "regexp-dot-plus", Dir: "ca.he+", Siblings: []string{"cache", "cachee"}},
	{Key: "shell", Dir: "~$HOME$(x)`y`;&|<>'\"!#", Siblings: []string{"~"}},
	{Key: "dash", Dir: "-rf", Siblings: []string{"--"}},
	// --- printf verbs
	{Key: "printf", Dir: "%s%d%v%!x(100%)%02x", Siblings: []string{"%!s(MISSING)"}},
	{Key: "printf-n", Dir: "50%n%", Siblings: nil},
	// --- white space, control characters, non-UTF-8 bytes
	{Key: "space", Dir: "my cache dir", Siblings: []string{"my", "mycachedir"}},
	{Key: "space-ends", Dir: " lead and trail ", Siblings: []string{"lead and trail"}},
	{Key: "control", Dir: "a\tb\nc\rd\x01e\x7f", Siblings: []string{"a"}},
	{Key: "non-utf8", Dir: "\xff\xfe-cache\x80\xc3", Siblings: []string{"\xef\xbf\xbd\xef\xbf\xbd-cache\xef\xbf\xbd\xef\xbf\xbd"}},
	{Key: "unicode", Dir: "кэш-é-日本-‮  ", Siblings: []string{"кэш"}},
	{Key: "long", Dir: strings.Repeat("long-name-", 24), Siblings: []string{strings.Repeat("long-name-", 23)}},
	// --- names that mean something inside a cache
	{Key: "entry-like", Dir: "00/x-a", Siblings: []string{"00/y-d"}},
	{Key: "like-trim.txt", Dir: "trim.txt", Siblings: []string{"trim"}},
	{Key: "like-subdir", Dir: "ff/00", Siblings: []string{"ff/01"}},
	// --- the same directory, other spellings of its path
	{Key: "trailing-slash", Dir: "ts", Open: "ts/", Siblings: []string{"ts2"}},
	{Key: "trailing-slashes", Dir: "ts", Open: "ts///", Siblings: []string{"t"}},
	{Key: "trailing-dot", Dir: "td", Open: "td/.", Siblings: []string{"td."}},
	{Key: "dot-elements", Dir: "de", Open: "./de/./", Siblings: []string{"d"}},
	{Key: "dotdot", Dir: "dd", Open: "sib/../dd", Siblings: []string{"sib"}},
	{Key: "double-separator", Dir: "in/ner", Open: "in//ner", Siblings: []string{"in/ne"}},
	{Key: "meta+trailing-slash", Dir: "m[a]*", Open: "m[a]*/", Siblings: []string{"ma", "max"}},
	// --- symbolic links
	{Key: "symlink", Dir: "real", Open: "link", Links: [][2]string{{"link", "%P/real"}}, Siblings: []string{"real2"}},
	{Key: "symlink-slash", Dir: "real", Open: "link/", Links: [][2]string{{"link", "%P/real"}}, Siblings: []string{"lin"}},
	{Key: "symlink-relative", Dir: "deep/real", Open: "link", Links: [][2]string{{"link", "deep/real"}}, Siblings: []string{"deep/other"}},
	{Key: "symlink-chain", Dir: "real", Open: "l1", Links: [][2]string{{"l1", "l2"}, {"l2", "l3"}, {"l3", "real"}}, Siblings: []string{"l"}},
	{Key: "symlink-meta-name", Dir: "real", Open: "l[i]nk*", Links: [][2]string{{"l[i]nk*", "real"}}, Siblings: []string{"link", "linkx"}},
	{Key: "symlink-to-meta", Dir: "re[a]l?", Open: "link", Links: [][2]string{{"link", "re[a]l?"}}, Siblings: []string{"real", "realx"}},
	{Key: "symlink-in-ancestor", Dir: "real/sub/cache", Open: "link/sub/cache", Links: [][2]string{{"link", "real"}}, Siblings: []string{"real/sub/cache2"}},
}

func rootSpecOf(key string) *rootSpec {
	for i := range rootSpecs {
		if rootSpecs[i].Key == key {
			return &rootSpecs[i]
		}
	}
	return nil
}

// rootState is one long-lived cache directory of the run.
type rootState struct {
	key      string
	dir      string       // the real directory (snapshots, population)
	open     string       // the path given to cache.Open
	c        *cache.Cache // the real cache on it
	parent   string       // "" for the plain root
	outside  string       // what surrounds the cache, as built (see outsideTag)
	siblings []string
	links    [][2]string
}

// sibling caches get stale entry-named files in these subdirectories
var siblingSubs = func() []int {
	set := map[int]bool{0: true, 3: true, 0xff: true}
	i, _ := indexPath(0)
	set[i] = true
	i, _ = dataPathOf(outputID(1))
	set[i] = true
	var l []int
	for i := range set {
		l = append(l, i)
	}
	sort.Ints(l)
	return l
}()

var longAgo = at(1500000000 * 1e9)

func buildSibling(p string) error {
	if err := os.MkdirAll(p, 0o777); err != nil {
		return err
	}
	for _, i := range siblingSubs {
		sd := filepath.Join(p, subName(i))
		if err := os.Mkdir(sd, 0o777); err != nil && !os.IsExist(err) {
			return err
		}
		for _, n := range []string{"stale-a", "0123456789abcdef0123456789abcdef0123456789abcdef0123456789abcdef-d", "notes"} {
			f := filepath.Join(sd, n)
			if err := os.WriteFile(f, []byte("somebody else's "+n), 0o666); err != nil {
				return err
			}
			os.Chtimes(f, longAgo, longAgo)
		}
		os.Chtimes(sd, longAgo, longAgo)
	}
	for n, data := range map[string]string{"trim.txt": "1500000000", "README": "another cache"} {
		f := filepath.Join(p, n)
		if fi, err := os.Lstat(f); err == nil && fi.IsDir() {
			continue // the sibling's own name space is used by a nested root (e.g. ff/01 next to ff/00)
		}
		os.WriteFile(f, []byte(data), 0o666)
		os.Chtimes(f, longAgo, longAgo)
	}
	os.Chtimes(p, longAgo, longAgo)
	return nil
}

// outsideTag observes everything of a root's parent that is not the cache directory itself:
// sibling trees (names, kinds, mtimes, contents, recursively), the links (still links, same
// targets) and the names present in the parent.
func (st *rootState) outsideTag() string {
	if st.parent == "" {
		return ""
	}
	var parts []string
	for _, s := range st.siblings {
		o := describe(filepath.Join(st.parent, s), s)
		parts = append(parts, fmt.Sprintf("sibling %q: %s %d %s", s, o.Kind, o.Mtime, o.Tag))
	}
	for _, l := range st.links {
		t, err := os.Readlink(filepath.Join(st.parent, l[0]))
		parts = append(parts, fmt.Sprintf("link %q -> %q %v", l[0], t, err == nil))
	}
	ents, _ := os.ReadDir(st.parent)
	var names []string
	for _, e := range ents {
		names = append(names, fmt.Sprintf("%q:%v", e.Name(), e.Type()&os.ModeType))
	}
	parts = append(parts, "parent: "+strings.Join(names, " "))
	return strings.Join(parts, "\n")
}

func firstDiffLine(a, b string) string {
	la, lb := strings.Split(a, "\n"), strings.Split(b, "\n")
	for i := 0; i < len(la) && i < len(lb); i++ {
		if la[i] != lb[i] {
			return fmt.Sprintf("before {%s} after {%s}", clipStr(la[i], 300), clipStr(lb[i], 300))
		}
	}
	return fmt.Sprintf("%d lines before, %d after", len(la), len(lb))
}

func clipStr(s string, n int) string {
	if len(s) > n {
		return s[:n] + "..."
	}
	return s
}

var rootUnavailable = map[string]bool{}

// buildRoot creates the parent, the real directory, the links and the siblings of a root class
// and opens the cache through the chosen spelling of its path.
func (rn *runner) buildRoot(sp *rootSpec, idx int) (*rootState, error) {
	parent := filepath.Join(rn.work, fmt.Sprintf("roots/r%02d", idx))
	os.RemoveAll(parent)
	if err := os.MkdirAll(parent, 0o777); err != nil {
		return nil, err
	}
	exp := func(s string) string { return strings.ReplaceAll(s, "%P", parent) }
	real := filepath.Join(parent, sp.Dir)
	if err := os.MkdirAll(real, 0o777); err != nil {
		return nil, err
	}
	for _, s := range sp.Siblings {
		if err := buildSibling(filepath.Join(parent, s)); err != nil {
			return nil, err
		}
	}
	for _, l := range sp.Links {
		t := l[1]
		if strings.HasPrefix(t, "%P") {
			t = exp(t)
		}
		if err := os.Symlink(t, filepath.Join(parent, l[0])); err != nil {
			return nil, err
		}
	}
	open := real
	if sp.Open != "" {
		// not filepath.Join: the spelling (trailing and doubled separators, dots) is the point
		open = parent + "/" + sp.Open
	}
	// the spelling must reach the real directory
	fa, err1 := os.Stat(open)
	fb, err2 := os.Stat(real)
	if err1 != nil || err2 != nil || !os.SameFile(fa, fb) {
		return nil, fmt.Errorf("%q does not name %q here (%v, %v)", open, real, err1, err2)
	}
	c, err := cache.Open(open)
	if err != nil {
		return nil, err
	}
	st := &rootState{key: sp.Key, dir: real, open: open, c: c, parent: parent, siblings: sp.Siblings, links: sp.Links}
	st.outside = st.outsideTag()
	return st, nil
}

// rootFor returns the long-lived cache of a root class ("" = the plain scratch directory),
// building it on first use; a class the file system refuses is noted once and replaced by the
// plain root.
func (rn *runner) rootFor(key string) (*rootState, error) {
	if rn.roots == nil {
		rn.roots = map[string]*rootState{}
	}
	if key != "" && rootUnavailable[key] {
		key = ""
	}
	if st := rn.roots[key]; st != nil {
		return st, nil
	}
	if key != "" {
		sp := rootSpecOf(key)
		idx := 0
		for i := range rootSpecs {
			if rootSpecs[i].Key == key {
				idx = i
			}
		}
		var st *rootState
		var err error
		if sp == nil {
			err = fmt.Errorf("unknown root class")
		} else {
			st, err = rn.buildRoot(sp, idx)
		}
		if err != nil {
			rootUnavailable[key] = true
			rn.res.Notes = append(rn.res.Notes, fmt.Sprintf("root class %q cannot be set up on the scratch file system (%v): its scenarios run on the plain root", key, err))
			return rn.rootFor("")
		}
		rn.roots[key] = st
		return st, nil
	}
	dir, err := os.MkdirTemp(rn.work, "cache")
	if err != nil {
		return nil, err
	}
	c, err := cache.Open(dir)
	if err != nil {
		return nil, err
	}
	os.Mkdir(filepath.Join(rn.work, "targets"), 0o777)
	st := &rootState{dir: dir, open: dir, c: c}
	rn.roots[""] = st
	return st, nil
}

// restoreOutside rebuilds the surroundings of a root when an earlier (already reported) Trim
// damaged them, so that every scenario starts from the same state.
func (rn *runner) restoreOutside(st *rootState) {
	if st.parent == "" || st.outsideTag() == st.outside {
		return
	}
	for _, s := range st.siblings {
		os.RemoveAll(filepath.Join(st.parent, s))
	}
	for _, s := range st.siblings {
		buildSibling(filepath.Join(st.parent, s))
	}
	// a nested sibling changes the mtime of directories above it only outside the observed trees
	st.outside = st.outsideTag()
}

func genRoot(r *common.RNG) string {
	if !r.Chance(1, 4) {
		return ""
	}
	return rootSpecs[r.Intn(len(rootSpecs))].Key
}

// rootScenarios: for every root class, the core of the property on a small population -- a due
// trim (stale entries go, recent ones and foreign files stay, the record is written), a lookup
// and a re-store that protect, a trim that is not due, and a second trim a day later.
func rootScenarios() []*Scenario {
	var out []*Scenario
	for i, sp := range rootSpecs {
		objs := []Obj{{Sub: 3, Name: hx("x-a"), Age: 9 * day, Kind: "F", Data: "h"}, {Sub: 3, Name: hx("y-d"), Age: day, Kind: "F", Data: "h"},
			{Sub: 3, Name: hx("README"), Age: 9 * day, Kind: "F", Data: "h"}, {Sub: 0xff, Name: hx(".z-d"), Age: fiveDays + hour + 1, Kind: "F", Data: "h"},
			{Sub: -1, Name: hx("fuzz/seed-a"), Age: 9 * day, Kind: "F", Data: "h"}, {Sub: 0, Name: hx("old[1]*-a"), Age: 9 * day, Kind: "F", Data: "h"}}
		ents := []Entry{{ID: 0, Data: 1, AgeA: 9 * day, AgeD: 9 * day}, {ID: 1, Data: 2, AgeA: 2 * day, AgeD: 2 * day},
			{ID: 2, Data: 3, AgeA: 7 * day, AgeD: 7 * day}, {ID: 3, Data: 0, AgeA: 8 * day, AgeD: 8 * day}}
		// due: no record / an old record / a corrupt one, rotating over the classes
		rec := []RecSpec{{Kind: "none"}, relRec(-6*86400, "", "\n"), rawRec("x")}[i%3]
		out = append(out, &Scenario{Root: sp.Key, Frac: int64(i), Rec: rec, Objs: objs, Entries: ents,
			Events: []Event{{Op: "getbytes", At: -day, ID: 2, Data: 3}, {Op: "put", At: -hour, ID: 3, Data: 0}, {Op: "trim"},
				{Op: "getbytes", At: sec, ID: 2, Data: 3}, {Op: "trim", At: day + sec}}})
		// not due: a trim completed an hour ago
		out = append(out, &Scenario{Root: sp.Key, Frac: 999999999, Rec: relRec(-3600, "", ""), Objs: objs[:3], Entries: ents[:2],
			Events: []Event{{Op: "trim"}, {Op: "trim", At: day - hour - sec}, {Op: "trim", At: day - hour + sec}}})
	}
	return out
}

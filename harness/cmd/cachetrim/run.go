package main

import (
	"bytes"
	"encoding/hex"
	"encoding/json"
	"fmt"
	"math/big"
	"os"
	"path/filepath"
	"sort"
	"strconv"
	"strings"
	"time"

	"github.com/rogpeppe/go-internal/cache"

	"verif/harness/common"
)

// Finding is one failed oracle or one disagreement with the model.
type Finding struct {
	Kind   string // impl-violation | correspondence
	Oracle string
	Key    string
	Detail string
	Model  string
	Impl   string
}

type Outcome struct {
	Findings []Finding
	Tags     []string
	Trims    int
	Ran      int
	Removed  int
	Kept     int
	Events   int
	Objects  int
}

func (o *Outcome) find(kind, oracle, key, detail string) {
	o.Findings = append(o.Findings, Finding{Kind: kind, Oracle: oracle, Key: key, Detail: detail})
}

func (o *Outcome) has(oracle string) bool {
	for _, f := range o.Findings {
		if f.Oracle == oracle {
			return true
		}
	}
	return false
}

func tagHex(b []byte) string { return hex.EncodeToString([]byte(tagOf(b))) }

func pathKey(sub int, name string) string { return fmt.Sprintf("%d/%s", sub, name) }

func hasEntrySuffix(name string) bool {
	return strings.HasSuffix(name, "-a") || strings.HasSuffix(name, "-d")
}

func findObj(l []SObj, name string) (SObj, bool) {
	for _, o := range l {
		if o.Name == name {
			return o, true
		}
	}
	return SObj{}, false
}

// parseRecord reads a last-trim record the way the property describes it (an integer number
// of seconds, white space around it ignored), without strconv.ParseInt and without int64.
func parseRecord(b []byte) (*big.Int, bool) {
	s := strings.TrimSpace(string(b))
	if s == "" {
		return nil, false
	}
	for i, c := range s {
		if (c == '+' || c == '-') && i == 0 {
			continue
		}
		if c < '0' || c > '9' {
			return nil, false
		}
	}
	v, ok := new(big.Int).SetString(s, 10)
	return v, ok
}

// ageOfRecord returns now - t*10^9 as a big integer.
func ageOfRecord(now int64, t *big.Int) *big.Int {
	x := new(big.Int).Mul(t, big.NewInt(1e9))
	return x.Sub(big.NewInt(now), x)
}

// trimOracles evaluates the property on one Trim call from the snapshots taken around it.
// slack widens every threshold in the direction that cannot raise a false alarm (0 with the
// injected clock).
func trimOracles(out *Outcome, before, after *Snap, now, slack int64, lastUse map[string]int64, restored map[string]bool, trimErr error) {
	out.Trims++
	if trimErr != nil {
		out.find("correspondence", "trim-error", "trim-error", "Trim returned "+trimErr.Error())
	}
	// --- non-entry files are untouched; nothing is added or modified
	if !reflect_equal(before.Root, after.Root) {
		out.find("impl-violation", "non-entry-untouched", "root-changed",
			fmt.Sprintf("objects of the cache root changed: before %v after %v", before.Root, after.Root))
	}
	for i := range before.Subs {
		var nb, na []SObj
		for _, o := range before.Subs[i] {
			if !hasEntrySuffix(o.Name) {
				nb = append(nb, o)
			}
		}
		for _, o := range after.Subs[i] {
			if !hasEntrySuffix(o.Name) {
				na = append(na, o)
			}
			if p, ok := findObj(before.Subs[i], o.Name); !ok || p != o {
				out.find("impl-violation", "no-modification", "modified:"+o.Name,
					fmt.Sprintf("subdirectory %02x: %q is new or was modified by Trim (%v -> %v)", i, o.Name, p, o))
			}
		}
		if !reflect_equal(nb, na) {
			out.find("impl-violation", "non-entry-untouched", "subdir-foreign-changed",
				fmt.Sprintf("subdirectory %02x: files without the entry suffix changed: %v -> %v", i, nb, na))
		}
	}
	// --- is a trim due?  (independent reading of the record)
	due, recent := false, false
	if !before.HasRec {
		due = true
		out.Tags = append(out.Tags, "record:missing")
	} else if t, ok := parseRecord(before.Record); !ok {
		due = true
		out.Tags = append(out.Tags, "record:corrupt")
	} else {
		age := ageOfRecord(now, t)
		switch {
		case age.Cmp(big.NewInt(day+slack)) >= 0:
			due = true
			out.Tags = append(out.Tags, "record:old")
		case age.Cmp(big.NewInt(-hour-slack)) <= 0:
			due = true
			out.Tags = append(out.Tags, "record:future>=1h")
		case age.Sign() >= 0 && age.Cmp(big.NewInt(day-slack)) < 0:
			recent = true
			out.Tags = append(out.Tags, "record:recent")
		default:
			out.Tags = append(out.Tags, "record:future<1h-or-boundary")
		}
	}
	if recent {
		// a trim completed less than a day ago: nothing at all changes
		if before.HasRec != after.HasRec || !bytes.Equal(before.Record, after.Record) || !reflect_equal(before.Subs, after.Subs) {
			out.find("impl-violation", "recent-trim-noop", "recent-trim-noop",
				fmt.Sprintf("trim.txt %q says a trim happened less than a day before now=%d, yet the directory changed (trim.txt now %q)", before.Record, now, after.Record))
		}
	}
	ran := after.HasRec && (!before.HasRec || !bytes.Equal(before.Record, after.Record))
	if due {
		out.Ran++
		// the trim time is recorded
		want := strconv.FormatInt(floorDiv(now, 1e9), 10)
		okRec := after.HasRec && string(after.Record) == want
		if !okRec && slack > 0 && after.HasRec {
			if v, err := strconv.ParseInt(string(after.Record), 10, 64); err == nil && v >= floorDiv(now, 1e9) && v <= floorDiv(now, 1e9)+5 {
				okRec = true
			}
		}
		if !okRec {
			out.find("impl-violation", "record-updated", "record-not-updated",
				fmt.Sprintf("a trim was due at now=%d (record %q) but trim.txt is %q afterwards, want %q", now, before.Record, after.Record, want))
		}
	}
	if due || ran {
		// every entry unused for longer than five days plus one hour is removed
		for i := range before.Subs {
			for _, o := range before.Subs[i] {
				if o.Kind == "F" && hasEntrySuffix(o.Name) && o.Mtime < now-fiveDays-hour-slack {
					if _, still := findObj(after.Subs[i], o.Name); still {
						out.find("impl-violation", "stale-removed", "stale-kept:"+ageClass(now-o.Mtime),
							fmt.Sprintf("subdirectory %02x: entry %q with mtime %d (age %s) survived the trim at %d", i, o.Name, o.Mtime, time.Duration(now-o.Mtime), now))
					}
				}
			}
		}
	}
	// --- nothing used within the last five days is removed
	for i := range before.Subs {
		for _, o := range before.Subs[i] {
			if o.Kind != "F" {
				continue
			}
			_, still := findObj(after.Subs[i], o.Name)
			if still {
				out.Kept++
				continue
			}
			out.Removed++
			lu, src := o.Mtime, "mtime"
			k := pathKey(i, o.Name)
			if ev, ok := lastUse[k]; ok && ev > lu {
				lu, src = ev, "event"
			}
			if lu >= now-fiveDays+slack {
				key, why := "recent-removed:"+src, "its mtime"
				if src == "event" {
					why = "a store/lookup"
					if restored[k] && o.Mtime < lu-hour {
						key = "restore-stale-output"
						why = "a Put that found the output already in the cache (and did not refresh its mtime)"
					}
				}
				out.find("impl-violation", "keep-recent", key,
					fmt.Sprintf("subdirectory %02x: %q was used %s before the trim (by %s; mtime age %s) and was removed", i, o.Name, time.Duration(now-lu), why, time.Duration(now-o.Mtime)))
			}
		}
	}
}

func ageClass(age int64) string {
	switch {
	case age < hour:
		return "<1h"
	case age < fiveDays:
		return "<5d"
	case age <= fiveDays+hour:
		return "5d..5d1h"
	default:
		return ">5d1h"
	}
}

func floorDiv(a, b int64) int64 {
	q := a / b
	if a%b != 0 && (a < 0) != (b < 0) {
		q--
	}
	return q
}

func reflect_equal(a, b any) bool { return fmt.Sprintf("%v", a) == fmt.Sprintf("%v", b) }

// ---------------------------------------------------------------- running one scenario

type runner struct {
	f    *common.Flags
	res  *common.Result
	m    *common.Model
	work string
	n    int
	dir  string       // one long-lived cache directory, emptied between scenarios
	c    *cache.Cache // the real cache on it
}

// relevant returns the subdirectories a scenario can put files into.
func relevant(scn *Scenario) []int {
	set := map[int]bool{}
	for _, e := range scn.Entries {
		ia, _ := indexPath(e.ID)
		id, _ := dataPathOf(outputID(e.Data))
		set[ia], set[id] = true, true
	}
	for _, e := range scn.Events {
		ia, _ := indexPath(e.ID)
		id, _ := dataPathOf(outputID(e.Data))
		set[ia], set[id] = true, true
	}
	for _, o := range scn.Objs {
		if o.Sub >= 0 {
			set[o.Sub&255] = true
		}
	}
	for _, i := range scn.Missing {
		set[i&255] = true
	}
	var out []int
	for i := range set {
		out = append(out, i)
	}
	sort.Ints(out)
	return out
}

// putSubs are the subdirectories the action ids and contents of the generators map to.
var putSubs = func() map[int]bool {
	m := map[int]bool{}
	for k := 0; k < 8; k++ {
		ia, _ := indexPath(k)
		id, _ := dataPathOf(outputID(k))
		m[ia], m[id] = true, true
	}
	return m
}()

var allSubs = func() []int {
	var l []int
	for i := 0; i < 256; i++ {
		l = append(l, i)
	}
	return l
}()

// reset empties the long-lived cache directory (creating it on first use).
func (rn *runner) reset(subs []int) error {
	if rn.c == nil {
		dir, err := os.MkdirTemp(rn.work, "cache")
		if err != nil {
			return err
		}
		c, err := cache.Open(dir)
		if err != nil {
			return err
		}
		rn.dir, rn.c = dir, c
		return nil
	}
	ents, _ := os.ReadDir(rn.dir)
	for _, e := range ents {
		if !isSubName(e.Name()) || !e.IsDir() {
			os.RemoveAll(filepath.Join(rn.dir, e.Name()))
		}
	}
	for _, i := range subs {
		p := filepath.Join(rn.dir, subName(i))
		ents, err := os.ReadDir(p)
		if err != nil {
			os.RemoveAll(p)
			os.Mkdir(p, 0o777)
			continue
		}
		for _, e := range ents {
			os.RemoveAll(filepath.Join(p, e.Name()))
		}
	}
	return nil
}

func (rn *runner) runScenario(scn *Scenario) *Outcome {
	out := &Outcome{}
	rn.n++
	subs := relevant(scn)
	if rn.n%100 == 0 {
		subs = allSubs // now and then look at everything
	}
	if err := rn.reset(subs); err != nil {
		out.find("correspondence", "setup", "setup", err.Error())
		return out
	}
	defer rn.reset(subs)
	dir, c := rn.dir, rn.c
	N := scn.Now
	slack := int64(0)
	if !injectable {
		N = time.Now().UnixNano()
		slack = 3 * sec
	}
	clock := func(ns int64) int64 {
		if injectable {
			setNow(c, func() time.Time { return at(ns) })
			return ns
		}
		return time.Now().UnixNano()
	}
	// ---- population
	for _, e := range scn.Entries {
		clock(N - e.AgeA)
		if _, _, err := c.Put(actionID(e.ID), bytes.NewReader(content(e.Data))); err != nil {
			out.find("correspondence", "setup", "setup-put", err.Error())
			return out
		}
		ia, na := indexPath(e.ID)
		id, nd := dataPathOf(outputID(e.Data))
		os.Chtimes(filepath.Join(dir, subName(ia), na), at(N-e.AgeA), at(N-e.AgeA))
		os.Chtimes(filepath.Join(dir, subName(id), nd), at(N-e.AgeD), at(N-e.AgeD))
	}
	for _, o := range scn.Objs {
		if o.Name == "" || strings.ContainsRune(o.Name, 0) || o.Name == "." || o.Name == ".." {
			continue
		}
		base := dir
		if o.Sub >= 0 {
			if strings.Contains(o.Name, "/") {
				continue
			}
			base = filepath.Join(dir, subName(o.Sub&255))
		} else if o.Name == "trim.txt" || isSubName(strings.SplitN(o.Name, "/", 2)[0]) {
			continue
		}
		p := filepath.Join(base, o.Name)
		if _, err := os.Lstat(p); err == nil {
			continue // do not clobber an entry or an earlier object
		}
		os.MkdirAll(filepath.Dir(p), 0o777)
		t := at(N - o.Age)
		switch o.Kind {
		case "E":
			os.Mkdir(p, 0o777)
			os.Chtimes(p, t, t)
		case "D":
			os.Mkdir(p, 0o777)
			os.WriteFile(filepath.Join(p, "inner-a"), []byte(o.Data), 0o666)
			os.Chtimes(filepath.Join(p, "inner-a"), at(N-30*day), at(N-30*day))
			os.Chtimes(p, t, t)
		case "L":
			os.Symlink(filepath.Join(dir, "no-such-target"), p)
		default:
			os.WriteFile(p, []byte(o.Data), 0o666)
			os.Chtimes(p, t, t)
		}
		if o.Sub < 0 && strings.Contains(o.Name, "/") {
			// keep the parent directory's mtime stable across snapshots
			os.Chtimes(filepath.Dir(p), at(N-20*day), at(N-20*day))
		}
	}
	if scn.Record != nil {
		b, err := hex.DecodeString(*scn.Record)
		if err == nil {
			os.WriteFile(filepath.Join(dir, "trim.txt"), b, 0o666)
		}
	}
	for _, i := range scn.Missing {
		if putSubs[i&255] {
			continue // a Put into a deleted subdirectory fails; that is not what is modelled here
		}
		os.Remove(filepath.Join(dir, subName(i&255))) // succeeds only when empty
	}
	s0 := snapshot(dir, subs)
	for i := range s0.Subs {
		out.Objects += len(s0.Subs[i])
	}
	// ---- history
	lastUse := map[string]int64{}
	restored := map[string]bool{}
	var evs []string
	exists := func(sub int, name string) bool {
		_, err := os.Stat(filepath.Join(dir, subName(sub), name))
		return err == nil
	}
	var lastTrimNow int64
	for _, e := range scn.Events {
		u := clock(N + e.At)
		out.Events++
		ia, na := indexPath(e.ID)
		switch e.Op {
		case "get", "getfile", "getbytes":
			ent, gerr := c.Get(actionID(e.ID))
			switch e.Op {
			case "getfile":
				c.GetFile(actionID(e.ID))
			case "getbytes":
				c.GetBytes(actionID(e.ID))
			}
			if gerr != nil {
				out.Tags = append(out.Tags, "ev:"+e.Op+"-miss")
				continue
			}
			lastUse[pathKey(ia, na)] = u
			restored[pathKey(ia, na)] = false
			if e.Op == "get" {
				evs = append(evs, fmt.Sprintf("G %d %d %s", u, ia, common.Hex([]byte(na))))
				out.Tags = append(out.Tags, "ev:get-hit")
				continue
			}
			id, nd := dataPathOf(ent.OutputID)
			if exists(id, nd) {
				lastUse[pathKey(id, nd)] = u
				restored[pathKey(id, nd)] = false
				out.Tags = append(out.Tags, "ev:"+e.Op+"-hit")
			} else {
				out.Tags = append(out.Tags, "ev:"+e.Op+"-nodata")
			}
			evs = append(evs, fmt.Sprintf("L %d %d %s %d %s", u, ia, common.Hex([]byte(na)), id, common.Hex([]byte(nd))))
		case "outputfile":
			id, nd := dataPathOf(outputID(e.Data))
			c.OutputFile(outputID(e.Data))
			if exists(id, nd) {
				lastUse[pathKey(id, nd)] = u
				restored[pathKey(id, nd)] = false
				out.Tags = append(out.Tags, "ev:outputfile-hit")
			} else {
				out.Tags = append(out.Tags, "ev:outputfile-miss")
			}
			evs = append(evs, fmt.Sprintf("G %d %d %s", u, id, common.Hex([]byte(nd))))
		case "put":
			id, nd := dataPathOf(outputID(e.Data))
			old, rerr := os.ReadFile(filepath.Join(dir, subName(id), nd))
			already := rerr == nil && bytes.Equal(old, content(e.Data))
			if _, _, err := c.Put(actionID(e.ID), bytes.NewReader(content(e.Data))); err != nil {
				out.find("correspondence", "put-error", "put-error", err.Error())
				continue
			}
			idx, _ := os.ReadFile(filepath.Join(dir, subName(ia), na))
			lastUse[pathKey(ia, na)] = u
			restored[pathKey(ia, na)] = false
			lastUse[pathKey(id, nd)] = u
			restored[pathKey(id, nd)] = already
			if already {
				out.Tags = append(out.Tags, "ev:put-existing-output")
			} else {
				out.Tags = append(out.Tags, "ev:put-new-output")
			}
			evs = append(evs, fmt.Sprintf("S %d %d %s %s %d %s %s", u, ia, common.Hex([]byte(na)), tagHex(idx), id, common.Hex([]byte(nd)), tagHex(content(e.Data))))
		case "trim":
			before := snapshot(dir, subs)
			terr := c.Trim()
			after := snapshot(dir, subs)
			trimOracles(out, before, after, u, slack, lastUse, restored, terr)
			for k := range lastUse {
				// a removed file carries no history into a later re-creation
				var sub int
				var name string
				if i := strings.IndexByte(k, '/'); i > 0 {
					sub, _ = strconv.Atoi(k[:i])
					name = k[i+1:]
				}
				if _, ok := findObj(after.Subs[sub&255], name); !ok {
					delete(lastUse, k)
					delete(restored, k)
				}
			}
			evs = append(evs, fmt.Sprintf("T %d", u))
			lastTrimNow = u
		}
	}
	_ = lastTrimNow
	final := snapshot(dir, subs)
	// ---- the model on the same directory and history
	if rn.m != nil && !out.has("put-error") {
		req := "run 1 " + modelDir(s0) + " " + fmt.Sprint(len(evs))
		if len(evs) > 0 {
			req += " " + strings.Join(evs, " ")
		}
		ans := canonModelAnswer(rn.m.Ask1(req))
		impl := "D " + modelDir(final)
		if !sameDir(ans, impl) {
			out.Findings = append(out.Findings, Finding{Kind: "correspondence", Oracle: "run", Key: "run",
				Detail: "final directory of the model and of the implementation differ: " + firstDiff(ans, impl),
				Model:  ans, Impl: impl})
		}
	}
	return out
}

func (o *Outcome) hasKey(key string) bool {
	for _, f := range o.Findings {
		if f.Key == key {
			return true
		}
	}
	return false
}

// sameDir compares two rendered directories; with the real clock the recorded second may
// differ by the time the calls took.
func sameDir(a, b string) bool {
	if a == b {
		return true
	}
	if injectable {
		return false
	}
	fa, fb := strings.Fields(a), strings.Fields(b)
	if len(fa) != len(fb) || len(fa) < 2 {
		return false
	}
	for i := range fa {
		if fa[i] == fb[i] {
			continue
		}
		if i != 1 {
			// an mtime set by an operation during the history: the real clock moved between
			// the runner's reading and the operation's
			ma, ea := strconv.ParseInt(fa[i], 10, 64)
			mb, eb := strconv.ParseInt(fb[i], 10, 64)
			if ea != nil || eb != nil || ma < 1e15 || mb < 1e15 || ma-mb > 5*sec || mb-ma > 5*sec {
				return false
			}
			continue
		}
		va, ea := strconv.ParseInt(string(common.UnHex(fa[1])), 10, 64)
		vb, eb := strconv.ParseInt(string(common.UnHex(fb[1])), 10, 64)
		if ea != nil || eb != nil || va-vb > 5 || vb-va > 5 {
			return false
		}
	}
	return true
}

func firstDiff(a, b string) string {
	fa, fb := strings.Fields(a), strings.Fields(b)
	for i := 0; i < len(fa) && i < len(fb); i++ {
		if fa[i] != fb[i] {
			lo := i - 4
			if lo < 0 {
				lo = 0
			}
			hi := i + 5
			ha, hb := hi, hi
			if ha > len(fa) {
				ha = len(fa)
			}
			if hb > len(fb) {
				hb = len(fb)
			}
			return fmt.Sprintf("token %d: model …%s… impl …%s…", i, strings.Join(fa[lo:ha], " "), strings.Join(fb[lo:hb], " "))
		}
	}
	return fmt.Sprintf("lengths %d vs %d", len(fa), len(fb))
}

// ---------------------------------------------------------------- generators

func ages(r *common.RNG) []int64 {
	var out []int64
	deltas := []int64{-hour, -sec, -1, 0, 1, sec, hour}
	if !injectable {
		deltas = []int64{-hour, -10 * sec, 10 * sec, hour}
	}
	for _, th := range []int64{hour, day, fiveDays, fiveDays + hour} {
		for _, d := range deltas {
			out = append(out, th+d)
		}
	}
	extra := []int64{0, sec, 30 * 60 * sec, 2 * hour, 3 * day, 6 * day, 10 * day, 400 * day, -sec, -2 * hour, -10 * day}
	if !injectable {
		extra = []int64{10 * sec, 30 * 60 * sec, 2 * hour, 3 * day, 6 * day, 10 * day, 400 * day, -2 * hour, -10 * day}
	}
	return append(out, extra...)
}

var agePool []int64

func pickAge(r *common.RNG) int64 {
	a := common.Pick(r, agePool)
	if fsGran > 1 {
		a -= a % fsGran
	}
	return a
}

var handNames = []string{"x-a", "x-d", "-a", "-d", "a-d", "foo-a.tmp", "foo-b", "README", "-", "a", "d", "x-A", "x-a ",
	"é-d", "\xff-a", ".hidden-a", "trim.txt", "x-ad", "x-a-d", "x\n-a", "fuzz-d", "0123456789abcdef0123456789abcdef0123456789abcdef0123456789abcdef-a",
	"0123456789abcdef0123456789abcdef0123456789abcdef0123456789abcdef-d", "-a-", "a-", "--a", "x-aa", "x_d", " -d"}
var rootNames = []string{"README", "fuzz/corpus-a", "fuzz/x/seed-d", "log.txt", "x-a", "old-d", "trim.txt.bak", "trim.txt~", "zz", "100", "aa-d", "-a", "testcache.txt"}

func genRecord(r *common.RNG, now int64) *string {
	nsec := floorDiv(now, 1e9)
	dec := func(d int64) string { return strconv.FormatInt(nsec+d, 10) }
	big55 := new(big.Int).Lsh(big.NewInt(1), 55)
	var s string
	switch r.Intn(12) {
	case 0:
		return nil
	case 1, 2, 3:
		ds := []int64{0, -1, -86399, -86400, -86401, -3599, -3600, -3601, 1, 3599, 3600, 3601, -6 * 86400, 86400, -43200, 1800}
		if !injectable {
			ds = []int64{-30, -86300, -86500, -6 * 86400, 86400, -43200, 1800, 3500, 3700}
		}
		s = dec(common.Pick(r, ds))
	case 4:
		ds := []int64{0, -86399, -86400, -3600, 3599, 3600, 3601, -100}
		if !injectable {
			ds = []int64{-30, -86300, -86500, 3500, 3700}
		}
		core := dec(common.Pick(r, ds))
		s = common.Pick(r, []string{" ", "\n", "\t", "\r\n", " ", "　", "\u0085", " ", "  \n\t", ""}) + core +
			common.Pick(r, []string{"\n", " ", "\r\n", " ", " \n", "\t \t", ""})
	case 5:
		s = common.Pick(r, []string{"", " ", "\n", "abc", "12x", "0x10", "1_0", "1e9", "１２３", "\xff", "\x00", "1 2", "--5", "+-5", "+", "-", "\ufeff1", "1.0", "0b1", "٣"})
	case 6:
		s = common.Pick(r, []string{"9223372036854775807", "-9223372036854775808", "9223372036854775808", "-9223372036854775809",
			"18446744073709551616", "18446744073709551615", "99999999999999999999999999", "-99999999999999999999999999",
			"9223372036854775807\n", " 9223372036854775806", "9223372030000000000", "9223371974719179007", "9223371974719179008"})
	case 7:
		k := new(big.Int).Mul(big55, big.NewInt(int64(r.Intn(200)+1)))
		if r.Bool() {
			k.Neg(k)
		}
		s = new(big.Int).Add(big.NewInt(nsec), k).String()
	case 8:
		s = common.Pick(r, []string{"0", "-0", "+0", "1", "-1", "-5", "000", "1000000000", "-62135596800", "-62135596801", "253402300800"})
	case 9:
		s = "+" + dec(common.Pick(r, []int64{0, -86399, -86400, 3600}))
		if r.Bool() {
			s = "0000" + s[1:]
		}
	case 10:
		core := dec(common.Pick(r, []int64{0, -100}))
		s = core + common.Pick(r, []string{"x", ".0", " " + core, "\x00", "e0", "_", ",", "\n1"})
	default:
		s = strconv.FormatInt(int64(r.Uint64()), 10)
	}
	h := hex.EncodeToString([]byte(s))
	return &h
}

func genNow(r *common.RNG) int64 {
	n := int64(1700000000)*1e9 + int64(r.Intn(300000000))*1e9
	switch r.Intn(4) {
	case 0:
	case 1:
		n += 999999999
	case 2:
		n += 1
	default:
		n += int64(r.Intn(1000000000))
	}
	if fsGran > 1 {
		n -= n % fsGran
	}
	return n
}

func genScenario(r *common.RNG) *Scenario {
	s := &Scenario{Now: genNow(r)}
	s.Record = genRecord(r, s.Now)
	frac := s.Now - floorDiv(s.Now, 1e9)*1e9
	for i, n := 0, r.Intn(5); i < n; i++ {
		e := Entry{ID: r.Intn(6), Data: r.Intn(4), AgeA: pickAge(r)}
		e.AgeD = e.AgeA
		if r.Chance(1, 2) {
			e.AgeD = pickAge(r)
		}
		s.Entries = append(s.Entries, e)
	}
	subs := []int{0, 1, 0x7f, 0xff, r.Intn(256)}
	for _, e := range s.Entries {
		ia, _ := indexPath(e.ID)
		subs = append(subs, ia)
	}
	for i, n := 0, r.Intn(9); i < n; i++ {
		o := Obj{Sub: common.Pick(r, subs), Name: common.Pick(r, handNames), Age: pickAge(r), Kind: "F", Data: fmt.Sprintf("hand %d", r.Intn(5))}
		switch r.Intn(12) {
		case 0:
			o.Kind = "E"
		case 1:
			o.Kind = "D"
		case 2:
			o.Kind = "L"
		}
		if r.Chance(1, 5) {
			o.Sub = -1
			o.Name = common.Pick(r, rootNames)
		}
		s.Objs = append(s.Objs, o)
	}
	// the history: events before the trim at offset 0, then possibly more
	var pre []Event
	for i, n := 0, r.Intn(6); i < n; i++ {
		a := pickAge(r)
		if a < 0 {
			a = -a
		}
		ev := Event{At: -a, ID: r.Intn(6), Data: r.Intn(4)}
		ev.Op = common.Pick(r, []string{"get", "getfile", "getbytes", "getbytes", "outputfile", "put", "put"})
		if r.Chance(1, 12) {
			ev.Op = "trim"
		}
		pre = append(pre, ev)
	}
	sort.SliceStable(pre, func(i, j int) bool { return pre[i].At < pre[j].At })
	s.Events = pre
	if r.Chance(9, 10) {
		s.Events = append(s.Events, Event{Op: "trim", At: 0})
	}
	if r.Chance(1, 3) {
		offs := []int64{sec, hour, day - frac - 1, day - frac, day - frac + 1, day - sec, day, day + sec, 2 * day, 6 * day, fiveDays + hour, fiveDays + hour + 1}
		if !injectable {
			offs = []int64{0}
		}
		var post []Event
		for i, n := 0, r.Intn(4)+1; i < n; i++ {
			ev := Event{At: common.Pick(r, offs), ID: r.Intn(6), Data: r.Intn(4)}
			ev.Op = common.Pick(r, []string{"trim", "trim", "getbytes", "put", "getfile"})
			post = append(post, ev)
		}
		sort.SliceStable(post, func(i, j int) bool { return post[i].At < post[j].At })
		s.Events = append(s.Events, post...)
	}
	if r.Chance(1, 15) {
		s.Missing = []int{r.Intn(256)}
	}
	return s
}

// restoreScenario is the hand-written history behind the defect found while building this
// check: an output stored six days ago and never looked up is stored again (under the same
// and under another action id) seconds before a trim.
func restoreScenario() *Scenario {
	return &Scenario{Now: 1800000000123456789,
		Entries: []Entry{{ID: 1, Data: 1, AgeA: 6 * day, AgeD: 6 * day}},
		Events: []Event{{Op: "put", At: -2 * sec, ID: 1, Data: 1}, {Op: "put", At: -sec, ID: 2, Data: 1},
			{Op: "trim", At: 0}, {Op: "getbytes", At: sec, ID: 2}}}
}

func scenarioJSON(s *Scenario) string {
	b, _ := json.Marshal(s)
	return string(b)
}

func describeScenario(s *Scenario) string {
	var b strings.Builder
	fmt.Fprintf(&b, "now=%d", s.Now)
	if s.Record == nil {
		b.WriteString(" trim.txt=missing")
	} else {
		raw, _ := hex.DecodeString(*s.Record)
		fmt.Fprintf(&b, " trim.txt=%q", raw)
	}
	for _, e := range s.Entries {
		fmt.Fprintf(&b, "; Put(id%d,data%d) then index age %s, data age %s", e.ID, e.Data, time.Duration(e.AgeA), time.Duration(e.AgeD))
	}
	for _, o := range s.Objs {
		fmt.Fprintf(&b, "; %s %d/%q age %s", o.Kind, o.Sub, o.Name, time.Duration(o.Age))
	}
	for _, e := range s.Events {
		fmt.Fprintf(&b, "; %s(id%d,data%d)@%s", e.Op, e.ID, e.Data, time.Duration(e.At))
	}
	return b.String()
}

package main

import (
	"bytes"
	"crypto/sha256"
	"encoding/hex"
	"fmt"
	"math/big"
	"os"
	"path/filepath"
	"runtime/debug"
	"sort"
	"strconv"
	"strings"
	"time"
	_ "time/tzdata" // the zone database travels with the runner

	"github.com/rogpeppe/go-internal/cache"

	"verif/harness/common"
)

// ---------------------------------------------------------------- snapshots

type SObj struct {
	Name  string
	Mtime int64
	Tag   string // content hash prefix (files), summary of the contents (directories)
	Kind  string
}

type Snap struct {
	Record  []byte
	RecKind string // none | file | dir
	Root    []SObj
	Subs    [256][]SObj
	Absent  []int // listed subdirectories that do not exist
}

func tagOf(b []byte) string {
	h := sha256.Sum256(b)
	return hex.EncodeToString(h[:6])
}

func tagHex(b []byte) string { return hex.EncodeToString([]byte(tagOf(b))) }

// describe returns the observable of one directory entry.
func describe(path, name string) SObj {
	li, err := os.Lstat(path)
	if err != nil {
		return SObj{Name: name, Kind: "?"}
	}
	switch {
	case li.Mode()&os.ModeSymlink != 0:
		fi, err := os.Stat(path)
		if err != nil {
			return SObj{Name: name, Kind: "L", Tag: "-"}
		}
		b, _ := os.ReadFile(path)
		return SObj{Name: name, Kind: "S", Mtime: fi.ModTime().UnixNano(), Tag: tagOf(b)}
	case li.IsDir():
		ents, _ := os.ReadDir(path)
		if len(ents) == 0 {
			return SObj{Name: name, Kind: "E", Mtime: li.ModTime().UnixNano(), Tag: "-"}
		}
		var parts []string
		for _, e := range ents {
			s := describe(filepath.Join(path, e.Name()), e.Name())
			parts = append(parts, fmt.Sprintf("%q/%d/%s/%s", s.Name, s.Mtime, s.Tag, s.Kind))
		}
		return SObj{Name: name, Kind: "D", Mtime: li.ModTime().UnixNano(), Tag: tagOf([]byte(strings.Join(parts, ";")))}
	default:
		b, _ := os.ReadFile(path)
		return SObj{Name: name, Kind: "F", Mtime: li.ModTime().UnixNano(), Tag: tagOf(b)}
	}
}

func listDir(dir string, skip func(string) bool) ([]SObj, bool) {
	ents, err := os.ReadDir(dir)
	if err != nil {
		return nil, false
	}
	var out []SObj
	for _, e := range ents {
		if skip != nil && skip(e.Name()) {
			continue
		}
		out = append(out, describe(filepath.Join(dir, e.Name()), e.Name()))
	}
	sort.Slice(out, func(i, j int) bool { return out[i].Name < out[j].Name })
	return out, true
}

func isSubName(n string) bool {
	if len(n) != 2 {
		return false
	}
	_, err := strconv.ParseUint(n, 16, 8)
	return err == nil && strings.ToLower(n) == n
}

// snapshot observes the cache directory; only the subdirectories in subs are listed (the
// others are known to exist and to be empty: everything in the directory was put there by
// this runner).
func snapshot(dir string, subs []int) *Snap {
	s := &Snap{RecKind: "none"}
	p := filepath.Join(dir, "trim.txt")
	if fi, err := os.Lstat(p); err == nil {
		if fi.IsDir() {
			s.RecKind = "dir"
		} else if b, err := os.ReadFile(p); err == nil {
			s.Record, s.RecKind = b, "file"
		}
	}
	s.Root, _ = listDir(dir, func(n string) bool { return n == "trim.txt" || isSubName(n) })
	for _, i := range subs {
		var ok bool
		s.Subs[i], ok = listDir(filepath.Join(dir, subName(i)), nil)
		if !ok {
			s.Absent = append(s.Absent, i)
		}
	}
	return s
}

func showSObj(o SObj) string {
	tag := o.Tag
	if tag == "" {
		tag = "-"
	}
	if tag != "-" {
		tag = hex.EncodeToString([]byte(tag))
	}
	return fmt.Sprintf("%s %d %s %s", common.Hex([]byte(o.Name)), o.Mtime, tag, o.Kind)
}

func showRec(s *Snap) string {
	switch s.RecKind {
	case "dir":
		return "dir"
	case "file":
		return common.Hex(s.Record)
	}
	return "none"
}

// modelDir renders a snapshot in the line format of the model driver (and of its answer).
func modelDir(s *Snap) string {
	parts := []string{showRec(s), fmt.Sprint(len(s.Root))}
	for _, o := range s.Root {
		parts = append(parts, showSObj(o))
	}
	parts = append(parts, fmt.Sprint(len(s.Absent)))
	for _, i := range s.Absent {
		parts = append(parts, fmt.Sprint(i))
	}
	k := 0
	for i := range s.Subs {
		if len(s.Subs[i]) > 0 {
			k++
		}
	}
	parts = append(parts, fmt.Sprint(k))
	for i := range s.Subs {
		if len(s.Subs[i]) > 0 {
			parts = append(parts, fmt.Sprint(i), fmt.Sprint(len(s.Subs[i])))
			for _, o := range s.Subs[i] {
				parts = append(parts, showSObj(o))
			}
		}
	}
	return strings.Join(parts, " ")
}

// canonModelAnswer sorts the objects of every subdirectory of a model answer by name, so that
// it can be compared with a sorted snapshot; it returns the directory part and the error flags.
func canonModelAnswer(ans string) (string, string) {
	f := strings.Fields(ans)
	if len(f) < 3 || f[0] != "D" {
		return ans, ""
	}
	pos := 1
	next := func() string {
		if pos >= len(f) {
			return ""
		}
		pos++
		return f[pos-1]
	}
	readObjs := func(n int) []string {
		var objs []string
		for i := 0; i < n; i++ {
			a, b, c, d := next(), next(), next(), next()
			objs = append(objs, a+" "+b+" "+c+" "+d)
		}
		sort.Slice(objs, func(i, j int) bool {
			return string(common.UnHex(strings.Fields(objs[i])[0])) < string(common.UnHex(strings.Fields(objs[j])[0]))
		})
		return objs
	}
	out := []string{"D", next()}
	n, _ := strconv.Atoi(next())
	out = append(out, fmt.Sprint(n))
	out = append(out, readObjs(n)...)
	na, _ := strconv.Atoi(next())
	out = append(out, fmt.Sprint(na))
	for i := 0; i < na; i++ {
		out = append(out, next())
	}
	k, _ := strconv.Atoi(next())
	out = append(out, fmt.Sprint(k))
	for i := 0; i < k; i++ {
		idx := next()
		cnt, _ := strconv.Atoi(next())
		out = append(out, idx, fmt.Sprint(cnt))
		out = append(out, readObjs(cnt)...)
	}
	errs := ""
	if next() == "E" {
		errs = next()
	}
	return strings.Join(out, " "), errs
}

// ---------------------------------------------------------------- findings and oracles

// Finding is one failed oracle or one disagreement with the model.
type Finding struct {
	Kind   string // impl-violation | correspondence
	Oracle string
	Key    string
	Detail string
	Model  string
	Impl   string
}

type Outcome struct {
	Findings []Finding
	Tags     []string
	Trims    int
	Ran      int
	Removed  int
	Kept     int
	Events   int
	Objects  int
}

func (o *Outcome) find(kind, oracle, key, detail string) {
	o.Findings = append(o.Findings, Finding{Kind: kind, Oracle: oracle, Key: key, Detail: detail})
}

func (o *Outcome) has(oracle string) bool {
	for _, f := range o.Findings {
		if f.Oracle == oracle {
			return true
		}
	}
	return false
}

func pathKey(sub int, name string) string { return fmt.Sprintf("%d/%s", sub, name) }

func hasEntrySuffix(name string) bool {
	return strings.HasSuffix(name, "-a") || strings.HasSuffix(name, "-d")
}

func findObj(l []SObj, name string) (SObj, bool) {
	for _, o := range l {
		if o.Name == name {
			return o, true
		}
	}
	return SObj{}, false
}

// parseRecord reads a last-trim record the way the property describes it (an integer number
// of seconds, white space around it ignored), without strconv.ParseInt and without int64.
func parseRecord(b []byte) (*big.Int, bool) {
	s := strings.TrimSpace(string(b))
	if s == "" {
		return nil, false
	}
	for i, c := range s {
		if (c == '+' || c == '-') && i == 0 {
			continue
		}
		if c < '0' || c > '9' {
			return nil, false
		}
	}
	v, ok := new(big.Int).SetString(s, 10)
	return v, ok
}

// ageOfRecord returns now - t*10^9 as a big integer.
func ageOfRecord(now int64, t *big.Int) *big.Int {
	x := new(big.Int).Mul(t, big.NewInt(1e9))
	return x.Sub(big.NewInt(now), x)
}

func sameObjs(a, b any) bool { return fmt.Sprintf("%v", a) == fmt.Sprintf("%v", b) }

// trimOracles evaluates the property on one Trim call from the snapshots taken around it.
// slack widens every threshold in the direction that cannot raise a false alarm (0 with the
// injected clock).
func trimOracles(out *Outcome, before, after *Snap, now, slack int64, lastUse map[string]int64, restored map[string]bool, trimErr error) {
	out.Trims++
	if trimErr != nil && before.RecKind != "dir" {
		out.find("correspondence", "trim-error", "trim-error", "Trim returned "+trimErr.Error())
	}
	// --- non-entry files are untouched; nothing is added or modified
	if !sameObjs(before.Root, after.Root) {
		out.find("impl-violation", "non-entry-untouched", "root-changed",
			fmt.Sprintf("objects of the cache root changed: before %v after %v", before.Root, after.Root))
	}
	if !sameObjs(before.Absent, after.Absent) {
		out.find("impl-violation", "non-entry-untouched", "subdirs-changed",
			fmt.Sprintf("missing subdirectories before %v, after %v", before.Absent, after.Absent))
	}
	for i := range before.Subs {
		var nb, na []SObj
		for _, o := range before.Subs[i] {
			if !hasEntrySuffix(o.Name) {
				nb = append(nb, o)
			}
		}
		for _, o := range after.Subs[i] {
			if !hasEntrySuffix(o.Name) {
				na = append(na, o)
			}
			if p, ok := findObj(before.Subs[i], o.Name); !ok || p != o {
				out.find("impl-violation", "no-modification", "modified:"+o.Name,
					fmt.Sprintf("subdirectory %02x: %q is new or was modified by Trim (%v -> %v)", i, o.Name, p, o))
			}
		}
		if !sameObjs(nb, na) {
			out.find("impl-violation", "non-entry-untouched", "subdir-foreign-changed",
				fmt.Sprintf("subdirectory %02x: files without the entry suffix changed: %v -> %v", i, nb, na))
		}
	}
	// --- a directory with something in it is not a cache entry, whatever its name, and what is in it
	// is not either: it is there afterwards with everything below it as it was
	for i := range before.Subs {
		for _, o := range before.Subs[i] {
			if o.Kind != "D" {
				continue
			}
			if p, ok := findObj(after.Subs[i], o.Name); !ok || p != o {
				what := "is gone with everything in it"
				if ok {
					what = fmt.Sprintf("changed below (%v -> %v)", o, p)
				}
				out.find("impl-violation", "foreign-dir-untouched", "foreign-dir:"+map[bool]string{true: "entry-like-name", false: "other-name"}[hasEntrySuffix(o.Name)],
					fmt.Sprintf("subdirectory %02x: the non-empty directory %q (mtime age %s; files and directories below it are nobody's cache entries) %s", i, o.Name, time.Duration(now-o.Mtime), what))
			}
		}
	}
	// --- is a trim due?  (independent reading of the record)
	due, recent := false, false
	switch {
	case before.RecKind == "none":
		due = true
		out.Tags = append(out.Tags, "record:missing")
	case before.RecKind == "dir":
		due = true
		out.Tags = append(out.Tags, "record:directory")
	default:
		if t, ok := parseRecord(before.Record); !ok {
			due = true
			out.Tags = append(out.Tags, "record:corrupt")
		} else {
			age := ageOfRecord(now, t)
			switch {
			case age.Cmp(big.NewInt(day+slack)) >= 0:
				due = true
				out.Tags = append(out.Tags, "record:old")
			case age.Cmp(big.NewInt(-hour-slack)) <= 0:
				due = true
				out.Tags = append(out.Tags, "record:future>=1h")
			case age.Sign() >= 0 && age.Cmp(big.NewInt(day-slack)) < 0:
				recent = true
				out.Tags = append(out.Tags, "record:recent")
			default:
				out.Tags = append(out.Tags, "record:future<1h-or-boundary")
			}
		}
	}
	if recent {
		// a trim completed less than a day ago: nothing at all changes
		if before.RecKind != after.RecKind || !bytes.Equal(before.Record, after.Record) || !sameObjs(before.Subs, after.Subs) {
			out.find("impl-violation", "recent-trim-noop", "recent-trim-noop",
				fmt.Sprintf("trim.txt %q says a trim happened less than a day before now=%d, yet the directory changed (trim.txt now %q)", before.Record, now, after.Record))
		}
		if trimErr != nil {
			out.find("impl-violation", "recent-trim-noop", "recent-trim-error", "Trim returned "+trimErr.Error())
		}
	}
	ran := after.RecKind == "file" && (before.RecKind != "file" || !bytes.Equal(before.Record, after.Record))
	if due {
		out.Ran++
		if before.RecKind == "dir" {
			// the record cannot be written: Trim must say so and leave it alone
			if trimErr == nil || after.RecKind != "dir" {
				out.find("impl-violation", "record-updated", "unwritable-record",
					fmt.Sprintf("trim.txt is a directory: Trim returned %v and trim.txt is now %s", trimErr, after.RecKind))
			}
		} else {
			// the trim time is recorded
			want := strconv.FormatInt(floorDiv(now, 1e9), 10)
			okRec := after.RecKind == "file" && string(after.Record) == want
			if !okRec && slack > 0 && after.RecKind == "file" {
				if v, err := strconv.ParseInt(string(after.Record), 10, 64); err == nil && v >= floorDiv(now, 1e9) && v <= floorDiv(now, 1e9)+5 {
					okRec = true
				}
			}
			if !okRec {
				out.find("impl-violation", "record-updated", "record-not-updated",
					fmt.Sprintf("a trim was due at now=%d (record %q) but trim.txt is %q afterwards, want %q", now, before.Record, after.Record, want))
			}
		}
	}
	if due || ran {
		// every entry unused for longer than five days plus one hour is removed
		for i := range before.Subs {
			for _, o := range before.Subs[i] {
				if (o.Kind == "F" || o.Kind == "S") && hasEntrySuffix(o.Name) && o.Mtime < now-fiveDays-hour-slack {
					if _, still := findObj(after.Subs[i], o.Name); still {
						out.find("impl-violation", "stale-removed", "stale-kept:"+ageClass(now-o.Mtime),
							fmt.Sprintf("subdirectory %02x: entry %q with mtime %d (age %s) survived the trim at %d", i, o.Name, o.Mtime, time.Duration(now-o.Mtime), now))
					}
				}
			}
		}
	}
	// --- nothing used within the last five days is removed
	for i := range before.Subs {
		for _, o := range before.Subs[i] {
			if o.Kind != "F" && o.Kind != "S" {
				continue
			}
			_, still := findObj(after.Subs[i], o.Name)
			if still {
				out.Kept++
				continue
			}
			out.Removed++
			lu, src := o.Mtime, "mtime"
			k := pathKey(i, o.Name)
			if ev, ok := lastUse[k]; ok && ev > lu {
				lu, src = ev, "event"
			}
			if lu >= now-fiveDays+slack {
				key, why := "recent-removed:"+src, "its mtime"
				if src == "event" {
					why = "a store/lookup"
					if restored[k] && o.Mtime < lu-hour {
						key = "restore-stale-output"
						why = "a Put that found the output already in the cache (and did not refresh its mtime)"
					}
				}
				out.find("impl-violation", "keep-recent", key,
					fmt.Sprintf("subdirectory %02x: %q (tag %s) was used %s before the trim (by %s; mtime age %s) and was removed", i, o.Name, o.Tag, time.Duration(now-lu), why, time.Duration(now-o.Mtime)))
			}
		}
	}
}

// oddNames lists the names of a snapshot that are not 66-byte entry names (for a panic report).
func oddNames(s *Snap) string {
	var l []string
	for i := range s.Subs {
		for _, o := range s.Subs[i] {
			if len(o.Name) != 66 && len(l) < 12 {
				l = append(l, fmt.Sprintf("%02x/%q(%s)", i, o.Name, o.Kind))
			}
		}
	}
	return strings.Join(l, " ")
}

func ageClass(age int64) string {
	switch {
	case age < hour:
		return "<1h"
	case age < fiveDays:
		return "<5d"
	case age <= fiveDays+hour:
		return "5d..5d1h"
	default:
		return ">5d1h"
	}
}

// ---------------------------------------------------------------- running one scenario

// safely makes one call of the package; a panic of the call is returned, not propagated ("Trim
// never ...": least of all does it take the process down because of a file somebody left there).
func safely(f func()) (panicked string) {
	defer func() {
		if e := recover(); e != nil {
			panicked = fmt.Sprint(e)
		}
	}()
	f()
	return ""
}

// fillDir gives a foreign directory its contents: files (also with entry-like names) and, with
// depth, directories below it that again look like entries and like cache subdirectories.
func fillDir(p string, depth int, data string, old time.Time) {
	var made []string
	w := func(rel string) {
		q := filepath.Join(p, rel)
		os.MkdirAll(filepath.Dir(q), 0o777)
		os.WriteFile(q, []byte(data+" "+rel), 0o666)
		made = append(made, q)
	}
	w("inner-a")
	if depth >= 1 {
		w("notes.txt")
		w("more/README")
		w("more/kept-d")
	}
	if depth >= 2 {
		w("more/3c/saved-a/deep-d")
		w("more/3c/x")
	}
	for _, q := range made {
		os.Chtimes(q, old, old)
	}
	for _, d := range []string{"more/3c/saved-a", "more/3c", "more"} {
		if _, err := os.Lstat(filepath.Join(p, d)); err == nil {
			os.Chtimes(filepath.Join(p, d), old, old)
		}
	}
}

// relevant returns the subdirectories a scenario can put files into.
func relevant(scn *Scenario) []int {
	set := map[int]bool{}
	for _, e := range scn.Entries {
		ia, _ := indexPath(e.ID)
		id, _ := dataPathOf(outputID(e.Data))
		set[ia], set[id] = true, true
	}
	for _, e := range scn.Events {
		ia, _ := indexPath(e.ID)
		id, _ := dataPathOf(outputID(e.Data))
		set[ia], set[id] = true, true
	}
	for _, o := range scn.Objs {
		if o.Sub >= 0 {
			set[o.Sub&255] = true
		}
	}
	for _, i := range scn.Missing {
		set[i&255] = true
	}
	var out []int
	for i := range set {
		out = append(out, i)
	}
	sort.Ints(out)
	return out
}

var allSubs = func() []int {
	var l []int
	for i := 0; i < 256; i++ {
		l = append(l, i)
	}
	return l
}()

// reset empties the long-lived cache directory of a root class (creating it on first use).
func (rn *runner) reset(root string, subs []int) (*rootState, error) {
	fresh := rn.roots == nil || rn.roots[root] == nil
	st, err := rn.rootFor(root)
	if err != nil {
		return nil, err
	}
	if fresh {
		return st, nil
	}
	ents, _ := os.ReadDir(st.dir)
	for _, e := range ents {
		if !isSubName(e.Name()) || !e.IsDir() {
			os.RemoveAll(filepath.Join(st.dir, e.Name()))
		}
	}
	for _, i := range subs {
		p := filepath.Join(st.dir, subName(i))
		ents, err := os.ReadDir(p)
		if err != nil {
			os.RemoveAll(p)
			os.Mkdir(p, 0o777)
			continue
		}
		for _, e := range ents {
			os.RemoveAll(filepath.Join(p, e.Name()))
		}
	}
	tg, _ := os.ReadDir(filepath.Join(rn.work, "targets"))
	for _, e := range tg {
		os.Remove(filepath.Join(rn.work, "targets", e.Name()))
	}
	rn.restoreOutside(st)
	return st, nil
}

func (rn *runner) runScenario(scn *Scenario) *Outcome {
	out := &Outcome{}
	rn.n++
	subs := relevant(scn)
	if rn.n%100 == 0 {
		subs = allSubs // now and then look at everything
	}
	st, err := rn.reset(scn.Root, subs)
	if err != nil {
		out.find("correspondence", "setup", "setup", err.Error())
		return out
	}
	defer rn.reset(st.key, subs)
	dir, c := st.dir, st.c
	if st.key != "" {
		out.Tags = append(out.Tags, "root:"+st.key)
	} else if scn.Root != "" {
		out.Tags = append(out.Tags, "root:unavailable(plain used)")
	}
	// the epoch is the real time
	real0 := time.Now().UnixNano()
	N := floorDiv(real0, 1e9)*1e9 + scn.Frac
	if fsGran > 1 {
		N -= N % fsGran
	}
	if scn.Epoch != 0 && injectable {
		// a chosen instant instead of the real time (files the code creates without os.Chtimes are
		// stamped by the runner, see the put event)
		N = scn.Epoch*1e9 + scn.Frac
		if fsGran > 1 {
			N -= N % fsGran
		}
		out.Tags = append(out.Tags, "epoch:chosen")
	}
	if scn.TZ != "" {
		// the process's local time zone is an input of everything that computes with time.Time
		if loc, err := time.LoadLocation(scn.TZ); err == nil {
			old := time.Local
			time.Local = loc
			defer func() { time.Local = old }()
			out.Tags = append(out.Tags, "tz:"+scn.TZ)
		} else {
			out.Tags = append(out.Tags, "tz:unavailable")
		}
	}
	slack := int64(0)
	if !injectable {
		N = real0
		slack = 3 * sec
	}
	clock := func(ns int64) int64 {
		if injectable {
			setNow(c, func() time.Time { return at(ns) })
			return ns
		}
		return time.Now().UnixNano()
	}
	// ---- population
	for _, e := range scn.Entries {
		clock(N - e.AgeA)
		if _, _, err := c.Put(actionID(e.ID), bytes.NewReader(content(e.Data))); err != nil {
			out.find("correspondence", "setup", "setup-put", err.Error())
			return out
		}
		ia, na := indexPath(e.ID)
		id, nd := dataPathOf(outputID(e.Data))
		os.Chtimes(filepath.Join(dir, subName(ia), na), at(N-e.AgeA), at(N-e.AgeA))
		os.Chtimes(filepath.Join(dir, subName(id), nd), at(N-e.AgeD), at(N-e.AgeD))
	}
	for k, o := range scn.Objs {
		name := o.name()
		if name == "" || strings.ContainsRune(name, 0) || name == "." || name == ".." {
			continue
		}
		base := dir
		if o.Sub >= 0 {
			if strings.Contains(name, "/") {
				continue
			}
			base = filepath.Join(dir, subName(o.Sub&255))
		} else if name == "trim.txt" || isSubName(strings.SplitN(name, "/", 2)[0]) {
			continue
		}
		p := filepath.Join(base, name)
		if _, err := os.Lstat(p); err == nil {
			continue // do not clobber an entry or an earlier object
		}
		os.MkdirAll(filepath.Dir(p), 0o777)
		t := at(N - o.Age)
		switch o.Kind {
		case "E":
			os.Mkdir(p, 0o777)
			os.Chtimes(p, t, t)
		case "D":
			os.Mkdir(p, 0o777)
			fillDir(p, o.Depth, o.Data, at(N-30*day))
			os.Chtimes(p, t, t)
		case "L":
			os.Symlink(filepath.Join(dir, "no-such-target"), p)
		case "S":
			tg := filepath.Join(rn.work, "targets", fmt.Sprintf("t%d", k))
			os.WriteFile(tg, []byte(o.Data), 0o666)
			os.Chtimes(tg, t, t)
			os.Symlink(tg, p)
		default:
			os.WriteFile(p, []byte(o.Data), 0o666)
			os.Chtimes(p, t, t)
		}
		if o.Sub < 0 && strings.Contains(name, "/") {
			// keep the parent directory's mtime stable across snapshots
			os.Chtimes(filepath.Dir(p), at(N-20*day), at(N-20*day))
		}
	}
	raw, rkind := scn.Rec.render(N)
	switch rkind {
	case "file":
		os.WriteFile(filepath.Join(dir, "trim.txt"), raw, 0o666)
	case "dir":
		os.Mkdir(filepath.Join(dir, "trim.txt"), 0o777)
		os.Chtimes(filepath.Join(dir, "trim.txt"), at(N-20*day), at(N-20*day))
	}
	for _, i := range scn.Missing {
		os.Remove(filepath.Join(dir, subName(i&255))) // succeeds only when empty
	}
	s0 := snapshot(dir, subs)
	for i := range s0.Subs {
		out.Objects += len(s0.Subs[i])
	}
	absent := map[int]bool{}
	for _, i := range s0.Absent {
		absent[i] = true
		out.Tags = append(out.Tags, "missing-subdir")
	}
	// ---- history
	lastUse := map[string]int64{}
	restored := map[string]bool{}
	var evs []string
	var implErrs []byte
	exists := func(sub int, name string) bool {
		_, err := os.Stat(filepath.Join(dir, subName(sub), name))
		return err == nil
	}
	// descriptors as a resource: every call of the history must leave the process with the
	// descriptors it had (collector off during the history, so that a descriptor which only a
	// finalizer would close counts as leaked)
	oldGC := debug.SetGCPercent(-1)
	defer debug.SetGCPercent(oldGC)
	fdBase := fdNames()
	for ei, e := range scn.Events {
		if now := fdNames(); fdBase != nil && now != nil {
			if extra := fdExtra(fdBase, now); len(extra) > 0 && ei > 0 {
				pe := scn.Events[ei-1]
				out.find("impl-violation", "fd-baseline", "fd-baseline", fmt.Sprintf("event %d (%s id%d) returned with descriptors still open: %d before the call, %d after it; new: %v", ei-1, pe.Op, pe.ID, len(fdBase), len(now), extra))
			}
			fdBase = now
		}
		u := clock(N + e.At)
		out.Events++
		ia, na := indexPath(e.ID)
		switch e.Op {
		case "get", "getfile", "getbytes":
			var ent cache.Entry
			var gerr error
			if pn := safely(func() {
				ent, gerr = c.Get(actionID(e.ID))
				switch e.Op {
				case "getfile":
					c.GetFile(actionID(e.ID))
				case "getbytes":
					c.GetBytes(actionID(e.ID))
				}
			}); pn != "" {
				out.find("impl-violation", "no-panic", "panic:"+e.Op, fmt.Sprintf("event %d: %s(id%d) panicked: %s", ei, e.Op, e.ID, pn))
				continue
			}
			if gerr != nil {
				out.Tags = append(out.Tags, "ev:"+e.Op+"-miss")
				continue
			}
			lastUse[pathKey(ia, na)] = u
			restored[pathKey(ia, na)] = false
			if e.Op == "get" {
				evs = append(evs, fmt.Sprintf("G %d %d %s", u, ia, common.Hex([]byte(na))))
				out.Tags = append(out.Tags, "ev:get-hit")
				continue
			}
			id, nd := dataPathOf(ent.OutputID)
			if exists(id, nd) {
				lastUse[pathKey(id, nd)] = u
				restored[pathKey(id, nd)] = false
				out.Tags = append(out.Tags, "ev:"+e.Op+"-hit")
			} else {
				out.Tags = append(out.Tags, "ev:"+e.Op+"-nodata")
			}
			evs = append(evs, fmt.Sprintf("L %d %d %s %d %s", u, ia, common.Hex([]byte(na)), id, common.Hex([]byte(nd))))
		case "outputfile":
			id, nd := dataPathOf(outputID(e.Data))
			if pn := safely(func() { c.OutputFile(outputID(e.Data)) }); pn != "" {
				out.find("impl-violation", "no-panic", "panic:outputfile", fmt.Sprintf("event %d: OutputFile panicked: %s", ei, pn))
			}
			if exists(id, nd) {
				lastUse[pathKey(id, nd)] = u
				restored[pathKey(id, nd)] = false
				out.Tags = append(out.Tags, "ev:outputfile-hit")
			} else {
				out.Tags = append(out.Tags, "ev:outputfile-miss")
			}
			evs = append(evs, fmt.Sprintf("O %d %d %s", u, id, common.Hex([]byte(nd))))
		case "put":
			id, nd := dataPathOf(outputID(e.Data))
			dpath := filepath.Join(dir, subName(id), nd)
			old, rerr := os.ReadFile(dpath)
			oldInfo, _ := os.Stat(dpath)
			data := content(e.Data)
			already := rerr == nil && bytes.Equal(old, data)
			var perr error
			if pn := safely(func() { _, _, perr = c.Put(actionID(e.ID), bytes.NewReader(data)) }); pn != "" {
				out.find("impl-violation", "no-panic", "panic:put", fmt.Sprintf("event %d: Put(id%d) panicked: %s", ei, e.ID, pn))
				perr = fmt.Errorf("panic: %s", pn)
			}
			// the time a (re)created data file carries
			ud := u
			if len(data) == 0 && !already {
				if fi, err := os.Stat(dpath); err == nil {
					// copyFile created (or truncated) the empty output without os.Chtimes: it carries
					// the file system's clock.  At offset 0 that IS the scenario's clock (up to the
					// run time); elsewhere the runner plays the file system and stamps the event time.
					fsNow := fi.ModTime().UnixNano()
					if d := fsNow - u; injectable && (d > 2*sec || d < -2*sec) {
						os.Chtimes(dpath, at(u), at(u))
						out.Tags = append(out.Tags, "ev:put-empty-new(stamped)")
					} else {
						ud = fsNow
						out.Tags = append(out.Tags, "ev:put-empty-new(fs clock)")
					}
				}
			}
			ddTag := tagHex(data)
			if perr != nil {
				if !absent[ia] && !absent[id] {
					out.find("correspondence", "put-error", "put-error", perr.Error())
					continue
				}
				out.Tags = append(out.Tags, "ev:put-into-missing-subdir")
				// the data part may have been carried out
				if now, err := os.ReadFile(dpath); err == nil && bytes.Equal(now, data) {
					ni, _ := os.Stat(dpath)
					if rerr != nil || !already || (oldInfo != nil && ni != nil && !ni.ModTime().Equal(oldInfo.ModTime())) {
						evs = append(evs, fmt.Sprintf("P %d %d %d %s %s", u, ud, id, common.Hex([]byte(nd)), ddTag))
					} else {
						// present before with the same content and untouched: still the data step of a Put
						evs = append(evs, fmt.Sprintf("P %d %d %d %s %s", u, ud, id, common.Hex([]byte(nd)), ddTag))
					}
				}
				continue
			}
			idx, _ := os.ReadFile(filepath.Join(dir, subName(ia), na))
			lastUse[pathKey(ia, na)] = u
			restored[pathKey(ia, na)] = false
			lastUse[pathKey(id, nd)] = u
			restored[pathKey(id, nd)] = already
			switch {
			case already && len(data) == 0:
				out.Tags = append(out.Tags, "ev:put-existing-empty-output")
			case already:
				out.Tags = append(out.Tags, "ev:put-existing-output")
			default:
				out.Tags = append(out.Tags, "ev:put-new-output")
			}
			evs = append(evs, fmt.Sprintf("S %d %d %d %s %s %d %s %s", u, ud, ia, common.Hex([]byte(na)), tagHex(idx), id, common.Hex([]byte(nd)), ddTag))
		case "trim":
			before := snapshot(dir, subs)
			outside := st.outsideTag()
			var terr error
			pn := safely(func() { terr = c.Trim() })
			after := snapshot(dir, subs)
			if pn != "" {
				// the oracles below then say what the aborted Trim left undone
				out.find("impl-violation", "no-panic", "panic:trim", fmt.Sprintf("event %d: Trim panicked: %s; the directory held %s", ei, pn, oddNames(before)))
				terr = fmt.Errorf("panic: %s", pn)
			}
			trimOracles(out, before, after, u, slack, lastUse, restored, terr)
			if now := st.outsideTag(); now != outside {
				// "never touches files that are not cache entries": least of all files of other directories
				out.find("impl-violation", "outside-untouched", "outside-touched",
					fmt.Sprintf("Trim on the cache directory %q (opened as %q) changed something OUTSIDE it: %s", st.dir, st.open, firstDiffLine(outside, now)))
			}
			if terr != nil {
				implErrs = append(implErrs, '1')
			} else {
				implErrs = append(implErrs, '0')
			}
			for k := range lastUse {
				// a removed file carries no history into a later re-creation
				var sub int
				var name string
				if i := strings.IndexByte(k, '/'); i > 0 {
					sub, _ = strconv.Atoi(k[:i])
					name = k[i+1:]
				}
				if _, ok := findObj(after.Subs[sub&255], name); !ok {
					delete(lastUse, k)
					delete(restored, k)
				}
			}
			evs = append(evs, fmt.Sprintf("T %d", u))
		}
	}
	if now := fdNames(); fdBase != nil && now != nil && len(scn.Events) > 0 {
		if extra := fdExtra(fdBase, now); len(extra) > 0 {
			pe := scn.Events[len(scn.Events)-1]
			out.find("impl-violation", "fd-baseline", "fd-baseline", fmt.Sprintf("event %d (%s id%d) returned with descriptors still open: %d before the call, %d after it; new: %v", len(scn.Events)-1, pe.Op, pe.ID, len(fdBase), len(now), extra))
		}
	}
	final := snapshot(dir, subs)
	// ---- the model on the same directory and history
	if rn.m != nil && !out.has("put-error") {
		tail := " " + fmt.Sprint(len(evs))
		if len(evs) > 0 {
			tail += " " + strings.Join(evs, " ")
		}
		answers, err := rn.m.Ask([]string{"run 1 " + modelDir(s0) + tail, "holds " + modelDir(s0) + tail})
		if err != nil {
			out.find("correspondence", "model-process", "model-died", err.Error())
			return out
		}
		ans, merrs := canonModelAnswer(answers[0])
		impl := "D " + modelDir(final)
		if !sameDir(ans, impl) {
			out.Findings = append(out.Findings, Finding{Kind: "correspondence", Oracle: "run", Key: "run",
				Detail: "final directory of the model and of the implementation differ: " + firstDiff(ans, impl),
				Model:  ans, Impl: impl})
		}
		ie := string(implErrs)
		if ie == "" {
			ie = "-"
		}
		if merrs != ie {
			out.Findings = append(out.Findings, Finding{Kind: "correspondence", Oracle: "trim-error", Key: "trim-error-flags",
				Detail: "error returns of the Trim calls (1 = error): model " + merrs + ", implementation " + ie, Model: merrs, Impl: ie})
		}
		if answers[1] != "true" {
			out.Findings = append(out.Findings, Finding{Kind: "correspondence", Oracle: "model:c13_holds_on", Key: "c13_holds_on",
				Detail: "the executable history statement (used within five days => still there) is " + answers[1] + " on the model for this directory and history",
				Model:  answers[1]})
		}
	}
	return out
}

// sameDir compares two rendered directories; with the real clock the recorded second and the
// mtimes set during the history may differ by the time the calls took.
func sameDir(a, b string) bool {
	if a == b {
		return true
	}
	fa, fb := strings.Fields(a), strings.Fields(b)
	if len(fa) != len(fb) || len(fa) < 2 {
		return false
	}
	for i := range fa {
		if fa[i] == fb[i] {
			continue
		}
		if injectable {
			return false
		}
		if i != 1 {
			ma, ea := strconv.ParseInt(fa[i], 10, 64)
			mb, eb := strconv.ParseInt(fb[i], 10, 64)
			if ea != nil || eb != nil || ma < 1e15 || mb < 1e15 || ma-mb > 5*sec || mb-ma > 5*sec {
				return false
			}
			continue
		}
		va, ea := strconv.ParseInt(string(common.UnHex(fa[1])), 10, 64)
		vb, eb := strconv.ParseInt(string(common.UnHex(fb[1])), 10, 64)
		if ea != nil || eb != nil || va-vb > 5 || vb-va > 5 {
			return false
		}
	}
	return true
}

func firstDiff(a, b string) string {
	fa, fb := strings.Fields(a), strings.Fields(b)
	for i := 0; i < len(fa) && i < len(fb); i++ {
		if fa[i] != fb[i] {
			lo := i - 4
			if lo < 0 {
				lo = 0
			}
			hi := i + 5
			ha, hb := hi, hi
			if ha > len(fa) {
				ha = len(fa)
			}
			if hb > len(fb) {
				hb = len(fb)
			}
			return fmt.Sprintf("token %d: model …%s… impl …%s…", i, strings.Join(fa[lo:ha], " "), strings.Join(fb[lo:hb], " "))
		}
	}
	return fmt.Sprintf("lengths %d vs %d", len(fa), len(fb))
}

// fdNames lists the descriptor numbers of this process (nil when /proc is not available).
func fdNames() []string {
	d, err := os.Open("/proc/self/fd")
	if err != nil {
		return nil
	}
	names, _ := d.Readdirnames(-1)
	self := strconv.Itoa(int(d.Fd()))
	d.Close()
	out := names[:0]
	for _, n := range names {
		if n != self {
			out = append(out, n)
		}
	}
	return out
}

// fdExtra describes the descriptors of after that are not in before.
func fdExtra(before, after []string) []string {
	had := map[string]bool{}
	for _, n := range before {
		had[n] = true
	}
	var extra []string
	for _, n := range after {
		if !had[n] {
			if t, err := os.Readlink("/proc/self/fd/" + n); err == nil {
				extra = append(extra, n+"->"+filepath.Base(t))
			}
		}
	}
	return extra
}

// The translated segments of used / Trim / trimSubdir (Gen/CacheSrc.v, made by harness/go2coq on
// every run and extracted to a file of their own, Extract/CacheTrimSrcExtract.v; second model binary
// bin/model_cachetrim_src built by ocaml/build_src.sh) are RUN against the implementation: a test of the
// translator, of its semantic library and of the denotations of package time in Cache/SrcLib.v.
//
//	srcdue     the translated test of the parsed trim.txt, for every clock/record pair of the
//	           record sweep, against "Trim rewrote trim.txt"
//	srcfresh   the translated freshness test of used, against "OutputFile changed the mtime"
//	srcremove  the translated candidate-name test, cutoff and staleness condition, against
//	           "Trim removed the file"
package main

import (
	"encoding/json"
	"fmt"
	"os"
	"path/filepath"
	"strings"
	"time"

	"github.com/rogpeppe/go-internal/cache"

	"verif/harness/common"
)

// The translated segments live in a binary of their own, which ocaml/build_src.sh removes when
// the translated text no longer fits its driver (a candidate change gave a segment another
// signature): every other oracle of this runner runs regardless.
var srcModel *common.Model
var srcTried bool

func (rn *runner) src() *common.Model {
	if srcTried {
		return srcModel
	}
	srcTried = true
	if rn.f.Model == "" {
		return nil
	}
	bin := rn.f.Model + "_src"
	if _, err := os.Stat(bin); err != nil {
		rn.res.Notes = append(rn.res.Notes, "no "+filepath.Base(bin)+" (the translated segments of cache.go could not be extracted or no longer fit ocaml/cachetrim/src_driver.ml): they were not run against the implementation")
		return nil
	}
	m, err := common.StartModel(bin)
	if err != nil {
		rn.res.Notes = append(rn.res.Notes, "cannot start "+filepath.Base(bin)+": "+err.Error())
		return nil
	}
	if m.Ask1("srcfresh 0 0") != "keep" {
		rn.res.Notes = append(rn.res.Notes, filepath.Base(bin)+" does not answer the src requests: the translated segments were not run")
		m.Close()
		return nil
	}
	srcModel = m
	return m
}

// srcDue re-asks the due-requests of the record sweep of the translated segment.
func (rn *runner) srcDue(reqs, impl, descr []string) {
	sm := rn.src()
	if sm == nil {
		return
	}
	var sreqs []string
	var idx []int
	for i, q := range reqs {
		f := strings.Fields(q)
		if len(f) == 3 && f[0] == "due" && f[2] != "none" { // a record that was read: the segment is its body
			sreqs = append(sreqs, "srcdue "+f[1]+" "+f[2])
			idx = append(idx, i)
		}
	}
	if len(sreqs) == 0 {
		return
	}
	ans, err := sm.Ask(sreqs)
	if err != nil {
		rn.res.Notes = append(rn.res.Notes, "model error in the translated due-test: "+err.Error())
		return
	}
	for k, a := range ans {
		i := idx[k]
		rn.res.Count("srcseg:due:" + a)
		if a != impl[i] {
			var s Scenario
			json.Unmarshal([]byte(descr[i]), &s)
			rn.res.Violate(common.Violation{Kind: "correspondence", Oracle: "src-due", Key: "src-due:" + sreqs[k],
				Input: map[string]string{"scenario": descr[i], "text": describeScenario(&s), "request": sreqs[k]},
				Model: a, Impl: impl[i], Detail: "the translated due-test of Trim (Gen/CacheSrc.v) and 'Trim rewrote trim.txt' differ"})
		}
	}
}

// srcSweep: used and trimSubdir on single files at every age of the pool.
func (rn *runner) srcSweep(r *common.RNG, n int) {
	sm := rn.src()
	if sm == nil || !injectable {
		return
	}
	defer func() { sm.Close(); srcModel, srcTried = nil, true }()
	dir, err := os.MkdirTemp(rn.work, "srcsweep")
	if err != nil {
		return
	}
	defer os.RemoveAll(dir)
	c, err := cache.Open(dir)
	if err != nil {
		return
	}
	mtimeOf := func(p string) (int64, bool) {
		fi, err := os.Lstat(p)
		if err != nil {
			return 0, false
		}
		return fi.ModTime().UnixNano(), true
	}
	for i := 0; i < n; i++ {
		now := int64(1700000000)*1e9 + int64(r.Intn(300000000))*1e9 + genFrac(r)
		age := pickAge(r)
		if i%3 == 0 { // right at the thresholds, to the granularity of the file system
			age = common.Pick(r, []int64{hour, fiveDays + hour}) + common.Pick(r, []int64{-fsGran, 0, fsGran})
		}
		mt := now - age
		setNow(c, func() time.Time { return at(now) })
		// used, through OutputFile
		out := outputID(i % 4)
		sub, name := dataPathOf(out)
		p := filepath.Join(dir, subName(sub), name)
		os.WriteFile(p, content(i%4), 0o666)
		os.Chtimes(p, at(mt), at(mt))
		if got, ok := mtimeOf(p); !ok || got != mt {
			continue // the file system does not hold this mtime
		}
		c.OutputFile(out)
		after, _ := mtimeOf(p)
		impl := "keep"
		if after != mt {
			impl = "touch"
			if after != now {
				impl = fmt.Sprintf("mtime %d", after)
			}
		}
		req := fmt.Sprintf("srcfresh %d %d", mt, now)
		ans := sm.Ask1(req)
		rn.res.Count("srcseg:fresh:" + ans)
		rn.res.Case(req, true)
		if ans != impl {
			rn.res.Violate(common.Violation{Kind: "correspondence", Oracle: "src-fresh", Key: "src-fresh:" + ageClass(age),
				Input: map[string]string{"request": req, "now": fmt.Sprint(now), "mtime": fmt.Sprint(mt), "age": fmt.Sprint(age)},
				Model: ans, Impl: impl, Detail: "the translated freshness test of used (Gen/CacheSrc.v) and what OutputFile did to the mtime differ"})
		}
		os.Remove(p)
		// trimSubdir, through a Trim without a record
		hn := common.Pick(r, handNames)
		q := filepath.Join(dir, subName(i%256), hn)
		if err := os.WriteFile(q, []byte("x"), 0o666); err != nil {
			continue
		}
		os.Chtimes(q, at(mt), at(mt))
		if got, ok := mtimeOf(q); !ok || got != mt {
			os.Remove(q)
			continue
		}
		os.Remove(filepath.Join(dir, "trim.txt"))
		if pn := safely(func() { c.Trim() }); pn != "" {
			rn.res.Violate(common.Violation{Kind: "impl-violation", Oracle: "no-panic", Key: "panic:trim:" + hx(hn),
				Input:  map[string]string{"now": fmt.Sprint(now), "name": fmt.Sprintf("%q", hn), "mtime": fmt.Sprint(mt), "text": fmt.Sprintf("one file %q (mtime %d) in subdirectory of an otherwise empty cache, no trim.txt, Trim at %d", hn, mt, now)},
				Detail: "Trim panicked: " + pn})
			os.Remove(q)
			continue
		}
		_, present := mtimeOf(q)
		req = fmt.Sprintf("srcremove %d %s %d", now, hx(hn), mt)
		ans = sm.Ask1(req)
		rn.res.Count("srcseg:remove:" + ans)
		rn.res.Case(req, true)
		if (ans == "remove") == present || (ans != "remove" && ans != "keep" && ans != "skip") {
			rn.res.Violate(common.Violation{Kind: "correspondence", Oracle: "src-remove", Key: "src-remove:" + hx(hn) + ":" + ageClass(age),
				Input: map[string]string{"request": req, "now": fmt.Sprint(now), "name": fmt.Sprintf("%q", hn), "mtime": fmt.Sprint(mt), "age": fmt.Sprint(age)},
				Model: ans, Impl: fmt.Sprintf("present=%v", present),
				Detail: "the translated candidate / cutoff / staleness tests of trimSubdir (Gen/CacheSrc.v) and what Trim did to the file differ"})
		}
		os.Remove(q)
	}
}

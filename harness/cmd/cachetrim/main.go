// Command cachetrim is the correspondence + oracle runner for C13 (cache Trim).
//
// It drives a real cache.Cache of the checked tree (imported through the module's replace
// directive) on temporary directories: populations of entry files (created through the real
// Put and by hand) and foreign files with mtimes set by os.Chtimes around every threshold,
// every kind of trim.txt record, and histories of Get/GetFile/GetBytes/OutputFile/Put/Trim.
// The cache's clock is the unexported field `now func() time.Time`; it is set through
// reflect/unsafe on the real package (no copy of the source is made), so that boundary
// instants are hit to the nanosecond.  If the field is gone or has another type the runner
// falls back to the real clock with every age at least 5 s away from a threshold and says so
// in the notes.
//
// Each scenario is (1) run through the extracted Coq model — the directory found after the
// setup is handed to the model together with the events that took place, and the final
// directories are compared — and (2) judged by oracles that do not use the model:
// keep-recent, non-entry-untouched, no-modification, recent-trim-noop, stale-removed,
// record-updated.
package main

import (
	"bytes"
	"crypto/sha256"
	"encoding/hex"
	"encoding/json"
	"fmt"
	"math/big"
	"os"
	"path/filepath"
	"reflect"
	"sort"
	"strconv"
	"strings"
	"time"
	"unsafe"

	"github.com/rogpeppe/go-internal/cache"

	"verif/harness/common"
)

// the numbers of the property text (not read from the source: the oracles judge the code
// against the property, the model is tied to the source by genconsts)
const (
	hour     = int64(time.Hour)
	day      = 24 * hour
	fiveDays = 5 * day
	sec      = int64(time.Second)
)

// ---------------------------------------------------------------- scenarios

// Obj is a hand-made object of the initial population.
type Obj struct {
	Sub  int    `json:"sub"`  // 0..255, or -1 for the cache root
	Name string `json:"name"` // may contain any byte but '/' and NUL ("fuzz/x" allowed in the root)
	Age  int64  `json:"age"`  // mtime = Now - Age
	Kind string `json:"kind"` // F regular file, E empty directory, D non-empty directory, L dangling symlink
	Data string `json:"data"`
}

// Entry is an entry of the initial population created through the real Put.
type Entry struct {
	ID   int   `json:"id"`
	Data int   `json:"data"`
	AgeA int64 `json:"age_a"` // age given to the index file afterwards
	AgeD int64 `json:"age_d"` // age given to the data file afterwards
}

// Event is one operation of the history; At is relative to Now.
type Event struct {
	Op   string `json:"op"` // get getfile getbytes outputfile put trim
	At   int64  `json:"at"`
	ID   int    `json:"id"`
	Data int    `json:"data"`
}

type Scenario struct {
	Now     int64   `json:"now"`
	Record  *string `json:"record"` // hex of trim.txt, nil = missing
	Objs    []Obj   `json:"objs"`
	Entries []Entry `json:"entries"`
	Events  []Event `json:"events"`
	Missing []int   `json:"missing_subdirs"` // subdirectories removed before the history (if empty)
}

func actionID(k int) cache.ActionID {
	return cache.ActionID(sha256.Sum256([]byte(fmt.Sprintf("action-%d", k))))
}
func content(k int) []byte {
	return []byte(fmt.Sprintf("content number %d of the C13 runner\n", k))
}
func outputID(k int) cache.OutputID { return cache.OutputID(sha256.Sum256(content(k))) }

func subName(i int) string { return fmt.Sprintf("%02x", i) }
func indexPath(k int) (int, string) {
	id := actionID(k)
	return int(id[0]), hex.EncodeToString(id[:]) + "-a"
}
func dataPathOf(out cache.OutputID) (int, string) {
	return int(out[0]), hex.EncodeToString(out[:]) + "-d"
}

// ---------------------------------------------------------------- snapshots

type SObj struct {
	Name  string
	Mtime int64
	Tag   string // content hash prefix (files), summary of the contents (directories)
	Kind  string
}

type Snap struct {
	Record []byte // nil = missing
	HasRec bool
	Root   []SObj
	Subs   [256][]SObj
}

func tagOf(b []byte) string {
	h := sha256.Sum256(b)
	return hex.EncodeToString(h[:6])
}

// describe returns the observable of one directory entry.
func describe(path, name string) SObj {
	li, err := os.Lstat(path)
	if err != nil {
		return SObj{Name: name, Kind: "?"}
	}
	switch {
	case li.Mode()&os.ModeSymlink != 0:
		if _, err := os.Stat(path); err != nil {
			return SObj{Name: name, Kind: "L", Tag: "-"}
		}
		return SObj{Name: name, Kind: "S", Tag: "-"}
	case li.IsDir():
		ents, _ := os.ReadDir(path)
		if len(ents) == 0 {
			return SObj{Name: name, Kind: "E", Mtime: li.ModTime().UnixNano(), Tag: "-"}
		}
		var parts []string
		for _, e := range ents {
			s := describe(filepath.Join(path, e.Name()), e.Name())
			parts = append(parts, fmt.Sprintf("%q/%d/%s/%s", s.Name, s.Mtime, s.Tag, s.Kind))
		}
		return SObj{Name: name, Kind: "D", Mtime: li.ModTime().UnixNano(), Tag: tagOf([]byte(strings.Join(parts, ";")))}
	default:
		b, _ := os.ReadFile(path)
		return SObj{Name: name, Kind: "F", Mtime: li.ModTime().UnixNano(), Tag: tagOf(b)}
	}
}

func listDir(dir string, skip func(string) bool) []SObj {
	ents, err := os.ReadDir(dir)
	if err != nil {
		return nil
	}
	var out []SObj
	for _, e := range ents {
		if skip != nil && skip(e.Name()) {
			continue
		}
		out = append(out, describe(filepath.Join(dir, e.Name()), e.Name()))
	}
	sort.Slice(out, func(i, j int) bool { return out[i].Name < out[j].Name })
	return out
}

func isSubName(n string) bool {
	if len(n) != 2 {
		return false
	}
	_, err := strconv.ParseUint(n, 16, 8)
	return err == nil && strings.ToLower(n) == n
}

// snapshot observes the cache directory; only the subdirectories in subs are listed (the
// others are known to be empty: everything in the directory was put there by this runner).
func snapshot(dir string, subs []int) *Snap {
	s := &Snap{}
	if b, err := os.ReadFile(filepath.Join(dir, "trim.txt")); err == nil {
		s.Record, s.HasRec = b, true
		if s.Record == nil {
			s.Record = []byte{}
		}
	}
	s.Root = listDir(dir, func(n string) bool { return n == "trim.txt" || isSubName(n) })
	for _, i := range subs {
		s.Subs[i] = listDir(filepath.Join(dir, subName(i)), nil)
	}
	return s
}

func showSObj(o SObj) string {
	tag := o.Tag
	if tag == "" {
		tag = "-"
	}
	if tag != "-" {
		tag = hex.EncodeToString([]byte(tag))
	}
	return fmt.Sprintf("%s %d %s %s", common.Hex([]byte(o.Name)), o.Mtime, tag, o.Kind)
}

func showRec(s *Snap) string {
	if !s.HasRec {
		return "none"
	}
	return common.Hex(s.Record)
}

// modelDir renders a snapshot in the line format of the model driver (and of its answer).
func modelDir(s *Snap) string {
	parts := []string{showRec(s), fmt.Sprint(len(s.Root))}
	for _, o := range s.Root {
		parts = append(parts, showSObj(o))
	}
	k := 0
	for i := range s.Subs {
		if len(s.Subs[i]) > 0 {
			k++
		}
	}
	parts = append(parts, fmt.Sprint(k))
	for i := range s.Subs {
		if len(s.Subs[i]) > 0 {
			parts = append(parts, fmt.Sprint(i), fmt.Sprint(len(s.Subs[i])))
			for _, o := range s.Subs[i] {
				parts = append(parts, showSObj(o))
			}
		}
	}
	return strings.Join(parts, " ")
}

// canonModelAnswer sorts the objects of every subdirectory of a model answer by name, so that
// it can be compared with a sorted snapshot.
func canonModelAnswer(ans string) string {
	f := strings.Fields(ans)
	if len(f) < 3 || f[0] != "D" {
		return ans
	}
	pos := 1
	next := func() string {
		if pos >= len(f) {
			return ""
		}
		pos++
		return f[pos-1]
	}
	readObjs := func(n int) []string {
		var objs []string
		for i := 0; i < n; i++ {
			a, b, c, d := next(), next(), next(), next()
			objs = append(objs, a+" "+b+" "+c+" "+d)
		}
		sort.Slice(objs, func(i, j int) bool {
			return string(common.UnHex(strings.Fields(objs[i])[0])) < string(common.UnHex(strings.Fields(objs[j])[0]))
		})
		return objs
	}
	out := []string{"D", next()}
	n, _ := strconv.Atoi(next())
	out = append(out, fmt.Sprint(n))
	out = append(out, readObjs(n)...)
	k, _ := strconv.Atoi(next())
	out = append(out, fmt.Sprint(k))
	for i := 0; i < k; i++ {
		idx := next()
		cnt, _ := strconv.Atoi(next())
		out = append(out, idx, fmt.Sprint(cnt))
		out = append(out, readObjs(cnt)...)
	}
	return strings.Join(out, " ")
}

// ---------------------------------------------------------------- the clock

var injectable = true // the unexported clock field can be set
var fsGran int64 = 1  // mtime granularity of the scratch file system, ns

func setNow(c *cache.Cache, f func() time.Time) (ok bool) {
	defer func() {
		if recover() != nil {
			ok = false
		}
	}()
	v := reflect.ValueOf(c).Elem()
	fld := v.FieldByName("now")
	if !fld.IsValid() || fld.Type() != reflect.TypeOf(f) {
		return false
	}
	reflect.NewAt(fld.Type(), unsafe.Pointer(fld.UnsafeAddr())).Elem().Set(reflect.ValueOf(f))
	return true
}

// at is the time.Time of an instant in Unix nanoseconds (no monotonic reading).
func at(ns int64) time.Time { return time.Unix(0, ns) }

// probeClock checks that the injected clock is really the one Trim reads.
func probeClock(work string) bool {
	if os.Getenv("VERIF_C13_REALCLOCK") != "" {
		return false
	}
	dir, err := os.MkdirTemp(work, "probe")
	if err != nil {
		return false
	}
	defer os.RemoveAll(dir)
	c, err := cache.Open(dir)
	if err != nil {
		return false
	}
	if !setNow(c, func() time.Time { return at(1234567890*1e9 + 5) }) {
		return false
	}
	if err := c.Trim(); err != nil {
		return false
	}
	b, _ := os.ReadFile(filepath.Join(dir, "trim.txt"))
	return string(b) == "1234567890"
}

// probeFS finds the mtime granularity of the scratch file system.
func probeFS(work string) int64 {
	p := filepath.Join(work, "gran")
	os.WriteFile(p, nil, 0o666)
	defer os.Remove(p)
	t := at(1700000000*1e9 + 123456789)
	os.Chtimes(p, t, t)
	fi, err := os.Stat(p)
	if err != nil {
		return 1
	}
	got := fi.ModTime().UnixNano()
	for _, g := range []int64{1, 100, 1000, 1000000, 1000000000, 2000000000} {
		if got == t.UnixNano()-t.UnixNano()%g {
			return g
		}
	}
	return 2000000000
}

var shrunkFor = map[string]int{}

func (rn *runner) report(scn *Scenario, out *Outcome, source string) {
	for _, f := range out.Findings {
		rn.res.Count("finding:" + f.Oracle)
		id := f.Kind + "/" + f.Oracle + "/" + f.Key
		if shrunkFor[id]++; shrunkFor[id] > 1 {
			continue
		}
		small, fs := rn.shrink(scn, f)
		rn.res.Violate(common.Violation{Kind: fs.Kind, Oracle: fs.Oracle, Key: fs.Key,
			Input: map[string]string{"scenario": scenarioJSON(small), "text": describeScenario(small), "source": source},
			Model: fs.Model, Impl: fs.Impl, Detail: fs.Detail})
	}
}

// shrink minimises the scenario while the same oracle (and key class) keeps failing.
func (rn *runner) shrink(scn *Scenario, f Finding) (*Scenario, Finding) {
	cur := *scn
	same := func(s *Scenario) (Finding, bool) {
		o := rn.runScenario(s)
		for _, g := range o.Findings {
			if g.Kind == f.Kind && g.Oracle == f.Oracle && (g.Key == f.Key || f.Oracle != "keep-recent") {
				return g, true
			}
		}
		return Finding{}, false
	}
	best := f
	budget := 60
	try := func(s *Scenario) bool {
		if budget <= 0 {
			return false
		}
		budget--
		g, ok := same(s)
		if ok {
			best = g
		}
		return ok
	}
	cur.Objs = common.ShrinkList(cur.Objs, func(l []Obj) bool { c := cur; c.Objs = l; return try(&c) })
	cur.Events = common.ShrinkList(cur.Events, func(l []Event) bool { c := cur; c.Events = l; return try(&c) })
	cur.Entries = common.ShrinkList(cur.Entries, func(l []Entry) bool { c := cur; c.Entries = l; return try(&c) })
	if cur.Missing != nil {
		c := cur
		c.Missing = nil
		if try(&c) {
			cur = c
		}
	}
	return &cur, best
}

func (rn *runner) one(scn *Scenario, source string) {
	out := rn.runScenario(scn)
	res := rn.res
	res.Count("src:" + source)
	for _, t := range out.Tags {
		res.Count(t)
	}
	res.Count(fmt.Sprintf("objects:%s", bucket(out.Objects)))
	res.Count(fmt.Sprintf("events:%s", bucket(out.Events)))
	res.Count(fmt.Sprintf("trims:%d", out.Trims))
	if out.Removed > 0 {
		res.Count("outcome:removed-some")
	}
	if out.Kept > 0 {
		res.Count("outcome:kept-some")
	}
	if out.Ran > 0 {
		res.Count("outcome:trim-due")
	} else if out.Trims > 0 {
		res.Count("outcome:trim-not-due")
	}
	res.Case(scenarioJSON(scn), out.Trims > 0 && out.Objects > 0)
	if rn.n%97 == 1 {
		res.Sample(map[string]any{"scenario": describeScenario(scn), "removed": out.Removed, "kept": out.Kept, "trims": out.Trims, "source": source})
	}
	rn.report(scn, out, source)
}

func bucket(n int) string {
	switch {
	case n == 0:
		return "0"
	case n <= 2:
		return "1-2"
	case n <= 5:
		return "3-5"
	case n <= 10:
		return "6-10"
	default:
		return ">10"
	}
}

// loadScenario reads a corpus or replay file: either a replay JSON written by ./check (the
// scenario is in violation.input.scenario) or a bare scenario.
func loadScenario(path string) (*Scenario, error) {
	b, err := os.ReadFile(path)
	if err != nil {
		return nil, err
	}
	var rp common.Replay
	if json.Unmarshal(b, &rp) == nil && rp.Violation.Input["scenario"] != "" {
		b = []byte(rp.Violation.Input["scenario"])
	}
	var s Scenario
	if err := json.Unmarshal(b, &s); err != nil {
		return nil, err
	}
	return &s, nil
}

// recordSweep compares the due-test alone on one long-lived cache: for many records and
// clock values, does Trim rewrite trim.txt?
func (rn *runner) recordSweep(r *common.RNG, n int) {
	dir, err := os.MkdirTemp(rn.work, "sweep")
	if err != nil {
		return
	}
	defer os.RemoveAll(dir)
	c, err := cache.Open(dir)
	if err != nil {
		return
	}
	var reqs []string
	var impl []string
	var descr []string
	for i := 0; i < n; i++ {
		now := genNow(r)
		rec := genRecord(r, now)
		p := filepath.Join(dir, "trim.txt")
		var raw []byte
		if rec == nil {
			os.Remove(p)
		} else {
			raw, _ = hex.DecodeString(*rec)
			os.WriteFile(p, raw, 0o666)
		}
		if injectable {
			setNow(c, func() time.Time { return at(now) })
		} else {
			now = time.Now().UnixNano()
		}
		before := &Snap{Record: raw, HasRec: rec != nil}
		terr := c.Trim()
		got, rerr := os.ReadFile(p)
		after := &Snap{Record: got, HasRec: rerr == nil}
		out := &Outcome{}
		slack := int64(0)
		if !injectable {
			slack = 3 * sec
		}
		trimOracles(out, before, after, now, slack, nil, nil, terr)
		for _, t := range out.Tags {
			rn.res.Count("sweep-" + t)
		}
		changed := after.HasRec && (!before.HasRec || !bytes.Equal(raw, got))
		rn.res.Case(fmt.Sprintf("sweep %d %q", now, raw), true)
		scn := &Scenario{Now: now, Record: rec, Events: []Event{{Op: "trim"}}}
		rn.report(scn, out, "record-sweep")
		if injectable {
			rq := "none"
			if rec != nil {
				rq = common.Hex(raw)
			}
			reqs = append(reqs, fmt.Sprintf("due %d %s", now, rq))
			impl = append(impl, fmt.Sprint(changed))
			descr = append(descr, scenarioJSON(scn))
		}
	}
	if rn.m == nil || len(reqs) == 0 {
		return
	}
	ans, err := rn.m.Ask(reqs)
	if err != nil {
		rn.res.Notes = append(rn.res.Notes, "model error in record sweep: "+err.Error())
		return
	}
	for i := range ans {
		if ans[i] != impl[i] {
			var s Scenario
			json.Unmarshal([]byte(descr[i]), &s)
			rn.res.Violate(common.Violation{Kind: "correspondence", Oracle: "due", Key: "due:" + reqs[i],
				Input: map[string]string{"scenario": descr[i], "text": describeScenario(&s), "request": reqs[i]},
				Model: ans[i], Impl: impl[i], Detail: "trim_due of the model and 'Trim rewrote trim.txt' differ"})
		}
	}
}

// parseSweep compares parse_int (trim_space x) with strconv.ParseInt(strings.TrimSpace(x), 10, 64).
func (rn *runner) parseSweep(r *common.RNG, n int) {
	if rn.m == nil {
		return
	}
	atoms := []string{"0", "1", "9", "12", "9223372036854775807", "9223372036854775808", "-", "+", " ", "\n", "\t", "\r", "\v", "\f",
		" ", "　", "\u0085", " ", " ", " ", " ", " ", " ", "​", "\ufeff", "\xc2", "\xe2\x80", "\xe3\x80\x80",
		"x", "_", ".", "e", "\x00", "\xff", "１", "00", "18446744073709551615", "1800000000", "\x1c", "\x1f", "\xa0", "\x85"}
	var reqs, impl, inputs []string
	for i := 0; i < n; i++ {
		var s string
		for j, k := 0, r.Intn(5)+1; j < k; j++ {
			s += common.Pick(r, atoms)
		}
		if r.Chance(1, 3) {
			s = common.Pick(r, []string{"", " ", "\n", " ", "　"}) + strconv.FormatInt(int64(r.Uint64()>>uint(r.Intn(64))), 10) + common.Pick(r, []string{"", "\n", " ", " "})
		}
		v, err := strconv.ParseInt(strings.TrimSpace(s), 10, 64)
		want := "none"
		if err == nil {
			want = "some " + strconv.FormatInt(v, 10)
		}
		reqs = append(reqs, "parse "+common.Hex([]byte(s)))
		impl = append(impl, want)
		inputs = append(inputs, s)
		rn.res.Count("parse:" + strings.Fields(want)[0])
		rn.res.Case("parse:"+s, err == nil)
	}
	ans, err := rn.m.Ask(reqs)
	if err != nil {
		rn.res.Notes = append(rn.res.Notes, "model error in parse sweep: "+err.Error())
		return
	}
	for i := range ans {
		if ans[i] != impl[i] {
			rn.res.Violate(common.Violation{Kind: "correspondence", Oracle: "parse", Key: "parse:" + common.Hex([]byte(inputs[i])),
				Input: map[string]string{"x": common.Hex([]byte(inputs[i])), "x_text": fmt.Sprintf("%q", inputs[i])},
				Model: ans[i], Impl: impl[i], Detail: "parse_int (trim_space x) differs from strconv.ParseInt(strings.TrimSpace(x), 10, 64)"})
		}
	}
}

func main() {
	f := common.ParseFlags()
	prop := os.Getenv("VERIF_PROP")
	if prop == "" {
		prop = "C13"
	}
	res := common.NewResult(prop, f.Tier, f.Seed)
	work := f.Work
	if work == "" {
		work, _ = os.MkdirTemp("", "cachetrim")
		defer os.RemoveAll(work)
	}
	rn := &runner{f: f, res: res, work: work}
	if f.Model != "" {
		m, err := common.StartModel(f.Model)
		if err != nil {
			fmt.Fprintln(os.Stderr, "cannot start model:", err)
			os.Exit(2)
		}
		defer m.Close()
		rn.m = m
	}
	if strings.Contains(os.Getenv("GODEBUG"), "gocacheverify=1") {
		res.Notes = append(res.Notes, "GODEBUG=gocacheverify=1 is set: every Get misses, lookups are not exercised")
	}
	injectable = probeClock(work)
	if !injectable {
		res.Notes = append(res.Notes, "FALLBACK: the clock field `now func() time.Time` of cache.Cache could not be set (field renamed, retyped, or VERIF_C13_REALCLOCK set); scenarios run on the real clock with every age >= 10 s away from a threshold and 3 s of slack in the oracles; boundary instants are not exercised")
	}
	fsGran = probeFS(work)
	if fsGran > 1 {
		res.Notes = append(res.Notes, fmt.Sprintf("the scratch file system stores mtimes with a granularity of %d ns; generated times are multiples of it", fsGran))
	}
	r := common.NewRNG(f.Seed)
	agePool = ages(r)
	if rn.m != nil {
		// the model's constants against the numbers of the property text
		c := strings.Fields(rn.m.Ask1("consts"))
		if len(c) >= 3 && (c[0] != fmt.Sprint(hour) || c[1] != fmt.Sprint(day) || c[2] != fmt.Sprint(fiveDays)) {
			res.Notes = append(res.Notes, "the regenerated intervals differ from the property's numbers (1 h, 1 day, 5 days): "+strings.Join(c[:3], " "))
		}
	}

	if f.Replay != "" {
		if rp, err := common.LoadReplay(f.Replay); err == nil && rp.Violation.Input["scenario"] == "" && rp.Violation.Input["x"] != "" && rn.m != nil {
			// a ParseInt(TrimSpace(.)) disagreement
			x := string(common.UnHex(rp.Violation.Input["x"]))
			v, perr := strconv.ParseInt(strings.TrimSpace(x), 10, 64)
			want := "none"
			if perr == nil {
				want = "some " + strconv.FormatInt(v, 10)
			}
			got := rn.m.Ask1("parse " + common.Hex([]byte(x)))
			res.Case("parse:"+x, true)
			if got != want {
				res.Violate(common.Violation{Kind: "correspondence", Oracle: "parse", Key: "parse:" + common.Hex([]byte(x)),
					Input: map[string]string{"x": common.Hex([]byte(x)), "x_text": fmt.Sprintf("%q", x)}, Model: got, Impl: want})
			}
			res.Rule = "replay of one recorded string"
			res.Write(f.Out)
			return
		}
		scn, err := loadScenario(f.Replay)
		if err != nil {
			fmt.Fprintln(os.Stderr, err)
			os.Exit(2)
		}
		rn.one(scn, "replay")
		res.Rule = "replay of one recorded scenario"
		res.Write(f.Out)
		return
	}

	// 1. corpus and hand-written regressions first
	if f.Corpus != "" {
		ents, _ := filepath.Glob(filepath.Join(f.Corpus, "*"))
		sort.Strings(ents)
		for _, e := range ents {
			if scn, err := loadScenario(e); err == nil {
				rn.one(scn, "corpus")
			} else {
				res.Notes = append(res.Notes, "unreadable corpus file "+e+": "+err.Error())
			}
		}
	}
	rn.one(restoreScenario(), "hand")
	// 2. a small exhaustive block: one entry, every age of the pool, each record class, trim now
	for _, a := range agePool {
		for _, rec := range []*string{nil, hexp("0"), hexp("x")} {
			rn.one(&Scenario{Now: 1800000000*1e9 + 7, Record: rec, Entries: []Entry{{ID: 0, Data: 0, AgeA: a, AgeD: a}},
				Objs:   []Obj{{Sub: 3, Name: "x-a", Age: a, Kind: "F", Data: "h"}, {Sub: 3, Name: "README", Age: a, Kind: "F", Data: "h"}},
				Events: []Event{{Op: "trim"}}}, "age-sweep")
		}
	}
	// 3. lookup / store just before the trim, for every age of the pool
	for _, a := range agePool {
		for _, op := range []string{"getbytes", "getfile", "get", "put", "outputfile"} {
			if a < 0 {
				continue
			}
			rn.one(&Scenario{Now: 1800000000*1e9 + 999999999, Entries: []Entry{{ID: 0, Data: 0, AgeA: 30 * day, AgeD: 30 * day}},
				Events: []Event{{Op: op, At: -a, ID: 0, Data: 0}, {Op: "trim"}}}, "use-sweep")
		}
	}
	// 3b. the one-hour allowance: a file whose mtime is up to an hour older than its last lookup
	// (the lookup did not refresh it) must survive a trim five days after that lookup
	for _, a := range []int64{fiveDays, fiveDays - sec, fiveDays - hour, 4 * day, fiveDays + 1} {
		for _, d := range []int64{sec, 30 * 60 * sec, hour - sec, hour - 1, hour, hour + 1, 90 * 60 * sec, 2*hour - 1, 3 * hour} {
			if !injectable && (d == hour-1 || d == hour+1 || d == hour-sec || a == fiveDays+1 || a == fiveDays-sec) {
				continue
			}
			for _, op := range []string{"getbytes", "put"} {
				rn.one(&Scenario{Now: 1800000000*1e9 + 500000000, Entries: []Entry{{ID: 0, Data: 0, AgeA: a + d, AgeD: a + d}},
					Events: []Event{{Op: op, At: -a, ID: 0, Data: 0}, {Op: "trim"}}}, "allowance-sweep")
			}
		}
	}
	// 4. generated scenarios
	nScn, nSweep, nParse := 700, 1500, 6000
	if f.Tier == "thorough" {
		nScn, nSweep, nParse = 20000, 40000, 200000
	}
	for i := 0; i < nScn; i++ {
		rn.one(genScenario(r), "generated")
	}
	// 5. the due-test alone, and ParseInt/TrimSpace alone
	rn.recordSweep(r, nSweep)
	rn.parseSweep(r, nParse)

	res.Rule = fmt.Sprintf("corpus and the hand-written re-store history first; then one Put entry + hand-made files for every age of the pool (thresholds 1h, 1d, 5d, 5d+1h each -1h,-1s,-1ns,0,+1ns,+1s,+1h, plus fresh/old/future ages) x {no, old, corrupt} record; a lookup/store/OutputFile at every such distance before the trim; %d generated scenarios (0-4 Put entries, 0-8 hand-made files/directories/dangling links in subdirectories and the cache root, 12 classes of trim.txt contents, 0-5 Get/GetFile/GetBytes/OutputFile/Put/Trim events before the trim and 0-4 after it, missing subdirectories); %d clock/record pairs for the due-test alone; %d strings for ParseInt(TrimSpace(.)). A case is non-trivial when it contains a Trim call on a non-empty population (or is a due-test / a parsable string); distinct = distinct scenario. Clock injected through reflect on the real package: %v.", nScn, nSweep, nParse, injectable)
	res.Write(f.Out)
}

func hexp(s string) *string {
	h := hex.EncodeToString([]byte(s))
	return &h
}

var _ = big.NewInt

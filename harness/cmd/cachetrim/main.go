// Command cachetrim is the correspondence + oracle runner for C13 (cache Trim).
//
// It drives a real cache.Cache of the checked tree (imported through the module's replace
// directive) on a scratch directory: populations of entry files (created through the real
// Put — also with EMPTY contents and with one output shared by several action ids — and by
// hand) and foreign files, directories and symbolic links with mtimes set by os.Chtimes around
// every threshold, every kind of trim.txt (missing, a directory, recent, old, future, corrupt,
// huge), missing subdirectories, and histories of Get/GetFile/GetBytes/OutputFile/Put/Trim.
//
// Clock.  The cache's clock is the unexported field `now func() time.Time`; it is set through
// reflect/unsafe on the real package (no copy of the source is made), so that boundary
// instants are hit to the nanosecond.  The epoch of every scenario is the REAL time at which
// it starts (plus a chosen sub-second fraction): files that the code creates without calling
// os.Chtimes (an empty output: copyFile returns right after os.OpenFile) carry the file
// system's own clock, and with this epoch that clock and the injected one agree for the
// events that happen at offset 0.  For such a file created by an event at another offset the
// runner plays the file system's part and stamps it with the event's time.  If the clock
// field is gone or has another type the runner falls back to the real clock with every age at
// least 10 s away from a threshold and says so in the notes.
//
// Each scenario is (1) run through the extracted Coq model — the directory found after the
// setup is handed to the model together with the events that took place; the final
// directories and the error returns of every Trim are compared, and the model's executable
// form of the history statement (c13_holds_on) is evaluated on it — and (2) judged by oracles
// that do not use the model: keep-recent, non-entry-untouched, no-modification,
// recent-trim-noop, stale-removed, record-updated.  Two further blocks use helper processes
// (this binary re-executed): a Trim running concurrently with lookups from another process, and
// a Trim that is killed half-way.
package main

import (
	"bytes"
	"encoding/hex"
	"encoding/json"
	"fmt"
	"os"
	"path/filepath"
	"reflect"
	"sort"
	"strconv"
	"strings"
	"time"
	"unsafe"

	"github.com/rogpeppe/go-internal/cache"

	"verif/harness/common"
)

// the numbers of the property text (not read from the source: the oracles judge the code
// against the property, the model is tied to the source by genconsts)
const (
	hour     = int64(time.Hour)
	day      = 24 * hour
	fiveDays = 5 * day
	sec      = int64(time.Second)
)

// ---------------------------------------------------------------- the clock

var injectable = true // the unexported clock field can be set
var fsGran int64 = 1  // mtime granularity of the scratch file system, ns

func setNow(c *cache.Cache, f func() time.Time) (ok bool) {
	defer func() {
		if recover() != nil {
			ok = false
		}
	}()
	v := reflect.ValueOf(c).Elem()
	fld := v.FieldByName("now")
	if !fld.IsValid() || fld.Type() != reflect.TypeOf(f) {
		return false
	}
	reflect.NewAt(fld.Type(), unsafe.Pointer(fld.UnsafeAddr())).Elem().Set(reflect.ValueOf(f))
	return true
}

// at is the time.Time of an instant in Unix nanoseconds (no monotonic reading).
func at(ns int64) time.Time { return time.Unix(0, ns) }

// probeClock checks that the injected clock is really the one Trim reads.
func probeClock(work string) bool {
	if os.Getenv("VERIF_C13_REALCLOCK") != "" {
		return false
	}
	dir, err := os.MkdirTemp(work, "probe")
	if err != nil {
		return false
	}
	defer os.RemoveAll(dir)
	c, err := cache.Open(dir)
	if err != nil {
		return false
	}
	if !setNow(c, func() time.Time { return at(1234567890*1e9 + 5) }) {
		return false
	}
	if err := c.Trim(); err != nil {
		return false
	}
	b, _ := os.ReadFile(filepath.Join(dir, "trim.txt"))
	return string(b) == "1234567890"
}

// probeFS finds the mtime granularity of the scratch file system.
func probeFS(work string) int64 {
	p := filepath.Join(work, "gran")
	os.WriteFile(p, nil, 0o666)
	defer os.Remove(p)
	t := at(1700000000*1e9 + 123456789)
	os.Chtimes(p, t, t)
	fi, err := os.Stat(p)
	if err != nil {
		return 1
	}
	got := fi.ModTime().UnixNano()
	for _, g := range []int64{1, 100, 1000, 1000000, 1000000000, 2000000000} {
		if got == t.UnixNano()-t.UnixNano()%g {
			return g
		}
	}
	return 2000000000
}

// ---------------------------------------------------------------- reporting

type runner struct {
	f     *common.Flags
	res   *common.Result
	m     *common.Model
	work  string
	n     int
	roots map[string]*rootState // the long-lived cache directories (one per root class, "" = plain), emptied between scenarios
}

var shrunkFor = map[string]int{}

func (rn *runner) report(scn *Scenario, out *Outcome, source string) {
	for _, f := range out.Findings {
		rn.res.Count("finding:" + f.Oracle)
		id := f.Kind + "/" + f.Oracle + "/" + f.Key
		if shrunkFor[id]++; shrunkFor[id] > 1 {
			continue
		}
		small, fs := scn, f
		if scn != nil {
			small, fs = rn.shrink(scn, f)
		}
		in := map[string]string{"source": source}
		if small != nil {
			in["scenario"] = scenarioJSON(small)
			in["text"] = describeScenario(small)
		}
		rn.res.Violate(common.Violation{Kind: fs.Kind, Oracle: fs.Oracle, Key: fs.Key,
			Input: in, Model: fs.Model, Impl: fs.Impl, Detail: fs.Detail})
	}
}

// shrink minimises the scenario while the same oracle (and key class) keeps failing.
func (rn *runner) shrink(scn *Scenario, f Finding) (*Scenario, Finding) {
	cur := *scn
	same := func(s *Scenario) (Finding, bool) {
		o := rn.runScenario(s)
		for _, g := range o.Findings {
			if g.Kind == f.Kind && g.Oracle == f.Oracle && (g.Key == f.Key || f.Oracle != "keep-recent") {
				return g, true
			}
		}
		return Finding{}, false
	}
	best := f
	budget := 60
	try := func(s *Scenario) bool {
		if budget <= 0 {
			return false
		}
		budget--
		g, ok := same(s)
		if ok {
			best = g
		}
		return ok
	}
	cur.Objs = common.ShrinkList(cur.Objs, func(l []Obj) bool { c := cur; c.Objs = l; return try(&c) })
	cur.Events = common.ShrinkList(cur.Events, func(l []Event) bool { c := cur; c.Events = l; return try(&c) })
	cur.Entries = common.ShrinkList(cur.Entries, func(l []Entry) bool { c := cur; c.Entries = l; return try(&c) })
	if cur.Missing != nil {
		c := cur
		c.Missing = nil
		if try(&c) {
			cur = c
		}
	}
	if cur.TZ != "" {
		// does the finding need the time zone / the chosen instant?
		c := cur
		c.TZ = ""
		if try(&c) {
			cur = c
		}
	}
	if cur.Epoch != 0 && cur.TZ == "" {
		c := cur
		c.Epoch = 0
		if try(&c) {
			cur = c
		}
	}
	if cur.Root != "" {
		// does the finding need the unusual cache directory at all?
		c := cur
		c.Root = ""
		if try(&c) {
			cur = c
		}
	}
	return &cur, best
}

func (rn *runner) one(scn *Scenario, source string) {
	out := rn.runScenario(scn)
	res := rn.res
	res.Count("src:" + source)
	for _, t := range out.Tags {
		res.Count(t)
	}
	res.Count(fmt.Sprintf("objects:%s", bucket(out.Objects)))
	res.Count(fmt.Sprintf("events:%s", bucket(out.Events)))
	res.Count(fmt.Sprintf("trims:%d", out.Trims))
	if out.Removed > 0 {
		res.Count("outcome:removed-some")
	}
	if out.Kept > 0 {
		res.Count("outcome:kept-some")
	}
	if out.Ran > 0 {
		res.Count("outcome:trim-due")
	} else if out.Trims > 0 {
		res.Count("outcome:trim-not-due")
	}
	res.Case(scenarioJSON(scn), out.Trims > 0 && out.Objects > 0)
	if rn.n%97 == 1 {
		res.Sample(map[string]any{"scenario": describeScenario(scn), "removed": out.Removed, "kept": out.Kept, "trims": out.Trims, "source": source})
	}
	rn.report(scn, out, source)
}

func bucket(n int) string {
	switch {
	case n == 0:
		return "0"
	case n <= 2:
		return "1-2"
	case n <= 5:
		return "3-5"
	case n <= 10:
		return "6-10"
	default:
		return ">10"
	}
}

// loadScenario reads a corpus or replay file: either a replay JSON written by ./check (the
// scenario is in violation.input.scenario) or a bare scenario.
func loadScenario(path string) (*Scenario, error) {
	b, err := os.ReadFile(path)
	if err != nil {
		return nil, err
	}
	var rp common.Replay
	if json.Unmarshal(b, &rp) == nil && rp.Violation.Input["scenario"] != "" {
		b = []byte(rp.Violation.Input["scenario"])
	}
	var s Scenario
	if err := json.Unmarshal(b, &s); err != nil {
		return nil, err
	}
	// files written before the epoch became the real time carried an absolute "now"
	var old struct {
		Now *int64 `json:"now"`
	}
	if json.Unmarshal(b, &old) == nil && old.Now != nil && s.Frac == 0 {
		s.Frac = ((*old.Now % 1e9) + 1e9) % 1e9
	}
	if s.Rec.Kind == "" {
		s.Rec.Kind = "none"
	}
	return &s, nil
}

// recordSweep compares the due-test alone on one long-lived cache: for many records and
// clock values, does Trim rewrite trim.txt?
func (rn *runner) recordSweep(r *common.RNG, n int) {
	dir, err := os.MkdirTemp(rn.work, "sweep")
	if err != nil {
		return
	}
	defer os.RemoveAll(dir)
	c, err := cache.Open(dir)
	if err != nil {
		return
	}
	var reqs, impl, descr []string
	for i := 0; i < n; i++ {
		now := genNow(r)
		rec := genRecord(r)
		if !injectable {
			now = time.Now().UnixNano()
		}
		p := filepath.Join(dir, "trim.txt")
		os.RemoveAll(p)
		raw, kind := rec.render(now)
		switch kind {
		case "file":
			os.WriteFile(p, raw, 0o666)
		case "dir":
			os.Mkdir(p, 0o777)
		}
		if injectable {
			setNow(c, func() time.Time { return at(now) })
		}
		before := &Snap{Record: raw, RecKind: kind}
		var terr error
		pn := safely(func() { terr = c.Trim() })
		after := &Snap{RecKind: "none"}
		if fi, err := os.Lstat(p); err == nil && fi.IsDir() {
			after.RecKind = "dir"
		} else if got, err := os.ReadFile(p); err == nil {
			after.Record, after.RecKind = got, "file"
		}
		out := &Outcome{}
		slack := int64(0)
		if !injectable {
			slack = 3 * sec
		}
		if pn != "" {
			out.find("impl-violation", "no-panic", "panic:trim", "Trim panicked: "+pn)
		}
		trimOracles(out, before, after, now, slack, nil, nil, terr)
		for _, t := range out.Tags {
			rn.res.Count("sweep-" + t)
		}
		changed := after.RecKind == "file" && (before.RecKind != "file" || !bytes.Equal(raw, after.Record))
		rn.res.Case(fmt.Sprintf("sweep %d %s %q", now, kind, raw), true)
		scn := &Scenario{Frac: now % 1e9, Rec: rec, Events: []Event{{Op: "trim"}}}
		rn.report(scn, out, "record-sweep")
		if injectable && kind != "dir" {
			rq := "none"
			if kind == "file" {
				rq = common.Hex(raw)
			}
			reqs = append(reqs, fmt.Sprintf("due %d %s", now, rq))
			impl = append(impl, fmt.Sprint(changed))
			descr = append(descr, scenarioJSON(scn))
		}
	}
	if rn.m == nil || len(reqs) == 0 {
		return
	}
	rn.srcDue(reqs, impl, descr) // src.go: the translated due-test on the same pairs
	ans, err := rn.m.Ask(reqs)
	if err != nil {
		rn.res.Notes = append(rn.res.Notes, "model error in record sweep: "+err.Error())
		return
	}
	for i := range ans {
		if ans[i] != impl[i] {
			var s Scenario
			json.Unmarshal([]byte(descr[i]), &s)
			rn.res.Violate(common.Violation{Kind: "correspondence", Oracle: "due", Key: "due:" + reqs[i],
				Input: map[string]string{"scenario": descr[i], "text": describeScenario(&s), "request": reqs[i]},
				Model: ans[i], Impl: impl[i], Detail: "trim_due of the model and 'Trim rewrote trim.txt' differ"})
		}
	}
}

// parseSweep compares parse_int (trim_space x) with strconv.ParseInt(strings.TrimSpace(x), 10, 64).
func (rn *runner) parseSweep(r *common.RNG, n int) {
	if rn.m == nil {
		return
	}
	atoms := []string{"0", "1", "9", "12", "9223372036854775807", "9223372036854775808", "-", "+", " ", "\n", "\t", "\r", "\v", "\f",
		" ", "　", "\u0085", " ", " ", " ", " ", " ", " ", "​", "\ufeff", "\xc2", "\xe2\x80", "\xe3\x80\x80",
		"x", "_", ".", "e", "\x00", "\xff", "１", "00", "18446744073709551615", "1800000000", "\x1c", "\x1f", "\xa0", "\x85"}
	var reqs, impl, inputs []string
	for i := 0; i < n; i++ {
		var s string
		for j, k := 0, r.Intn(5)+1; j < k; j++ {
			s += common.Pick(r, atoms)
		}
		if r.Chance(1, 3) {
			s = common.Pick(r, []string{"", " ", "\n", " ", "　"}) + strconv.FormatInt(int64(r.Uint64()>>uint(r.Intn(64))), 10) + common.Pick(r, []string{"", "\n", " ", " "})
		}
		v, err := strconv.ParseInt(strings.TrimSpace(s), 10, 64)
		want := "none"
		if err == nil {
			want = "some " + strconv.FormatInt(v, 10)
		}
		reqs = append(reqs, "parse "+common.Hex([]byte(s)))
		impl = append(impl, want)
		inputs = append(inputs, s)
		rn.res.Count("parse:" + strings.Fields(want)[0])
		rn.res.Case("parse:"+s, err == nil)
	}
	ans, err := rn.m.Ask(reqs)
	if err != nil {
		rn.res.Notes = append(rn.res.Notes, "model error in parse sweep: "+err.Error())
		return
	}
	for i := range ans {
		if ans[i] != impl[i] {
			rn.res.Violate(common.Violation{Kind: "correspondence", Oracle: "parse", Key: "parse:" + common.Hex([]byte(inputs[i])),
				Input: map[string]string{"x": common.Hex([]byte(inputs[i])), "x_text": fmt.Sprintf("%q", inputs[i])},
				Model: ans[i], Impl: impl[i], Detail: "parse_int (trim_space x) differs from strconv.ParseInt(strings.TrimSpace(x), 10, 64)"})
		}
	}
}

func main() {
	if h := os.Getenv("VERIF_C13_HELPER"); h != "" {
		helperMain(h)
		return
	}
	f := common.ParseFlags()
	prop := os.Getenv("VERIF_PROP")
	if prop == "" {
		prop = "C13"
	}
	res := common.NewResult(prop, f.Tier, f.Seed)
	work := f.Work
	if work == "" {
		work, _ = os.MkdirTemp("", "cachetrim")
		defer os.RemoveAll(work)
	}
	rn := &runner{f: f, res: res, work: work}
	if f.Model != "" {
		m, err := common.StartModel(f.Model)
		if err != nil {
			fmt.Fprintln(os.Stderr, "cannot start model:", err)
			os.Exit(2)
		}
		defer m.Close()
		rn.m = m
	}
	if strings.Contains(os.Getenv("GODEBUG"), "gocacheverify=1") {
		res.Notes = append(res.Notes, "GODEBUG=gocacheverify=1 is set: every Get misses, lookups are not exercised")
	}
	injectable = probeClock(work)
	if !injectable {
		res.Notes = append(res.Notes, "FALLBACK: the clock field `now func() time.Time` of cache.Cache could not be set (field renamed, retyped, or VERIF_C13_REALCLOCK set); scenarios run on the real clock with every age >= 10 s away from a threshold and 3 s of slack in the oracles; boundary instants are not exercised")
	}
	fsGran = probeFS(work)
	if fsGran > 1 {
		res.Notes = append(res.Notes, fmt.Sprintf("the scratch file system stores mtimes with a granularity of %d ns; generated times are multiples of it", fsGran))
	}
	r := common.NewRNG(f.Seed)
	agePool = ages()
	if rn.m != nil {
		// the model's constants against the numbers of the property text
		c := strings.Fields(rn.m.Ask1("consts"))
		if len(c) >= 3 && (c[0] != fmt.Sprint(hour) || c[1] != fmt.Sprint(day) || c[2] != fmt.Sprint(fiveDays)) {
			res.Notes = append(res.Notes, "the regenerated intervals differ from the property's numbers (1 h, 1 day, 5 days): "+strings.Join(c[:3], " "))
		}
	}

	if f.Replay != "" {
		if rp, err := common.LoadReplay(f.Replay); err == nil && rp.Violation.Input["scenario"] == "" && rp.Violation.Input["x"] != "" && rn.m != nil {
			// a ParseInt(TrimSpace(.)) disagreement
			x := string(common.UnHex(rp.Violation.Input["x"]))
			v, perr := strconv.ParseInt(strings.TrimSpace(x), 10, 64)
			want := "none"
			if perr == nil {
				want = "some " + strconv.FormatInt(v, 10)
			}
			got := rn.m.Ask1("parse " + common.Hex([]byte(x)))
			res.Case("parse:"+x, true)
			if got != want {
				res.Violate(common.Violation{Kind: "correspondence", Oracle: "parse", Key: "parse:" + common.Hex([]byte(x)),
					Input: map[string]string{"x": common.Hex([]byte(x)), "x_text": fmt.Sprintf("%q", x)}, Model: got, Impl: want})
			}
			res.Rule = "replay of one recorded string"
			res.Write(f.Out)
			return
		} else if err == nil && rp.Violation.Input["scenario"] == "" && strings.HasPrefix(rp.Violation.Input["source"], "process") {
			// a finding of the two-process blocks: run them again
			rn.processBlocks(r, 6, 10)
			res.Rule = "replay of the two-process blocks"
			res.Write(f.Out)
			return
		}
		scn, err := loadScenario(f.Replay)
		if err != nil {
			fmt.Fprintln(os.Stderr, err)
			os.Exit(2)
		}
		rn.one(scn, "replay")
		res.Rule = "replay of one recorded scenario"
		res.Write(f.Out)
		return
	}

	// 1. corpus and hand-written regressions first
	if f.Corpus != "" {
		ents, _ := filepath.Glob(filepath.Join(f.Corpus, "*"))
		sort.Strings(ents)
		for _, e := range ents {
			if scn, err := loadScenario(e); err == nil {
				rn.one(scn, "corpus")
			} else {
				res.Notes = append(res.Notes, "unreadable corpus file "+e+": "+err.Error())
			}
		}
	}
	for _, s := range handScenarios() {
		rn.one(s, "hand")
	}
	// 1b. the cache directory's own path: every root class of roots.go on the core of the property
	for _, s := range rootScenarios() {
		rn.one(s, "root-sweep")
	}
	// 1c. crowded subdirectories: objects that cannot be stat-ed or removed among many stale entries
	for _, s := range crowdScenarios() {
		rn.one(s, "crowd-sweep")
	}
	// 1d. foreign directories with contents (entry-like and other names, three depths, every age class)
	// and foreign objects with degenerate names among stale entries of that and of a later subdirectory
	for _, s := range foreignDirScenarios() {
		rn.one(s, "foreign-dir-sweep")
	}
	for _, s := range shortNameScenarios() {
		rn.one(s, "short-name-sweep")
	}
	// 1e. the process's time zone: the thresholds are durations, not calendar days -- instants within
	// five days after each clock change of several zones (and controls), entries around every threshold
	tzs := tzScenarios()
	for _, s := range tzs {
		rn.one(s, "tz-sweep")
	}
	if len(tzPool) == 0 {
		res.Notes = append(res.Notes, "no time zone with clock changes could be loaded (time.LoadLocation): the time-zone dimension ran with UTC only")
	}
	// 2. a small exhaustive block: one entry (with contents and empty), every age of the pool,
	// each record class, trim now
	for _, a := range agePool {
		for di, rec := range []RecSpec{{Kind: "none"}, rawRec("0"), rawRec("x")} {
			rn.one(&Scenario{Frac: 7, Rec: rec, Entries: []Entry{{ID: 0, Data: di % 2, AgeA: a, AgeD: a}},
				Objs:   []Obj{{Sub: 3, Name: "x-a", Age: a, Kind: "F", Data: "h"}, {Sub: 3, Name: "README", Age: a, Kind: "F", Data: "h"}},
				Events: []Event{{Op: "trim"}}}, "age-sweep")
		}
	}
	// 3. a lookup / store just before the trim, at every distance of the pool, for an entry with
	// contents and for one with the empty output
	for _, a := range agePool {
		for oi, op := range []string{"getbytes", "getfile", "get", "put", "outputfile"} {
			if a < 0 {
				continue
			}
			d := (oi + int(a%2)) % 2
			rn.one(&Scenario{Frac: 999999999, Entries: []Entry{{ID: 0, Data: d, AgeA: 30 * day, AgeD: 30 * day}},
				Events: []Event{{Op: op, At: -a, ID: 0, Data: d}, {Op: "trim"}}}, "use-sweep")
		}
	}
	// 3b. the one-hour allowance: a file whose mtime is up to an hour older than its last lookup
	// (the lookup did not refresh it) must survive a trim five days after that lookup
	for _, a := range []int64{fiveDays, fiveDays - sec, fiveDays - hour, 4 * day, fiveDays + 1} {
		for di, d := range []int64{sec, 30 * 60 * sec, hour - sec, hour - 1, hour, hour + 1, 90 * 60 * sec, 2*hour - 1, 3 * hour} {
			if !injectable && (d == hour-1 || d == hour+1 || d == hour-sec || a == fiveDays+1 || a == fiveDays-sec) {
				continue
			}
			for _, op := range []string{"getbytes", "put"} {
				rn.one(&Scenario{Frac: 500000000, Entries: []Entry{{ID: 0, Data: di % 2, AgeA: a + d, AgeD: a + d}},
					Events: []Event{{Op: op, At: -a, ID: 0, Data: di % 2}, {Op: "trim"}}}, "allowance-sweep")
			}
		}
	}
	// 3c. which files a lookup protects: only Get / only OutputFile / GetFile, then a trim
	for _, a := range []int64{fiveDays, fiveDays - hour, day, sec, fiveDays + hour + 1} {
		for _, op := range []string{"get", "outputfile", "getfile", "getbytes"} {
			for d := 0; d < 2; d++ {
				rn.one(&Scenario{Frac: 1, Entries: []Entry{{ID: 1, Data: d, AgeA: 20 * day, AgeD: 20 * day}},
					Events: []Event{{Op: op, At: -a, ID: 1, Data: d}, {Op: "trim"}, {Op: "getbytes", At: sec, ID: 1, Data: d}}}, "api-sweep")
			}
		}
	}
	// 4. generated scenarios
	nScn, nSweep, nParse, nStress, nKill := 700, 1500, 6000, 3, 6
	if f.Tier == "thorough" {
		nScn, nSweep, nParse, nStress, nKill = 20000, 40000, 200000, 30, 60
	}
	for i := 0; i < nScn; i++ {
		rn.one(genScenario(r), "generated")
	}
	// 5. the due-test alone, and ParseInt/TrimSpace alone
	rn.recordSweep(r, nSweep)
	rn.parseSweep(r, nParse)
	rn.srcSweep(common.NewRNG(f.Seed+77), nScn) // src.go: the translated tests of used / trimSubdir against the implementation
	// 6. two processes: Trim concurrent with lookups; Trim killed half-way
	rn.processBlocks(r, nStress, nKill)

	res.Rule = fmt.Sprintf("corpus and hand-written histories first (re-store of a stale output, also empty and shared; Put into a missing subdirectory; trim.txt a directory; symbolic links); then one Put entry (with contents / empty) + hand-made files for every age of the pool (thresholds 1h, 1d, 5d, 5d+1h each -1h,-1s,-1ns,0,+1ns,+1s,+1h, plus fresh/old/future ages) x {no, old, corrupt} record; a Get/GetFile/GetBytes/OutputFile/Put at every such distance before the trim; the one-hour allowance; which files each lookup protects; %d generated scenarios (0-4 Put entries over 4 contents one of which is empty, 0-8 hand-made files/directories/links in subdirectories and the cache root, 13 classes of trim.txt, 0-5 events before the trim and 0-4 after it, missing subdirectories); %d clock/record pairs for the due-test alone; %d strings for ParseInt(TrimSpace(.)); %d rounds of Trim concurrent with lookups in another process, %d rounds of a Trim killed half-way, and rounds of a Trim started while the record of a trim completed less than a day ago is being rewritten under its lock (lock, truncate, hold, write: the steps of lockedfile.Write) -- it must wait and then do nothing at all; every call of every history must leave the process with the descriptors it had (/proc/self/fd, collector off). The cache directory's own path is an input: %d root classes (glob metacharacters [ ] * ? \\ { } ^ ! in the directory's name and in an ancestor's, regexp and shell metacharacters, printf verbs, blanks, control characters, bytes that are not UTF-8, a 240-byte name, names that look like an entry / trim.txt / a subdirectory; the directory opened through trailing and doubled separators, '.' and '..' elements; opened through symbolic links -- absolute, relative, chained, with metacharacters in the link's or the target's name, in an ancestor) each run two fixed histories (due trim with stale/recent/looked-up/re-stored entries and foreign files, then a second trim; a trim that is not due) and are drawn for a quarter of the generated scenarios; every such root has sibling directories that look like other caches and are named as the root's name would match when read as a pattern: they, the links and the parent's listing must be identical after every Trim (outside-untouched); the two-process rounds alternate between a plain and a metacharacter directory name. Crowded subdirectories: 6-14 entry-named objects in one subdirectory, most of them stale, a share of them dangling links / directories / links (fixed sweep per kind, and a sixth of the generated scenarios): every stale file must go whatever the listing order (no object shields the entries behind it). A case is non-trivial when it contains a Trim call on a non-empty population (or is a due-test / a parsable string / a process round); distinct = distinct scenario. Clock injected through reflect on the real package: %v; epoch = real time. The segments of used / Trim / trimSubdir as TRANSLATED from the source (Gen/CacheSrc.v, extracted) are evaluated against the implementation: the due-test on every clock/record pair of the sweep, the freshness test and the candidate/cutoff/staleness tests on %d single files at the ages of the pool and right at the thresholds.", nScn, nSweep, nParse, nStress, nKill, len(rootSpecs), injectable, nScn)
	res.Write(f.Out)
}

func rawRec(s string) RecSpec { return RecSpec{Kind: "raw", Raw: hex.EncodeToString([]byte(s))} }

package main

// Group LockedFile (properties C06, C07): facts about lockedfile's locking protocol,
// re-read from the AST of the checked tree on every run and emitted as Coq
// definitions (numbers, booleans, small lists) that the model and theorems mention:
//   - the open flags passed by Create / Edit / Open / Write / Mutex.Lock, that Read goes
//     through Open and Transform through Edit;
//   - openFile: the mask stripped from the flags handed to os.OpenFile (flag&^os.O_TRUNC),
//     the lock-type switch on flag&(O_RDONLY|O_WRONLY|O_RDWR) (mask, case values, which
//     filelock call the cases / the default make), the guard of the Truncate call and that
//     the Truncate call comes after the lock switch;
//   - closeFile: filelock.Unlock before f.Close;
//   - filelock (unix): Lock/RLock/Unlock -> LOCK_EX/LOCK_SH/LOCK_UN, EINTR retry loop.
// Numeric values of os.O_* / syscall.LOCK_* are those of the platform the check runs on.

import (
	"fmt"
	"go/ast"
	"go/build"
	"go/parser"
	"go/printer"
	"go/token"
	"os"
	"path/filepath"
	"sort"
	"strconv"
	"strings"
	"syscall"
)

func init() { groups["LockedFile"] = genLockedFile }

var lfSys = map[string]int64{
	"os.O_RDONLY": int64(os.O_RDONLY), "os.O_WRONLY": int64(os.O_WRONLY), "os.O_RDWR": int64(os.O_RDWR),
	"os.O_CREATE": int64(os.O_CREATE), "os.O_EXCL": int64(os.O_EXCL), "os.O_TRUNC": int64(os.O_TRUNC),
	"os.O_APPEND": int64(os.O_APPEND), "os.O_SYNC": int64(os.O_SYNC),
	"syscall.LOCK_SH": int64(syscall.LOCK_SH), "syscall.LOCK_EX": int64(syscall.LOCK_EX),
	"syscall.LOCK_UN": int64(syscall.LOCK_UN), "syscall.LOCK_NB": int64(syscall.LOCK_NB),
}

func lfParse(g *gen, rel string) *ast.File {
	f, err := parser.ParseFile(g.fset, filepath.Join(g.repo, rel), nil, 0)
	if err != nil {
		g.fail("cannot parse %s: %v", rel, err)
		return nil
	}
	return f
}

func lfFunc(g *gen, f *ast.File, rel, recv, name string) *ast.FuncDecl {
	if f == nil {
		return nil
	}
	for _, d := range f.Decls {
		fd, ok := d.(*ast.FuncDecl)
		if !ok || fd.Name.Name != name || fd.Body == nil {
			continue
		}
		if (recv == "") != (fd.Recv == nil) {
			continue
		}
		return fd
	}
	g.fail("%s: function %s not found", rel, name)
	return nil
}

func lfSel(e ast.Expr) string {
	if s, ok := e.(*ast.SelectorExpr); ok {
		if x, ok := s.X.(*ast.Ident); ok {
			return x.Name + "." + s.Sel.Name
		}
	}
	if id, ok := e.(*ast.Ident); ok {
		return id.Name
	}
	return ""
}

// lfEval evaluates an integer expression over os.O_* / syscall.* names and literals.
func lfEval(e ast.Expr, env map[string]int64) (int64, bool) {
	switch e := e.(type) {
	case *ast.ParenExpr:
		return lfEval(e.X, env)
	case *ast.BasicLit:
		var v int64
		if _, err := fmt.Sscanf(e.Value, "%v", &v); err == nil {
			return v, true
		}
	case *ast.SelectorExpr, *ast.Ident:
		n := lfSel(e)
		if v, ok := lfSys[n]; ok {
			return v, true
		}
		if v, ok := env[n]; ok {
			return v, true
		}
	case *ast.CallExpr: // conversions such as lockType(x), int(x)
		if len(e.Args) == 1 {
			return lfEval(e.Args[0], env)
		}
	case *ast.BinaryExpr:
		a, ok1 := lfEval(e.X, env)
		b, ok2 := lfEval(e.Y, env)
		if ok1 && ok2 {
			switch e.Op {
			case token.OR:
				return a | b, true
			case token.AND:
				return a & b, true
			case token.AND_NOT:
				return a &^ b, true
			case token.ADD:
				return a + b, true
			case token.XOR:
				return a ^ b, true
			}
		}
	}
	return 0, false
}

// lfCalls lists the calls of fn (by "pkg.Name" / "Name" / "x.Method") inside node, in source order.
func lfCalls(node ast.Node, fn string) []*ast.CallExpr {
	var out []*ast.CallExpr
	if node == nil {
		return nil
	}
	ast.Inspect(node, func(n ast.Node) bool {
		if c, ok := n.(*ast.CallExpr); ok && lfSel(c.Fun) == fn {
			out = append(out, c)
		}
		return true
	})
	return out
}

func lfBool(b bool) string {
	if b {
		return "true"
	}
	return "false"
}

func (g *gen) lfN(name, comment string, v int64) {
	fmt.Fprintf(&g.buf, "(* %s *)\nDefinition %s : N := (%d)%%N.\n\n", comment, name, v)
}
func (g *gen) lfB(name, comment string, v bool) {
	fmt.Fprintf(&g.buf, "(* %s *)\nDefinition %s : bool := %s.\n\n", comment, name, lfBool(v))
}

// lfOpenFlags: flags argument of the single OpenFile call of fd.
func lfOpenFlags(g *gen, fd *ast.FuncDecl, what string) (int64, bool) {
	if fd == nil {
		return 0, false
	}
	cs := lfCalls(fd.Body, "OpenFile")
	if len(cs) != 1 || len(cs[0].Args) != 3 {
		g.fail("%s: expected exactly one OpenFile(name, flags, perm) call", what)
		return 0, false
	}
	v, ok := lfEval(cs[0].Args[1], nil)
	if !ok {
		g.fail("%s: OpenFile flags are not a constant expression over os.O_*", what)
	}
	return v, ok
}

func genLockedFile(g *gen) {
	for _, k := range []string{"O_RDONLY", "O_WRONLY", "O_RDWR", "O_CREATE", "O_EXCL", "O_TRUNC", "O_APPEND"} {
		g.lfN("sys_"+k, "os."+k+" on this platform", lfSys["os."+k])
	}
	g.lfN("sys_O_ACCMODE", "syscall.O_ACCMODE", int64(syscall.O_ACCMODE))
	for _, k := range []string{"LOCK_SH", "LOCK_EX", "LOCK_UN"} {
		g.lfN("sys_"+k, "syscall."+k, lfSys["syscall."+k])
	}

	// ---- lockedfile.go
	const lfgo = "lockedfile/lockedfile.go"
	lf := lfParse(g, lfgo)
	for _, it := range []struct{ coq, fn string }{{"create_flags", "Create"}, {"edit_flags", "Edit"}, {"write_flags", "Write"}} {
		if v, ok := lfOpenFlags(g, lfFunc(g, lf, lfgo, "", it.fn), it.fn); ok {
			g.lfN(it.coq, "flags "+it.fn+" passes to OpenFile", v)
		}
	}
	if fd := lfFunc(g, lf, lfgo, "", "Open"); fd != nil {
		if v, ok := lfOpenFlags(g, fd, "Open"); ok {
			g.lfN("open_flags", "flags Open passes to OpenFile", v)
		}
	}
	if fd := lfFunc(g, lf, lfgo, "", "Read"); fd != nil {
		g.lfB("read_via_open", "Read acquires its file through Open(name)", len(lfCalls(fd.Body, "Open")) == 1 && len(lfCalls(fd.Body, "OpenFile")) == 0)
		g.lfB("read_defers_close", "Read defers f.Close()", lfHasDeferClose(fd))
	}
	if fd := lfFunc(g, lf, lfgo, "", "Transform"); fd != nil {
		g.lfB("transform_via_edit", "Transform acquires its file through Edit(name)", len(lfCalls(fd.Body, "Edit")) == 1 && len(lfCalls(fd.Body, "OpenFile")) == 0)
		g.lfB("transform_defers_close", "Transform defers f.Close()", lfHasDeferClose(fd))
	}
	// every convenience function that acquires a File and does not hand it to its caller must
	// Close it on every path: `defer f.Close()` or an f.Close() call, at the top level of the
	// body, before any statement that contains a return (the error check of the acquisition
	// itself excepted)
	for _, it := range []struct{ coq, fn string }{{"read_closes_on_every_path", "Read"}, {"write_closes_on_every_path", "Write"}, {"transform_closes_on_every_path", "Transform"}} {
		if fd := lfFunc(g, lf, lfgo, "", it.fn); fd != nil {
			g.lfB(it.coq, it.fn+" closes the File it acquired before any statement that can return (defer f.Close() / f.Close() right after the acquisition's error check)", lfClosesOnEveryPath(fd))
		}
	}
	if fd := lfFunc(g, lf, lfgo, "File", "Close"); fd != nil {
		g.lfB("close_calls_closefile", "File.Close calls closeFile", len(lfCalls(fd.Body, "closeFile")) == 1)
		g.lfB("close_checks_closed_first", "File.Close begins with `if f.closed { return <error> }; f.closed = true` and only then calls closeFile (a second Close does nothing)", lfCloseGuard(g, fd))
	}
	if fd := lfFunc(g, lf, lfgo, "", "OpenFile"); fd != nil {
		g.lfB("openfile_fresh_file", "OpenFile returns a File it allocated itself with new(File) and assigns f nowhere else (no File object is ever handed out twice)", lfFreshFile(g, fd))
	}

	// ---- mutex.go
	const mugo = "lockedfile/mutex.go"
	mu := lfParse(g, mugo)
	if fd := lfFunc(g, mu, mugo, "Mutex", "Lock"); fd != nil {
		if v, ok := lfOpenFlags(g, fd, "Mutex.Lock"); ok {
			g.lfN("mutex_flags", "flags Mutex.Lock passes to OpenFile", v)
		}
		g.lfB("mutex_unlock_closes", "the unlock function returned by Mutex.Lock calls f.Close()", len(lfCalls(fd.Body, "f.Close")) == 1)
		plain, after := lfMutexUnlockShape(g, fd)
		g.lfB("mutex_unlock_body_plain", "the unlock function returned by Mutex.Lock is a function literal whose whole body is mu.mu.Unlock(); f.Close() (no state shared between Lock calls)", plain)
		g.lfB("mutex_inner_lock_after_open", "Mutex.Lock calls mu.mu.Lock() once, as a statement of its own, after OpenFile has returned the locked file", after)
		if msg, ok := lfEmptyPathPanic(fd, "mu.Path"); ok {
			g.lfB("mutex_lock_panics_on_empty_path", "Mutex.Lock starts with if mu.Path == \"\" { panic(...) }", true)
			g.emitBytesLit("mutex_lock_panic_msg", "panic value of Mutex.Lock on an empty Path", msg)
		} else {
			g.fail("Mutex.Lock: leading `if mu.Path == \"\" { panic(<string>) }` not found")
		}
	}
	if fd := lfFunc(g, mu, mugo, "", "MutexAt"); fd != nil {
		if msg, ok := lfEmptyPathPanic(fd, "path"); ok {
			g.lfB("mutexat_panics_on_empty_path", "MutexAt starts with if path == \"\" { panic(...) }", true)
			g.emitBytesLit("mutexat_panic_msg", "panic value of MutexAt(\"\")", msg)
		} else {
			g.fail("MutexAt: leading `if path == \"\" { panic(<string>) }` not found")
		}
	}
	if fd := lfFunc(g, mu, mugo, "Mutex", "String"); fd != nil {
		cs := lfCalls(fd.Body, "fmt.Sprintf")
		if len(cs) == 1 && len(cs[0].Args) == 2 {
			if s, ok := g.str(cs[0].Args[0]); ok && lfSel(cs[0].Args[1]) == "mu.Path" {
				g.emitBytesLit("mutex_string_format", "format of Mutex.String, applied to mu.Path", s)
			} else {
				g.fail("Mutex.String: not fmt.Sprintf(<literal>, mu.Path)")
			}
		} else {
			g.fail("Mutex.String: not a single fmt.Sprintf(format, mu.Path)")
		}
	}

	// ---- lockedfile_filelock.go
	const flgo = "lockedfile/lockedfile_filelock.go"
	fl := lfParse(g, flgo)
	if fd := lfFunc(g, fl, flgo, "", "openFile"); fd != nil {
		genOpenFile(g, fd)
	}
	if fd := lfFunc(g, fl, flgo, "", "closeFile"); fd != nil {
		un := lfCalls(fd.Body, "filelock.Unlock")
		cl := lfCalls(fd.Body, "f.Close")
		if len(un) != 1 || len(cl) != 1 {
			g.fail("closeFile: expected one filelock.Unlock and one f.Close call")
		} else {
			g.lfB("closefile_unlock_first", "closeFile calls filelock.Unlock(f) before f.Close()", un[0].Pos() < cl[0].Pos())
		}
	}

	// ---- internal/filelock
	genFilelock(g)
	genBackend(g)
}

// genBackend asserts, with the build constraints of the platform the check runs on, which
// files make up the two packages: the flock(2) back end (filelock_unix.go) and the
// separate-lock-call openFile (lockedfile_filelock.go).  Any other selection (fcntl, "other",
// plan9, windows, or a new file) means the model no longer describes what is compiled.
func genBackend(g *gen) {
	matched := func(rel string) []string {
		dir := filepath.Join(g.repo, rel)
		ents, err := os.ReadDir(dir)
		if err != nil {
			g.fail("cannot read %s: %v", rel, err)
			return nil
		}
		var out []string
		for _, e := range ents {
			n := e.Name()
			if e.IsDir() || !strings.HasSuffix(n, ".go") || strings.HasSuffix(n, "_test.go") {
				continue
			}
			ok, err := build.Default.MatchFile(dir, n)
			if err != nil {
				g.fail("%s/%s: %v", rel, n, err)
				continue
			}
			if ok {
				out = append(out, n)
			}
		}
		sort.Strings(out)
		return out
	}
	check := func(coq, rel string, want []string) {
		got := matched(rel)
		if strings.Join(got, " ") != strings.Join(want, " ") {
			g.fail("%s: files compiled on %s/%s are %v, the model is written for %v", rel, build.Default.GOOS, build.Default.GOARCH, got, want)
			return
		}
		g.emitBytesList(coq, "files of "+rel+" compiled on this platform ("+build.Default.GOOS+"/"+build.Default.GOARCH+")", got)
	}
	check("filelock_backend_files", "lockedfile/internal/filelock", []string{"filelock.go", "filelock_unix.go"})
	check("lockedfile_files", "lockedfile", []string{"lockedfile.go", "lockedfile_filelock.go", "mutex.go"})
	// and the back end really is flock(2)
	uf := lfParse(g, "lockedfile/internal/filelock/filelock_unix.go")
	if fd := lfFunc(g, uf, "filelock_unix.go", "", "lock"); fd != nil {
		g.lfB("filelock_backend_is_flock", "the compiled back end locks with syscall.Flock", len(lfCalls(fd.Body, "syscall.Flock")) == 1 && len(lfCalls(fd.Body, "syscall.FcntlFlock")) == 0)
	}
}

// lfEmptyPathPanic: the function begins with `if <what> == "" { panic("msg") }`; returns msg.
func lfEmptyPathPanic(fd *ast.FuncDecl, what string) (string, bool) {
	if len(fd.Body.List) == 0 {
		return "", false
	}
	is, ok := fd.Body.List[0].(*ast.IfStmt)
	if !ok || is.Init != nil || len(is.Body.List) != 1 {
		return "", false
	}
	c, ok := is.Cond.(*ast.BinaryExpr)
	if !ok || c.Op != token.EQL || lfSel(c.X) != what {
		return "", false
	}
	if l, ok := c.Y.(*ast.BasicLit); !ok || l.Value != `""` {
		return "", false
	}
	es, ok := is.Body.List[0].(*ast.ExprStmt)
	if !ok {
		return "", false
	}
	call, ok := es.X.(*ast.CallExpr)
	if !ok || lfSel(call.Fun) != "panic" || len(call.Args) != 1 {
		return "", false
	}
	l, ok := call.Args[0].(*ast.BasicLit)
	if !ok || l.Kind != token.STRING {
		return "", false
	}
	s, err := strconv.Unquote(l.Value)
	return s, err == nil
}

// lfCloseGuard: File.Close is  if f.closed { return <non-nil> }; f.closed = true; ... closeFile(...)
func lfCloseGuard(g *gen, fd *ast.FuncDecl) bool {
	l := fd.Body.List
	if len(l) < 3 {
		return false
	}
	is, ok := l[0].(*ast.IfStmt)
	if !ok || is.Init != nil || is.Else != nil || lfExprText(g, is.Cond) != "f.closed" || len(is.Body.List) != 1 {
		return false
	}
	rs, ok := is.Body.List[0].(*ast.ReturnStmt)
	if !ok || len(rs.Results) != 1 || lfExprText(g, rs.Results[0]) == "nil" {
		return false
	}
	as, ok := l[1].(*ast.AssignStmt)
	if !ok || as.Tok != token.ASSIGN || len(as.Lhs) != 1 || len(as.Rhs) != 1 ||
		lfExprText(g, as.Lhs[0]) != "f.closed" || lfExprText(g, as.Rhs[0]) != "true" {
		return false
	}
	cs := lfCalls(fd.Body, "closeFile")
	if len(cs) != 1 || cs[0].Pos() < as.End() {
		return false
	}
	// nothing else writes f.closed
	n := 0
	ast.Inspect(fd.Body, func(x ast.Node) bool {
		if a, ok := x.(*ast.AssignStmt); ok {
			for _, lhs := range a.Lhs {
				if lfExprText(g, lhs) == "f.closed" {
					n++
				}
			}
		}
		return true
	})
	return n == 1
}

// lfFreshFile: OpenFile's f is new(File) (once), f itself is assigned nowhere else, and
// f.closed is not written (a File starts open and is closed by Close only).
func lfFreshFile(g *gen, fd *ast.FuncDecl) bool {
	news, defs, bad := 0, 0, 0
	ast.Inspect(fd.Body, func(x ast.Node) bool {
		switch x := x.(type) {
		case *ast.CallExpr:
			if lfExprText(g, x) == "new(File)" {
				news++
			}
		case *ast.ValueSpec:
			for i, nm := range x.Names {
				if nm.Name == "f" {
					defs++
					if i >= len(x.Values) || lfExprText(g, x.Values[i]) != "new(File)" {
						bad++
					}
				}
			}
		case *ast.AssignStmt:
			for i, lhs := range x.Lhs {
				switch lfExprText(g, lhs) {
				case "f":
					defs++
					if len(x.Rhs) != len(x.Lhs) || lfExprText(g, x.Rhs[i]) != "new(File)" {
						bad++
					}
				case "f.closed":
					bad++
				}
			}
		}
		return true
	})
	return news == 1 && defs == 1 && bad == 0
}

// lfMutexUnlockShape: (the returned unlock function is `func() { mu.mu.Unlock(); f.Close() }`,
// mu.mu.Lock() is a top-level statement between the OpenFile call and that return)
func lfMutexUnlockShape(g *gen, fd *ast.FuncDecl) (plain, after bool) {
	var lit *ast.FuncLit
	nlit := 0
	ast.Inspect(fd.Body, func(x ast.Node) bool {
		if fl, ok := x.(*ast.FuncLit); ok {
			nlit++
			lit = fl
			return false
		}
		return true
	})
	if nlit != 1 {
		return false, false
	}
	retTop := -1
	for i, st := range fd.Body.List {
		if rs, ok := st.(*ast.ReturnStmt); ok && len(rs.Results) == 2 && rs.Results[0] == ast.Expr(lit) && lfExprText(g, rs.Results[1]) == "nil" {
			retTop = i
		}
	}
	b := lit.Body.List
	plain = retTop >= 0 && lit.Type.Params.NumFields() == 0 && len(b) == 2
	if plain {
		for i, want := range []string{"mu.mu.Unlock()", "f.Close()"} {
			es, ok := b[i].(*ast.ExprStmt)
			if !ok || lfExprText(g, es.X) != want {
				plain = false
			}
		}
	}
	open := lfCalls(fd.Body, "OpenFile")
	nlock, lockTop := 0, -1
	ast.Inspect(fd.Body, func(x ast.Node) bool {
		if c, ok := x.(*ast.CallExpr); ok && lfExprText(g, c) == "mu.mu.Lock()" {
			nlock++
		}
		return true
	})
	for i, st := range fd.Body.List {
		if es, ok := st.(*ast.ExprStmt); ok && lfExprText(g, es.X) == "mu.mu.Lock()" {
			lockTop = i
		}
	}
	after = nlock == 1 && lockTop >= 0 && retTop > lockTop && len(open) == 1 && open[0].End() < fd.Body.List[lockTop].Pos()
	return plain, after
}

// lfExprText: source text of an expression (for loose matching).
func lfExprText(g *gen, e ast.Expr) string {
	var b strings.Builder
	printer.Fprint(&b, g.fset, e)
	return b.String()
}

// lfContainsReturn: does the statement contain a return of the enclosing function (function
// literals do not count)?
func lfContainsReturn(st ast.Stmt) bool {
	found := false
	ast.Inspect(st, func(n ast.Node) bool {
		switch n.(type) {
		case *ast.FuncLit:
			return false
		case *ast.ReturnStmt:
			found = true
		}
		return true
	})
	return found
}

// lfClosesOnEveryPath: the body is  f, err := <acquire>(...); if err != nil { return ... };
// then, before any statement containing a return, a top-level `defer f.Close()` or a top-level
// statement that calls f.Close() outside any nested block that could be skipped (the call sits
// in the statement itself or in the Init of an if).
func lfClosesOnEveryPath(fd *ast.FuncDecl) bool {
	list := fd.Body.List
	acq := -1
	for i, st := range list {
		as, ok := st.(*ast.AssignStmt)
		if !ok || len(as.Lhs) != 2 || len(as.Rhs) != 1 || lfSel(as.Lhs[0]) != "f" {
			continue
		}
		if c, ok := as.Rhs[0].(*ast.CallExpr); ok {
			switch lfSel(c.Fun) {
			case "OpenFile", "Open", "Edit", "Create":
				acq = i
			}
		}
		if acq >= 0 {
			break
		}
	}
	if acq < 0 || acq+1 >= len(list) {
		return false
	}
	// the acquisition's own error check
	is, ok := list[acq+1].(*ast.IfStmt)
	if !ok || is.Init != nil || is.Else != nil {
		return false
	}
	if c, ok := is.Cond.(*ast.BinaryExpr); !ok || c.Op != token.NEQ || lfSel(c.X) != "err" || lfSel(c.Y) != "nil" {
		return false
	}
	for _, st := range list[acq+2:] {
		switch st := st.(type) {
		case *ast.DeferStmt:
			if lfSel(st.Call.Fun) == "f.Close" {
				return true
			}
		case *ast.ExprStmt:
			if c, ok := st.X.(*ast.CallExpr); ok && lfSel(c.Fun) == "f.Close" {
				return true
			}
		case *ast.AssignStmt:
			if len(lfCalls(st, "f.Close")) > 0 && !lfContainsReturn(st) {
				return true
			}
		case *ast.IfStmt:
			if st.Init != nil && len(lfCalls(st.Init, "f.Close")) > 0 {
				return true
			}
		}
		if lfContainsReturn(st) {
			return false
		}
	}
	return false
}

func lfHasDeferClose(fd *ast.FuncDecl) bool {
	found := false
	for _, st := range fd.Body.List { // top-level defer only
		if d, ok := st.(*ast.DeferStmt); ok && lfSel(d.Call.Fun) == "f.Close" {
			found = true
		}
	}
	return found
}

func genOpenFile(g *gen, fd *ast.FuncDecl) {
	flagName := "flag"
	if ps := fd.Type.Params.List; len(ps) >= 2 && len(ps[1].Names) == 1 {
		flagName = ps[1].Names[0].Name
	}
	all := int64(0)
	for k, v := range lfSys {
		if strings.HasPrefix(k, "os.") {
			all |= v
		}
	}
	env := map[string]int64{flagName: all}
	// os.OpenFile(name, flag&^os.O_TRUNC, perm): stripped mask = bits of `all` missing in the value
	opens := lfCalls(fd.Body, "os.OpenFile")
	if len(opens) != 1 || len(opens[0].Args) != 3 {
		g.fail("openFile: expected exactly one os.OpenFile(name, flags, perm) call")
		return
	}
	v, ok := lfEval(opens[0].Args[1], env)
	if !ok || v&^all != 0 {
		g.fail("openFile: flags handed to os.OpenFile are not of the form flag&^MASK")
		return
	}
	g.lfN("openfile_strip_mask", "bits openFile removes from the flags it hands to os.OpenFile (flag&^os.O_TRUNC)", all&^v)

	// the lock-type switch
	var sw *ast.SwitchStmt
	ast.Inspect(fd.Body, func(n ast.Node) bool {
		if s, ok := n.(*ast.SwitchStmt); ok && sw == nil {
			sw = s
		}
		return true
	})
	if sw == nil || sw.Tag == nil {
		g.fail("openFile: lock-type switch not found")
		return
	}
	tag, ok := sw.Tag.(*ast.BinaryExpr)
	if !ok || tag.Op != token.AND || lfSel(tag.X) != flagName {
		g.fail("openFile: switch tag is not flag & MASK")
		return
	}
	mask, ok := lfEval(tag.Y, nil)
	if !ok {
		g.fail("openFile: switch mask not constant")
		return
	}
	g.lfN("lock_switch_mask", "mask of the lock-type switch: flag & (os.O_RDONLY|os.O_WRONLY|os.O_RDWR)", mask)
	filelockArg := func(body []ast.Stmt) (string, bool) {
		var names []string
		for _, st := range body {
			for _, fn := range []string{"filelock.Lock", "filelock.RLock"} {
				if len(lfCalls(st, fn)) > 0 {
					names = append(names, fn)
				}
			}
		}
		if len(names) != 1 {
			return "", false
		}
		return names[0], true
	}
	var cases []string
	caseFn, defFn, haveDef := "", "", false
	for _, st := range sw.Body.List {
		cc := st.(*ast.CaseClause)
		fn, ok := filelockArg(cc.Body)
		if !ok {
			g.fail("openFile: a switch clause does not make exactly one filelock.Lock/RLock call")
			return
		}
		if cc.List == nil {
			defFn, haveDef = fn, true
			continue
		}
		if caseFn != "" && caseFn != fn {
			g.fail("openFile: switch has several non-default clauses with different lock calls")
			return
		}
		caseFn = fn
		for _, e := range cc.List {
			v, ok := lfEval(e, nil)
			if !ok {
				g.fail("openFile: switch case value not constant")
				return
			}
			cases = append(cases, fmt.Sprintf("(%d)%%N", v))
		}
	}
	if !haveDef || caseFn == "" {
		g.fail("openFile: switch lacks a default or a case clause")
		return
	}
	fmt.Fprintf(&g.buf, "(* values of flag&mask handled by the explicit case clause (os.O_WRONLY, os.O_RDWR) *)\nDefinition lock_switch_cases : list N := [%s].\n\n", strings.Join(cases, "; "))
	g.lfB("lock_case_calls_lock", "the case clause calls filelock.Lock (exclusive)", caseFn == "filelock.Lock")
	g.lfB("lock_default_calls_rlock", "the default clause calls filelock.RLock (shared)", defFn == "filelock.RLock")

	// the Truncate call: guard and position
	var trIf *ast.IfStmt
	ast.Inspect(fd.Body, func(n ast.Node) bool {
		if s, ok := n.(*ast.IfStmt); ok && trIf == nil && len(lfCalls(s.Body, "f.Truncate")) > 0 && len(lfCalls(s.Cond, "f.Truncate")) == 0 {
			trIf = s
		}
		return true
	})
	trs := lfCalls(fd.Body, "f.Truncate")
	if trIf == nil || len(trs) != 1 {
		g.fail("openFile: guarded f.Truncate call not found")
		return
	}
	cond, ok := trIf.Cond.(*ast.BinaryExpr)
	if !ok || cond.Op != token.EQL {
		g.fail("openFile: Truncate guard is not flag&M == M")
		return
	}
	l, ok1 := cond.X.(*ast.BinaryExpr)
	m2, ok2 := lfEval(cond.Y, nil)
	if !ok1 || !ok2 || l.Op != token.AND || lfSel(l.X) != flagName {
		g.fail("openFile: Truncate guard is not flag&M == M")
		return
	}
	m1, ok := lfEval(l.Y, nil)
	if !ok || m1 != m2 {
		g.fail("openFile: Truncate guard is not flag&M == M")
		return
	}
	g.lfN("truncate_cond_mask", "openFile truncates when flag&M == M, M = os.O_TRUNC", m1)
	if a, ok := lfEval(trs[0].Args[0], nil); ok {
		g.lfN("truncate_size", "argument of f.Truncate in openFile", a)
	} else {
		g.fail("openFile: Truncate argument not constant")
	}
	g.lfB("truncate_after_lock", "in openFile the Truncate call comes after the lock switch, which comes after os.OpenFile",
		opens[0].Pos() < sw.Pos() && sw.End() < trs[0].Pos())
	// the Unlock of the error path must sit inside the `statErr != nil || IsRegular()` block:
	// for other files the Truncate error is ignored and the File is returned, still locked
	inside := false
	ast.Inspect(trIf.Body, func(n ast.Node) bool {
		is, ok := n.(*ast.IfStmt)
		if !ok || is == trIf {
			return true
		}
		if len(lfCalls(is.Cond, "fi.Mode().IsRegular")) == 0 && !strings.Contains(lfExprText(g, is.Cond), "IsRegular") {
			return true
		}
		un := lfCalls(trIf.Body, "filelock.Unlock")
		inside = len(un) == 1 && un[0].Pos() > is.Body.Pos() && un[0].End() < is.Body.End()
		return false
	})
	g.lfB("truncate_unlock_inside_regular_check", "openFile releases the lock after a failed Truncate only inside the is-regular-file block (other files are returned, still locked)", inside)
	g.lfB("truncate_failure_unlocks_first", "when Truncate fails openFile calls filelock.Unlock before f.Close",
		func() bool {
			un := lfCalls(trIf.Body, "filelock.Unlock")
			cl := lfCalls(trIf.Body, "f.Close")
			return len(un) == 1 && len(cl) == 1 && un[0].Pos() < cl[0].Pos()
		}())
}

func genFilelock(g *gen) {
	const fgo = "lockedfile/internal/filelock/filelock.go"
	const ugo = "lockedfile/internal/filelock/filelock_unix.go"
	ff := lfParse(g, fgo)
	uf := lfParse(g, ugo)
	if ff == nil || uf == nil {
		return
	}
	// lockType constants of filelock_unix.go
	env := map[string]int64{}
	for _, d := range uf.Decls {
		gd, ok := d.(*ast.GenDecl)
		if !ok || gd.Tok != token.CONST {
			continue
		}
		for _, s := range gd.Specs {
			vs := s.(*ast.ValueSpec)
			for i, id := range vs.Names {
				if i < len(vs.Values) {
					if v, ok := lfEval(vs.Values[i], nil); ok {
						env[id.Name] = v
					}
				}
			}
		}
	}
	// Lock / RLock: lock(f, <const>); Unlock: unlock(f) -> lock(f, syscall.LOCK_UN)
	lockArg := func(file *ast.File, rel, fn, callee string) (int64, bool) {
		fd := lfFunc(g, file, rel, "", fn)
		if fd == nil {
			return 0, false
		}
		cs := lfCalls(fd.Body, callee)
		if len(cs) != 1 || len(cs[0].Args) != 2 {
			g.fail("%s: %s does not make exactly one %s(f, lt) call", rel, fn, callee)
			return 0, false
		}
		v, ok := lfEval(cs[0].Args[1], env)
		if !ok {
			g.fail("%s: %s: lock type not constant", rel, fn)
		}
		return v, ok
	}
	if v, ok := lockArg(ff, fgo, "Lock", "lock"); ok {
		g.lfN("filelock_lock_arg", "flock operation made by filelock.Lock (writeLock = syscall.LOCK_EX)", v)
	}
	if v, ok := lockArg(ff, fgo, "RLock", "lock"); ok {
		g.lfN("filelock_rlock_arg", "flock operation made by filelock.RLock (readLock = syscall.LOCK_SH)", v)
	}
	if fd := lfFunc(g, ff, fgo, "", "Unlock"); fd != nil && len(lfCalls(fd.Body, "unlock")) != 1 {
		g.fail("%s: Unlock does not call unlock(f)", fgo)
	}
	if v, ok := lockArg(uf, ugo, "unlock", "lock"); ok {
		g.lfN("filelock_unlock_arg", "flock operation made by filelock.Unlock (syscall.LOCK_UN)", v)
	}
	// lock: for { err = syscall.Flock(fd, int(lt)); if err != syscall.EINTR { break } }
	if fd := lfFunc(g, uf, ugo, "", "lock"); fd != nil {
		retries, passes := false, false
		ltName := "lt"
		if ps := fd.Type.Params.List; len(ps) >= 2 && len(ps[1].Names) == 1 {
			ltName = ps[1].Names[0].Name
		}
		ast.Inspect(fd.Body, func(n ast.Node) bool {
			fs, ok := n.(*ast.ForStmt)
			if !ok || fs.Cond != nil || fs.Init != nil {
				return true
			}
			cs := lfCalls(fs.Body, "syscall.Flock")
			if len(cs) != 1 || len(cs[0].Args) != 2 {
				return true
			}
			if v, ok := lfEval(cs[0].Args[1], map[string]int64{ltName: 12345}); ok && v == 12345 {
				passes = true
			}
			for _, st := range fs.Body.List {
				is, ok := st.(*ast.IfStmt)
				if !ok || len(is.Body.List) != 1 {
					continue
				}
				br, ok := is.Body.List[0].(*ast.BranchStmt)
				c, ok2 := is.Cond.(*ast.BinaryExpr)
				if ok && ok2 && br.Tok == token.BREAK && c.Op == token.NEQ && lfSel(c.Y) == "syscall.EINTR" {
					retries = true
				}
			}
			return true
		})
		g.lfB("lock_passes_type_to_flock", "lock hands its lockType unchanged to syscall.Flock", passes)
		g.lfB("lock_retries_eintr", "lock repeats syscall.Flock while it returns EINTR and only then", retries)
	}
}

package main

import (
	"fmt"
	"go/ast"
	"path/filepath"
	"strings"

	"verif/harness/go2coq"
)

// Group DiffSrc: diff/diff.go (lines, tgs, Diff) translated to Gallina by harness/go2coq,
// written to Gen/DiffSrc.v.  Diff/SrcFacts*.v prove every generated function equal to the
// hand-written model Diff/Diff.v, so a change of diff.go that changes the generated text
// re-opens those proofs.  This file holds only the table: which functions, which library
// calls, struct and library types, and their Coq denotations (Lib/GoSem.v, Lib/GoSemExt.v,
// Lib/GoSemData.v, Diff/SrcLib.v).
func init() {
	outFile["DiffSrc"] = "DiffSrc.v"
	stubOnFailure["DiffSrc"] = true
	groups["DiffSrc"] = func(g *gen) {
		stubs := map[string]string{
			// bytes.Buffer: append-only use (Fprintf into it, WriteString, Bytes)
			"bytes": goLibStubs["bytes"] + "func Equal(a, b []byte) bool\ntype Buffer struct{ _ int }\n" +
				"func (b *Buffer) Write(p []byte) (n int, err error)\nfunc (b *Buffer) WriteString(s string) (n int, err error)\nfunc (b *Buffer) Bytes() []byte\n",
			"io":      "package io\ntype Writer interface { Write(p []byte) (n int, err error) }\n",
			"fmt":     "package fmt\nimport \"io\"\nfunc Fprintf(w io.Writer, format string, a ...any) (n int, err error)\n",
			"sort":    "package sort\nfunc Search(n int, f func(int) bool) int\n",
			"strings": goLibStubs["strings"] + "func SplitAfter(s, sep string) []string\n",
		}
		lib := map[string]go2coq.LibFunc{
			// Lib/GoSemData.v
			"bytes.Equal": {Coq: "go_bytes_Equal"},
			"sort.Search": {Coq: "go_sort_Search", Monadic: true},
			// fmt.Fprintf(&out, ...) with out a bytes.Buffer: the only io.Writer the table's Opaque
			// types provide, so the first argument of an accepted call is a buffer
			"fmt.Fprintf":                  {Coq: "go_fmt_Fprintf_buffer", Monadic: true, Mutates: true},
			"(*bytes.Buffer).WriteString": {Coq: "go_buffer_WriteString", Mutates: true},
			"(*bytes.Buffer).Bytes":       {Coq: "go_buffer_Bytes"},
			// Diff/SrcLib.v: strings.SplitAfter is the model's split_after (one-byte separators);
			// its result is a new slice of (immutable) strings
			"strings.SplitAfter": {Coq: "go_strings_SplitAfter", Monadic: true, Fresh: true},
		}
		cfg := &go2coq.Config{
			Prefix: "src_",
			Funcs:  []string{"lines", "tgs", "Diff"},
			Stubs:  stubs,
			Lib:    lib,
			Structs: map[string]go2coq.Struct{
				// type pair struct{ x, y int }
				"github.com/rogpeppe/go-internal/diff.pair": {CoqType: "(Z * Z)%type", Ctor: "pair",
					Fields: []go2coq.Field{{Go: "x", Getter: "fst"}, {Go: "y", Getter: "snd"}}},
			},
			AssocMaps: true,
			Opaque:    map[string]go2coq.Opaque{"bytes.Buffer": {CoqType: "bytes", Zero: "go_buffer_empty"}},
		}
		var files []*ast.File
		for _, f := range g.files("diff") {
			files = append(files, f)
		}
		if len(g.errs) > 0 {
			return
		}
		res, err := go2coq.Translate(g.fset, files, "github.com/rogpeppe/go-internal/diff", cfg)
		if err != nil {
			g.fail("%s: %v", filepath.Join("diff", "diff.go"), err)
			return
		}
		fmt.Fprintf(&g.buf, "(* diff/diff.go translated by harness/go2coq (table: harness/cmd/genconsts/gen_diff_src.go).\n")
		fmt.Fprintf(&g.buf, "   Functions: %s.  Vocabulary: Lib/GoSem.v, Lib/GoSemExt.v, Lib/GoSemData.v, Diff/SrcLib.v. *)\n", strings.Join(res.Funcs, ", "))
		fmt.Fprintf(&g.buf, "From Coq Require Import Bool.\nFrom GI Require Import Lib.Bytes Lib.GoSem Lib.GoSemExt Lib.GoSemData Diff.SrcLib.\nImport GoNotations.\nLocal Open Scope go_scope.\n\n")
		g.buf.WriteString(res.Text)
	}
}

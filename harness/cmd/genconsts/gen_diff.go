package main

import (
	"fmt"
	"go/ast"
	"go/token"
	"go/types"
	"strings"
)

// Group Diff: the literals of /repo/diff/diff.go the C08 theorems depend on.
//
//	ctxC            = the function-local `const C = 3` of Diff (number of context lines)
//	no_newline_msg  = the string literal appended by `l[len(l)-1] += "..."` in lines
//	lines_sep       = the separator literal of the strings.SplitAfter call in lines
//	fmt_header_diff, fmt_header_old, fmt_header_new, fmt_hunk
//	                = the format strings of the four fmt.Fprintf(&out, ...) calls of Diff, in
//	                  source order; diff_fprintf_args = the argument expressions of each call
//	cmp_diff_args   = the four argument expressions of the diff.Diff call in testscript's
//	                  doCmdCmp (the consumer named by the property); the generator itself fails
//	                  unless the 2nd and 4th are []byte(A) and []byte(B) where `A == B` is the
//	                  comparison that decides whether the command fails, A is read from the
//	                  first file and B is the (for cmpenv: expanded) text of the second
//
// Both live inside function bodies, so they are found by walking the bodies; the
// generator fails (MISSING) when the shape is gone or ambiguous.
func init() {
	groups["Diff"] = func(g *gen) {
		// --- const C inside func Diff
		if fd := g.funcDecl("diff", "Diff"); fd != nil && fd.Body != nil {
			var found []ast.Expr
			ast.Inspect(fd.Body, func(n ast.Node) bool {
				gd, ok := n.(*ast.GenDecl)
				if !ok || gd.Tok != token.CONST {
					return true
				}
				for _, s := range gd.Specs {
					vs, ok := s.(*ast.ValueSpec)
					if !ok {
						continue
					}
					for i, id := range vs.Names {
						if id.Name == "C" && i < len(vs.Values) {
							found = append(found, vs.Values[i])
						}
					}
				}
				return true
			})
			if len(found) != 1 {
				g.fail("diff.Diff: expected exactly one local `const C = ...`, found %d", len(found))
			} else if v, ok := g.constVal("diff", found[0]); !ok {
				g.fail("diff.Diff: local const C is not a constant expression any more")
			} else {
				s := v.ExactString()
				n := 0
				okInt := len(s) > 0 && len(s) < 6
				for _, c := range s {
					if c < '0' || c > '9' {
						okInt = false
						break
					}
					n = n*10 + int(c-'0')
				}
				if !okInt {
					g.fail("diff.Diff: local const C = %s is not a small non-negative integer", s)
				} else {
					fmt.Fprintf(&g.buf, "(* diff.Diff: const C (number of context lines) *)\nDefinition ctxC : nat := %d.\n\n", n)
				}
			}
		}
		// --- the message appended to an unterminated last line in func lines
		if fd := g.funcDecl("diff", "lines"); fd != nil && fd.Body != nil {
			var found []string
			ast.Inspect(fd.Body, func(n ast.Node) bool {
				as, ok := n.(*ast.AssignStmt)
				if !ok || as.Tok != token.ADD_ASSIGN || len(as.Rhs) != 1 {
					return true
				}
				if s, ok := g.str(as.Rhs[0]); ok {
					found = append(found, s)
				}
				return true
			})
			if len(found) != 1 {
				g.fail("diff.lines: expected exactly one `... += \"literal\"`, found %d", len(found))
			} else {
				g.emitBytesLit("no_newline_msg", "diff.lines: text appended to an unterminated last line", found[0])
			}
		}
		// --- the separator of strings.SplitAfter in func lines
		if fd := g.funcDecl("diff", "lines"); fd != nil && fd.Body != nil {
			var seps []string
			ast.Inspect(fd.Body, func(n ast.Node) bool {
				ce, ok := n.(*ast.CallExpr)
				if !ok || types.ExprString(ce.Fun) != "strings.SplitAfter" || len(ce.Args) != 2 {
					return true
				}
				if s, ok := g.str(ce.Args[1]); ok {
					seps = append(seps, s)
				}
				return true
			})
			if len(seps) != 1 {
				g.fail("diff.lines: expected exactly one strings.SplitAfter(_, \"literal\"), found %d", len(seps))
			} else {
				g.emitBytesLit("lines_sep", "diff.lines: separator of strings.SplitAfter", seps[0])
			}
		}
		// --- the four Fprintf calls of Diff
		if fd := g.funcDecl("diff", "Diff"); fd != nil && fd.Body != nil {
			type call struct {
				format string
				args   []string
			}
			var calls []call
			ast.Inspect(fd.Body, func(n ast.Node) bool {
				ce, ok := n.(*ast.CallExpr)
				if !ok || types.ExprString(ce.Fun) != "fmt.Fprintf" || len(ce.Args) < 2 {
					return true
				}
				c := call{}
				if s, ok := g.str(ce.Args[1]); ok && types.ExprString(ce.Args[0]) == "&out" {
					c.format = s
				} else {
					g.fail("diff.Diff: fmt.Fprintf(%s, %s, ...): destination is not &out or the format is not a string literal",
						types.ExprString(ce.Args[0]), types.ExprString(ce.Args[1]))
					return true
				}
				for _, a := range ce.Args[2:] {
					c.args = append(c.args, types.ExprString(a))
				}
				calls = append(calls, c)
				return true
			})
			// any other way of writing to out than these calls and out.WriteString(s) of the chunk lines
			var writes []string
			ast.Inspect(fd.Body, func(n ast.Node) bool {
				if ce, ok := n.(*ast.CallExpr); ok {
					if f := types.ExprString(ce.Fun); strings.HasPrefix(f, "out.") && f != "out.Bytes" {
						writes = append(writes, f+"("+exprList(ce.Args)+")")
					}
				}
				return true
			})
			if len(calls) != 4 {
				g.fail("diff.Diff: expected four fmt.Fprintf(&out, ...) calls (three header lines, one hunk header), found %d", len(calls))
			} else if len(writes) != 1 || writes[0] != "out.WriteString(s)" {
				g.fail("diff.Diff: expected the chunk lines to be written by exactly one out.WriteString(s), found %v", writes)
			} else {
				names := []string{"fmt_header_diff", "fmt_header_old", "fmt_header_new", "fmt_hunk"}
				var all []string
				for i, c := range calls {
					g.emitBytesLit(names[i], fmt.Sprintf("diff.Diff: format of Fprintf call %d", i+1), c.format)
					var parts []string
					for _, a := range c.args {
						parts = append(parts, coqBytes(a))
					}
					all = append(all, "["+strings.Join(parts, "; ")+"]")
				}
				var argNames []string
				for _, c := range calls {
					argNames = append(argNames, strings.Join(c.args, ","))
				}
				fmt.Fprintf(&g.buf, "(* diff.Diff: argument expressions of the four Fprintf calls: %s *)\nDefinition diff_fprintf_args : list (list (list byte)) :=\n  [%s].\n\n",
					strings.Join(argNames, " | "), strings.Join(all, ";\n   "))
			}
		}
		// --- the consumer: which texts doCmdCmp hands to diff.Diff
		if fd := g.funcDecl("testscript", "TestScript.doCmdCmp"); fd != nil && fd.Body != nil {
			var dcalls [][]string
			var eqs []string
			assigned := map[string][]string{} // variable -> right-hand sides assigned to it
			ast.Inspect(fd.Body, func(n ast.Node) bool {
				switch n := n.(type) {
				case *ast.CallExpr:
					if types.ExprString(n.Fun) == "diff.Diff" {
						var as []string
						for _, a := range n.Args {
							as = append(as, types.ExprString(a))
						}
						dcalls = append(dcalls, as)
					}
				case *ast.AssignStmt:
					for i, l := range n.Lhs {
						if id, ok := l.(*ast.Ident); ok && i < len(n.Rhs) && len(n.Lhs) == len(n.Rhs) {
							assigned[id.Name] = append(assigned[id.Name], types.ExprString(n.Rhs[i]))
							if be, ok := n.Rhs[i].(*ast.BinaryExpr); ok && be.Op == token.EQL {
								eqs = append(eqs, types.ExprString(be.X), types.ExprString(be.Y))
							}
						}
					}
				}
				return true
			})
			unwrap := func(s string) (string, bool) {
				if strings.HasPrefix(s, "[]byte(") && strings.HasSuffix(s, ")") {
					return s[len("[]byte(") : len(s)-1], true
				}
				return "", false
			}
			switch {
			case len(dcalls) != 1 || len(dcalls[0]) != 4:
				g.fail("testscript.doCmdCmp: expected exactly one diff.Diff call with four arguments, found %v", dcalls)
			case len(eqs) != 2:
				g.fail("testscript.doCmdCmp: expected exactly one `v := A == B` deciding the comparison, found %v", eqs)
			default:
				a, okA := unwrap(dcalls[0][1])
				b, okB := unwrap(dcalls[0][3])
				if !okA || !okB || a != eqs[0] || b != eqs[1] {
					g.fail("testscript.doCmdCmp: diff.Diff is given (%s, %s) but the texts compared are (%s, %s)", dcalls[0][1], dcalls[0][3], eqs[0], eqs[1])
				} else if fmt.Sprint(assigned[a]) != "[ts.ReadFile(name1)]" {
					g.fail("testscript.doCmdCmp: %s is no longer just ts.ReadFile(name1): %v", a, assigned[a])
				} else if fmt.Sprint(assigned[b]) != "[string(data) ts.expand("+b+")]" {
					g.fail("testscript.doCmdCmp: %s is no longer string(data), then ts.expand(%s) for cmpenv: %v", b, b, assigned[b])
				} else if dcalls[0][0] != "name1" || dcalls[0][2] != "name2" {
					g.fail("testscript.doCmdCmp: diff.Diff is no longer labelled with name1/name2: %v", dcalls[0])
				} else {
					g.emitBytesList("cmp_diff_args", "testscript.doCmdCmp: arguments of diff.Diff; compared: "+eqs[0]+" == "+eqs[1], dcalls[0])
				}
			}
		}
	}
}

func exprList(es []ast.Expr) string {
	var p []string
	for _, e := range es {
		p = append(p, types.ExprString(e))
	}
	return strings.Join(p, ", ")
}

package main

import (
	"fmt"
	"go/ast"
	"go/token"
)

// Group Diff: the literals of /repo/diff/diff.go the C08 theorems depend on.
//
//	ctxC            = the function-local `const C = 3` of Diff (number of context lines)
//	no_newline_msg  = the string literal appended by `l[len(l)-1] += "..."` in lines
//
// Both live inside function bodies, so they are found by walking the bodies; the
// generator fails (MISSING) when the shape is gone or ambiguous.
func init() {
	groups["Diff"] = func(g *gen) {
		// --- const C inside func Diff
		if fd := g.funcDecl("diff", "Diff"); fd != nil && fd.Body != nil {
			var found []ast.Expr
			ast.Inspect(fd.Body, func(n ast.Node) bool {
				gd, ok := n.(*ast.GenDecl)
				if !ok || gd.Tok != token.CONST {
					return true
				}
				for _, s := range gd.Specs {
					vs, ok := s.(*ast.ValueSpec)
					if !ok {
						continue
					}
					for i, id := range vs.Names {
						if id.Name == "C" && i < len(vs.Values) {
							found = append(found, vs.Values[i])
						}
					}
				}
				return true
			})
			if len(found) != 1 {
				g.fail("diff.Diff: expected exactly one local `const C = ...`, found %d", len(found))
			} else if v, ok := g.constVal("diff", found[0]); !ok {
				g.fail("diff.Diff: local const C is not a constant expression any more")
			} else {
				s := v.ExactString()
				n := 0
				okInt := len(s) > 0 && len(s) < 6
				for _, c := range s {
					if c < '0' || c > '9' {
						okInt = false
						break
					}
					n = n*10 + int(c-'0')
				}
				if !okInt {
					g.fail("diff.Diff: local const C = %s is not a small non-negative integer", s)
				} else {
					fmt.Fprintf(&g.buf, "(* diff.Diff: const C (number of context lines) *)\nDefinition ctxC : nat := %d.\n\n", n)
				}
			}
		}
		// --- the message appended to an unterminated last line in func lines
		if fd := g.funcDecl("diff", "lines"); fd != nil && fd.Body != nil {
			var found []string
			ast.Inspect(fd.Body, func(n ast.Node) bool {
				as, ok := n.(*ast.AssignStmt)
				if !ok || as.Tok != token.ADD_ASSIGN || len(as.Rhs) != 1 {
					return true
				}
				if s, ok := g.str(as.Rhs[0]); ok {
					found = append(found, s)
				}
				return true
			})
			if len(found) != 1 {
				g.fail("diff.lines: expected exactly one `... += \"literal\"`, found %d", len(found))
			} else {
				g.emitBytesLit("no_newline_msg", "diff.lines: text appended to an unterminated last line", found[0])
			}
		}
	}
}

package main

import (
	"fmt"
	"go/ast"
	"path/filepath"
	"strings"

	"verif/harness/go2coq"
)

// Group TsBatchSrc (C04): the segment of testscript/testscript.go RunT that names a script -- the
// body of the loop over the files from  name := filepath.Base(file)  to  names[name] = true:
// both strings.CutSuffix tests and the disambiguation loop with its counter -- translated to
// Gallina by harness/go2coq, written to Gen/TsBatchSrc.v.  TsBatch/SrcFacts.v proves it equal to
// the hand-written model TsBatch/Names.v and proves the names of a batch pairwise distinct.
// This file holds only the table; the denotations of the library calls are TsBatch/SrcLib.v.
// The map names is made by RunT (names := make(map[string]bool)) and is a local that only these
// statements touch: read and written, it is a mapref (Config.RefMaps).
func init() {
	outFile["TsBatchSrc"] = "TsBatchSrc.v"
	stubOnFailure["TsBatchSrc"] = true
	groups["TsBatchSrc"] = func(g *gen) {
		stubs := map[string]string{}
		for k, v := range goLibStubs {
			stubs[k] = v
		}
		stubs["strings"] = goLibStubs["strings"] + "func CutSuffix(s, suffix string) (before string, found bool)\n"
		stubs["strconv"] = "package strconv\nfunc Itoa(i int) string\n"
		stubs["path/filepath"] = "package filepath\nfunc Base(path string) string\n"
		lib := map[string]go2coq.LibFunc{}
		for k, v := range goLib {
			lib[k] = v
		}
		lib["strings.CutSuffix"] = go2coq.LibFunc{Coq: "go_strings_CutSuffix"}
		lib["strconv.Itoa"] = go2coq.LibFunc{Coq: "go_strconv_Itoa"}
		lib["path/filepath.Base"] = go2coq.LibFunc{Coq: "go_filepath_Base"}
		cfg := &go2coq.Config{
			Prefix:  "src_",
			Stubs:   stubs,
			Lib:     lib,
			RefMaps: []string{"map[string]bool"},
			Segments: []go2coq.Segment{
				{Func: "RunT", Name: "name", In: "path/filepath.Base", Before: "(" + tsPkg + ".T).Run"},
			},
		}
		var files []*ast.File
		for _, f := range g.files("testscript") {
			files = append(files, f)
		}
		if len(g.errs) > 0 {
			return
		}
		res, err := go2coq.Translate(g.fset, files, tsPkg, cfg)
		if err != nil {
			g.fail("%s: %v", filepath.Join("testscript", "testscript.go"), err)
			return
		}
		fmt.Fprintf(&g.buf, "(* testscript/testscript.go, the segment of RunT that names a script, translated by harness/go2coq\n   (table: harness/cmd/genconsts/gen_tsbatch_src.go).\n")
		fmt.Fprintf(&g.buf, "   Definitions: %s.  Vocabulary: Lib/GoSem.v, Lib/GoSemState.v, TsBatch/SrcLib.v. *)\n", strings.Join(res.Funcs, ", "))
		fmt.Fprintf(&g.buf, "From Coq Require Import Bool.\nFrom GI Require Import Lib.Bytes Lib.GoSem Lib.GoSemSeg Lib.GoSemState TsBatch.SrcLib.\nImport GoNotations.\nLocal Open Scope go_scope.\n\n")
		g.buf.WriteString(res.Text)
	}
}

package main

import (
	"fmt"
	"go/ast"
	"path/filepath"
	"strings"

	"verif/harness/go2coq"
)

// Group ImportsReadSrc: imports/read.go (the import reader behind ReadImports) translated to
// Gallina by harness/go2coq, written to Gen/ImportsReadSrc.v.  Imports/ReadSrcFacts.v proves
// every generated function equal to the hand-written model Imports/Read.v, so a change of
// read.go that changes the generated text re-opens those proofs.  This file holds only the
// table: which functions and methods, the struct type, the library calls and their Coq
// denotations (Lib/GoSem.v, Lib/GoSemExt.v, Lib/GoSemIO.v, Imports/ReadSrcLib.v).
//
// What the table claims beyond the translator's own checks: the *bufio.Reader over the
// io.Reader argument is the list of the bytes still to be read (the input delivers its bytes
// and then io.EOF; readers that fail otherwise stay with the runner); ReadByte / Peek /
// Discard are the list operations of Lib/GoSemIO.v; bytes.Equal is equality of byte lists.

func init() {
	outFile["ImportsReadSrc"] = "ImportsReadSrc.v"
	stubOnFailure["ImportsReadSrc"] = true
	groups["ImportsReadSrc"] = func(g *gen) {
		stubs := map[string]string{}
		for k, v := range goLibStubs {
			stubs[k] = v
		}
		stubs["bytes"] = goLibStubs["bytes"] + "func Equal(a, b []byte) bool\n"
		stubs["unicode/utf8"] = goLibStubs["unicode/utf8"] + "const RuneSelf = 0x80\n"
		stubs["io"] = "package io\ntype Reader interface{ Read(p []byte) (n int, err error) }\nvar EOF error\n"
		stubs["bufio"] = "package bufio\nimport \"io\"\ntype Reader struct{}\nfunc NewReader(rd io.Reader) *Reader\n" +
			"func (b *Reader) ReadByte() (byte, error)\nfunc (b *Reader) Peek(n int) ([]byte, error)\nfunc (b *Reader) Discard(n int) (discarded int, err error)\n"
		lib := map[string]go2coq.LibFunc{}
		for k, v := range goLib {
			lib[k] = v
		}
		lib["bytes.Equal"] = go2coq.LibFunc{Coq: "bytes_eqb"}
		lib["bufio.NewReader"] = go2coq.LibFunc{Coq: "go_bufio_NewReader"}
		lib["(*bufio.Reader).ReadByte"] = go2coq.LibFunc{Coq: "go_bufio_ReadByte", State: true}
		lib["(*bufio.Reader).Peek"] = go2coq.LibFunc{Coq: "go_bufio_Peek", State: true, Monadic: true, Volatile: true}
		lib["(*bufio.Reader).Discard"] = go2coq.LibFunc{Coq: "go_bufio_Discard", State: true, Monadic: true}
		cfg := &go2coq.Config{
			Prefix: "src_",
			Funcs: []string{"isIdent", "newImportReader", "importReader.syntaxError", "importReader.readByte",
				"importReader.peekByte", "importReader.nextByte", "importReader.readKeyword", "importReader.readIdent",
				"importReader.readString", "importReader.readImport", "ReadImports"},
			Stubs: stubs,
			Lib:   lib,
			Structs: map[string]go2coq.Struct{
				// Imports/ReadSrcLib.v
				"github.com/rogpeppe/go-internal/imports.importReader": {CoqType: "ireader", Ctor: "mk_ireader",
					Fields: []go2coq.Field{{Go: "b", Getter: "ir_b"}, {Go: "buf", Getter: "ir_buf"}, {Go: "peek", Getter: "ir_peek"},
						{Go: "err", Getter: "ir_err"}, {Go: "eof", Getter: "ir_eof"}, {Go: "nerr", Getter: "ir_nerr"}},
					// r.buf = append(r.buf, c) in readByte: an importReader is made by newImportReader only, with
					// buf nil, and nothing but readByte assigns the field; the slices taken of it are copied at once
					// (string(r.buf[start:])) or returned by ReadImports when the reader is dead
					Owned: []string{"buf"}},
			},
			StatePassing: true,
			StateTypes:   map[string]string{"*bufio.Reader": "bytes", "io.Reader": "bytes"},
			ErrorValues:  true,
			ExtVars:      map[string]string{"io.EOF": "go_io_EOF"},
		}
		var files []*ast.File
		for _, f := range g.files("imports") {
			files = append(files, f)
		}
		if len(g.errs) > 0 {
			return
		}
		res, err := go2coq.Translate(g.fset, files, "github.com/rogpeppe/go-internal/imports", cfg)
		if err != nil {
			g.fail("%s: %v", filepath.Join("imports", "read.go"), err)
			return
		}
		fmt.Fprintf(&g.buf, "(* imports/read.go translated by harness/go2coq (table: harness/cmd/genconsts/gen_imports_read_src.go).\n")
		fmt.Fprintf(&g.buf, "   Functions: %s.  Vocabulary: Lib/GoSem.v, Lib/GoSemExt.v, Lib/GoSemIO.v, Imports/ReadSrcLib.v. *)\n", strings.Join(res.Funcs, ", "))
		fmt.Fprintf(&g.buf, "From Coq Require Import Bool.\nFrom GI Require Import Lib.Bytes Lib.GoSem Lib.GoSemExt Lib.GoSemIO Imports.ReadSrcLib.\nImport GoNotations.\nLocal Open Scope go_scope.\n\n")
		g.buf.WriteString(res.Text)
	}
}

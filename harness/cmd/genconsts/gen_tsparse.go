package main

// Group TsParse (property C02): the literals of the testscript line tokenizer, of expand,
// of the env list handling — read from the AST of $VERIF_REPO/testscript — and the two
// standard-library byte sets the model of os.Expand / regexp.QuoteMeta depends on, read from
// the GOROOT the harness is built with.

import (
	"fmt"
	"go/ast"
	"go/build"
	"go/parser"
	"go/token"
	"os/exec"
	"path/filepath"
	"runtime"
	"strconv"
	"strings"
)

func init() {
	groups["TsParse"] = genTsParse
}

func tsCharLit(e ast.Expr) (byte, bool) {
	bl, ok := e.(*ast.BasicLit)
	if !ok || bl.Kind != token.CHAR {
		return 0, false
	}
	s, err := strconv.Unquote(bl.Value)
	if err != nil || len(s) != 1 {
		return 0, false
	}
	return s[0], true
}

// tsIsLineAt reports whether e is line[i] (plus==0) or line[i+1] (plus==1).
func tsIsLineAt(e ast.Expr, plus int) bool {
	ix, ok := e.(*ast.IndexExpr)
	if !ok {
		return false
	}
	if id, ok := ix.X.(*ast.Ident); !ok || id.Name != "line" {
		return false
	}
	if plus == 0 {
		id, ok := ix.Index.(*ast.Ident)
		return ok && id.Name == "i"
	}
	be, ok := ix.Index.(*ast.BinaryExpr)
	if !ok || be.Op != token.ADD {
		return false
	}
	id, ok1 := be.X.(*ast.Ident)
	lit, ok2 := be.Y.(*ast.BasicLit)
	return ok1 && ok2 && id.Name == "i" && lit.Value == strconv.Itoa(plus)
}

// tsCharsCompared collects, in source order, the character literals c of every
// `line[i+plus] == c` inside n.
func tsCharsCompared(n ast.Node, plus int) []byte {
	var out []byte
	ast.Inspect(n, func(x ast.Node) bool {
		be, ok := x.(*ast.BinaryExpr)
		if ok && be.Op == token.EQL && tsIsLineAt(be.X, plus) {
			if c, ok := tsCharLit(be.Y); ok {
				out = append(out, c)
			}
		}
		return true
	})
	return out
}

func (g *gen) emitByte(coqName, comment string, b byte) {
	fmt.Fprintf(&g.buf, "(* %s = %q *)\nDefinition %s : byte := x%02x.\n\n", comment, string(rune(b)), coqName, b)
}

// tsStringArg returns the string literal that is argument number arg of the first call of
// pkg.fn inside n.
func tsStringArg(g *gen, n ast.Node, pkg, fn string, arg int) (string, bool) {
	res, found := "", false
	ast.Inspect(n, func(x ast.Node) bool {
		if found {
			return false
		}
		ce, ok := x.(*ast.CallExpr)
		if !ok {
			return true
		}
		se, ok := ce.Fun.(*ast.SelectorExpr)
		if !ok || se.Sel.Name != fn {
			return true
		}
		if id, ok := se.X.(*ast.Ident); !ok || id.Name != pkg {
			return true
		}
		if arg < len(ce.Args) {
			if s, ok := g.str(ce.Args[arg]); ok {
				res, found = s, true
			}
		}
		return true
	})
	return res, found
}

func tsGoroot() string {
	if r := runtime.GOROOT(); r != "" {
		return r
	}
	if out, err := exec.Command("go", "env", "GOROOT").Output(); err == nil {
		return strings.TrimSpace(string(out))
	}
	return build.Default.GOROOT
}

func (g *gen) tsStdFunc(rel, fn string) *ast.FuncDecl {
	path := filepath.Join(tsGoroot(), "src", rel)
	f, err := parser.ParseFile(g.fset, path, nil, 0)
	if err != nil {
		g.fail("cannot parse %s: %v", path, err)
		return nil
	}
	for _, d := range f.Decls {
		if fd, ok := d.(*ast.FuncDecl); ok && fd.Recv == nil && fd.Name.Name == fn && fd.Body != nil {
			return fd
		}
	}
	g.fail("%s: function %s not found", path, fn)
	return nil
}

func genTsParse(g *gen) {
	const dir = "testscript"
	var shapeSeps, shapeComments string
	var shapeQuote byte
	defer func() {
		if len(g.errs) == 0 {
			emitParseShape(g, dir, shapeQuote, shapeComments, shapeSeps)
		}
	}()

	// ---- the tokenizer (*TestScript).parse
	if fd := g.funcDecl(dir, "TestScript.parse"); fd != nil {
		var loop *ast.ForStmt
		for _, s := range fd.Body.List {
			if f, ok := s.(*ast.ForStmt); ok {
				loop = f
			}
		}
		if loop == nil || len(loop.Body.List) < 3 {
			g.fail("%s: (*TestScript).parse no longer has the expected scanning loop", dir)
		} else {
			first, ok := loop.Body.List[0].(*ast.IfStmt)
			if !ok {
				g.fail("%s: parse: first statement of the loop is not the separator test", dir)
			} else {
				seps := tsCharsCompared(first.Cond, 0)
				var comments []byte
				for _, s := range first.Body.List {
					if is, ok := s.(*ast.IfStmt); ok && len(is.Body.List) == 1 {
						if br, ok := is.Body.List[0].(*ast.BranchStmt); ok && br.Tok == token.BREAK {
							comments = tsCharsCompared(is.Cond, 0)
						}
					}
				}
				if len(seps) == 0 || len(comments) == 0 {
					g.fail("%s: parse: separator / comment characters not found (seps %q comments %q)", dir, seps, comments)
				} else {
					g.emitBytesLit("ts_sep_bytes", "testscript parse: unquoted characters that end an argument", string(seps))
					g.emitBytesLit("ts_comment_bytes", "testscript parse: separators that end the line", string(comments))
					shapeSeps, shapeComments = string(seps), string(comments)
				}
			}
			foundQuote := false
			for _, s := range loop.Body.List[1:] {
				is, ok := s.(*ast.IfStmt)
				if !ok {
					continue
				}
				be, ok := is.Cond.(*ast.BinaryExpr)
				if !ok || be.Op != token.EQL || !tsIsLineAt(be.X, 0) {
					continue
				}
				q, ok := tsCharLit(be.Y)
				if !ok {
					continue
				}
				next := tsCharsCompared(is.Body, 1)
				if len(next) != 1 {
					g.fail("%s: parse: the doubled-quote look-ahead line[i+1] == c was not found", dir)
					continue
				}
				shapeQuote = q
				g.emitByte("ts_quote", "testscript parse: quote character", q)
				g.emitByte("ts_quote_next", "testscript parse: look-ahead character of a doubled quote", next[0])
				foundQuote = true
				break
			}
			if !foundQuote {
				g.fail("%s: parse: quote test `line[i] == c` not found", dir)
			}
		}
	}

	// ---- expand: the suffix that selects regexp.QuoteMeta
	if fd := g.funcDecl(dir, "TestScript.expand"); fd != nil {
		if s, ok := tsStringArg(g, fd.Body, "strings", "TrimSuffix", 1); ok {
			g.emitBytesLit("ts_regex_suffix", "testscript expand: strings.TrimSuffix(key, ...)", s)
		} else {
			g.fail("%s: expand: strings.TrimSuffix(key, <literal>) not found", dir)
		}
		for _, call := range []string{"QuoteMeta"} {
			found := false
			ast.Inspect(fd.Body, func(x ast.Node) bool {
				if se, ok := x.(*ast.SelectorExpr); ok && se.Sel.Name == call {
					if id, ok := se.X.(*ast.Ident); ok && id.Name == "regexp" {
						found = true
					}
				}
				return true
			})
			if !found {
				g.fail("%s: expand no longer calls regexp.%s", dir, call)
			}
		}
		usesExpand := false
		ast.Inspect(fd.Body, func(x ast.Node) bool {
			if se, ok := x.(*ast.SelectorExpr); ok && se.Sel.Name == "Expand" {
				if id, ok := se.X.(*ast.Ident); ok && id.Name == "os" {
					usesExpand = true
				}
			}
			return true
		})
		if !usesExpand {
			g.fail("%s: expand no longer calls os.Expand", dir)
		}
	}

	// ---- KEY=VALUE separator: Setenv, setup, cmdEnv must use the same one-byte separator
	sepOf := func(fn string) (string, bool) {
		fd := g.funcDecl(dir, fn)
		if fd == nil {
			return "", false
		}
		if s, ok := tsStringArg(g, fd.Body, "strings", "Index", 1); ok {
			return s, true
		}
		// key + "=" + value
		res, found := "", false
		ast.Inspect(fd.Body, func(x ast.Node) bool {
			be, ok := x.(*ast.BinaryExpr)
			if ok && be.Op == token.ADD && !found {
				if inner, ok := be.X.(*ast.BinaryExpr); ok && inner.Op == token.ADD {
					if s, ok := g.str(inner.Y); ok {
						res, found = s, true
					}
				}
			}
			return true
		})
		if !found {
			g.fail("%s: %s: KEY=VALUE separator literal not found", dir, fn)
		}
		return res, found
	}
	s1, ok1 := sepOf("TestScript.Setenv")
	// the map is filled by setEnv (called from setup) in newer trees, by setup itself in older ones
	mapFiller := "TestScript.setup"
	for _, f := range g.files(dir) {
		for _, d := range f.Decls {
			if fd, ok := d.(*ast.FuncDecl); ok && fd.Recv != nil && fd.Name.Name == "setEnv" {
				mapFiller = "TestScript.setEnv"
			}
		}
	}
	s2, ok2 := sepOf(mapFiller)
	s3, ok3 := sepOf("TestScript.cmdEnv")
	if ok1 && ok2 && ok3 {
		if len(s1) != 1 || s1 != s2 || s1 != s3 {
			g.fail("%s: Setenv/setup/cmdEnv use different or multi-byte KEY=VALUE separators: %q %q %q", dir, s1, s2, s3)
		} else {
			g.emitByte("ts_env_sep", "testscript Setenv / setup / cmdEnv: KEY=VALUE separator", s1[0])
		}
	}

	// ---- child environment: append(ts.env, "PWD="+ts.cd) in exec and execBackground
	var pwds []string
	for _, fn := range []string{"TestScript.exec", "TestScript.execBackground"} {
		fd := g.funcDecl(dir, fn)
		if fd == nil {
			continue
		}
		found := false
		ast.Inspect(fd.Body, func(x ast.Node) bool {
			ce, ok := x.(*ast.CallExpr)
			if !ok || found {
				return true
			}
			if id, ok := ce.Fun.(*ast.Ident); !ok || id.Name != "append" || len(ce.Args) != 2 {
				return true
			}
			if se, ok := ce.Args[0].(*ast.SelectorExpr); !ok || se.Sel.Name != "env" {
				return true
			}
			if be, ok := ce.Args[1].(*ast.BinaryExpr); ok && be.Op == token.ADD {
				if s, ok := g.str(be.X); ok {
					if se, ok := be.Y.(*ast.SelectorExpr); ok && se.Sel.Name == "cd" {
						pwds = append(pwds, s)
						found = true
					}
				}
			}
			return true
		})
		if !found {
			g.fail("%s: %s: cmd.Env = append(ts.env, <literal>+ts.cd) not found", dir, fn)
		}
	}
	if len(pwds) == 2 {
		if pwds[0] != pwds[1] {
			g.fail("%s: exec and execBackground add different entries: %q %q", dir, pwds[0], pwds[1])
		} else {
			g.emitBytesLit("ts_pwd_prefix", "testscript exec: entry appended to the child environment, followed by ts.cd", pwds[0])
		}
	}

	// ---- the name of the env command in scriptCmds
	if e := g.valueExpr(dir, "scriptCmds"); e != nil {
		name := ""
		if cl, ok := e.(*ast.CompositeLit); ok {
			for _, el := range cl.Elts {
				kv, ok := el.(*ast.KeyValueExpr)
				if !ok {
					continue
				}
				if se, ok := kv.Value.(*ast.SelectorExpr); ok && se.Sel.Name == "cmdEnv" {
					if s, ok := g.str(kv.Key); ok {
						name = s
					}
				}
			}
		}
		if name == "" {
			g.fail("%s: scriptCmds has no entry for cmdEnv", dir)
		} else {
			g.emitBytesLit("ts_env_cmd", "testscript scriptCmds: name of the command implemented by cmdEnv", name)
		}
	}

	// ---- standard library: os.isShellSpecialVar, regexp's special bytes (GOROOT of the harness)
	if fd := g.tsStdFunc("os/env.go", "isShellSpecialVar"); fd != nil {
		var cs []byte
		ast.Inspect(fd.Body, func(x ast.Node) bool {
			if cc, ok := x.(*ast.CaseClause); ok {
				for _, e := range cc.List {
					if c, ok := tsCharLit(e); ok {
						cs = append(cs, c)
					}
				}
			}
			return true
		})
		if len(cs) == 0 {
			g.fail("GOROOT os/env.go: isShellSpecialVar has no character cases")
		} else {
			g.emitBytesLit("shell_special_bytes", "GOROOT os.isShellSpecialVar", string(cs))
		}
	}
	if fd := g.tsStdFunc("regexp/regexp.go", "init"); fd != nil {
		s, found := "", false
		ast.Inspect(fd.Body, func(x ast.Node) bool {
			if rs, ok := x.(*ast.RangeStmt); ok && !found {
				if v, ok := g.str(rs.X); ok {
					s, found = v, true
				}
			}
			return true
		})
		if !found {
			g.fail("GOROOT regexp/regexp.go: init no longer ranges over the literal list of special bytes")
		} else {
			g.emitBytesLit("regexp_special_bytes", "GOROOT regexp: bytes escaped by QuoteMeta", s)
		}
	}
}

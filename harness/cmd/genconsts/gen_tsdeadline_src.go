package main

import (
	"fmt"
	"go/ast"
	"path/filepath"
	"strings"

	"verif/harness/go2coq"
)

const tsPkg = "github.com/rogpeppe/go-internal/testscript"

// Group TsDeadlineSrc (C17): the pure segments of testscript's deadline handling --
// testscript/testscript.go RunT (the declaration of ctx / gracePeriod / cancel, the test of
// Params.Deadline, the arithmetic on time.Until's value up to the context.WithTimeout call, the
// arguments of that call, the condition under which RunT itself removes the root and cancels,
// the &TestScript{...} literal that hands ctx and gracePeriod to the script), exec (the arguments
// of waitOrStop) and testscript/cmd.go cmdExec (the arguments of the background waitOrStop, the
// conditions and Fatalf decisions of its tail) -- translated to Gallina by harness/go2coq, written
// to Gen/TsDeadlineSrc.v.  TsDeadline/SrcFacts.v proves them equal to the hand-written model
// TsDeadline/TsDeadline.v.  This file holds only the table; the types are TsDeadline/SrcLib.v.
//
// Claims of the table, checked below on every run: the fields ctxt and gracePeriod of TestScript
// are assigned nowhere in the package (they are set by the literal in RunT only), so what exec
// reads is what RunT computed.

// fieldsAssigned: the assignments, in any file of dir, to a field with one of the given names.
func (g *gen) fieldsAssigned(dir string, names ...string) []string {
	var out []string
	for _, f := range g.files(dir) {
		ast.Inspect(f, func(n ast.Node) bool {
			var lhs []ast.Expr
			switch s := n.(type) {
			case *ast.AssignStmt:
				lhs = s.Lhs
			case *ast.IncDecStmt:
				lhs = []ast.Expr{s.X}
			case *ast.UnaryExpr:
				if s.Op.String() == "&" {
					lhs = []ast.Expr{s.X}
				}
			}
			for _, l := range lhs {
				for {
					switch x := l.(type) {
					case *ast.ParenExpr:
						l = x.X
						continue
					case *ast.IndexExpr:
						l = x.X
						continue
					}
					break
				}
				if sel, ok := l.(*ast.SelectorExpr); ok {
					for _, nm := range names {
						if sel.Sel.Name == nm {
							out = append(out, fmt.Sprintf("%s: .%s", g.fset.Position(sel.Pos()), nm))
						}
					}
				}
			}
			return true
		})
	}
	return out
}

func init() {
	outFile["TsDeadlineSrc"] = "TsDeadlineSrc.v"
	stubOnFailure["TsDeadlineSrc"] = true
	groups["TsDeadlineSrc"] = func(g *gen) {
		stubs := map[string]string{}
		for k, v := range goLibStubs {
			stubs[k] = v
		}
		stubs["time"] = `package time
type Time struct{}
type Duration int64
const (
	Nanosecond  Duration = 1
	Microsecond          = 1000 * Nanosecond
	Millisecond          = 1000 * Microsecond
	Second               = 1000 * Millisecond
	Minute               = 60 * Second
	Hour                 = 60 * Minute
)
func Until(t Time) Duration
func (t Time) IsZero() bool
`
		stubs["context"] = `package context
import "time"
type Context interface{ Err() error }
type CancelFunc func()
func Background() Context
func WithTimeout(parent Context, timeout time.Duration) (Context, CancelFunc)
`
		stubs["os"] = "package os\nfunc Remove(name string) error\n"
		stubs["flag"] = "package flag\nfunc Bool(name string, value bool, usage string) *bool\n"
		stubs["os/exec"] = "package exec\ntype Cmd struct{}\nfunc (c *Cmd) Start() error\n"
		lib := map[string]go2coq.LibFunc{}
		for k, v := range goLib {
			lib[k] = v
		}
		// TsDeadline/SrcLib.v
		lib["time.Until"] = go2coq.LibFunc{Oracle: true}
		lib["(time.Time).IsZero"] = go2coq.LibFunc{Coq: "go_time_IsZero"}
		lib["context.Background"] = go2coq.LibFunc{Coq: "go_ctx_Background"}
		lib["(context.Context).Err"] = go2coq.LibFunc{Oracle: true}
		lib[tsPkg+".waitOrStop"] = go2coq.LibFunc{Oracle: true}
		cfg := &go2coq.Config{
			Prefix:     "src_",
			Stubs:      stubs,
			Lib:        lib,
			Int64Arith: true,
			FailMsgs:   true,
			InputVars:  []string{"testWork"},
			NoReturn:   []string{"TestScript.Fatalf"},
			Structs: map[string]go2coq.Struct{
				tsPkg + ".Params": {CoqType: "ts_params", Ctor: "Build_ts_params", Partial: true,
					Fields: []go2coq.Field{{Go: "TestWork", Getter: "p_TestWork"}, {Go: "Deadline", Getter: "p_Deadline"}}},
				tsPkg + ".TestScript": {CoqType: "ts_drecv", Ctor: "Build_ts_drecv", Partial: true,
					Fields: []go2coq.Field{{Go: "ctxt", Getter: "d_ctxt"}, {Go: "gracePeriod", Getter: "d_gracePeriod"}}},
				"os/exec.Cmd": {CoqType: "go_cmd", Ctor: "Build_go_cmd", Partial: true},
			},
			Types: map[string]go2coq.LibType{
				"time.Time":          {Coq: "go_time"},
				"context.Context":    {Coq: "go_ctx"},
				"context.CancelFunc": {Coq: "go_cancel", Zero: "go_cancel_nil"},
			},
			Segments: []go2coq.Segment{
				{Func: "RunT", Name: "init", From: "var:ctx", Through: "var:ctx"},
				{Func: "RunT", Name: "has_deadline", Cond: "time.Until"},
				{Func: "RunT", Name: "deadline", In: "time.Until", Before: "context.WithTimeout"},
				{Func: "RunT", Name: "ctx_args", Args: "context.WithTimeout"},
				{Func: "RunT", Name: "no_scripts", Cond: "os.Remove"},
				{Func: "RunT", Name: "script", From: "var:ts", Through: "var:ts"},
				{Func: "TestScript.exec", Name: "wait_args", Args: tsPkg + ".waitOrStop"},
				{Func: "TestScript.cmdExec", Name: "bg_wait_args", Args: tsPkg + ".waitOrStop"},
				{Func: "TestScript.cmdExec", Name: "success", Cond: "(*" + tsPkg + ".TestScript).Fatalf#3"},
				{Func: "TestScript.cmdExec", Name: "failed", Cond: "(context.Context).Err"},
				{Func: "TestScript.cmdExec", Name: "failure", From: "(context.Context).Err"},
			},
		}
		var files []*ast.File
		for _, f := range g.files("testscript") {
			files = append(files, f)
		}
		if len(g.errs) > 0 {
			return
		}
		for _, a := range g.fieldsAssigned("testscript", "ctxt", "gracePeriod") {
			g.fail("the field is assigned (or its address taken) outside the literal of RunT: %s", a)
		}
		if len(g.errs) > 0 {
			return
		}
		res, err := go2coq.Translate(g.fset, files, tsPkg, cfg)
		if err != nil {
			g.fail("%s: %v", filepath.Join("testscript", "testscript.go"), err)
			return
		}
		fmt.Fprintf(&g.buf, "(* testscript/testscript.go and cmd.go, the pure segments of the deadline handling (RunT, exec, cmdExec), translated by\n   harness/go2coq (table: harness/cmd/genconsts/gen_tsdeadline_src.go).\n")
		fmt.Fprintf(&g.buf, "   Definitions: %s.  Vocabulary: Lib/GoSem.v, Lib/GoSemSeg.v, Lib/GoSemState.v, Lib/GoSemInt64.v, Lib/GoSemFail.v, TsDeadline/SrcLib.v. *)\n", strings.Join(res.Funcs, ", "))
		fmt.Fprintf(&g.buf, "From Coq Require Import Bool.\nFrom GI Require Import Lib.Bytes Lib.GoSem Lib.GoSemSeg Lib.GoSemState Lib.GoSemInt64 Lib.GoSemFail TsDeadline.SrcLib.\nImport GoNotations.\nLocal Open Scope go_scope.\n\n")
		g.buf.WriteString(res.Text)
	}
}

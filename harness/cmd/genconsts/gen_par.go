package main

// Group "Par": structure facts of par/work.go that the C09/C10 models rely on.
//
//	work_do_min_n           from `if n < LIT { panic(...) }` at the top of Work.Do
//	work_do_spawned n       the bound of the loop in Work.Do whose body is `go w.runner()`
//	work_do_inline_runners  number of direct `w.runner()` calls in Work.Do outside that loop
//	work_running_is_n       Work.Do assigns `w.running = n`
//	work_add_signals_when_waiting   Work.Add has exactly one wait.Signal(), guarded by exactly `if w.waiting > 0`
//	                        inside the branch that queues a new item (one Signal per queued item)
//	cache_do_deferred       number of defer statements in Cache.Do (0: when f does not return, nothing unlocks the entry)
//	cache_done_value        LIT in atomic.StoreUint32(&e.done, LIT)           (Cache.Do)
//	cache_done_test         LIT in atomic.LoadUint32(&e.done) == LIT          (Cache.Do x2, Cache.Get x1)

import (
	"fmt"
	"go/ast"
	"go/token"
	"strconv"
)

func init() {
	groups["Par"] = func(g *gen) {
		do := g.funcDecl("par", "Work.Do")
		if do == nil || do.Body == nil {
			return
		}
		if do.Type.Params == nil || len(do.Type.Params.List) < 1 || len(do.Type.Params.List[0].Names) != 1 {
			g.fail("par: Work.Do has no single first parameter any more")
			return
		}
		nName := do.Type.Params.List[0].Names[0].Name
		recv := ""
		if len(do.Recv.List[0].Names) == 1 {
			recv = do.Recv.List[0].Names[0].Name
		}
		isRunnerCall := func(e ast.Expr) bool {
			c, ok := e.(*ast.CallExpr)
			if !ok || len(c.Args) != 0 {
				return false
			}
			s, ok := c.Fun.(*ast.SelectorExpr)
			if !ok || s.Sel.Name != "runner" {
				return false
			}
			x, ok := s.X.(*ast.Ident)
			return ok && x.Name == recv
		}
		minN, spawned, inline, runningIsN := "", "", 0, false
		for _, st := range do.Body.List {
			switch st := st.(type) {
			case *ast.IfStmt:
				// if n < LIT { panic(...) }
				if be, ok := st.Cond.(*ast.BinaryExpr); ok && be.Op == token.LSS {
					if x, ok := be.X.(*ast.Ident); ok && x.Name == nName {
						if lit, ok := be.Y.(*ast.BasicLit); ok && lit.Kind == token.INT && len(st.Body.List) == 1 {
							if es, ok := st.Body.List[0].(*ast.ExprStmt); ok {
								if c, ok := es.X.(*ast.CallExpr); ok {
									if f, ok := c.Fun.(*ast.Ident); ok && f.Name == "panic" {
										minN = lit.Value
									}
								}
							}
						}
					}
				}
			case *ast.AssignStmt:
				if len(st.Lhs) == 1 && len(st.Rhs) == 1 && st.Tok == token.ASSIGN {
					if s, ok := st.Lhs[0].(*ast.SelectorExpr); ok && s.Sel.Name == "running" {
						if r, ok := st.Rhs[0].(*ast.Ident); ok && r.Name == nName {
							runningIsN = true
						}
					}
				}
			case *ast.RangeStmt: // for range <expr> { go w.runner() }
				if st.Key == nil && st.Value == nil && len(st.Body.List) == 1 {
					if gs, ok := st.Body.List[0].(*ast.GoStmt); ok && isRunnerCall(gs.Call) {
						if s, ok := coqNatExpr(st.X, nName); ok {
							spawned = s
						}
					}
				}
			case *ast.ForStmt: // for i := 0; i < <expr>; i++ { go w.runner() }
				if st.Body != nil && len(st.Body.List) == 1 {
					if gs, ok := st.Body.List[0].(*ast.GoStmt); ok && isRunnerCall(gs.Call) {
						if init, ok := st.Init.(*ast.AssignStmt); ok && len(init.Rhs) == 1 {
							if z, ok := init.Rhs[0].(*ast.BasicLit); ok && z.Value == "0" {
								if c, ok := st.Cond.(*ast.BinaryExpr); ok && c.Op == token.LSS {
									if s, ok := coqNatExpr(c.Y, nName); ok {
										spawned = s
									}
								}
							}
						}
					}
				}
			case *ast.ExprStmt:
				if isRunnerCall(st.X) {
					inline++
				}
			}
		}
		// the model's n is Do's argument: it must not be changed on the way (e.g. capped after w.running = n)
		ast.Inspect(do.Body, func(nd ast.Node) bool {
			switch x := nd.(type) {
			case *ast.AssignStmt:
				for _, l := range x.Lhs {
					if id, ok := l.(*ast.Ident); ok && id.Name == nName && x.Tok != token.DEFINE {
						g.fail("par: Work.Do assigns to its parameter %s (the number of runners started must be the %s that %s.running is set to)", nName, nName, recv)
					}
				}
			case *ast.IncDecStmt:
				if id, ok := x.X.(*ast.Ident); ok && id.Name == nName {
					g.fail("par: Work.Do changes its parameter %s", nName)
				}
			}
			return true
		})
		if minN == "" {
			g.fail("par: Work.Do no longer starts with `if %s < LIT { panic(...) }`", nName)
		}
		if spawned == "" {
			g.fail("par: Work.Do has no loop of the form `for range <expr over %s> { go %s.runner() }`", nName, recv)
		}
		if !runningIsN {
			g.fail("par: Work.Do no longer assigns %s.running = %s", recv, nName)
		}
		if len(g.errs) > 0 {
			return
		}
		fmt.Fprintf(&g.buf, "(* par.Work.Do: `if %s < %s { panic }` *)\nDefinition work_do_min_n : nat := %s.\n\n", nName, minN, minN)
		fmt.Fprintf(&g.buf, "(* par.Work.Do: number of `go %s.runner()` statements executed (loop bound), as a function of %s *)\nDefinition work_do_spawned (n : nat) : nat := %s.\n\n", recv, nName, spawned)
		fmt.Fprintf(&g.buf, "(* par.Work.Do: direct calls of %s.runner() on Do's own goroutine *)\nDefinition work_do_inline_runners : nat := %d.\n\n", recv, inline)
		fmt.Fprintf(&g.buf, "(* par.Work.Do: %s.running = %s *)\nDefinition work_running_is_n : bool := true.\n\n", recv, nName)

		// ---- Work.Add: one Signal per newly queued item while somebody is waiting
		if add := g.funcDecl("par", "Work.Add"); add == nil || add.Body == nil {
			g.fail("par: Work.Add not found")
		} else {
			arecv := ""
			if len(add.Recv.List[0].Names) == 1 {
				arecv = add.Recv.List[0].Names[0].Name
			}
			isSignal := func(st ast.Stmt) bool {
				es, ok := st.(*ast.ExprStmt)
				if !ok {
					return false
				}
				c, ok := es.X.(*ast.CallExpr)
				if !ok {
					return false
				}
				s, ok := c.Fun.(*ast.SelectorExpr)
				return ok && s.Sel.Name == "Signal"
			}
			signals, guarded := 0, 0
			ast.Inspect(add.Body, func(nd ast.Node) bool {
				switch x := nd.(type) {
				case *ast.ExprStmt:
					if isSignal(x) {
						signals++
					}
				case *ast.IfStmt:
					// if w.waiting > 0 { w.wait.Signal() }
					if x.Init == nil && x.Else == nil && len(x.Body.List) == 1 && isSignal(x.Body.List[0]) {
						if be, ok := x.Cond.(*ast.BinaryExpr); ok && be.Op == token.GTR {
							if s, ok := be.X.(*ast.SelectorExpr); ok && s.Sel.Name == "waiting" {
								if id, ok := s.X.(*ast.Ident); ok && id.Name == arecv {
									if lit, ok := be.Y.(*ast.BasicLit); ok && lit.Value == "0" {
										guarded++
									}
								}
							}
						}
					}
				}
				return true
			})
			if signals != 1 || guarded != 1 {
				g.fail("par: Work.Add no longer has exactly one `if %s.waiting > 0 { %s.wait.Signal() }` (Signal calls: %d, of that form: %d): the wake-up of one waiting runner per queued item is what C09_wakeup_per_item rests on", arecv, arecv, signals, guarded)
			} else {
				fmt.Fprintf(&g.buf, "(* par.Work.Add: `if %s.waiting > 0 { %s.wait.Signal() }` for every newly queued item, and no other Signal *)\nDefinition work_add_signals_when_waiting : bool := true.\n\n", arecv, arecv)
			}
		}

		// ---- Cache
		if cdo := g.funcDecl("par", "Cache.Do"); cdo != nil && cdo.Body != nil {
			defers := 0
			ast.Inspect(cdo.Body, func(nd ast.Node) bool {
				if _, ok := nd.(*ast.DeferStmt); ok {
					defers++
				}
				return true
			})
			fmt.Fprintf(&g.buf, "(* par.Cache.Do: number of defer statements (with none, an f that panics or calls runtime.Goexit leaves e.mu locked and e.done unset) *)\nDefinition cache_do_deferred : nat := %d.\n\n", defers)
		} else {
			g.fail("par: Cache.Do not found")
		}
		var stores, tests []string
		collect := func(name string) {
			fd := g.funcDecl("par", name)
			if fd == nil || fd.Body == nil {
				return
			}
			ast.Inspect(fd.Body, func(n ast.Node) bool {
				switch n := n.(type) {
				case *ast.CallExpr:
					if isAtomic(n, "StoreUint32") && len(n.Args) == 2 && isDoneAddr(n.Args[0]) {
						if lit, ok := n.Args[1].(*ast.BasicLit); ok && lit.Kind == token.INT {
							stores = append(stores, lit.Value)
						} else {
							stores = append(stores, "?")
						}
					}
				case *ast.BinaryExpr:
					if c, ok := n.X.(*ast.CallExpr); ok && isAtomic(c, "LoadUint32") && len(c.Args) == 1 && isDoneAddr(c.Args[0]) {
						if lit, ok := n.Y.(*ast.BasicLit); ok && lit.Kind == token.INT && n.Op == token.EQL {
							tests = append(tests, lit.Value)
						} else {
							tests = append(tests, "?")
						}
					}
				}
				return true
			})
		}
		collect("Cache.Do")
		nDo := len(tests)
		collect("Cache.Get")
		if len(stores) != 1 || stores[0] == "?" {
			g.fail("par: Cache.Do no longer has exactly one atomic.StoreUint32(&e.done, LIT) (found %v)", stores)
		}
		if nDo != 2 || len(tests) != 3 {
			g.fail("par: expected `atomic.LoadUint32(&e.done) == LIT` twice in Cache.Do and once in Cache.Get (found %d and %d)", nDo, len(tests)-nDo)
		}
		for _, t := range tests {
			if t == "?" || t != tests[0] {
				g.fail("par: the tests of e.done are not all `== %s` (found %v)", tests[0], tests)
				break
			}
		}
		if len(g.errs) > 0 {
			return
		}
		sv, _ := strconv.Atoi(stores[0])
		tv, _ := strconv.Atoi(tests[0])
		fmt.Fprintf(&g.buf, "(* par.Cache.Do: atomic.StoreUint32(&e.done, %d) *)\nDefinition cache_done_value : nat := %d.\n\n", sv, sv)
		fmt.Fprintf(&g.buf, "(* par.Cache.Do/Get: atomic.LoadUint32(&e.done) == %d means \"not computed yet\" *)\nDefinition cache_done_test : nat := %d.\n\n", tv, tv)
	}
}

func isAtomic(c *ast.CallExpr, name string) bool {
	s, ok := c.Fun.(*ast.SelectorExpr)
	if !ok || s.Sel.Name != name {
		return false
	}
	x, ok := s.X.(*ast.Ident)
	return ok && x.Name == "atomic"
}

func isDoneAddr(e ast.Expr) bool {
	u, ok := e.(*ast.UnaryExpr)
	if !ok || u.Op != token.AND {
		return false
	}
	s, ok := u.X.(*ast.SelectorExpr)
	return ok && s.Sel.Name == "done"
}

// coqNatExpr translates an int expression over the variable v (+, -, *, literals) to Gallina nat.
func coqNatExpr(e ast.Expr, v string) (string, bool) {
	switch e := e.(type) {
	case *ast.Ident:
		if e.Name == v {
			return "n", true
		}
	case *ast.BasicLit:
		if e.Kind == token.INT {
			if _, err := strconv.Atoi(e.Value); err == nil {
				return e.Value, true
			}
		}
	case *ast.ParenExpr:
		s, ok := coqNatExpr(e.X, v)
		return "(" + s + ")", ok
	case *ast.BinaryExpr:
		if e.Op == token.ADD || e.Op == token.SUB || e.Op == token.MUL {
			a, ok1 := coqNatExpr(e.X, v)
			b, ok2 := coqNatExpr(e.Y, v)
			return "(" + a + " " + e.Op.String() + " " + b + ")", ok1 && ok2
		}
	}
	return "", false
}

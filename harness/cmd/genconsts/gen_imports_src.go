package main

import (
	"fmt"
	"go/ast"
	"path/filepath"
	"strings"

	"verif/harness/go2coq"
)

// Group ImportsSrc: imports/build.go translated to Gallina by harness/go2coq, written to
// Gen/ImportsSrc.v.  Imports/SrcFacts.v proves every generated function equal to the
// hand-written model Imports/Build.v, so a change of build.go that changes the generated
// text re-opens those proofs.  This file holds only the table: which functions, which
// library calls and package-level variables, and their Coq denotations (Lib/GoSem.v,
// Lib/GoSemExt.v, Lib/GoSemUnicode.v, Imports/SrcLib.v).

func init() {
	outFile["ImportsSrc"] = "ImportsSrc.v"
	stubOnFailure["ImportsSrc"] = true
	groups["ImportsSrc"] = func(g *gen) {
		stubs := map[string]string{}
		for k, v := range goLibStubs {
			stubs[k] = v
		}
		stubs["strings"] = goLibStubs["strings"] + "func Fields(s string) []string\nfunc Split(s, sep string) []string\n"
		stubs["unicode"] = "package unicode\nfunc IsLetter(r rune) bool\nfunc IsDigit(r rune) bool\n"
		lib := map[string]go2coq.LibFunc{}
		for k, v := range goLib {
			lib[k] = v
		}
		// Imports/SrcLib.v: strings.Fields is the model's [fields] (proved against a rune-level
		// reading in Imports/SpaceFacts.v), strings.Split its [split_on] (one-byte separators)
		lib["strings.Fields"] = go2coq.LibFunc{Coq: "go_strings_Fields"}
		lib["strings.Split"] = go2coq.LibFunc{Coq: "go_strings_Split", Monadic: true}
		// Lib/GoSemUnicode.v: membership in the regenerated range tables
		lib["unicode.IsLetter"] = go2coq.LibFunc{Coq: "go_unicode_IsLetter"}
		lib["unicode.IsDigit"] = go2coq.LibFunc{Coq: "go_unicode_IsDigit"}
		cfg := &go2coq.Config{
			Prefix: "src_",
			Funcs:  []string{"matchTag", "matchTags", "ShouldBuild", "MatchFile"},
			Stubs:  stubs,
			Lib:    lib,
			// KnownOS / KnownArch are maps filled by init() (or written as map literals): their
			// key lists are regenerated into Gen/ImportsConsts.v by the group Imports, which reads
			// exactly those two shapes and fails on any other; a lookup is membership in the list.
			// The maps are exported: that no other package writes them is assumed.
			Vars: map[string]string{"KnownOS": "(known known_os)", "KnownArch": "(known known_arch)"},
		}
		var files []*ast.File
		for _, f := range g.files("imports") {
			files = append(files, f)
		}
		if len(g.errs) > 0 {
			return
		}
		res, err := go2coq.Translate(g.fset, files, "github.com/rogpeppe/go-internal/imports", cfg)
		if err != nil {
			g.fail("%s: %v", filepath.Join("imports", "build.go"), err)
			return
		}
		fmt.Fprintf(&g.buf, "(* imports/build.go translated by harness/go2coq (table: harness/cmd/genconsts/gen_imports_src.go).\n")
		fmt.Fprintf(&g.buf, "   Functions: %s.  Vocabulary: Lib/GoSem.v, Lib/GoSemExt.v, Lib/GoSemUnicode.v, Imports/SrcLib.v. *)\n", strings.Join(res.Funcs, ", "))
		fmt.Fprintf(&g.buf, "From Coq Require Import Bool.\nFrom GI Require Import Lib.Bytes Lib.GoSem Lib.GoSemExt Lib.GoSemUnicode Gen.ImportsConsts Imports.Build Imports.SrcLib.\nImport GoNotations.\nLocal Open Scope go_scope.\n\n")
		g.buf.WriteString(res.Text)
	}
}

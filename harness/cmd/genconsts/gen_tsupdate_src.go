package main

import (
	"fmt"
	"go/ast"
	"path/filepath"
	"strings"

	"verif/harness/go2coq"
)

const txtarPkg = "github.com/rogpeppe/go-internal/txtar"

// Group TsUpdateSrc (C16): the pure segments of UpdateScripts -- testscript/testscript.go
// applyScriptUpdates (the body of the inner loop after f := &ts.archive.Files[i]: the name test,
// txtar.NeedsQuote / txtar.Quote / Fatalf, f.Data = data, found = true; the arguments of
// os.WriteFile) and testscript/cmd.go doCmdCmp (from eq := text1 == text2 to the call of diff.Diff:
// the ! cases and the recording of an update in ts.scriptUpdates under the scriptFiles entry of
// filepath.Clean(absName2)) -- translated to Gallina by harness/go2coq, written to
// Gen/TsUpdateSrc.v.  TsRun/SrcFactsUpdate.v proves them equal to the hand-written model
// (TsRun/TsUpdate.v, the tail of TsCmds.cmd_cmp) and composes the two loops of
// applyScriptUpdates around the translated body, the map iterated in an arbitrary order.  This
// file holds only the table; receiver and library denotations are TsRun/SrcLibUpdate.v.
// Claims of the table: f (a pointer to an element of ts.archive.Files) and ts are not nil; the
// permission argument of os.WriteFile is read as an int constant (the stub declares it so).
func init() {
	outFile["TsUpdateSrc"] = "TsUpdateSrc.v"
	stubOnFailure["TsUpdateSrc"] = true
	groups["TsUpdateSrc"] = func(g *gen) {
		stubs := map[string]string{}
		for k, v := range goLibStubs {
			stubs[k] = v
		}
		stubs[txtarPkg] = "package txtar\ntype Archive struct {\n\tComment []byte\n\tFiles []File\n}\ntype File struct {\n\tName string\n\tData []byte\n}\n" +
			"func NeedsQuote(data []byte) bool\nfunc Quote(data []byte) ([]byte, error)\nfunc Format(a *Archive) []byte\n"
		stubs["path/filepath"] = "package filepath\nfunc Clean(path string) string\n"
		stubs["os"] = "package os\nfunc WriteFile(name string, data []byte, perm int) error\nfunc ReadFile(name string) ([]byte, error)\n"
		lib := map[string]go2coq.LibFunc{}
		for k, v := range goLib {
			lib[k] = v
		}
		lib[txtarPkg+".NeedsQuote"] = go2coq.LibFunc{Coq: "go_txtar_NeedsQuote"}
		lib[txtarPkg+".Quote"] = go2coq.LibFunc{Coq: "go_txtar_Quote"}
		lib[txtarPkg+".Format"] = go2coq.LibFunc{Coq: "go_txtar_Format"}
		lib["path/filepath.Clean"] = go2coq.LibFunc{Coq: "go_filepath_Clean"}
		cfg := &go2coq.Config{
			Prefix:   "src_",
			Stubs:    stubs,
			Lib:      lib,
			FailMsgs: true,
			NoReturn: []string{"TestScript.Fatalf"},
			RefMaps:  []string{"map[string]string"},
			Structs: map[string]go2coq.Struct{
				txtarPkg + ".Archive": {CoqType: "archive", Ctor: "Build_archive",
					Fields: []go2coq.Field{{Go: "Comment", Getter: "comment"}, {Go: "Files", Getter: "files"}}},
				txtarPkg + ".File": {CoqType: "(bytes * bytes)%type", Ctor: "pair",
					Fields: []go2coq.Field{{Go: "Name", Getter: "fst"}, {Go: "Data", Getter: "snd"}}},
				tsPkg + ".TestScript": {CoqType: "ts_urecv", Ctor: "Build_ts_urecv", Partial: true,
					Fields: []go2coq.Field{{Go: "params", Getter: "u_params"}, {Go: "file", Getter: "u_file"}, {Go: "archive", Getter: "u_archive"}, {Go: "scriptFiles", Getter: "u_scriptFiles"}, {Go: "scriptUpdates", Getter: "u_scriptUpdates"}}},
				tsPkg + ".Params": {CoqType: "bool", Ctor: "id", Partial: true,
					Fields: []go2coq.Field{{Go: "UpdateScripts", Getter: "id"}}},
			},
			Segments: []go2coq.Segment{
				{Func: "TestScript.applyScriptUpdates", Name: "entry", After: "var:f", State: []string{"f"}},
				{Func: "TestScript.applyScriptUpdates", Name: "write_args", Args: "os.WriteFile"},
				{Func: "TestScript.doCmdCmp", Name: "verdict", From: "var:eq", Before: "github.com/rogpeppe/go-internal/diff.Diff", State: []string{"ts"}},
			},
		}
		var files []*ast.File
		for _, f := range g.files("testscript") {
			files = append(files, f)
		}
		if len(g.errs) > 0 {
			return
		}
		res, err := go2coq.Translate(g.fset, files, tsPkg, cfg)
		if err != nil {
			g.fail("%s: %v", filepath.Join("testscript", "testscript.go"), err)
			return
		}
		fmt.Fprintf(&g.buf, "(* testscript/testscript.go and cmd.go, the pure segments of UpdateScripts, translated by harness/go2coq\n   (table: harness/cmd/genconsts/gen_tsupdate_src.go).\n")
		fmt.Fprintf(&g.buf, "   Definitions: %s.  Vocabulary: Lib/GoSem.v, Lib/GoSemState.v, Lib/GoSemFail.v, TsRun/SrcLibUpdate.v. *)\n", strings.Join(res.Funcs, ", "))
		fmt.Fprintf(&g.buf, "From Coq Require Import Bool.\nFrom GI Require Import Lib.Bytes Lib.GoSem Lib.GoSemExt Lib.GoSemSeg Lib.GoSemState Lib.GoSemFail TsRun.SrcLibUpdate.\nImport GoNotations.\nLocal Open Scope go_scope.\n\n")
		g.buf.WriteString(res.Text)
	}
}

package main

import (
	"fmt"
	"go/ast"
	"go/token"
	"strconv"
	"strings"
	"unicode"
)

// Imports group: constants of /repo/imports/build.go used by the C18/C19 models.
//
//	known_os / known_arch : the keys of the KnownOS / KnownArch maps.  The maps are
//	    either filled by init() from strings.Fields(goosList / goarchList) (this
//	    repository) or written as map literals (upstream Go); both shapes are read.
//	slashslash             : the package-level []byte("//")
//	star/ignore/linux/android : the string literals of matchTag, in source order
//	plus_build             : the literal compared with f[0] in ShouldBuild
//	dot/underscore/test_word  : the literals of MatchFile
func init() {
	groups["Imports"] = func(g *gen) {
		const dir = "imports"
		g.emitKnown("known_os", dir, "KnownOS", "goosList")
		g.emitKnown("known_arch", dir, "KnownArch", "goarchList")
		g.emitBytes("slashslash", dir, "slashslash")

		mt := g.funcLits(dir, "matchTag")
		// expected: tags["*"], name != "", name != "ignore", name == "linux", tags["android"]
		if len(mt) == 5 && mt[1] == "" {
			g.emitBytesLit("star", "imports.matchTag literal 1", mt[0])
			g.emitBytesLit("ignore", "imports.matchTag literal 3", mt[2])
			g.emitBytesLit("linux", "imports.matchTag literal 4", mt[3])
			g.emitBytesLit("android", "imports.matchTag literal 5", mt[4])
		} else {
			g.fail("imports.matchTag: expected the string literals \"*\", \"\", \"ignore\", \"linux\", \"android\"; found %q", mt)
		}

		sb := g.funcLits(dir, "ShouldBuild")
		if len(sb) == 1 {
			g.emitBytesLit("plus_build", "imports.ShouldBuild literal compared with f[0]", sb[0])
		} else {
			g.fail("imports.ShouldBuild: expected exactly one string literal (\"+build\"); found %q", sb)
		}

		mf := g.funcLits(dir, "MatchFile")
		// expected: tags["*"], Index(name, "."), Index(name, "_"), Split(name, "_"), l[n-1] == "test"
		if len(mf) == 5 && mf[0] == mt0(mt) && mf[2] == mf[3] {
			g.emitBytesLit("dot", "imports.MatchFile literal 2", mf[1])
			g.emitBytesLit("underscore", "imports.MatchFile literal 3/4", mf[2])
			g.emitBytesLit("test_word", "imports.MatchFile literal 5", mf[4])
		} else {
			g.fail("imports.MatchFile: expected the string literals \"*\", \".\", \"_\", \"_\", \"test\"; found %q", mf)
		}

		// matchTag accepts unicode.IsLetter / unicode.IsDigit runes: the model knows the ASCII ones by
		// range and the others through this table, taken from the toolchain's unicode tables (the ones
		// /repo is compiled with) for U+0080..U+024F (Latin-1 Supplement, Latin Extended-A/B).
		var extra []string
		for r := rune(0x80); r <= 0x24f; r++ {
			if unicode.IsLetter(r) || unicode.IsDigit(r) {
				extra = append(extra, string(r))
			}
		}
		g.emitBytesList("extra_tag_runes", "UTF-8 encodings of the letters and digits of U+0080..U+024F (unicode.IsLetter || unicode.IsDigit)", extra)
		fmt.Fprintf(&g.buf, "(* the first code point above the table *)\nDefinition extra_tag_limit : N := %d%%N.\n\n", 0x250)

		// scan.go: ScanDir's name filter and scanFiles' special import / suffix
		sd := g.funcLits(dir, "ScanDir")
		if len(sd) == 2 {
			g.emitBytesLit("skip_prefix", "imports.ScanDir: names with this prefix are skipped", sd[0])
			g.emitBytesLit("go_suffix", "imports.ScanDir: only names with this suffix are scanned", sd[1])
		} else {
			g.fail("imports.ScanDir: expected the string literals \"_\", \".go\"; found %q", sd)
		}
		sf := g.funcLits(dir, "scanFiles")
		// expected: "reading %s: %v", `"C"`, "cgo", "*", "_test.go"
		if len(sf) == 5 && sf[3] == mt0(mt) {
			g.emitBytesLit("quoted_c", "imports.scanFiles: the import literal that needs the cgo tag", sf[1])
			g.emitBytesLit("cgo_tag", "imports.scanFiles: the tag that admits it", sf[2])
			g.emitBytesLit("test_go_suffix", "imports.scanFiles: files whose imports are test imports", sf[4])
		} else {
			g.fail("imports.scanFiles: expected the string literals \"reading %%s: %%v\", `\"C\"`, \"cgo\", \"*\", \"_test.go\"; found %q", sf)
		}
	}
}

func mt0(x []string) string {
	if len(x) > 0 {
		return x[0]
	}
	return "*"
}

// funcLits returns the string literals (unquoted) of a function body in source order.
func (g *gen) funcLits(dir, fn string) []string {
	fd := g.funcDecl(dir, fn)
	if fd == nil || fd.Body == nil {
		return nil
	}
	var out []string
	ast.Inspect(fd.Body, func(n ast.Node) bool {
		if bl, ok := n.(*ast.BasicLit); ok && bl.Kind == token.STRING {
			if s, err := strconv.Unquote(bl.Value); err == nil {
				out = append(out, s)
			}
		}
		return true
	})
	return out
}

// emitKnown emits the key list of a package-level map[string]bool.
func (g *gen) emitKnown(coqName, dir, mapName, listConst string) {
	// shape 1 (upstream): var KnownOS = map[string]bool{"aix": true, ...}
	for _, f := range g.files(dir) {
		for _, d := range f.Decls {
			gd, ok := d.(*ast.GenDecl)
			if !ok || gd.Tok != token.VAR {
				continue
			}
			for _, s := range gd.Specs {
				vs := s.(*ast.ValueSpec)
				for i, id := range vs.Names {
					if id.Name != mapName || i >= len(vs.Values) {
						continue
					}
					if cl, ok := vs.Values[i].(*ast.CompositeLit); ok {
						var keys []string
						for _, el := range cl.Elts {
							kv, ok := el.(*ast.KeyValueExpr)
							if !ok {
								g.fail("%s.%s: unexpected map literal element", dir, mapName)
								return
							}
							k, ok1 := g.str(kv.Key)
							v, ok2 := kv.Value.(*ast.Ident)
							if !ok1 || !ok2 {
								g.fail("%s.%s: map literal entry is not \"key\": true/false", dir, mapName)
								return
							}
							if v.Name == "true" {
								keys = append(keys, k)
							}
						}
						g.emitBytesList(coqName, dir+"."+mapName+" (map literal keys)", keys)
						return
					}
				}
			}
		}
	}
	// shape 2 (this repository): init() { for _, v := range strings.Fields(<listConst>) { <mapName>[v] = true } }
	found := false
	for _, f := range g.files(dir) {
		for _, d := range f.Decls {
			fd, ok := d.(*ast.FuncDecl)
			if !ok || fd.Name.Name != "init" || fd.Recv != nil || fd.Body == nil {
				continue
			}
			ast.Inspect(fd.Body, func(n ast.Node) bool {
				rs, ok := n.(*ast.RangeStmt)
				if !ok {
					return true
				}
				call, ok := rs.X.(*ast.CallExpr)
				if !ok || len(call.Args) != 1 {
					return true
				}
				sel, ok := call.Fun.(*ast.SelectorExpr)
				arg, ok2 := call.Args[0].(*ast.Ident)
				if !ok || !ok2 || sel.Sel.Name != "Fields" || arg.Name != listConst {
					return true
				}
				if len(rs.Body.List) != 1 {
					return true
				}
				as, ok := rs.Body.List[0].(*ast.AssignStmt)
				if !ok || len(as.Lhs) != 1 || len(as.Rhs) != 1 {
					return true
				}
				ix, ok := as.Lhs[0].(*ast.IndexExpr)
				if !ok {
					return true
				}
				m, ok := ix.X.(*ast.Ident)
				v, ok2 := as.Rhs[0].(*ast.Ident)
				if ok && ok2 && m.Name == mapName && v.Name == "true" {
					found = true
				}
				return true
			})
		}
	}
	if !found {
		g.fail("%s: neither a map literal for %s nor an init() loop `for _, v := range strings.Fields(%s) { %s[v] = true }`", dir, mapName, listConst, mapName)
		return
	}
	e := g.valueExpr(dir, listConst)
	if e == nil {
		return
	}
	s, ok := g.str(e)
	if !ok {
		g.fail("%s.%s is not a string literal any more", dir, listConst)
		return
	}
	g.emitBytesList(coqName, dir+"."+mapName+" = strings.Fields("+listConst+")", strings.Fields(s))
}

package main

import (
	"fmt"
	"os"
	"strings"

	"verif/harness/go2coq"
)

// Group CacheWorldSrc: the EFFECTFUL skeleton of cache/cache.go translated to Gallina by
// harness/go2coq in WORLD MODE (go2coq/world.go, world_data.go, world_values.go), written to
// Gen/CacheWorldSrc.v: whole functions, not segments --
//
//	(*Cache).fileName, used, OutputFile, get, Get, GetFile, GetBytes, putIndexEntry
//
// Every operating-system call (os.Stat, os.Open, os.OpenFile, os.ReadFile, os.Remove, os.Chtimes,
// (*os.File).Read / Write / WriteString / Truncate / Close) is an UNINTERPRETED operation of the
// record Cache/SrcWorld.os_ops on an abstract world, the two clocks (c.now, time.Now) are queries
// of that world, sha256 is the function parameter H (the hand-written model's Section variable):
// the generated functions are state-passing functions over any behaviour of the operating system.
// Cache/SrcWorldFacts.v proves each of them equal, for every world and every interpretation of the
// operations, to running the hand-written program term of Cache/Cache.v (used_prog, get_prog,
// get_file_prog, get_bytes_prog, put_index_prog ...) with the interpreter SrcWorld.run_prog over
// the same operations.  A change of the source that reorders, drops or adds a call changes the
// generated term and re-opens those proofs.  This file holds only the table.
//
// What the table claims beyond the translator's own checks (Cache/SrcWorld.v states each
// denotation next to its definition): io.ReadFull(f, buf) is the documented loop of f.Read calls
// (SrcWorld.io_read_full); f.WriteString(s) is f.Write([]byte(s)); hex.Decode, strconv.ParseInt,
// fmt.Sprintf, filepath.Join, time.Unix / Sub are the functions of Cache/SrcLib.v (which
// Cache/SrcFacts.v and the cache runner validate); errors.New / fmt.Errorf make an error value
// determined by their arguments; FileInfo.Size / ModTime are functions of the FileInfo; reading a
// clock does not change the world; the package variables verify and errVerifyMode are not assigned
// while the functions run (they are the parameters flag_verify and werr_VerifyMode); reverseHash
// (used only for the text of the verify-mode panic) is an uninterpreted function; the library
// functions handed a slice of a local array or buffer do not keep it.
const cacheWorldPkg = "github.com/rogpeppe/go-internal/cache"

func init() {
	outFile["CacheWorldSrc"] = "CacheWorldSrc.v"
	stubOnFailure["CacheWorldSrc"] = true
	groups["CacheWorldSrc"] = func(g *gen) {
		files := g.files("cache")
		if len(g.errs) > 0 {
			return
		}
		stubs := map[string]string{
			"bytes":         "package bytes\nimport \"io\"\ntype Buffer struct{ _ int }\ntype Reader struct{ _ int }\nfunc NewReader(b []byte) *Reader\nfunc (r *Reader) Read(p []byte) (n int, err error)\nfunc (r *Reader) Seek(offset int64, whence int) (int64, error)\nfunc Equal(a, b []byte) bool\nfunc (b *Buffer) Write(p []byte) (n int, err error)\nfunc (b *Buffer) Read(p []byte) (n int, err error)\nvar _ io.Reader\n",
			"crypto/sha256": "package sha256\nimport \"hash\"\nconst Size = 32\nfunc New() hash.Hash\nfunc Sum256(data []byte) [Size]byte\n",
			"hash":          "package hash\nimport \"io\"\ntype Hash interface {\n io.Writer\n Sum(b []byte) []byte\n Reset()\n Size() int\n BlockSize() int\n}\n",
			"encoding/hex":  "package hex\nfunc Decode(dst, src []byte) (int, error)\n",
			"errors":        "package errors\nfunc New(text string) error\n",
			"fmt":           "package fmt\nimport \"io\"\nfunc Sprintf(format string, a ...any) string\nfunc Errorf(format string, a ...any) error\nfunc Fprintf(w io.Writer, format string, a ...any) (n int, err error)\n",
			"strconv":       "package strconv\nfunc ParseInt(s string, base int, bitSize int) (i int64, err error)\n",
			"strings":       "package strings\nfunc Split(s, sep string) []string\nfunc HasSuffix(s, suffix string) bool\nfunc TrimSpace(s string) string\n",
			"sync":          "package sync\ntype Mutex struct{ _ int }\nfunc (m *Mutex) Lock()\nfunc (m *Mutex) Unlock()\ntype Once struct{ _ int }\nfunc (o *Once) Do(f func())\n",
			"runtime":       "package runtime\nfunc Version() string\nconst GOOS = \"linux\"\n",
			"time":          cacheSrcStubs["time"],
			"io": "package io\ntype Reader interface{ Read(p []byte) (n int, err error) }\ntype Writer interface{ Write(p []byte) (n int, err error) }\n" +
				"type Seeker interface{ Seek(offset int64, whence int) (int64, error) }\ntype ReadSeeker interface {\n Reader\n Seeker\n}\n" +
				"var EOF error\nvar ErrUnexpectedEOF error\nfunc ReadFull(r Reader, buf []byte) (n int, err error)\nfunc Copy(dst Writer, src Reader) (written int64, err error)\n" +
				"func CopyN(dst Writer, src Reader, n int64) (written int64, err error)\nfunc MultiWriter(writers ...Writer) Writer\n",
			"io/fs": cacheSrcStubs["io/fs"],
			"os": fmt.Sprintf("package os\nimport (\"io/fs\"; \"time\")\ntype File struct{ _ int }\ntype FileInfo = fs.FileInfo\ntype FileMode = fs.FileMode\n"+
				"const (\n O_RDONLY int = %d\n O_WRONLY int = %d\n O_RDWR int = %d\n O_APPEND int = %d\n O_CREATE int = %d\n O_EXCL int = %d\n O_TRUNC int = %d\n)\n"+
				"func Open(name string) (*File, error)\nfunc OpenFile(name string, flag int, perm FileMode) (*File, error)\nfunc Stat(name string) (FileInfo, error)\n"+
				"func Chtimes(name string, atime time.Time, mtime time.Time) error\nfunc Remove(name string) error\nfunc MkdirAll(path string, perm FileMode) error\n"+
				"func ReadFile(name string) ([]byte, error)\nfunc Getenv(key string) string\nfunc UserCacheDir() (string, error)\nfunc WriteFile(name string, data []byte, perm FileMode) error\n"+
				"func (f *File) Close() error\nfunc (f *File) Read(b []byte) (n int, err error)\nfunc (f *File) Write(b []byte) (n int, err error)\n"+
				"func (f *File) WriteString(s string) (n int, err error)\nfunc (f *File) Truncate(size int64) error\nfunc (f *File) Readdirnames(n int) (names []string, err error)\nfunc (f *File) Stat() (FileInfo, error)\n",
				os.O_RDONLY, os.O_WRONLY, os.O_RDWR, os.O_APPEND, os.O_CREATE, os.O_EXCL, os.O_TRUNC),
			"path/filepath":    "package filepath\nfunc Join(elem ...string) string\nfunc IsAbs(path string) bool\n",
			cachePkgLockedfile: cacheSrcStubs[cachePkgLockedfile],
		}
		cfg := &go2coq.WorldConfig{
			Stubs: stubs,
			Lib: map[string]go2coq.WLib{
				// Cache/SrcLib.v through Cache/SrcWorld.v
				"fmt.Sprintf":                  {Coq: "go_fmt_Sprintf_w", Kind: go2coq.WMonadic, AnyArgs: true},
				"fmt.Errorf":                   {Coq: "go_fmt_Errorf_w", Kind: go2coq.WPure, AnyArgs: true},
				"errors.New":                   {Coq: "go_errors_New", Kind: go2coq.WPure},
				"path/filepath.Join":           {Coq: "go_filepath_Join", Kind: go2coq.WMonadic},
				"encoding/hex.Decode":          {Coq: "go_hex_Decode_w", Kind: go2coq.WMonadic, Out: []int{1}},
				"strconv.ParseInt":             {Coq: "go_strconv_ParseInt_w", Kind: go2coq.WMonadic},
				"time.Unix":                    {Coq: "go_time_Unix", Kind: go2coq.WPure},
				"(time.Time).Sub":              {Coq: "go_time_Sub", Kind: go2coq.WPure},
				"(time.Time).UnixNano":         {Coq: "go_time_UnixNano", Kind: go2coq.WPure},
				"crypto/sha256.Sum256":         {Coq: "H", Kind: go2coq.WPure},
				"(io/fs.FileInfo).Size":        {Coq: "(fi_size OS)", Kind: go2coq.WPure},
				"(io/fs.FileInfo).ModTime":     {Coq: "(fi_modtime OS)", Kind: go2coq.WPure},
				cacheWorldPkg + ".reverseHash": {Coq: "reverse_hash", Kind: go2coq.WPure},
				// the clocks: queries of the world
				cacheWorldPkg + ".Cache.now": {Coq: "(op_now OS)", Kind: go2coq.WWorldRO},
				"time.Now":                   {Coq: "(op_time_now OS)", Kind: go2coq.WWorldRO},
				// the operating system
				"os.Stat":                {Coq: "(op_stat OS)", Kind: go2coq.WWorld},
				"os.Open":                {Coq: "(op_open OS)", Kind: go2coq.WWorld},
				"os.OpenFile":            {Coq: "(op_open_file OS)", Kind: go2coq.WWorld},
				"os.ReadFile":            {Coq: "(op_read_file OS)", Kind: go2coq.WWorld, Fresh: true},
				"os.Remove":              {Coq: "(op_remove OS)", Kind: go2coq.WWorld},
				"os.Chtimes":             {Coq: "(op_chtimes OS)", Kind: go2coq.WWorld},
				"(*os.File).Close":       {Coq: "(op_close OS)", Kind: go2coq.WWorld},
				"(*os.File).Write":       {Coq: "(op_write OS)", Kind: go2coq.WWorld},
				"(*os.File).WriteString": {Coq: "(op_write OS)", Kind: go2coq.WWorld},
				"(*os.File).Truncate":    {Coq: "(op_truncate OS)", Kind: go2coq.WWorld},
				"io.ReadFull":            {Coq: "(io_read_full OS)", Kind: go2coq.WWorld, Out: []int{2}},
			},
			Types: map[string]go2coq.WType{
				"*os.File":       {Coq: "(Handle OS)", Zero: "(nil_handle OS)"},
				"io/fs.FileInfo": {Coq: "(FileInfo OS)", Zero: "(nil_fileinfo OS)"},
				"time.Time":      {Coq: "go_time", Zero: "go_time_zero"},
			},
			ExtVars:    map[string]string{"io.EOF": "werr_EOF", "io.ErrUnexpectedEOF": "werr_ErrUnexpectedEOF"},
			ErrStructs: map[string][]string{cacheWorldPkg + ".entryNotFoundError": {"Err"}},
			PkgVars:    map[string]string{cacheWorldPkg + ".verify": "flag_verify", cacheWorldPkg + ".errVerifyMode": "werr_VerifyMode"},
			WorldType:  "(World OS)",
			WorldVar:   "w",
		}
		pkgs := []go2coq.WorldPkg{
			{Path: cacheWorldPkg, Prefix: "cw_", Files: files, Funcs: []string{"Cache.fileName", "Cache.used", "Cache.OutputFile", "Cache.get", "Cache.Get",
				"Cache.GetFile", "Cache.GetBytes", "Cache.putIndexEntry"}},
		}
		res, err := go2coq.TranslateWorld(g.fset, pkgs, cfg)
		if err != nil {
			g.fail("cache: %v", err)
			return
		}
		fmt.Fprintf(&g.buf, "(* cache/cache.go, the effectful skeleton of the cache, translated by harness/go2coq in world mode\n   (table: harness/cmd/genconsts/gen_cacheworld_src.go).\n")
		fmt.Fprintf(&g.buf, "   Functions: %s.\n   Vocabulary: Lib/GoSem.v, Lib/GoSemSeg.v, Lib/GoSemWorld.v, Lib/GoSemWorldVal.v, Cache/SrcLib.v, Cache/SrcWorld.v (the record of operations OS). *)\n", strings.Join(res.Funcs, ", "))
		fmt.Fprintf(&g.buf, "From Coq Require Import Bool.\nFrom GI Require Import Lib.Bytes Lib.GoSem Lib.GoSemSeg Lib.GoSemWorld Lib.GoSemWorldVal Cache.SrcLib Cache.SrcWorld.\nImport GoNotations.\nLocal Open Scope go_scope.\n\n")
		fmt.Fprintf(&g.buf, "(* the values of os.O_RDONLY, os.O_WRONLY, os.O_RDWR, os.O_CREATE, os.O_TRUNC the constant flag expressions were evaluated with *)\n")
		fmt.Fprintf(&g.buf, "Definition cw_O_RDONLY : Z := %d%%Z.\nDefinition cw_O_WRONLY : Z := %d%%Z.\nDefinition cw_O_RDWR : Z := %d%%Z.\nDefinition cw_O_CREATE : Z := %d%%Z.\nDefinition cw_O_TRUNC : Z := %d%%Z.\n\n",
			os.O_RDONLY, os.O_WRONLY, os.O_RDWR, os.O_CREATE, os.O_TRUNC)
		fmt.Fprintf(&g.buf, "Section Src.\nVariable OS : os_ops.\n(* sha256.Sum256 *)\nVariable H : bytes -> bytes.\n(* the package variables verify (GODEBUG=gocacheverify=1) and errVerifyMode; reverseHash *)\nVariable flag_verify : bool.\nVariable reverse_hash : bytes -> bytes.\n\n")
		g.buf.WriteString(res.Text)
		fmt.Fprintf(&g.buf, "End Src.\n")
	}
}

package main

import (
	"fmt"
	"go/ast"
	"path/filepath"
	"strings"

	"verif/harness/go2coq"
)

// Group TxtarWriteSrc: the pure part of txtar.Write (txtar/archive.go) translated to Gallina
// by harness/go2coq, written to Gen/TxtarWriteSrc.v: the function isAbs, and the statements
// of the loop body of Write in front of its first file-system call (os.MkdirAll) -- the
// computation of the cleaned name, the outside-directory guard and the joined path.
// TxtarWrite/SrcFacts.v proves them equal to the first lines of the model's write_one.  This
// file holds only the table; the denotations are TxtarWrite/SrcLib.v (the path functions of
// the model, for Unix).
func init() {
	outFile["TxtarWriteSrc"] = "TxtarWriteSrc.v"
	stubOnFailure["TxtarWriteSrc"] = true
	groups["TxtarWriteSrc"] = func(g *gen) {
		stubs := map[string]string{}
		for k, v := range goLibStubs {
			stubs[k] = v
		}
		// Unix: the separator is '/'
		stubs["path/filepath"] = "package filepath\nconst Separator = '/'\nfunc Clean(path string) string\nfunc FromSlash(path string) string\nfunc Join(elem ...string) string\nfunc IsAbs(path string) bool\n"
		xt, err := xtoolsTypes("Archive", "File")
		if err != nil {
			g.fail("x/tools: %v", err)
			return
		}
		stubs["golang.org/x/tools/txtar"] = "package txtar\n" + xt + "func Format(a *Archive) []byte\nfunc Parse(data []byte) *Archive\n"
		lib := map[string]go2coq.LibFunc{}
		for k, v := range goLib {
			lib[k] = v
		}
		lib["path/filepath.Clean"] = go2coq.LibFunc{Coq: "go_filepath_Clean"}
		lib["path/filepath.FromSlash"] = go2coq.LibFunc{Coq: "go_filepath_FromSlash"}
		lib["path/filepath.Join"] = go2coq.LibFunc{Coq: "go_filepath_Join", Monadic: true}
		lib["path/filepath.IsAbs"] = go2coq.LibFunc{Coq: "go_filepath_IsAbs"}
		cfg := &go2coq.Config{
			Prefix:   "src_",
			Funcs:    []string{"isAbs"},
			Prefixes: []go2coq.Prefix{{Func: "Write", Before: "os.MkdirAll"}},
			Stubs:    stubs,
			Lib:      lib,
			Structs: map[string]go2coq.Struct{
				"golang.org/x/tools/txtar.Archive": {CoqType: "archive", Ctor: "Build_archive",
					Fields: []go2coq.Field{{Go: "Comment", Getter: "comment"}, {Go: "Files", Getter: "files"}}},
				"golang.org/x/tools/txtar.File": {CoqType: "(bytes * bytes)%type", Ctor: "pair",
					Fields: []go2coq.Field{{Go: "Name", Getter: "fst"}, {Go: "Data", Getter: "snd"}}},
			},
		}
		var files []*ast.File
		for _, f := range g.files("txtar") {
			files = append(files, f)
		}
		if len(g.errs) > 0 {
			return
		}
		res, err := go2coq.Translate(g.fset, files, "github.com/rogpeppe/go-internal/txtar", cfg)
		if err != nil {
			g.fail("%s: %v", filepath.Join("txtar", "archive.go"), err)
			return
		}
		fmt.Fprintf(&g.buf, "(* txtar/archive.go, the pure part of Write, translated by harness/go2coq (table: harness/cmd/genconsts/gen_txtarwrite_src.go).\n")
		fmt.Fprintf(&g.buf, "   Definitions: %s.  Vocabulary: Lib/GoSem.v, TxtarWrite/SrcLib.v; struct types: Txtar/Txtar.v. *)\n", strings.Join(res.Funcs, ", "))
		fmt.Fprintf(&g.buf, "From Coq Require Import Bool.\nFrom GI Require Import Lib.Bytes Lib.GoSem Txtar.Txtar TxtarWrite.SrcLib.\nImport GoNotations.\nLocal Open Scope go_scope.\n\n")
		g.buf.WriteString(res.Text)
	}
}

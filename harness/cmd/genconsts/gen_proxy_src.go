package main

import (
	"fmt"
	"go/ast"
	"path/filepath"
	"strings"

	"verif/harness/go2coq"
)

// Group ProxySrc: goproxytest translated to Gallina by harness/go2coq, written to Gen/ProxySrc.v.
// allhex.go (allHex) and pseudo.go (isPseudoVersion) are translated whole.  proxy.go is a server:
// it reads a directory, answers HTTP requests and keeps two par.Caches; what is translated are the
// pure SEGMENTS between those effects (go2coq.Segment, segstate.go):
//
//	readModList   the body of the loop over the directory entries: from (name, isDir) and the
//	              server (whose modList it appends to) to continue / return err / the new server
//	handler       "route": everything from r.URL.Path to the call of readArchive -- prefix and
//	              "/@v/" split, module.UnescapePath, the list endpoint (filter over modList,
//	              module.Check, one line per version, 404 when none), the extension split,
//	              module.UnescapeVersion, the commit-hash resolution loop (allHex, semver.Compare,
//	              the pseudo-version suffix, findHash as an oracle carried by the server value, the
//	              two HasPrefix tests and hash != ""); the http.ResponseWriter is state;
//	              "serve": everything after the call of readArchive -- a == nil, the switch on the
//	              extension, the .info/.mod selection over a.Files, the zip response from the value
//	              of zipCache.Do (an oracle parameter), the final 404;
//	              "zipskip" / "zipname": inside the function literal handed to zipCache.Do, the
//	              member filter and the argument of z.Create
//	readArchive   "names": the escape calls and the three candidate file names;
//	              "arpath": the name computed in the WalkDir callback
//	findHash      "info": from the archive to the data of its .info entry
//
// Proxy/SrcFacts.v and Proxy/SrcSegFacts.v prove the generated definitions equal to the model of
// Proxy/Proxy.v; Proxy/SrcGlue.v is the hand-written glue between the segments.  This file holds
// only the table; the denotations are Proxy/SrcLib.v (each DEFINED from a function the model
// already uses for the same call).
const proxyPkg = "github.com/rogpeppe/go-internal/goproxytest"

var proxySrcStubs = map[string]string{
	"io/fs":   "package fs\ntype DirEntry interface {\n\tName() string\n\tIsDir() bool\n}\ntype WalkDirFunc func(path string, d DirEntry, err error) error\n",
	"os":      "package os\nimport \"io/fs\"\ntype DirEntry = fs.DirEntry\nconst PathSeparator = '/'\nfunc ReadDir(name string) ([]DirEntry, error)\nfunc ReadFile(name string) ([]byte, error)\nfunc IsNotExist(err error) bool\n",
	"io":      "package io\ntype Writer interface {\n\tWrite(p []byte) (n int, err error)\n}\n",
	"net/url": "package url\ntype URL struct {\n\tPath string\n}\n",
	"net/http": "package http\nimport \"net/url\"\ntype ResponseWriter interface {\n\tWrite([]byte) (int, error)\n}\ntype Request struct {\n\tURL *url.URL\n}\n" +
		"func NotFound(w ResponseWriter, r *Request)\nfunc Error(w ResponseWriter, error string, code int)\n",
	"golang.org/x/tools/txtar":            "package txtar\ntype Archive struct {\n\tComment []byte\n\tFiles []File\n}\ntype File struct {\n\tName string\n\tData []byte\n}\nfunc ParseFile(file string) (*Archive, error)\n",
	"github.com/rogpeppe/go-internal/par": "package par\ntype Cache struct{}\nfunc (c *Cache) Do(key any, f func() any) any\n",
	"archive/zip":                         "package zip\nimport \"io\"\ntype Writer struct{}\nfunc NewWriter(w io.Writer) *Writer\nfunc (w *Writer) Create(name string) (io.Writer, error)\nfunc (w *Writer) Close() error\n",
	"path/filepath":                       "package filepath\nimport \"io/fs\"\nfunc Join(elem ...string) string\nfunc ToSlash(path string) string\nfunc WalkDir(root string, fn fs.WalkDirFunc) error\n",
	"encoding/json":                       "package json\nfunc Unmarshal(data []byte, v any) error\n",
	"golang.org/x/mod/module": "package module\ntype Version struct {\n\tPath string\n\tVersion string\n}\n" +
		"func UnescapePath(escaped string) (path string, err error)\nfunc UnescapeVersion(escaped string) (v string, err error)\n" +
		"func EscapePath(path string) (escaped string, err error)\nfunc EscapeVersion(v string) (escaped string, err error)\nfunc Check(path, version string) error\n",
}

func init() {
	outFile["ProxySrc"] = "ProxySrc.v"
	stubOnFailure["ProxySrc"] = true
	groups["ProxySrc"] = func(g *gen) {
		stubs := map[string]string{}
		for k, v := range goLibStubs {
			stubs[k] = v
		}
		stubs["strings"] = goLibStubs["strings"] + "func Count(s, substr string) int\nfunc TrimSuffix(s, suffix string) string\nfunc LastIndex(s, substr string) int\nfunc ReplaceAll(s, old, new string) string\n"
		for k, v := range proxySrcStubs {
			stubs[k] = v
		}
		stubs["fmt"] = "package fmt\nimport \"io\"\nfunc Errorf(format string, a ...any) error\nfunc Fprintf(w io.Writer, format string, a ...any) (n int, err error)\n"
		stubs["regexp"] = "package regexp\ntype Regexp struct{}\nfunc MustCompile(str string) *Regexp\nfunc (re *Regexp) MatchString(s string) bool\n"
		stubs["golang.org/x/mod/semver"] = "package semver\nfunc IsValid(v string) bool\nfunc Compare(v, w string) int\n"
		lib := map[string]go2coq.LibFunc{}
		for k, v := range goLib {
			lib[k] = v
		}
		// Proxy/SrcLib.v: each call is DEFINED as the function the model already uses for it
		lib["strings.Count"] = go2coq.LibFunc{Coq: "go_strings_Count", Monadic: true}
		lib["golang.org/x/mod/semver.IsValid"] = go2coq.LibFunc{Coq: "go_semver_IsValid"}
		lib["(*regexp.Regexp).MatchString"] = go2coq.LibFunc{Coq: "go_regexp_MatchString"}
		// proxy.go: the group's own string functions (Proxy/Proxy.v) instead of Lib/GoSem.v's
		lib["strings.HasPrefix"] = go2coq.LibFunc{Coq: "go_strings_HasPrefix"}
		lib["strings.HasSuffix"] = go2coq.LibFunc{Coq: "go_strings_HasSuffix"}
		lib["strings.TrimPrefix"] = go2coq.LibFunc{Coq: "go_strings_TrimPrefix"}
		lib["strings.Index"] = go2coq.LibFunc{Coq: "go_strings_Index"}
		lib["strings.TrimSuffix"] = go2coq.LibFunc{Coq: "go_strings_TrimSuffix"}
		lib["strings.LastIndex"] = go2coq.LibFunc{Coq: "go_strings_LastIndex"}
		lib["strings.ReplaceAll"] = go2coq.LibFunc{Coq: "go_strings_ReplaceAll", Monadic: true}
		lib["golang.org/x/mod/module.UnescapePath"] = go2coq.LibFunc{Coq: "go_module_UnescapePath"}
		lib["golang.org/x/mod/module.UnescapeVersion"] = go2coq.LibFunc{Coq: "go_module_UnescapeVersion"}
		lib["golang.org/x/mod/module.EscapePath"] = go2coq.LibFunc{Coq: "go_module_EscapePath"}
		lib["golang.org/x/mod/module.EscapeVersion"] = go2coq.LibFunc{Coq: "go_module_EscapeVersion"}
		lib["golang.org/x/mod/module.Check"] = go2coq.LibFunc{Coq: "go_module_Check"}
		lib["golang.org/x/mod/semver.Compare"] = go2coq.LibFunc{Coq: "go_semver_Compare"}
		lib["(io/fs.DirEntry).Name"] = go2coq.LibFunc{Coq: "go_direntry_Name"}
		lib["(io/fs.DirEntry).IsDir"] = go2coq.LibFunc{Coq: "go_direntry_IsDir"}
		lib["net/http.NotFound"] = go2coq.LibFunc{Coq: "go_http_NotFound", Mutates: true}
		lib["net/http.Error"] = go2coq.LibFunc{Coq: "go_http_Error", Mutates: true}
		lib["(net/http.ResponseWriter).Write"] = go2coq.LibFunc{Coq: "go_http_Write", Mutates: true}
		lib["fmt.Fprintf"] = go2coq.LibFunc{Coq: "go_fmt_Fprintf", Mutates: true, Monadic: true}
		lib["error.Error"] = go2coq.LibFunc{Coq: "go_error_Error"}
		lib[proxyPkg+".Server.logf"] = go2coq.LibFunc{Discard: true}
		lib["(*"+proxyPkg+".Server).findHash"] = go2coq.LibFunc{Coq: "srv_findHash"}
		lib["(*"+proxyPkg+".Server).readArchive"] = go2coq.LibFunc{Oracle: true}
		lib["(*github.com/rogpeppe/go-internal/par.Cache).Do"] = go2coq.LibFunc{Oracle: true}
		lib["path/filepath.Join"] = go2coq.LibFunc{Coq: "go_filepath_Join", Monadic: true}
		lib["path/filepath.ToSlash"] = go2coq.LibFunc{Coq: "go_filepath_ToSlash"}
		readArchive := "(*" + proxyPkg + ".Server).readArchive"
		cacheDo := "(*github.com/rogpeppe/go-internal/par.Cache).Do"
		zipCreate := "(*archive/zip.Writer).Create"
		cfg := &go2coq.Config{
			Prefix: "src_",
			Funcs:  []string{"allHex", "isPseudoVersion"},
			Stubs:  stubs,
			Lib:    lib,
			Structs: map[string]go2coq.Struct{
				proxyPkg + ".Server": {CoqType: "go_server", Ctor: "mkServer", Partial: true, Owned: []string{"modList"},
					Fields: []go2coq.Field{{Go: "dir", Getter: "srv_dir"}, {Go: "modList", Getter: "srv_modList"}, {Go: "archiveCache", Getter: "srv_archives"}}},
				"net/http.Request": {CoqType: "go_request", Ctor: "mkRequest", Fields: []go2coq.Field{{Go: "URL", Getter: "req_URL"}}},
				"net/url.URL":      {CoqType: "go_url", Ctor: "mkURL", Fields: []go2coq.Field{{Go: "Path", Getter: "url_Path"}}},
				"golang.org/x/tools/txtar.Archive": {CoqType: "go_archive", Ctor: "mkArchive",
					Fields: []go2coq.Field{{Go: "Comment", Getter: "ar_comment"}, {Go: "Files", Getter: "ar_files"}}},
				"golang.org/x/tools/txtar.File": {CoqType: "(bytes * bytes)%type", Ctor: "pair",
					Fields: []go2coq.Field{{Go: "Name", Getter: "fst"}, {Go: "Data", Getter: "snd"}}},
				proxyPkg + ".cached": {CoqType: "(bytes * bool)%type", Ctor: "pair",
					Fields: []go2coq.Field{{Go: "zip", Getter: "fst"}, {Go: "err", Getter: "snd"}}},
				"golang.org/x/mod/module.Version": {CoqType: "(bytes * bytes)%type", Ctor: "pair",
					Fields: []go2coq.Field{{Go: "Path", Getter: "fst"}, {Go: "Version", Getter: "snd"}}},
			},
			Types: map[string]go2coq.LibType{
				"io/fs.DirEntry": {Coq: "go_direntry"},
			},
			Opaque:   map[string]go2coq.Opaque{"net/http.ResponseWriter": {CoqType: "go_response"}},
			Nullable: []string{"*golang.org/x/tools/txtar.Archive"},
			Segments: []go2coq.Segment{
				{Func: "Server.readModList", Name: "entry", In: "(io/fs.DirEntry).Name", State: []string{"srv"}},
				{Func: "Server.handler", Name: "route", Before: readArchive, State: []string{"w"}},
				{Func: "Server.handler", Name: "serve", After: readArchive, State: []string{"w"}},
				{Func: "Server.handler", Name: "zipskip", In: zipCreate, Before: zipCreate},
				{Func: "Server.handler", Name: "zipname", Args: zipCreate},
				{Func: "Server.readArchive", Name: "names", Before: cacheDo},
				{Func: "Server.readArchive", Name: "arpath", From: "path/filepath.ToSlash", Through: "path/filepath.ToSlash"},
				{Func: "Server.findHash", Name: "info", After: readArchive, Before: "var:info"},
			},
			// pseudoVersionRE = regexp.MustCompile(<literal>): the group Proxy translates the
			// literal's regexp/syntax parse tree into the term pseudo_version_re of
			// Gen/ProxyConsts.v on every run (and fails if the initialiser is anything else)
			Vars: map[string]string{"pseudoVersionRE": "pseudo_version_re"},
		}
		var files []*ast.File
		for _, f := range g.files("goproxytest") {
			files = append(files, f)
		}
		if len(g.errs) > 0 {
			return
		}
		res, err := go2coq.Translate(g.fset, files, "github.com/rogpeppe/go-internal/goproxytest", cfg)
		if err != nil {
			g.fail("%s: %v", filepath.Join("goproxytest", "allhex.go, pseudo.go, proxy.go"), err)
			return
		}
		fmt.Fprintf(&g.buf, "(* goproxytest/allhex.go and pseudo.go, and the pure segments of proxy.go (readModList, handler, readArchive,\n   findHash), translated by harness/go2coq (table: harness/cmd/genconsts/gen_proxy_src.go).\n")
		fmt.Fprintf(&g.buf, "   Definitions: %s.\n   Vocabulary: Lib/GoSem.v, Lib/GoSemExt.v, Lib/GoSemData.v, Lib/GoSemHandler.v, Proxy/SrcLib.v. *)\n", strings.Join(res.Funcs, ", "))
		fmt.Fprintf(&g.buf, "From Coq Require Import Bool.\nFrom GI Require Import Lib.Bytes Lib.GoSem Lib.GoSemExt Lib.GoSemData Lib.GoSemHandler Gen.ProxyConsts Proxy.SrcLib.\nImport GoNotations.\nLocal Open Scope go_scope.\n\n")
		g.buf.WriteString(res.Text)
	}
}

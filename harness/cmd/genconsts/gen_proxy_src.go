package main

import (
	"fmt"
	"go/ast"
	"path/filepath"
	"strings"

	"verif/harness/go2coq"
)

// Group ProxySrc: the pure decision functions of goproxytest (allhex.go: allHex; pseudo.go:
// isPseudoVersion) translated to Gallina by harness/go2coq, written to Gen/ProxySrc.v.
// Proxy/SrcFacts.v proves the generated functions equal to the model's allhex / is_pseudo.
// This file holds only the table; the denotations are Proxy/SrcLib.v.
func init() {
	outFile["ProxySrc"] = "ProxySrc.v"
	stubOnFailure["ProxySrc"] = true
	groups["ProxySrc"] = func(g *gen) {
		stubs := map[string]string{}
		for k, v := range goLibStubs {
			stubs[k] = v
		}
		stubs["strings"] = goLibStubs["strings"] + "func Count(s, substr string) int\n"
		stubs["regexp"] = "package regexp\ntype Regexp struct{}\nfunc MustCompile(str string) *Regexp\nfunc (re *Regexp) MatchString(s string) bool\n"
		stubs["golang.org/x/mod/semver"] = "package semver\nfunc IsValid(v string) bool\n"
		lib := map[string]go2coq.LibFunc{}
		for k, v := range goLib {
			lib[k] = v
		}
		// Proxy/SrcLib.v: each call is DEFINED as the function the model already uses for it
		lib["strings.Count"] = go2coq.LibFunc{Coq: "go_strings_Count", Monadic: true}
		lib["golang.org/x/mod/semver.IsValid"] = go2coq.LibFunc{Coq: "go_semver_IsValid"}
		lib["(*regexp.Regexp).MatchString"] = go2coq.LibFunc{Coq: "go_regexp_MatchString"}
		cfg := &go2coq.Config{
			Prefix: "src_",
			Funcs:  []string{"allHex", "isPseudoVersion"},
			Stubs:  stubs,
			Lib:    lib,
			// pseudoVersionRE = regexp.MustCompile(<literal>): the group Proxy translates the
			// literal's regexp/syntax parse tree into the term pseudo_version_re of
			// Gen/ProxyConsts.v on every run (and fails if the initialiser is anything else)
			Vars: map[string]string{"pseudoVersionRE": "pseudo_version_re"},
		}
		var files []*ast.File
		for _, f := range g.files("goproxytest") {
			files = append(files, f)
		}
		if len(g.errs) > 0 {
			return
		}
		res, err := go2coq.Translate(g.fset, files, "github.com/rogpeppe/go-internal/goproxytest", cfg)
		if err != nil {
			g.fail("%s: %v", filepath.Join("goproxytest", "allhex.go, pseudo.go"), err)
			return
		}
		fmt.Fprintf(&g.buf, "(* goproxytest/allhex.go and pseudo.go translated by harness/go2coq (table: harness/cmd/genconsts/gen_proxy_src.go).\n")
		fmt.Fprintf(&g.buf, "   Functions: %s.  Vocabulary: Lib/GoSem.v, Lib/GoSemExt.v, Proxy/SrcLib.v. *)\n", strings.Join(res.Funcs, ", "))
		fmt.Fprintf(&g.buf, "From Coq Require Import Bool.\nFrom GI Require Import Lib.Bytes Lib.GoSem Lib.GoSemExt Gen.ProxyConsts Proxy.SrcLib.\nImport GoNotations.\nLocal Open Scope go_scope.\n\n")
		g.buf.WriteString(res.Text)
	}
}

package main

import (
	"bytes"
	"fmt"
	"go/ast"
	"go/parser"
	"go/printer"
	"go/token"
	"path/filepath"
	"strings"

	"verif/harness/go2coq"
)

// Group TxtarSrc: txtar/archive.go translated to Gallina by harness/go2coq, written to
// Gen/TxtarSrc.v.  Txtar/SrcFacts.v proves every generated function equal to the
// hand-written statement-level model, so a change of archive.go that changes the
// generated text re-opens those proofs.  This file holds only the table: which functions,
// which library calls and struct types, and their Coq denotations (Lib/GoSem.v, Txtar.v).

// the library API the translated functions may use, as Go declarations for the type checker
var goLibStubs = map[string]string{
	"bytes": `package bytes
func HasPrefix(s, prefix []byte) bool
func HasSuffix(s, suffix []byte) bool
func IndexByte(b []byte, c byte) int
func Index(s, sep []byte) int
func Replace(s, old, new []byte, n int) []byte
func TrimPrefix(s, prefix []byte) []byte
func TrimSpace(s []byte) []byte
`,
	"strings": `package strings
func HasPrefix(s, prefix string) bool
func HasSuffix(s, suffix string) bool
func IndexByte(s string, c byte) int
func Index(s, substr string) int
func TrimPrefix(s, prefix string) string
func TrimSpace(s string) string
`,
	"unicode/utf8": `package utf8
func Valid(p []byte) bool
func ValidString(s string) bool
`,
	"errors": `package errors
func New(text string) error
`,
	"fmt": `package fmt
func Errorf(format string, a ...any) error
`,
}

var goLib = map[string]go2coq.LibFunc{
	"bytes.HasPrefix":          {Coq: "go_bytes_HasPrefix"},
	"bytes.HasSuffix":          {Coq: "go_bytes_HasSuffix"},
	"bytes.IndexByte":          {Coq: "go_bytes_IndexByte"},
	"bytes.Index":              {Coq: "go_bytes_Index"},
	"bytes.Replace":            {Coq: "go_bytes_Replace", Monadic: true},
	"bytes.TrimPrefix":         {Coq: "go_bytes_TrimPrefix", Monadic: true},
	"bytes.TrimSpace":          {Coq: "go_strings_TrimSpace"},
	"strings.HasPrefix":        {Coq: "go_bytes_HasPrefix"},
	"strings.HasSuffix":        {Coq: "go_bytes_HasSuffix"},
	"strings.IndexByte":        {Coq: "go_bytes_IndexByte"},
	"strings.Index":            {Coq: "go_bytes_Index"},
	"strings.TrimPrefix":       {Coq: "go_bytes_TrimPrefix", Monadic: true},
	"strings.TrimSpace":        {Coq: "go_strings_TrimSpace"},
	"unicode/utf8.Valid":       {Coq: "go_utf8_Valid"},
	"unicode/utf8.ValidString": {Coq: "go_utf8_Valid"},
	"errors.New":               {IsError: true},
	"fmt.Errorf":               {IsError: true},
}

// xtoolsTypes returns the declarations of the named types of golang.org/x/tools/txtar, printed
// from the module's archive.go.
func xtoolsTypes(names ...string) (string, error) {
	dir, err := xtoolsDir()
	if err != nil {
		return "", err
	}
	fset := token.NewFileSet()
	f, err := parser.ParseFile(fset, filepath.Join(dir, "txtar", "archive.go"), nil, 0)
	if err != nil {
		return "", err
	}
	var out bytes.Buffer
	for _, name := range names {
		found := false
		for _, d := range f.Decls {
			gd, ok := d.(*ast.GenDecl)
			if !ok || gd.Tok != token.TYPE {
				continue
			}
			for _, sp := range gd.Specs {
				ts := sp.(*ast.TypeSpec)
				if ts.Name.Name != name {
					continue
				}
				out.WriteString("type ")
				if err := printer.Fprint(&out, fset, ts); err != nil {
					return "", err
				}
				out.WriteString("\n")
				found = true
			}
		}
		if !found {
			return "", fmt.Errorf("type %s not found in x/tools/txtar", name)
		}
	}
	return out.String(), nil
}

func init() {
	outFile["TxtarSrc"] = "TxtarSrc.v"
	stubOnFailure["TxtarSrc"] = true
	groups["TxtarSrc"] = func(g *gen) {
		stubs := map[string]string{}
		for k, v := range goLibStubs {
			stubs[k] = v
		}
		// the struct types come from golang.org/x/tools/txtar (type Archive = txtar.Archive): their
		// declarations are read from the module source the harness is built with
		xt, err := xtoolsTypes("Archive", "File")
		if err != nil {
			g.fail("x/tools: %v", err)
			return
		}
		stubs["golang.org/x/tools/txtar"] = "package txtar\n" + xt + "func Format(a *Archive) []byte\nfunc Parse(data []byte) *Archive\n"
		cfg := &go2coq.Config{
			Prefix: "src_",
			Funcs:  []string{"isMarker", "fixNL", "findFileMarker", "Parse", "NeedsQuote", "Quote", "Unquote"},
			Stubs:  stubs,
			Lib:    goLib,
			Structs: map[string]go2coq.Struct{
				// Txtar.v: Record archive := { comment : bytes; files : list (bytes * bytes) }
				"golang.org/x/tools/txtar.Archive": {CoqType: "archive", Ctor: "Build_archive",
					Fields: []go2coq.Field{{Go: "Comment", Getter: "comment"}, {Go: "Files", Getter: "files"}}},
				"golang.org/x/tools/txtar.File": {CoqType: "(bytes * bytes)%type", Ctor: "pair",
					Fields: []go2coq.Field{{Go: "Name", Getter: "fst"}, {Go: "Data", Getter: "snd"}}},
			},
		}
		var files []*ast.File
		for _, f := range g.files("txtar") {
			files = append(files, f)
		}
		if len(g.errs) > 0 {
			return
		}
		res, err := go2coq.Translate(g.fset, files, "github.com/rogpeppe/go-internal/txtar", cfg)
		if err != nil {
			g.fail("%s: %v", filepath.Join("txtar", "archive.go"), err)
			return
		}
		fmt.Fprintf(&g.buf, "(* txtar/archive.go translated by harness/go2coq (table: harness/cmd/genconsts/gen_txtar_src.go).\n")
		fmt.Fprintf(&g.buf, "   Functions: %s.  Vocabulary: Lib/GoSem.v; struct types: Txtar/Txtar.v. *)\n", strings.Join(res.Funcs, ", "))
		fmt.Fprintf(&g.buf, "From Coq Require Import Bool.\nFrom GI Require Import Lib.Bytes Lib.GoSem Txtar.Txtar.\nImport GoNotations.\nLocal Open Scope go_scope.\n\n")
		g.buf.WriteString(res.Text)
	}
}

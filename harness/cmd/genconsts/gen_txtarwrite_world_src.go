package main

import (
	"fmt"
	"os"
	"strings"

	"verif/harness/go2coq"
)

// Group TxtarWriteWorldSrc: the EFFECTFUL code of C15 translated to Gallina by harness/go2coq in
// WORLD MODE (go2coq/world.go, world_data.go), written to Gen/TxtarWriteWorldSrc.v:
//
//	txtar/archive.go        isAbs, Write (whole: the range loop over a.Files with its five
//	                        operating-system calls per entry), ParseFile
//	cmd/txtar-c/savedir.go  the function literal main hands to filepath.Walk (the per-entry
//	                        function: skip decisions, os.ReadFile, the final-newline fix, the
//	                        quote decision, the entry appended to the archive)
//
// Every operating-system call (os.MkdirAll, os.OpenFile, (*os.File).Write, (*os.File).Close,
// os.ReadFile) is an UNINTERPRETED operation of the record TxtarWrite/SrcWorld.fs_ops on an
// abstract world; the generated functions are state-passing functions over any behaviour of the
// operating system.  TxtarWrite/SrcWorldFacts.v proves them equal, for every world and every
// interpretation of the operations, to the hand-written reference programs of SrcWorld.v
// (write_ops: per entry the guard, then MkdirAll / OpenFile / Write / Close with these arguments
// in this order, first error stops; walk_fn_ops), and, instantiated with the file-system model of
// TxtarWrite.v, to the model's write.  This file holds only the table.
//
// What the table claims beyond the translator's own checks (TxtarWrite/SrcWorld.v states each
// denotation next to its definition): filepath.Clean / FromSlash / ToSlash / IsAbs / Join / Dir are
// the functions of TxtarWrite/Path.v (Unix; validated by the C15 runner against the library);
// strings.HasPrefix / TrimPrefix, bytes.HasSuffix, utf8.Valid are the functions of Lib/GoSem.v
// (validated by the txtar runner); txtar.Parse, NeedsQuote and Quote are the model functions of
// Txtar/Txtar.v, which Txtar/SrcFacts.v proves equal to their own translations (Gen/TxtarSrc.v);
// fmt.Errorf makes an error value determined by its format and arguments; log.Printf has no effect
// on the denoted state (it writes to standard error); os.ReadFile and txtar.Quote return slices
// that share memory with nothing; *allFlag and *quoteFlag are two booleans that do not change
// while the walk runs (flag.Parse has returned), and the archive the literal appends to is owned by
// main (made by new, handed to nobody else before the walk ends); FileInfo.Name / IsDir / Mode and
// FileMode.IsRegular are functions of their receiver.
func init() {
	outFile["TxtarWriteWorldSrc"] = "TxtarWriteWorldSrc.v"
	stubOnFailure["TxtarWriteWorldSrc"] = true
	groups["TxtarWriteWorldSrc"] = func(g *gen) {
		const txPath = "github.com/rogpeppe/go-internal/txtar"
		const tcPath = "github.com/rogpeppe/go-internal/cmd/txtar-c"
		xt, err := xtoolsTypes("Archive", "File")
		if err != nil {
			g.fail("x/tools: %v", err)
			return
		}
		txFiles := g.files("txtar")
		tcFiles := g.files("cmd/txtar-c")
		if len(g.errs) > 0 {
			return
		}
		stubs := map[string]string{
			"golang.org/x/tools/txtar": "package txtar\n" + xt + "func Format(a *Archive) []byte\nfunc Parse(data []byte) *Archive\n",
			"bytes":                    goLibStubs["bytes"],
			"strings":                  goLibStubs["strings"],
			"unicode/utf8":             goLibStubs["unicode/utf8"],
			"errors":                   goLibStubs["errors"],
			"fmt":                      "package fmt\nfunc Errorf(format string, a ...any) error\nfunc Fprintf(w any, format string, a ...any) (n int, err error)\n",
			"log":                      "package log\nfunc Printf(format string, v ...any)\nfunc Print(v ...any)\nfunc Fatal(v ...any)\nfunc SetPrefix(prefix string)\nfunc SetFlags(flag int)\n",
			"flag": "package flag\nvar Usage func()\nfunc Bool(name string, value bool, usage string) *bool\nfunc String(name string, value string, usage string) *string\n" +
				"func Parse()\nfunc NArg() int\nfunc Arg(i int) string\nfunc PrintDefaults()\n",
			"io/fs": "package fs\ntype FileMode uint32\nfunc (m FileMode) IsRegular() bool\n" +
				"type FileInfo interface{ Name() string; IsDir() bool; Mode() FileMode }\n",
			// Unix: the separator is '/'
			"path/filepath": "package filepath\nimport \"io/fs\"\nconst Separator = '/'\nvar SkipDir error\nfunc Clean(path string) string\nfunc FromSlash(path string) string\n" +
				"func ToSlash(path string) string\nfunc Join(elem ...string) string\nfunc IsAbs(path string) bool\nfunc Dir(path string) string\n" +
				"type WalkFunc func(path string, info fs.FileInfo, err error) error\nfunc Walk(root string, fn WalkFunc) error\n",
			"os": fmt.Sprintf("package os\nimport \"io/fs\"\nconst (\n O_RDONLY int = %d\n O_WRONLY int = %d\n O_RDWR int = %d\n O_APPEND int = %d\n O_CREATE int = %d\n O_EXCL int = %d\n O_TRUNC int = %d\n)\n"+
				"type FileMode = fs.FileMode\ntype FileInfo = fs.FileInfo\ntype File struct{ _ int }\nvar Stderr *File\nvar Stdout *File\nfunc Exit(code int)\n"+
				"func OpenFile(name string, flag int, perm FileMode) (*File, error)\nfunc MkdirAll(path string, perm FileMode) error\nfunc ReadFile(name string) ([]byte, error)\n"+
				"func (f *File) Close() error\nfunc (f *File) Write(b []byte) (n int, err error)\n",
				os.O_RDONLY, os.O_WRONLY, os.O_RDWR, os.O_APPEND, os.O_CREATE, os.O_EXCL, os.O_TRUNC),
		}
		cfg := &go2coq.WorldConfig{
			Stubs: stubs,
			Lib: map[string]go2coq.WLib{
				"path/filepath.Clean":        {Coq: "go_filepath_Clean", Kind: go2coq.WPure},
				"path/filepath.FromSlash":    {Coq: "go_filepath_FromSlash", Kind: go2coq.WPure},
				"path/filepath.ToSlash":      {Coq: "go_filepath_ToSlash", Kind: go2coq.WPure},
				"path/filepath.IsAbs":        {Coq: "go_filepath_IsAbs", Kind: go2coq.WPure},
				"path/filepath.Dir":          {Coq: "go_filepath_Dir", Kind: go2coq.WPure},
				"path/filepath.Join":         {Coq: "go_filepath_Join", Kind: go2coq.WMonadic},
				"strings.HasPrefix":          {Coq: "go_bytes_HasPrefix", Kind: go2coq.WPure},
				"strings.TrimPrefix":         {Coq: "go_bytes_TrimPrefix", Kind: go2coq.WMonadic},
				"bytes.HasSuffix":            {Coq: "go_bytes_HasSuffix", Kind: go2coq.WPure},
				"unicode/utf8.Valid":         {Coq: "go_utf8_Valid", Kind: go2coq.WPure},
				"fmt.Errorf":                 {Coq: "go_fmt_Errorf", Kind: go2coq.WPure},
				"log.Printf":                 {Kind: go2coq.WDrop},
				"os.MkdirAll":                {Coq: "(op_mkdir_all OS)", Kind: go2coq.WWorld},
				"os.OpenFile":                {Coq: "(op_open_file OS)", Kind: go2coq.WWorld},
				"os.ReadFile":                {Coq: "(op_read_file OS)", Kind: go2coq.WWorld, Fresh: true},
				"(*os.File).Write":           {Coq: "(op_write OS)", Kind: go2coq.WWorld},
				"(*os.File).Close":           {Coq: "(op_close OS)", Kind: go2coq.WWorld},
				"(io/fs.FileInfo).Name":      {Coq: "(fi_name OS)", Kind: go2coq.WPure},
				"(io/fs.FileInfo).IsDir":     {Coq: "(fi_is_dir OS)", Kind: go2coq.WPure},
				"(io/fs.FileInfo).Mode":      {Coq: "(fi_mode OS)", Kind: go2coq.WPure},
				"(io/fs.FileMode).IsRegular": {Coq: "(fm_is_regular OS)", Kind: go2coq.WPure},
				txPath + ".Parse":            {Coq: "go_txtar_Parse", Kind: go2coq.WPure},
				txPath + ".NeedsQuote":       {Coq: "go_txtar_NeedsQuote", Kind: go2coq.WPure},
				txPath + ".Quote":            {Coq: "go_txtar_Quote", Kind: go2coq.WPure, Fresh: true},
			},
			Types: map[string]go2coq.WType{
				"*os.File":       {Coq: "(Handle OS)", Zero: "(nil_handle OS)"},
				"io/fs.FileInfo": {Coq: "(FileInfo OS)"},
			},
			Structs: map[string]go2coq.Struct{
				// Txtar.v: Record archive := { comment : bytes; files : list (bytes * bytes) }
				"golang.org/x/tools/txtar.Archive": {CoqType: "archive", Ctor: "Build_archive",
					Fields: []go2coq.Field{{Go: "Comment", Getter: "comment"}, {Go: "Files", Getter: "files"}}},
				"golang.org/x/tools/txtar.File": {CoqType: "(bytes * bytes)%type", Ctor: "pair",
					Fields: []go2coq.Field{{Go: "Name", Getter: "fst"}, {Go: "Data", Getter: "snd"}}},
			},
			ExtVars:   map[string]string{"path/filepath.SkipDir": "werr_SkipDir"},
			DerefVars: map[string]string{tcPath + ".allFlag": "flag_all", tcPath + ".quoteFlag": "flag_quote"},
			WorldType: "(World OS)",
			WorldVar:  "w",
		}
		pkgs := []go2coq.WorldPkg{
			{Path: txPath, Prefix: "tw_", Files: txFiles, Funcs: []string{"isAbs", "Write", "ParseFile"}},
			{Path: tcPath, Prefix: "tc_", Files: tcFiles, Lits: []go2coq.WorldLit{{Func: "main", Arg: "path/filepath.Walk", Name: "walkfn"}}},
		}
		res, err := go2coq.TranslateWorld(g.fset, pkgs, cfg)
		if err != nil {
			g.fail("txtar / cmd/txtar-c: %v", err)
			return
		}
		fmt.Fprintf(&g.buf, "(* txtar/archive.go (Write, ParseFile, isAbs) and the walk function of cmd/txtar-c/savedir.go translated by\n   harness/go2coq in world mode (table: harness/cmd/genconsts/gen_txtarwrite_world_src.go).\n")
		fmt.Fprintf(&g.buf, "   Functions: %s.\n   Vocabulary: Lib/GoSem.v, Lib/GoSemWorld.v, TxtarWrite/SrcLib.v, TxtarWrite/SrcWorld.v (the record of operations OS). *)\n", strings.Join(res.Funcs, ", "))
		fmt.Fprintf(&g.buf, "From Coq Require Import Bool.\nFrom GI Require Import Lib.Bytes Lib.GoSem Lib.GoSemWorld Txtar.Txtar TxtarWrite.SrcLib TxtarWrite.SrcWorld.\nImport GoNotations.\nLocal Open Scope go_scope.\n\n")
		fmt.Fprintf(&g.buf, "(* the values of os.O_WRONLY, os.O_CREATE, os.O_EXCL, os.O_TRUNC, os.O_APPEND the constant flag expressions were evaluated with *)\n")
		fmt.Fprintf(&g.buf, "Definition tw_O_WRONLY : Z := %d%%Z.\nDefinition tw_O_CREATE : Z := %d%%Z.\nDefinition tw_O_EXCL : Z := %d%%Z.\nDefinition tw_O_TRUNC : Z := %d%%Z.\nDefinition tw_O_APPEND : Z := %d%%Z.\n\n",
			os.O_WRONLY, os.O_CREATE, os.O_EXCL, os.O_TRUNC, os.O_APPEND)
		fmt.Fprintf(&g.buf, "Section Src.\nVariable OS : fs_ops.\n(* *quoteFlag, *allFlag of cmd/txtar-c *)\nVariable flag_quote flag_all : bool.\n\n")
		g.buf.WriteString(res.Text)
		fmt.Fprintf(&g.buf, "End Src.\n")
	}
}

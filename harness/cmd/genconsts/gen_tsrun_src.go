package main

import (
	"fmt"
	"go/ast"
	"path/filepath"
	"strings"

	"verif/harness/go2coq"
)

// Group TsRunSrc (C01): the pure segments of testscript/testscript.go runLine up to the command
// lookup -- the tokenized words and the blank-line test; the loop over the [cond] prefixes (the
// brackets sliced off, TrimSpace, the ! inside the brackets, the call of ts.condition, the three
// ways out: Fatalf, skip the line, go on) and the ! prefix -- translated to Gallina by
// harness/go2coq, written to Gen/TsRunSrc.v.  TsRun/SrcFacts.v proves them equal to the
// hand-written model TsRun/TsRun.v (run_line, run_guards, guard_of, run_neg).  This file holds
// only the table.  ts.parse and ts.condition are not part of the segments: both may end in
// ts.Fatalf (LibFunc.MayFail) and are denoted by oracles carried by the receiver's value
// (TsRun/SrcLib.v); the fmt.Fprintf that echoes the line into the log lies between the two
// segments.
func init() {
	outFile["TsRunSrc"] = "TsRunSrc.v"
	stubOnFailure["TsRunSrc"] = true
	groups["TsRunSrc"] = func(g *gen) {
		stubs := map[string]string{}
		for k, v := range goLibStubs {
			stubs[k] = v
		}
		stubs["fmt"] = goLibStubs["fmt"] + "func Fprintf(w any, format string, a ...any) (n int, err error)\n"
		lib := map[string]go2coq.LibFunc{}
		for k, v := range goLib {
			lib[k] = v
		}
		ts := "(*" + tsPkg + ".TestScript)"
		lib[ts+".parse"] = go2coq.LibFunc{Coq: "go_ts_parse", MayFail: true}
		lib[ts+".condition"] = go2coq.LibFunc{Coq: "go_ts_condition", MayFail: true}
		cfg := &go2coq.Config{
			Prefix:   "src_",
			Stubs:    stubs,
			Lib:      lib,
			FailMsgs: true,
			NoReturn: []string{"TestScript.Fatalf"},
			Structs: map[string]go2coq.Struct{
				tsPkg + ".TestScript": {CoqType: "ts_rrecv", Ctor: "Build_ts_rrecv", Partial: true},
			},
			Segments: []go2coq.Segment{
				{Func: "TestScript.runLine", Name: "words", From: ts + ".parse", Before: "fmt.Fprintf"},
				{Func: "TestScript.runLine", Name: "guards", After: "fmt.Fprintf", Before: "var:cmd"},
			},
		}
		var files []*ast.File
		for _, f := range g.files("testscript") {
			files = append(files, f)
		}
		if len(g.errs) > 0 {
			return
		}
		res, err := go2coq.Translate(g.fset, files, tsPkg, cfg)
		if err != nil {
			g.fail("%s: %v", filepath.Join("testscript", "testscript.go"), err)
			return
		}
		fmt.Fprintf(&g.buf, "(* testscript/testscript.go, the pure segments of runLine, translated by harness/go2coq\n   (table: harness/cmd/genconsts/gen_tsrun_src.go).\n")
		fmt.Fprintf(&g.buf, "   Definitions: %s.  Vocabulary: Lib/GoSem.v, Lib/GoSemExt.v, Lib/GoSemState.v, Lib/GoSemFail.v, TsRun/SrcLib.v. *)\n", strings.Join(res.Funcs, ", "))
		fmt.Fprintf(&g.buf, "From Coq Require Import Bool.\nFrom GI Require Import Lib.Bytes Lib.GoSem Lib.GoSemExt Lib.GoSemSeg Lib.GoSemState Lib.GoSemFail TsRun.SrcLib.\nImport GoNotations.\nLocal Open Scope go_scope.\n\n")
		g.buf.WriteString(res.Text)
	}
}

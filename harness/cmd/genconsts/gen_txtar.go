package main

import (
	"fmt"
	"go/ast"
	"go/parser"
	"go/token"
	"os"
	"os/exec"
	"path/filepath"
	"runtime"
	"strconv"
	"strings"
	"unicode"
)

// xtoolsDir is the source directory of the golang.org/x/tools module the harness (and,
// through the replace directive, the checked tree) is built with: asked of the go
// command from inside the harness module, so that a -modfile in GOFLAGS is honoured.
func xtoolsDir() (string, error) {
	var cands []string
	if wd, err := os.Getwd(); err == nil {
		cands = append(cands, filepath.Join(wd, "harness"), wd)
	}
	if exe, err := os.Executable(); err == nil {
		cands = append(cands, filepath.Join(filepath.Dir(exe), "..", "harness"))
	}
	var last error
	for _, c := range cands {
		if _, err := os.Stat(filepath.Join(c, "go.mod")); err != nil {
			continue
		}
		cmd := exec.Command("go", "list", "-m", "-f", "{{.Dir}}", "golang.org/x/tools")
		cmd.Dir = c
		out, err := cmd.Output()
		if err == nil && strings.TrimSpace(string(out)) != "" {
			return strings.TrimSpace(string(out)), nil
		}
		last = err
	}
	return "", fmt.Errorf("go list -m golang.org/x/tools: %v", last)
}

// emitXtools reads golang.org/x/tools/txtar/archive.go: the format string of the
// fmt.Fprintf call in Format, and the three marker constants of that package.
func (g *gen) emitXtools() {
	dir, err := xtoolsDir()
	if err != nil {
		g.fail("x/tools: %v", err)
		return
	}
	file := filepath.Join(dir, "txtar", "archive.go")
	f, err := parser.ParseFile(token.NewFileSet(), file, nil, 0)
	if err != nil {
		g.fail("x/tools: cannot parse %s: %v", file, err)
		return
	}
	var formats []string
	vars := map[string]string{}
	for _, d := range f.Decls {
		switch d := d.(type) {
		case *ast.FuncDecl:
			if d.Name.Name != "Format" || d.Recv != nil || d.Body == nil {
				continue
			}
			ast.Inspect(d.Body, func(n ast.Node) bool {
				call, ok := n.(*ast.CallExpr)
				if !ok {
					return true
				}
				sel, ok := call.Fun.(*ast.SelectorExpr)
				if !ok || sel.Sel.Name != "Fprintf" || len(call.Args) < 2 {
					return true
				}
				if x, ok := sel.X.(*ast.Ident); !ok || x.Name != "fmt" {
					return true
				}
				if lit, ok := call.Args[1].(*ast.BasicLit); ok && lit.Kind == token.STRING {
					if s, err := strconv.Unquote(lit.Value); err == nil {
						formats = append(formats, s)
					}
				}
				return true
			})
		case *ast.GenDecl:
			for _, sp := range d.Specs {
				vs, ok := sp.(*ast.ValueSpec)
				if !ok {
					continue
				}
				for i, id := range vs.Names {
					if i < len(vs.Values) {
						if s, ok := g.str(vs.Values[i]); ok {
							vars[id.Name] = s
						}
					}
				}
			}
		}
	}
	if len(formats) != 1 {
		g.fail("x/tools txtar.Format: expected exactly one fmt.Fprintf with a literal format, found %d", len(formats))
		return
	}
	g.emitBytesLit("xtools_format_string", "golang.org/x/tools/txtar.Format: fmt.Fprintf(&buf, <this>, f.Name)", formats[0])
	for _, nv := range [][2]string{{"xtools_marker", "marker"}, {"xtools_marker_end", "markerEnd"}, {"xtools_newline_marker", "newlineMarker"}} {
		s, ok := vars[nv[1]]
		if !ok {
			g.fail("x/tools txtar: no string variable %s", nv[1])
			continue
		}
		g.emitBytesLit(nv[0], "golang.org/x/tools/txtar."+nv[1], s)
	}
}

func init() {
	groups["Txtar"] = func(g *gen) {
		g.emitBytes("marker", "txtar", "marker")
		g.emitBytes("marker_end", "txtar", "markerEnd")
		g.emitBytes("newline_marker", "txtar", "newlineMarker")
		g.emitXtools()
	}
	// The white-space tables behind unicode.IsSpace (used by strings.TrimSpace), taken
	// from the standard library this program is compiled with -- the same toolchain
	// compiles the runner and /repo's code.  unicode.IsSpace answers Latin-1 from a
	// switch statement and everything above from unicode.White_Space: both are dumped,
	// the first by asking the library for every Latin-1 code point.
	groups["Unicode"] = func(g *gen) {
		var lat []string
		for r := rune(0); r <= unicode.MaxLatin1; r++ {
			if unicode.IsSpace(r) {
				lat = append(lat, fmt.Sprint(int(r)))
			}
		}
		fmt.Fprintf(&g.buf, "(* unicode.IsSpace on Latin-1 (r <= 0xFF), %s *)\nDefinition latin1_space : list N := [%s]%%N.\n\n",
			runtime.Version(), strings.Join(lat, "; "))
		var rs []string
		for _, x := range unicode.White_Space.R16 {
			rs = append(rs, fmt.Sprintf("(%d, %d, %d)", x.Lo, x.Hi, x.Stride))
		}
		for _, x := range unicode.White_Space.R32 {
			rs = append(rs, fmt.Sprintf("(%d, %d, %d)", x.Lo, x.Hi, x.Stride))
		}
		if len(rs) == 0 || len(lat) == 0 {
			g.fail("unicode.White_Space is empty")
			return
		}
		fmt.Fprintf(&g.buf, "(* unicode.White_Space: (lo, hi, stride) of R16 then R32, %s *)\nDefinition white_space_ranges : list (N * N * N) :=\n  [%s]%%N.\n\n",
			runtime.Version(), strings.Join(rs, ";\n   "))
		fmt.Fprintf(&g.buf, "(* unicode.MaxLatin1, utf8.RuneError, utf8.RuneSelf, unicode.MaxRune *)\nDefinition max_latin1 : N := %d%%N.\nDefinition rune_error : N := %d%%N.\nDefinition rune_self : N := %d%%N.\nDefinition max_rune : N := %d%%N.\n\n",
			unicode.MaxLatin1, 0xFFFD, 0x80, unicode.MaxRune)
	}
}

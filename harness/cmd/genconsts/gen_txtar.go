package main

func init() {
	groups["Txtar"] = func(g *gen) {
		g.emitBytes("marker", "txtar", "marker")
		g.emitBytes("marker_end", "txtar", "markerEnd")
		g.emitBytes("newline_marker", "txtar", "newlineMarker")
	}
}

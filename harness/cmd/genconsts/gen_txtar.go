package main

import (
	"fmt"
	"runtime"
	"strings"
	"unicode"
)

func init() {
	groups["Txtar"] = func(g *gen) {
		g.emitBytes("marker", "txtar", "marker")
		g.emitBytes("marker_end", "txtar", "markerEnd")
		g.emitBytes("newline_marker", "txtar", "newlineMarker")
	}
	// The white-space tables behind unicode.IsSpace (used by strings.TrimSpace), taken
	// from the standard library this program is compiled with -- the same toolchain
	// compiles the runner and /repo's code.  unicode.IsSpace answers Latin-1 from a
	// switch statement and everything above from unicode.White_Space: both are dumped,
	// the first by asking the library for every Latin-1 code point.
	groups["Unicode"] = func(g *gen) {
		var lat []string
		for r := rune(0); r <= unicode.MaxLatin1; r++ {
			if unicode.IsSpace(r) {
				lat = append(lat, fmt.Sprint(int(r)))
			}
		}
		fmt.Fprintf(&g.buf, "(* unicode.IsSpace on Latin-1 (r <= 0xFF), %s *)\nDefinition latin1_space : list N := [%s]%%N.\n\n",
			runtime.Version(), strings.Join(lat, "; "))
		var rs []string
		for _, x := range unicode.White_Space.R16 {
			rs = append(rs, fmt.Sprintf("(%d, %d, %d)", x.Lo, x.Hi, x.Stride))
		}
		for _, x := range unicode.White_Space.R32 {
			rs = append(rs, fmt.Sprintf("(%d, %d, %d)", x.Lo, x.Hi, x.Stride))
		}
		if len(rs) == 0 || len(lat) == 0 {
			g.fail("unicode.White_Space is empty")
			return
		}
		fmt.Fprintf(&g.buf, "(* unicode.White_Space: (lo, hi, stride) of R16 then R32, %s *)\nDefinition white_space_ranges : list (N * N * N) :=\n  [%s]%%N.\n\n",
			runtime.Version(), strings.Join(rs, ";\n   "))
		fmt.Fprintf(&g.buf, "(* unicode.MaxLatin1, utf8.RuneError, utf8.RuneSelf, unicode.MaxRune *)\nDefinition max_latin1 : N := %d%%N.\nDefinition rune_error : N := %d%%N.\nDefinition rune_self : N := %d%%N.\nDefinition max_rune : N := %d%%N.\n\n",
			unicode.MaxLatin1, 0xFFFD, 0x80, unicode.MaxRune)
	}
}

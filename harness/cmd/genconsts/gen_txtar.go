package main

import (
	"fmt"
	"go/ast"
	"go/parser"
	"go/constant"
	"go/token"
	"go/types"
	"os"
	"os/exec"
	"path/filepath"
	"runtime"
	"strconv"
	"strings"
	"unicode"
)

// xtoolsDir is the source directory of the golang.org/x/tools module the harness (and,
// through the replace directive, the checked tree) is built with: asked of the go
// command from inside the harness module, so that a -modfile in GOFLAGS is honoured.
func xtoolsDir() (string, error) {
	var cands []string
	if wd, err := os.Getwd(); err == nil {
		cands = append(cands, filepath.Join(wd, "harness"), wd)
	}
	if exe, err := os.Executable(); err == nil {
		cands = append(cands, filepath.Join(filepath.Dir(exe), "..", "harness"))
	}
	var last error
	for _, c := range cands {
		if _, err := os.Stat(filepath.Join(c, "go.mod")); err != nil {
			continue
		}
		cmd := exec.Command("go", "list", "-m", "-f", "{{.Dir}}", "golang.org/x/tools")
		cmd.Dir = c
		out, err := cmd.Output()
		if err == nil && strings.TrimSpace(string(out)) != "" {
			return strings.TrimSpace(string(out)), nil
		}
		last = err
	}
	return "", fmt.Errorf("go list -m golang.org/x/tools: %v", last)
}

// emitXtools reads golang.org/x/tools/txtar/archive.go: the format string of the
// fmt.Fprintf call in Format, and the three marker constants of that package.
func (g *gen) emitXtools() {
	dir, err := xtoolsDir()
	if err != nil {
		g.fail("x/tools: %v", err)
		return
	}
	file := filepath.Join(dir, "txtar", "archive.go")
	f, err := parser.ParseFile(token.NewFileSet(), file, nil, 0)
	if err != nil {
		g.fail("x/tools: cannot parse %s: %v", file, err)
		return
	}
	var formats []string
	vars := map[string]string{}
	for _, d := range f.Decls {
		switch d := d.(type) {
		case *ast.FuncDecl:
			if d.Name.Name != "Format" || d.Recv != nil || d.Body == nil {
				continue
			}
			ast.Inspect(d.Body, func(n ast.Node) bool {
				call, ok := n.(*ast.CallExpr)
				if !ok {
					return true
				}
				sel, ok := call.Fun.(*ast.SelectorExpr)
				if !ok || sel.Sel.Name != "Fprintf" || len(call.Args) < 2 {
					return true
				}
				if x, ok := sel.X.(*ast.Ident); !ok || x.Name != "fmt" {
					return true
				}
				if lit, ok := call.Args[1].(*ast.BasicLit); ok && lit.Kind == token.STRING {
					if s, err := strconv.Unquote(lit.Value); err == nil {
						formats = append(formats, s)
					}
				}
				return true
			})
		case *ast.GenDecl:
			for _, sp := range d.Specs {
				vs, ok := sp.(*ast.ValueSpec)
				if !ok {
					continue
				}
				for i, id := range vs.Names {
					if i < len(vs.Values) {
						if s, ok := g.str(vs.Values[i]); ok {
							vars[id.Name] = s
						}
					}
				}
			}
		}
	}
	if len(formats) != 1 {
		g.fail("x/tools txtar.Format: expected exactly one fmt.Fprintf with a literal format, found %d", len(formats))
		return
	}
	g.emitBytesLit("xtools_format_string", "golang.org/x/tools/txtar.Format: fmt.Fprintf(&buf, <this>, f.Name)", formats[0])
	for _, nv := range [][2]string{{"xtools_marker", "marker"}, {"xtools_marker_end", "markerEnd"}, {"xtools_newline_marker", "newlineMarker"}} {
		s, ok := vars[nv[1]]
		if !ok {
			g.fail("x/tools txtar: no string variable %s", nv[1])
			continue
		}
		g.emitBytesLit(nv[0], "golang.org/x/tools/txtar."+nv[1], s)
	}
}

func init() {
	groups["Txtar"] = func(g *gen) {
		g.emitBytes("marker", "txtar", "marker")
		g.emitBytes("marker_end", "txtar", "markerEnd")
		g.emitBytes("newline_marker", "txtar", "newlineMarker")
		g.emitXtools()
	}
	// literals inside txtar.Quote / txtar.Unquote (C14 only, so that a restructured
	// Quote does not re-open C03)
	groups["TxtarQuote"] = func(g *gen) { g.emitQuoteLiterals() }
	// the decoding tables and masks of unicode/utf8 (unexported), read from the
	// toolchain's source $GOROOT/src/unicode/utf8/utf8.go and evaluated with go/types
	groups["Utf8Tables"] = func(g *gen) { g.emitUtf8Tables() }
	// The white-space tables behind unicode.IsSpace (used by strings.TrimSpace), taken
	// from the standard library this program is compiled with -- the same toolchain
	// compiles the runner and /repo's code.  unicode.IsSpace answers Latin-1 from a
	// switch statement and everything above from unicode.White_Space: both are dumped,
	// the first by asking the library for every Latin-1 code point.
	groups["Unicode"] = func(g *gen) {
		var lat []string
		for r := rune(0); r <= unicode.MaxLatin1; r++ {
			if unicode.IsSpace(r) {
				lat = append(lat, fmt.Sprint(int(r)))
			}
		}
		fmt.Fprintf(&g.buf, "(* unicode.IsSpace on Latin-1 (r <= 0xFF), %s *)\nDefinition latin1_space : list N := [%s]%%N.\n\n",
			runtime.Version(), strings.Join(lat, "; "))
		var rs []string
		for _, x := range unicode.White_Space.R16 {
			rs = append(rs, fmt.Sprintf("(%d, %d, %d)", x.Lo, x.Hi, x.Stride))
		}
		for _, x := range unicode.White_Space.R32 {
			rs = append(rs, fmt.Sprintf("(%d, %d, %d)", x.Lo, x.Hi, x.Stride))
		}
		if len(rs) == 0 || len(lat) == 0 {
			g.fail("unicode.White_Space is empty")
			return
		}
		fmt.Fprintf(&g.buf, "(* unicode.White_Space: (lo, hi, stride) of R16 then R32, %s *)\nDefinition white_space_ranges : list (N * N * N) :=\n  [%s]%%N.\n\n",
			runtime.Version(), strings.Join(rs, ";\n   "))
		fmt.Fprintf(&g.buf, "(* unicode.MaxLatin1, utf8.RuneError, utf8.RuneSelf, unicode.MaxRune *)\nDefinition max_latin1 : N := %d%%N.\nDefinition rune_error : N := %d%%N.\nDefinition rune_self : N := %d%%N.\nDefinition max_rune : N := %d%%N.\n\n",
			unicode.MaxLatin1, 0xFFFD, 0x80, unicode.MaxRune)
	}
}

// emitQuoteLiterals reads the literals inside txtar.Quote and txtar.Unquote: the byte
// Quote puts in front of every line (append(nd, '>')), the byte Unquote expects first
// (data[0] != '>'), and the arguments of bytes.Replace and bytes.TrimPrefix in Unquote.
func (g *gen) emitQuoteLiterals() {
	charLit := func(e ast.Expr) (string, bool) {
		if lit, ok := e.(*ast.BasicLit); ok && lit.Kind == token.CHAR {
			if s, err := strconv.Unquote(lit.Value); err == nil && len(s) == 1 {
				return s, true
			}
		}
		return "", false
	}
	if fd := g.funcDecl("txtar", "Quote"); fd != nil && fd.Body != nil {
		var marks []string
		ast.Inspect(fd.Body, func(n ast.Node) bool {
			if call, ok := n.(*ast.CallExpr); ok {
				if id, ok := call.Fun.(*ast.Ident); ok && id.Name == "append" && len(call.Args) == 2 {
					if c, ok := charLit(call.Args[1]); ok {
						marks = append(marks, c)
					}
				}
			}
			return true
		})
		if len(marks) != 1 {
			g.fail("txtar.Quote: expected exactly one append(_, <char literal>), found %d", len(marks))
		} else {
			g.emitBytesLit("quote_mark", "txtar.Quote: append(nd, <this>) at every line start", marks[0])
		}
	}
	if fd := g.funcDecl("txtar", "Unquote"); fd != nil && fd.Body != nil {
		var firsts []string
		var repl, trim [][]string
		ast.Inspect(fd.Body, func(n ast.Node) bool {
			switch n := n.(type) {
			case *ast.BinaryExpr:
				if ix, ok := n.X.(*ast.IndexExpr); ok && n.Op == token.NEQ {
					if lit, ok := ix.Index.(*ast.BasicLit); ok && lit.Value == "0" {
						if c, ok := charLit(n.Y); ok {
							firsts = append(firsts, c)
						}
					}
				}
			case *ast.CallExpr:
				if sel, ok := n.Fun.(*ast.SelectorExpr); ok {
					if x, ok := sel.X.(*ast.Ident); ok && x.Name == "bytes" {
						var args []string
						for _, a := range n.Args[1:] {
							if s, ok := g.str(a); ok {
								args = append(args, s)
							} else if u, ok := a.(*ast.UnaryExpr); ok && u.Op == token.SUB {
								args = append(args, "-")
							}
						}
						switch sel.Sel.Name {
						case "Replace":
							repl = append(repl, args)
						case "TrimPrefix":
							trim = append(trim, args)
						}
					}
				}
			}
			return true
		})
		if len(firsts) != 1 || len(repl) != 1 || len(repl[0]) != 3 || repl[0][2] != "-" || len(trim) != 1 || len(trim[0]) != 1 {
			g.fail("txtar.Unquote: expected data[0] != <char>, bytes.Replace(data, <lit>, <lit>, -1) and bytes.TrimPrefix(data, <lit>)")
			return
		}
		g.emitBytesLit("unquote_first", "txtar.Unquote: data[0] != <this>", firsts[0])
		g.emitBytesLit("unquote_old", "txtar.Unquote: bytes.Replace(data, <this>, _, -1)", repl[0][0])
		g.emitBytesLit("unquote_new", "txtar.Unquote: bytes.Replace(data, _, <this>, -1)", repl[0][1])
		g.emitBytesLit("unquote_prefix", "txtar.Unquote: bytes.TrimPrefix(data, <this>)", trim[0][0])
	}
}

func (g *gen) emitUtf8Tables() {
	file := filepath.Join(runtime.GOROOT(), "src", "unicode", "utf8", "utf8.go")
	fset := token.NewFileSet()
	f, err := parser.ParseFile(fset, file, nil, 0)
	if err != nil {
		g.fail("cannot parse %s: %v", file, err)
		return
	}
	info := &types.Info{Types: map[ast.Expr]types.TypeAndValue{}, Defs: map[*ast.Ident]types.Object{}}
	conf := types.Config{Error: func(error) {}}
	pkg, _ := conf.Check("unicode/utf8", fset, []*ast.File{f}, info)
	if pkg == nil {
		g.fail("cannot type-check %s", file)
		return
	}
	num := func(e ast.Expr) (int64, bool) {
		tv, ok := info.Types[e]
		if !ok || tv.Value == nil {
			return 0, false
		}
		return constant.Int64Val(constant.ToInt(tv.Value))
	}
	cst := func(name string) (int64, bool) {
		c, ok := pkg.Scope().Lookup(name).(*types.Const)
		if !ok {
			return 0, false
		}
		return constant.Int64Val(constant.ToInt(c.Val()))
	}
	var firstLit, acceptLit *ast.CompositeLit
	for _, d := range f.Decls {
		gd, ok := d.(*ast.GenDecl)
		if !ok || gd.Tok != token.VAR {
			continue
		}
		for _, sp := range gd.Specs {
			vs := sp.(*ast.ValueSpec)
			for i, id := range vs.Names {
				if i < len(vs.Values) {
					if cl, ok := vs.Values[i].(*ast.CompositeLit); ok {
						switch id.Name {
						case "first":
							firstLit = cl
						case "acceptRanges":
							acceptLit = cl
						}
					}
				}
			}
		}
	}
	if firstLit == nil || acceptLit == nil || len(firstLit.Elts) != 256 {
		g.fail("unicode/utf8: var first [256]uint8 / var acceptRanges not found as composite literals")
		return
	}
	var fs []string
	for _, e := range firstLit.Elts {
		v, ok := num(e)
		if !ok {
			g.fail("unicode/utf8.first: element is not a constant")
			return
		}
		fs = append(fs, fmt.Sprint(v))
	}
	acc := make([][2]int64, 16)
	for _, e := range acceptLit.Elts {
		kv, ok := e.(*ast.KeyValueExpr)
		if !ok {
			g.fail("unicode/utf8.acceptRanges: expected keyed elements")
			return
		}
		k, ok1 := num(kv.Key)
		cl, ok2 := kv.Value.(*ast.CompositeLit)
		if !ok1 || !ok2 || len(cl.Elts) != 2 || k < 0 || k > 15 {
			g.fail("unicode/utf8.acceptRanges: unexpected element")
			return
		}
		lo, ok3 := num(cl.Elts[0])
		hi, ok4 := num(cl.Elts[1])
		if !ok3 || !ok4 {
			g.fail("unicode/utf8.acceptRanges: bounds are not constants")
			return
		}
		acc[k] = [2]int64{lo, hi}
	}
	var as []string
	for _, a := range acc {
		as = append(as, fmt.Sprintf("(%d, %d)", a[0], a[1]))
	}
	fmt.Fprintf(&g.buf, "(* unicode/utf8.first (%s) *)\nDefinition utf8_first : list N :=\n  [%s]%%N.\n\n", runtime.Version(), strings.Join(fs, "; "))
	fmt.Fprintf(&g.buf, "(* unicode/utf8.acceptRanges: (lo, hi); unset entries are the zero value *)\nDefinition utf8_accept_ranges : list (N * N) :=\n  [%s]%%N.\n\n", strings.Join(as, "; "))
	for _, nv := range [][2]string{{"utf8_as", "as"}, {"utf8_xx", "xx"}, {"utf8_maskx", "maskx"}, {"utf8_mask2", "mask2"}, {"utf8_mask3", "mask3"}, {"utf8_mask4", "mask4"},
		{"utf8_locb", "locb"}, {"utf8_hicb", "hicb"}, {"utf8_rune_error", "RuneError"}, {"utf8_rune_self", "RuneSelf"}, {"utf8_utf_max", "UTFMax"}} {
		v, ok := cst(nv[1])
		if !ok {
			g.fail("unicode/utf8: constant %s not found", nv[1])
			continue
		}
		fmt.Fprintf(&g.buf, "(* unicode/utf8.%s *)\nDefinition %s : N := %d%%N.\n\n", nv[1], nv[0], v)
	}
}

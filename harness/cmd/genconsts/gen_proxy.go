package main

// Group Proxy (property C20): every literal of goproxytest the theorems mention,
// re-read from the AST of proxy.go / pseudo.go / allhex.go:
//
//	handler:      "/mod/" (HasPrefix and TrimPrefix must agree), "/@v/" (Index and len() must agree),
//	              "list", ".", the case lists "info","mod" / "zip", "." + ext, HasPrefix(f.Name, "."),
//	              path + "@" + vers + "/" + f.Name
//	readModList:  ".txt", ".txtar" (HasSuffix and TrimSuffix must agree), "_v", name[i+1:],
//	              ReplaceAll(_, "_", "/")
//	readArchive:  ReplaceAll(enc, "/", "_"), prefix + "_" + encVers, name + ".txt", name + ".txtar"
//	findHash:     ".info"
//	pseudo.go:    pseudoVersionRE source, Count(v, "-") >= 2
//	allhex.go:    the two character ranges
import (
	"fmt"
	"go/ast"
	"go/token"
	"regexp/syntax"
	"strconv"
	"strings"
)

// pxRegex renders a simplified regexp/syntax tree as a Gallina term of type Proxy.Regex.regex
// (bytes: code points above 255 are clamped, which is exact on ASCII input).
func pxRegex(re *syntax.Regexp) (string, error) {
	sub := func(rs []*syntax.Regexp) ([]string, error) {
		var out []string
		for _, r := range rs {
			t, err := pxRegex(r)
			if err != nil {
				return nil, err
			}
			out = append(out, t)
		}
		return out, nil
	}
	class := func(pairs []rune) string {
		var parts []string
		for i := 0; i+1 < len(pairs); i += 2 {
			lo, hi := pairs[i], pairs[i+1]
			if lo > 255 {
				continue
			}
			if hi > 255 {
				hi = 255
			}
			parts = append(parts, fmt.Sprintf("(%d, %d)", lo, hi))
		}
		return "(RClass [" + strings.Join(parts, "; ") + "]%N)"
	}
	switch re.Op {
	case syntax.OpEmptyMatch:
		return "REps", nil
	case syntax.OpNoMatch:
		return "REmpty", nil
	case syntax.OpLiteral:
		if re.Flags&syntax.FoldCase != 0 {
			return "", fmt.Errorf("case-folding literal")
		}
		var parts []string
		for _, r := range re.Rune {
			if r > 127 {
				return "", fmt.Errorf("non-ASCII literal %q", r)
			}
			parts = append(parts, class([]rune{r, r}))
		}
		return "(RSeqs [" + strings.Join(parts, "; ") + "])", nil
	case syntax.OpCharClass:
		return class(re.Rune), nil
	case syntax.OpAnyChar:
		return class([]rune{0, 255}), nil
	case syntax.OpAnyCharNotNL:
		return class([]rune{0, 9, 11, 255}), nil
	case syntax.OpCapture:
		return pxRegex(re.Sub[0])
	case syntax.OpStar, syntax.OpPlus, syntax.OpQuest:
		t, err := pxRegex(re.Sub[0])
		if err != nil {
			return "", err
		}
		return "(" + map[syntax.Op]string{syntax.OpStar: "RStar", syntax.OpPlus: "RPlus", syntax.OpQuest: "RQuest"}[re.Op] + " " + t + ")", nil
	case syntax.OpConcat, syntax.OpAlternate:
		ts, err := sub(re.Sub)
		if err != nil {
			return "", err
		}
		name := "RSeqs"
		if re.Op == syntax.OpAlternate {
			name = "RAlts"
		}
		return "(" + name + " [" + strings.Join(ts, ";\n    ") + "])", nil
	}
	return "", fmt.Errorf("unsupported regexp operator %v", re.Op)
}

// pxAnchoredRegex parses src, requires ^...$ and renders the part in between.
func pxAnchoredRegex(src string) (string, error) {
	re, err := syntax.Parse(src, syntax.Perl)
	if err != nil {
		return "", err
	}
	re = re.Simplify()
	if re.Op != syntax.OpConcat || len(re.Sub) < 2 || re.Sub[0].Op != syntax.OpBeginText || re.Sub[len(re.Sub)-1].Op != syntax.OpEndText {
		return "", fmt.Errorf("expression is not of the form ^...$")
	}
	inner := &syntax.Regexp{Op: syntax.OpConcat, Sub: re.Sub[1 : len(re.Sub)-1]}
	return pxRegex(inner)
}

const proxyDir = "goproxytest"

// callsIn returns the calls `pkg.fn(...)` inside the body of a function, in source order.
func pxCallsIn(fd *ast.FuncDecl, pkg, fn string) []*ast.CallExpr {
	var res []*ast.CallExpr
	if fd == nil || fd.Body == nil {
		return nil
	}
	ast.Inspect(fd.Body, func(n ast.Node) bool {
		c, ok := n.(*ast.CallExpr)
		if !ok {
			return true
		}
		if s, ok := c.Fun.(*ast.SelectorExpr); ok && s.Sel.Name == fn {
			if id, ok := s.X.(*ast.Ident); ok && id.Name == pkg {
				res = append(res, c)
			}
		}
		return true
	})
	return res
}

func pxLitStr(e ast.Expr) (string, bool) {
	if p, ok := e.(*ast.ParenExpr); ok {
		return pxLitStr(p.X)
	}
	b, ok := e.(*ast.BasicLit)
	if !ok || b.Kind != token.STRING {
		return "", false
	}
	s, err := strconv.Unquote(b.Value)
	return s, err == nil
}

func pxLitChar(e ast.Expr) (byte, bool) {
	b, ok := e.(*ast.BasicLit)
	if !ok || b.Kind != token.CHAR {
		return 0, false
	}
	s, err := strconv.Unquote(b.Value)
	if err != nil || len(s) != 1 {
		return 0, false
	}
	return s[0], true
}

// strArgs: for every call pkg.fn in fd, the string literal at argument index k (calls whose
// argument is not a literal are skipped).
func pxStrArgs(fd *ast.FuncDecl, pkg, fn string, k int) []string {
	var res []string
	for _, c := range pxCallsIn(fd, pkg, fn) {
		if k < len(c.Args) {
			if s, ok := pxLitStr(c.Args[k]); ok {
				res = append(res, s)
			}
		}
	}
	return res
}

// flattenAdd returns the operands of a left-nested a + b + c chain.
func pxFlattenAdd(e ast.Expr) []ast.Expr {
	if p, ok := e.(*ast.ParenExpr); ok {
		return pxFlattenAdd(p.X)
	}
	if b, ok := e.(*ast.BinaryExpr); ok && b.Op == token.ADD {
		return append(pxFlattenAdd(b.X), pxFlattenAdd(b.Y)...)
	}
	return []ast.Expr{e}
}

// shape renders an a + "lit" + b chain as  id|"lit"|id  (selectors as x.y).
func pxShape(e ast.Expr) string {
	var parts []string
	for _, o := range pxFlattenAdd(e) {
		switch o := o.(type) {
		case *ast.Ident:
			parts = append(parts, o.Name)
		case *ast.SelectorExpr:
			parts = append(parts, pxShape(o.X)+"."+o.Sel.Name)
		case *ast.BasicLit:
			parts = append(parts, o.Value)
		case *ast.CallExpr:
			parts = append(parts, "call")
		default:
			parts = append(parts, "?")
		}
	}
	return strings.Join(parts, "|")
}

// concatShapes: shapes of all `+` chains with at least one string literal inside fd
// (outermost chains only).
func pxConcatShapes(fd *ast.FuncDecl) []string {
	var res []string
	if fd == nil || fd.Body == nil {
		return nil
	}
	ast.Inspect(fd.Body, func(n ast.Node) bool {
		b, ok := n.(*ast.BinaryExpr)
		if !ok || b.Op != token.ADD {
			return true
		}
		hasLit := false
		for _, o := range pxFlattenAdd(b) {
			if _, ok := pxLitStr(o); ok {
				hasLit = true
			}
		}
		if hasLit {
			res = append(res, pxShape(b))
			return false
		}
		return true
	})
	return res
}

// eqLits: string literals compared with == against identifier/selector `lhs` inside fd.
func pxEqLits(fd *ast.FuncDecl, lhs string) []string {
	var res []string
	if fd == nil || fd.Body == nil {
		return nil
	}
	ast.Inspect(fd.Body, func(n ast.Node) bool {
		b, ok := n.(*ast.BinaryExpr)
		if !ok || b.Op != token.EQL {
			return true
		}
		if pxShape(b.X) == lhs {
			if s, ok := pxLitStr(b.Y); ok {
				res = append(res, s)
			}
		}
		return true
	})
	return res
}

// caseLists: the literal lists of the case clauses of `switch tag {` inside fd.
func pxCaseLists(fd *ast.FuncDecl, tag string) [][]string {
	var res [][]string
	if fd == nil || fd.Body == nil {
		return nil
	}
	ast.Inspect(fd.Body, func(n ast.Node) bool {
		sw, ok := n.(*ast.SwitchStmt)
		if !ok || sw.Tag == nil || pxShape(sw.Tag) != tag {
			return true
		}
		for _, st := range sw.Body.List {
			cc := st.(*ast.CaseClause)
			var l []string
			for _, e := range cc.List {
				if s, ok := pxLitStr(e); ok {
					l = append(l, s)
				} else {
					l = append(l, "<non-literal>")
				}
			}
			res = append(res, l)
		}
		return false
	})
	return res
}

func pxSame(xs []string, n int) (string, bool) {
	if len(xs) != n {
		return "", false
	}
	for _, x := range xs {
		if x != xs[0] {
			return "", false
		}
	}
	return xs[0], true
}

func pxHasShape(shapes []string, want string) bool {
	for _, s := range shapes {
		if s == want {
			return true
		}
	}
	return false
}

// emitByte: Definition name : byte := xNN from a one-byte literal.
func (g *gen) emitProxyByte(coqName, comment, s string) {
	if len(s) != 1 {
		g.fail("%s: one-byte literal expected, found %q", comment, s)
		return
	}
	fmt.Fprintf(&g.buf, "(* %s = %q *)\nDefinition %s : byte := x%02x.\n\n", comment, s, coqName, s[0])
}

func init() {
	groups["Proxy"] = func(g *gen) {
		fmt.Fprintf(&g.buf, "From GI Require Import Proxy.Regex.\n\n")
		// ---------------- handler
		h := g.funcDecl(proxyDir, "Server.handler")
		if h != nil {
			// HasPrefix(r.URL.Path, "/mod/"), HasPrefix(f.Name, "."), TrimPrefix(r.URL.Path, "/mod/")
			var modPre []string
			dot := ""
			for _, c := range append(pxCallsIn(h, "strings", "HasPrefix"), pxCallsIn(h, "strings", "TrimPrefix")...) {
				if len(c.Args) != 2 {
					continue
				}
				s, ok := pxLitStr(c.Args[1])
				if !ok {
					continue
				}
				switch pxShape(c.Args[0]) {
				case "r.URL.Path":
					modPre = append(modPre, s)
				case "f.Name":
					dot = s
				}
			}
			if s, ok := pxSame(modPre, 2); ok {
				g.emitBytesLit("mod_prefix", "handler: strings.HasPrefix/TrimPrefix(r.URL.Path, _)", s)
			} else {
				g.fail("handler: HasPrefix/TrimPrefix on r.URL.Path no longer use one literal: %q", modPre)
			}
			if dot != "" {
				g.emitBytesLit("hidden_prefix", "handler: strings.HasPrefix(f.Name, _) skips the entry in the zip", dot)
			} else {
				g.fail("handler: strings.HasPrefix(f.Name, <literal>) not found")
			}
			idx := pxStrArgs(h, "strings", "Index", 1)
			// len("/@v/") in path[i+len("/@v/"):]
			var lens []string
			ast.Inspect(h.Body, func(n ast.Node) bool {
				if c, ok := n.(*ast.CallExpr); ok {
					if id, ok := c.Fun.(*ast.Ident); ok && id.Name == "len" && len(c.Args) == 1 {
						if s, ok := pxLitStr(c.Args[0]); ok {
							lens = append(lens, s)
						}
					}
				}
				return true
			})
			if s, ok := pxSame(append(idx, lens...), 2); ok {
				g.emitBytesLit("at_v", "handler: strings.Index(path, _) and len(_)", s)
			} else {
				g.fail("handler: Index / len literals for the /@v/ separator changed: %q %q", idx, lens)
			}
			if s, ok := pxSame(pxEqLits(h, "file"), 1); ok {
				g.emitBytesLit("list_name", "handler: file == _", s)
			} else {
				g.fail("handler: file == <literal> not found exactly once")
			}
			var extDot, hashDash string
			for _, c := range pxCallsIn(h, "strings", "LastIndex") {
				if len(c.Args) != 2 {
					continue
				}
				s, ok := pxLitStr(c.Args[1])
				if !ok {
					continue
				}
				switch pxShape(c.Args[0]) {
				case "file":
					extDot = s
				case "m.Version":
					hashDash = s
				}
			}
			if len(extDot) == 1 {
				g.emitProxyByte("ext_sep", "handler: strings.LastIndex(file, _)", extDot)
			} else {
				g.fail("handler: strings.LastIndex(file, <one-byte literal>) not found")
			}
			if len(hashDash) == 1 {
				g.emitProxyByte("hash_sep", "handler: m.Version[strings.LastIndex(m.Version, _)+1:]", hashDash)
			} else {
				g.fail("handler: strings.LastIndex(m.Version, <one-byte literal>) not found")
			}
			cl := pxCaseLists(h, "ext")
			if len(cl) == 2 && len(cl[0]) == 2 && len(cl[1]) == 1 {
				g.emitBytesLit("ext_info", "handler: switch ext, first case, first label", cl[0][0])
				g.emitBytesLit("ext_mod", "handler: switch ext, first case, second label", cl[0][1])
				g.emitBytesLit("ext_zip", "handler: switch ext, second case", cl[1][0])
			} else {
				g.fail("handler: switch ext no longer has the cases {info, mod} {zip}: %q", cl)
			}
			sh := pxConcatShapes(h)
			if pxHasShape(sh, `"."|ext`) {
				g.emitBytesLit("entry_dot", `handler: want := "." + ext`, ".")
			} else {
				g.fail(`handler: want := "." + ext not found (%q)`, sh)
			}
			if pxHasShape(sh, `path|"@"|vers|"/"|f.Name`) {
				g.emitBytesLit("zip_at", `handler: z.Create(path + "@" + vers + "/" + f.Name)`, "@")
				g.emitBytesLit("zip_slash", `handler: z.Create(path + "@" + vers + "/" + f.Name)`, "/")
			} else {
				g.fail(`handler: z.Create(path + "@" + vers + "/" + f.Name) not found (%q)`, sh)
			}
		}
		// ---------------- readModList
		rm := g.funcDecl(proxyDir, "Server.readModList")
		if rm != nil {
			suf := append(pxStrArgs(rm, "strings", "HasSuffix", 1), pxStrArgs(rm, "strings", "TrimSuffix", 1)...)
			// expected order: HasSuffix .txt, HasSuffix .txtar, TrimSuffix .txt, TrimSuffix .txtar
			if len(suf) == 4 && suf[0] == suf[2] && suf[1] == suf[3] && suf[0] != suf[1] {
				g.emitBytesLit("suffix_txt", "readModList: first HasSuffix/TrimSuffix case", suf[0])
				g.emitBytesLit("suffix_txtar", "readModList: second HasSuffix/TrimSuffix case", suf[1])
			} else {
				g.fail("readModList: HasSuffix/TrimSuffix literals changed: %q", suf)
			}
			if s, ok := pxSame(pxStrArgs(rm, "strings", "LastIndex", 1), 1); ok && len(s) == 2 {
				g.emitBytesLit("vers_sep", "readModList: strings.LastIndex(name, _)", s)
			} else {
				g.fail("readModList: strings.LastIndex(name, <two-byte literal>) not found")
			}
			// name[i+1:]
			skip := int64(-1)
			ast.Inspect(rm.Body, func(n ast.Node) bool {
				se, ok := n.(*ast.SliceExpr)
				if !ok || se.Low == nil || se.High != nil || pxShape(se.X) != "name" {
					return true
				}
				if b, ok := se.Low.(*ast.BinaryExpr); ok && b.Op == token.ADD {
					if l, ok := b.Y.(*ast.BasicLit); ok && l.Kind == token.INT {
						if v, err := strconv.ParseInt(l.Value, 0, 64); err == nil {
							skip = v
						}
					}
				}
				return true
			})
			if skip >= 0 {
				fmt.Fprintf(&g.buf, "(* readModList: encVers := name[i+%d:] *)\nDefinition vers_skip : nat := %d.\n\n", skip, skip)
			} else {
				g.fail("readModList: name[i+<int>:] not found")
			}
			ra := pxCallsIn(rm, "strings", "ReplaceAll")
			if len(ra) == 1 && len(ra[0].Args) == 3 {
				a, ok1 := pxLitStr(ra[0].Args[1])
				b, ok2 := pxLitStr(ra[0].Args[2])
				if ok1 && ok2 && len(a) == 1 && len(b) == 1 {
					g.emitProxyByte("disk_sep", "readModList: strings.ReplaceAll(name[:i], _, .)", a)
					g.emitProxyByte("path_sep", "readModList: strings.ReplaceAll(name[:i], ., _)", b)
					// readArchive must do the inverse
					if rd := g.funcDecl(proxyDir, "Server.readArchive"); rd != nil {
						rb := pxCallsIn(rd, "strings", "ReplaceAll")
						okInv := false
						if len(rb) == 1 && len(rb[0].Args) == 3 {
							x, o1 := pxLitStr(rb[0].Args[1])
							y, o2 := pxLitStr(rb[0].Args[2])
							okInv = o1 && o2 && x == b && y == a
						}
						if !okInv {
							g.fail("readArchive: strings.ReplaceAll(enc, %q, %q) (inverse of readModList's) not found", b, a)
						}
						sh := pxConcatShapes(rd)
						if !pxHasShape(sh, `prefix|`+strconv.Quote(a)+`|encVers`) {
							g.fail("readArchive: prefix + %q + encVers not found (%q)", a, sh)
						}
						var txt, txtar string
						for _, s := range sh {
							if strings.HasPrefix(s, "name|") {
								l, err := strconv.Unquote(strings.TrimPrefix(s, "name|"))
								if err != nil {
									continue
								}
								if txt == "" {
									txt = l
								} else {
									txtar = l
								}
							}
						}
						fmt.Fprintf(&g.buf, "(* readArchive: txtName := name + %q; txtarName := name + %q (same literals as readModList is checked by the generator) *)\n\n", txt, txtar)
						suf2 := pxStrArgs(rm, "strings", "HasSuffix", 1)
						if len(suf2) == 2 && !(txt == suf2[0] && txtar == suf2[1]) {
							g.fail("readArchive: name + %q / name + %q differ from readModList's suffixes %q", txt, txtar, suf2)
						}
					}
				} else {
					g.fail("readModList: ReplaceAll arguments are not one-byte literals")
				}
			} else {
				g.fail("readModList: exactly one strings.ReplaceAll expected")
			}
		}
		// ---------------- findHash
		if fh := g.funcDecl(proxyDir, "Server.findHash"); fh != nil {
			if s, ok := pxSame(pxEqLits(fh, "f.Name"), 1); ok {
				g.emitBytesLit("info_entry", "findHash: f.Name == _", s)
			} else {
				g.fail("findHash: f.Name == <literal> not found")
			}
		}
		// ---------------- pseudo.go
		if e := g.valueExpr(proxyDir, "pseudoVersionRE"); e != nil {
			ok := false
			if c, isCall := e.(*ast.CallExpr); isCall && len(c.Args) == 1 {
				if s, isLit := pxLitStr(c.Args[0]); isLit {
					g.emitBytesLit("pseudo_version_re_src", "pseudo.go: pseudoVersionRE = regexp.MustCompile(_)", s)
					if t, err := pxAnchoredRegex(s); err == nil {
						fmt.Fprintf(&g.buf, "(* the same expression as a term of Proxy.Regex (regexp/syntax parse tree, simplified; anchors ^ $ = whole-string match) *)\nDefinition pseudo_version_re : regex :=\n  %s.\n\n", t)
					} else {
						g.fail("pseudoVersionRE cannot be translated: %v", err)
					}
					ok = true
				}
			}
			if !ok {
				g.fail("pseudoVersionRE is no longer regexp.MustCompile(<literal>)")
			}
		}
		if ip := g.funcDecl(proxyDir, "isPseudoVersion"); ip != nil {
			found := false
			ast.Inspect(ip.Body, func(n ast.Node) bool {
				b, ok := n.(*ast.BinaryExpr)
				if !ok || b.Op != token.GEQ {
					return true
				}
				c, ok := b.X.(*ast.CallExpr)
				if !ok || len(c.Args) != 2 {
					return true
				}
				s, ok1 := pxLitStr(c.Args[1])
				l, ok2 := b.Y.(*ast.BasicLit)
				if ok1 && ok2 && l.Kind == token.INT && len(s) == 1 {
					n, _ := strconv.Atoi(l.Value)
					g.emitProxyByte("pseudo_dash", "isPseudoVersion: strings.Count(v, _) >= pseudo_min_dashes", s)
					fmt.Fprintf(&g.buf, "Definition pseudo_min_dashes : nat := %d.\n\n", n)
					found = true
				}
				return true
			})
			if !found {
				g.fail("isPseudoVersion: strings.Count(v, <literal>) >= <int> not found")
			}
			// the conjunction must still mention semver.IsValid and pseudoVersionRE.MatchString
			if len(pxCallsIn(ip, "semver", "IsValid")) != 1 || len(pxCallsIn(ip, "pseudoVersionRE", "MatchString")) != 1 {
				g.fail("isPseudoVersion no longer is Count>=n && semver.IsValid && pseudoVersionRE.MatchString")
			}
		}
		// ---------------- allhex.go
		if ah := g.funcDecl(proxyDir, "allHex"); ah != nil {
			var chars []byte
			ast.Inspect(ah.Body, func(n ast.Node) bool {
				if b, ok := n.(*ast.BinaryExpr); ok && b.Op == token.LEQ {
					if c, ok := pxLitChar(b.X); ok {
						chars = append(chars, c)
					}
					if c, ok := pxLitChar(b.Y); ok {
						chars = append(chars, c)
					}
				}
				return true
			})
			if len(chars) == 4 {
				fmt.Fprintf(&g.buf, "(* allHex: %q <= c && c <= %q || %q <= c && c <= %q *)\nDefinition hex_ranges : list (byte * byte) := [(x%02x, x%02x); (x%02x, x%02x)].\n\n",
					chars[0], chars[1], chars[2], chars[3], chars[0], chars[1], chars[2], chars[3])
			} else {
				g.fail("allHex: two character ranges expected, found %q", chars)
			}
		}
	}
}

package main

import (
	"fmt"
	"go/ast"
	"path/filepath"
	"strings"

	"verif/harness/go2coq"
)

// Group CacheSrc: the pure parts of cache/cache.go translated to Gallina by harness/go2coq,
// written to Gen/CacheSrc.v.  The functions of the cache do file I/O; what is translated are
// the segments between the I/O calls (go2coq.Segment): in get, everything between reading the
// entry bytes and the refresh of the mtime (header and separator checks, slicing, hex.Decode
// of both ids, the id comparison, skipping the padding, both strconv.ParseInt calls and the
// sign checks) and the construction of the result; in putIndexEntry the fmt.Sprintf that
// formats the entry; the method fileName; in used the freshness test; in Trim the test of the
// parsed trim.txt and the cutoff; in trimSubdir the candidate-name test and the staleness
// condition.  Cache/SrcFacts.v and CacheTrim/SrcFacts.v prove them equal to the hand-written
// models (Cache/CacheEntry.v, CacheTrim/CacheTrim.v).  This file holds only the table; the
// denotations of the library calls are Cache/SrcLib.v (each DEFINED from the functions the
// models already use for the same call, which the runners of cmd/cache and cmd/cachetrim
// compare with the Go library).
const cachePkg = "github.com/rogpeppe/go-internal/cache"

var cacheSrcStubs = map[string]string{
	"encoding/hex": "package hex\nfunc Decode(dst, src []byte) (int, error)\n",
	"strconv":      "package strconv\nfunc ParseInt(s string, base int, bitSize int) (i int64, err error)\n",
	"time": `package time
type Time struct{}
type Duration int64
const (
	Nanosecond  Duration = 1
	Microsecond          = 1000 * Nanosecond
	Millisecond          = 1000 * Microsecond
	Second               = 1000 * Millisecond
	Minute               = 60 * Second
	Hour                 = 60 * Minute
)
func Now() Time
func Unix(sec int64, nsec int64) Time
func (t Time) Sub(u Time) Duration
func (t Time) Add(d Duration) Time
func (t Time) Before(u Time) bool
func (t Time) Unix() int64
func (t Time) UnixNano() int64
`,
	"io": `package io
type Reader interface{ Read(p []byte) (n int, err error) }
type Writer interface{ Write(p []byte) (n int, err error) }
type ReadSeeker interface {
	Reader
	Seek(offset int64, whence int) (int64, error)
}
var EOF error
var ErrUnexpectedEOF error
func ReadFull(r Reader, buf []byte) (n int, err error)
`,
	"io/fs": `package fs
import "time"
type FileMode uint32
type FileInfo interface {
	Name() string
	Size() int64
	ModTime() time.Time
	IsDir() bool
}
type PathError struct {
	Op   string
	Path string
	Err  error
}
func (e *PathError) Error() string
`,
	"os": `package os
import ("io/fs"; "time")
type File struct{}
type FileInfo = fs.FileInfo
type FileMode = fs.FileMode
const (
	O_RDONLY int = 0
	O_WRONLY int = 1
	O_RDWR   int = 2
	O_CREATE int = 64
	O_TRUNC  int = 512
)
func Open(name string) (*File, error)
func OpenFile(name string, flag int, perm FileMode) (*File, error)
func Stat(name string) (FileInfo, error)
func Chtimes(name string, atime time.Time, mtime time.Time) error
func Remove(name string) error
func MkdirAll(path string, perm FileMode) error
func ReadFile(name string) ([]byte, error)
func Getenv(key string) string
func (f *File) Close() error
func (f *File) Read(b []byte) (n int, err error)
func (f *File) Write(b []byte) (n int, err error)
func (f *File) WriteString(s string) (n int, err error)
func (f *File) Truncate(size int64) error
func (f *File) Readdirnames(n int) (names []string, err error)
`,
	"path/filepath":    "package filepath\nfunc Join(elem ...string) string\n",
	cachePkgLockedfile: "package lockedfile\nimport \"io\"\nimport \"io/fs\"\nfunc Read(name string) ([]byte, error)\nfunc Write(name string, content io.Reader, perm fs.FileMode) error\n",
}

const cachePkgLockedfile = "github.com/rogpeppe/go-internal/lockedfile"

func init() {
	outFile["CacheSrc"] = "CacheSrc.v"
	stubOnFailure["CacheSrc"] = true
	groups["CacheSrc"] = func(g *gen) {
		stubs := map[string]string{}
		for k, v := range goLibStubs {
			stubs[k] = v
		}
		for k, v := range cacheSrcStubs {
			stubs[k] = v
		}
		stubs["fmt"] = goLibStubs["fmt"] + "func Sprintf(format string, a ...any) string\n"
		lib := map[string]go2coq.LibFunc{}
		for k, v := range goLib {
			lib[k] = v
		}
		// Cache/SrcLib.v
		lib["encoding/hex.Decode"] = go2coq.LibFunc{Coq: "go_hex_Decode", Monadic: true, Out: 1}
		lib["strconv.ParseInt"] = go2coq.LibFunc{Coq: "go_strconv_ParseInt", Monadic: true}
		lib["fmt.Sprintf"] = go2coq.LibFunc{Coq: "go_fmt_Sprintf", Monadic: true}
		lib["path/filepath.Join"] = go2coq.LibFunc{Coq: "go_filepath_Join", Monadic: true}
		lib["time.Unix"] = go2coq.LibFunc{Coq: "go_time_Unix"}
		lib["(time.Time).Sub"] = go2coq.LibFunc{Coq: "go_time_Sub"}
		lib["(time.Time).Add"] = go2coq.LibFunc{Coq: "go_time_Add"}
		lib["(time.Time).Before"] = go2coq.LibFunc{Coq: "go_time_Before"}
		lib["(time.Time).UnixNano"] = go2coq.LibFunc{Coq: "go_time_UnixNano"}
		lib["(io/fs.FileInfo).ModTime"] = go2coq.LibFunc{Coq: "go_fileinfo_ModTime"}
		// the clock: every read of it inside a segment is a parameter of the segment
		lib["time.Now"] = go2coq.LibFunc{Input: true}
		lib[cachePkg+".Cache.now"] = go2coq.LibFunc{Input: true}
		used := "(*" + cachePkg + ".Cache).used"
		cfg := &go2coq.Config{
			Prefix: "src_",
			Stubs:  stubs,
			Lib:    lib,
			Structs: map[string]go2coq.Struct{
				cachePkg + ".Entry": {CoqType: "go_entry", Ctor: "mkEntry",
					Fields: []go2coq.Field{{Go: "OutputID", Getter: "ent_out"}, {Go: "Size", Getter: "ent_size"}, {Go: "Time", Getter: "ent_time"}}},
				cachePkg + ".Cache": {CoqType: "go_cache", Ctor: "mkCache",
					Fields: []go2coq.Field{{Go: "dir", Getter: "cache_dir"}, {Go: "now", Getter: "cache_now"}}},
			},
			Types: map[string]go2coq.LibType{
				// a time.Time without monotonic reading is CacheTrim.v's gotime; the zero Time is year 1
				"time.Time": {Coq: "go_time", Zero: "go_time_zero"},
				// a FileInfo is represented by the one thing read of it, its ModTime
				"io/fs.FileInfo": {Coq: "go_time"},
			},
			Segments: []go2coq.Segment{
				{Func: "Cache.get", Name: "parse", After: "io.ReadFull", Before: used},
				{Func: "Cache.get", Name: "result", After: used},
				{Func: "Cache.putIndexEntry", Name: "entry", From: "fmt.Sprintf", Through: "fmt.Sprintf"},
				{Func: "Cache.fileName", Name: "body"},
				{Func: "Cache.used", Name: "fresh", After: "os.Stat", Before: "os.Chtimes"},
				{Func: "Cache.Trim", Name: "due", In: "strconv.ParseInt"},
				{Func: "Cache.Trim", Name: "cutoff", From: "(time.Time).Add", Through: "(time.Time).Add"},
				{Func: "Cache.trimSubdir", Name: "candidate", In: "os.Stat", Before: "os.Stat"},
				{Func: "Cache.trimSubdir", Name: "stale", Cond: "os.Remove"},
			},
		}
		var files []*ast.File
		for _, f := range g.files("cache") {
			files = append(files, f)
		}
		if len(g.errs) > 0 {
			return
		}
		res, err := go2coq.Translate(g.fset, files, cachePkg, cfg)
		if err != nil {
			g.fail("%s: %v", filepath.Join("cache", "cache.go"), err)
			return
		}
		fmt.Fprintf(&g.buf, "(* cache/cache.go, the pure segments of get, putIndexEntry, fileName, used, Trim and trimSubdir, translated by\n   harness/go2coq (table: harness/cmd/genconsts/gen_cache_src.go).\n")
		fmt.Fprintf(&g.buf, "   Definitions: %s.  Vocabulary: Lib/GoSem.v, Lib/GoSemSeg.v, Cache/SrcLib.v. *)\n", strings.Join(res.Funcs, ", "))
		fmt.Fprintf(&g.buf, "From Coq Require Import Bool.\nFrom GI Require Import Lib.Bytes Lib.GoSem Lib.GoSemSeg Cache.SrcLib.\nImport GoNotations.\nLocal Open Scope go_scope.\n\n")
		g.buf.WriteString(res.Text)
	}
}

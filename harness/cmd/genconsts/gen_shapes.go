package main

// Source fingerprints ("shapes") of the functions a hand-written model mirrors.
//
// The Gallina models of the stateful packages (cache, lockedfile, par, testscript, the proxy,
// the import reader, diff) are written by hand, statement by statement, against one version
// of the Go functions they model; the correspondence run ties them to the code on the inputs
// it happens to execute.  This generator adds a tie that holds for the whole text: for every
// listed function it prints the declaration in a canonical form (comments and positions
// dropped, gofmt layout, local variables, parameters, results and labels renamed v1, v2, …
// in order of declaration) and emits the SHA-256 of that text.  Gen/Shape<Group>.v holds the
// table (name, digest) read from the checked tree now; <Group>/Shapes.v (hand-maintained,
// written by tools/shapes.py when a source version is adopted as "what the model mirrors")
// holds the table the model was written against, and the lemma `shapes_current` states that
// the two are equal.  An edit of a mirrored function therefore re-opens a proof obligation:
// the model is no longer shown to describe the code until someone has looked at the edit
// (tools/shapes.py diff prints it) and updated the model or recorded the new shape.
//
// Not a semantic check: renaming a local, reflowing or commenting the code changes nothing;
// any other edit — also a harmless one — changes the digest.  The canonical texts are written
// next to the table (Gen/Shape<Group>.txt) for the diff.

import (
	"bytes"
	"crypto/sha256"
	"encoding/hex"
	"fmt"
	"go/ast"
	"go/format"
	"go/token"
	"os"
	"path/filepath"
	"sort"
	"strings"
)

// shapeSpec: repo-relative file, then the functions to fingerprint ("*" = every function and
// method declared in the file; methods are named Recv.Name).  A name starting with '-' excludes.
// A spec whose file is a directory ("testscript/") with the single name "<users:a,b,...>" stands for
// every function of that package whose body mentions a field or key named a, b, ... (x.a, {a: ...}):
// each of them is fingerprinted, and the list of their names is one more entry of the table.
type shapeSpec struct {
	file  string
	funcs []string
}

var shapeGroups = map[string][]shapeSpec{
	"Cache": { // C05, C11, C12: entries, lookups, Put
		{"cache/cache.go", []string{"<decls>", "Open", "Cache.fileName", "Cache.Get", "Cache.get", "Cache.GetFile", "Cache.GetBytes", "Cache.OutputFile",
			"Cache.Put", "Cache.PutNoVerify", "Cache.PutBytes", "Cache.put", "Cache.putIndexEntry", "Cache.copyFile", "Cache.used",
			"entryNotFoundError.Error", "entryNotFoundError.Unwrap"}},
		{"cache/hash.go", []string{"*"}},
	},
	"CacheTrim": { // C13: Trim and everything that refreshes a use time
		{"cache/cache.go", []string{"<decls>", "Cache.Trim", "Cache.trimSubdir", "Cache.used", "Cache.get", "Cache.GetFile", "Cache.GetBytes", "Cache.OutputFile",
			"Cache.put", "Cache.putIndexEntry", "Cache.copyFile", "Cache.fileName"}},
	},
	"LockedFile": {
		{"lockedfile/lockedfile.go", []string{"*"}},
		{"lockedfile/lockedfile_filelock.go", []string{"*"}},
		{"lockedfile/mutex.go", []string{"*"}},
		{"lockedfile/internal/filelock/filelock.go", []string{"*"}},
		{"lockedfile/internal/filelock/filelock_unix.go", []string{"*"}},
	},
	"ParWork": { // C09
		{"par/work.go", []string{"<decls>", "Work.init", "Work.Add", "Work.Do", "Work.runner"}},
	},
	"ParCache": { // C10, C20
		{"par/work.go", []string{"<decls>", "Cache.Do", "Cache.Get"}},
	},
	"Diff": {
		{"diff/diff.go", []string{"*"}},
	},
	"ImportsRead": { // C18
		{"imports/read.go", []string{"*"}},
		{"imports/scan.go", []string{"*"}},
	},
	"ImportsBuild": { // C19
		{"imports/build.go", []string{"*"}},
		{"imports/scan.go", []string{"*"}},
	},
	"Proxy": {
		{"goproxytest/proxy.go", []string{"*"}},
		{"goproxytest/pseudo.go", []string{"*"}},
		{"goproxytest/allhex.go", []string{"*"}},
	},
	"TxtarWrite": {
		{"txtar/archive.go", []string{"Write", "isAbs"}},
		{"cmd/txtar-c/savedir.go", []string{"*"}},
		{"cmd/txtar-x/extract.go", []string{"*"}},
	},
	// testscript is split by what each property's model mirrors
	"TsRun": { // C01: interpreter, commands, verdict, CLI
		{"testscript/testscript.go", []string{"TestScript.run", "TestScript.runLine", "TestScript.callBuiltinCmd", "TestScript.condition", "catchFailNow",
			"TestScript.Check", "TestScript.Fatalf", "TestScript.MkAbs", "TestScript.ReadFile", "TestScript.setBuiltinStd", "TestScript.clearBuiltinStd",
			"TestScript.expand", "TestScript.parse", "TestScript.exec", "TestScript.Exec", "TestScript.Chdir"}},
		{"testscript/cmd.go", []string{"*"}},
		{"testscript/exe.go", []string{"*"}},
		{"cmd/testscript/main.go", []string{"*"}},
	},
	"TsUpdate": { // C16
		{"testscript/testscript.go", []string{"TestScript.applyScriptUpdates", "TestScript.run", "TestScript.setup", "TestScript.MkAbs", "TestScript.expand", "writeFile"}},
		{"testscript/cmd.go", []string{"TestScript.cmdCmp", "TestScript.cmdCmpenv", "TestScript.doCmdCmp",
			// the commands that move, copy, remove or link files: the model says they leave scriptFiles alone
			"TestScript.cmdMv", "TestScript.cmdCp", "TestScript.cmdRm", "TestScript.cmdSymlink", "TestScript.cmdCd", "TestScript.cmdMkdir"}},
		// every function of the package that mentions the state of C16 at all, each fingerprinted, plus
		// the LIST of them as one entry: a new reader or writer of that state re-opens the obligation
		{"testscript/", []string{"<users:scriptFiles,scriptUpdates,archive>"}},
	},
	"TsParse": { // C02: splitting, expansion, environment
		{"testscript/testscript.go", []string{"TestScript.parse", "TestScript.expand", "TestScript.setEnv", "TestScript.Getenv", "TestScript.Setenv",
			"TestScript.run", "TestScript.runLine", "TestScript.exec", "TestScript.execBackground", "TestScript.buildExecCmd", "TestScript.setup", "Env.Getenv", "Env.Setenv"}},
		{"testscript/cmd.go", []string{"TestScript.cmdEnv", "TestScript.cmdExec", "TestScript.cmdCmpenv", "TestScript.doCmdCmp", "TestScript.cmdGrep", "scriptMatch"}},
	},
	"TsBatch": { // C04: isolation, cleanup
		{"testscript/testscript.go", []string{"Run", "RunT", "tshim.Run", "writeFile", "TestScript.setup", "TestScript.setEnv", "TestScript.run", "TestScript.Defer", "Env.Defer",
			"TestScript.exec", "TestScript.execBackground", "TestScript.buildExecCmd", "TestScript.BackgroundCmds", "waitOrStop", "interruptProcess", "removeAll",
			"homeEnvName", "tempEnvName", "TestScript.condition", "TestScript.MkAbs"}},
		{"testscript/cmd.go", []string{"TestScript.cmdExec", "TestScript.cmdWait", "TestScript.waitBackground", "TestScript.waitBackgroundOne", "TestScript.cmdKill",
			"TestScript.cmdSkip", "TestScript.cmdStop", "TestScript.cmdCd", "TestScript.cmdEnv", "TestScript.cmdRm"}},
		{"internal/os/execpath/lp_unix.go", []string{"*"}},
	},
	"TsDeadline": { // C17
		{"testscript/testscript.go", []string{"Run", "RunT", "TestScript.run", "TestScript.exec", "TestScript.execBackground", "waitOrStop", "interruptProcess"}},
		{"testscript/cmd.go", []string{"TestScript.cmdExec", "TestScript.cmdWait", "TestScript.waitBackground", "TestScript.waitBackgroundOne", "TestScript.cmdKill"}},
	},
}

func init() {
	for name := range shapeGroups {
		name := name
		outFile["Shape"+name] = "Shape" + name + ".v"
		groups["Shape"+name] = func(g *gen) { emitShapes(g, name, shapeGroups[name]) }
	}
}

func declName(fd *ast.FuncDecl) string {
	if fd.Recv != nil && len(fd.Recv.List) == 1 {
		t := fd.Recv.List[0].Type
		if s, ok := t.(*ast.StarExpr); ok {
			t = s.X
		}
		if ix, ok := t.(*ast.IndexExpr); ok {
			t = ix.X
		}
		if id, ok := t.(*ast.Ident); ok {
			return id.Name + "." + fd.Name.Name
		}
	}
	return fd.Name.Name
}

// canonical renders one declaration: no comments, locals renamed in order of declaration.
func canonical(fd *ast.FuncDecl) (string, error) {
	lo, hi := fd.Pos(), fd.End()
	names := map[*ast.Object]string{}
	// (Object.Pos finds the declaring identifier by NAME: all positions are taken before any renaming)
	rename := func(id *ast.Ident) {
		if n, ok := names[id.Obj]; ok && id.Obj != nil {
			id.Name = n
		}
	}
	// declaration order = source order of the declaring identifiers: collect, sort, then number
	var decls []*ast.Object
	seen := map[*ast.Object]bool{}
	ast.Inspect(fd, func(n ast.Node) bool {
		if id, ok := n.(*ast.Ident); ok && id.Obj != nil && !seen[id.Obj] {
			seen[id.Obj] = true
			decls = append(decls, id.Obj)
		}
		return true
	})
	sort.Slice(decls, func(i, j int) bool { return decls[i].Pos() < decls[j].Pos() })
	for _, o := range decls {
		if o.Pos() >= lo && o.Pos() < hi && o.Pos() != fd.Name.Pos() && o.Name != "_" &&
			(o.Kind == ast.Var || o.Kind == ast.Lbl || o.Kind == ast.Con || o.Kind == ast.Typ) {
			names[o] = fmt.Sprintf("v%d", len(names)+1)
		}
	}
	ast.Inspect(fd, func(n ast.Node) bool {
		if id, ok := n.(*ast.Ident); ok {
			rename(id)
		}
		return true
	})
	doc := fd.Doc
	fd.Doc = nil
	var b bytes.Buffer
	err := format.Node(&b, token.NewFileSet(), fd) // a fresh file set: no comments, canonical layout
	fd.Doc = doc
	return b.String(), err
}

func emitShapes(g *gen, group string, specs []shapeSpec) {
	type ent struct{ name, text, sum string }
	var ents []ent
	have := map[string]bool{}
	for _, sp := range specs {
		if strings.HasSuffix(sp.file, "/") {
			dir := strings.TrimSuffix(sp.file, "/")
			if len(sp.funcs) != 1 || !strings.HasPrefix(sp.funcs[0], "<users:") || !strings.HasSuffix(sp.funcs[0], ">") {
				g.fail("%s: a directory spec needs the single name <users:field,...>", sp.file)
				continue
			}
			sel := map[string]bool{}
			for _, n := range strings.Split(strings.TrimSuffix(strings.TrimPrefix(sp.funcs[0], "<users:"), ">"), ",") {
				sel[n] = true
			}
			var users []string
			for _, f := range g.files(dir) {
				fname := dir + "/" + filepath.Base(g.fset.Position(f.Pos()).Filename)
				for _, d := range f.Decls {
					fd, ok := d.(*ast.FuncDecl)
					if !ok || fd.Body == nil {
						continue
					}
					uses := false
					ast.Inspect(fd.Body, func(n ast.Node) bool {
						switch x := n.(type) {
						case *ast.SelectorExpr:
							if sel[x.Sel.Name] {
								uses = true
							}
						case *ast.KeyValueExpr:
							if id, ok := x.Key.(*ast.Ident); ok && sel[id.Name] {
								uses = true
							}
						}
						return !uses
					})
					if !uses {
						continue
					}
					name := fname + ":" + declName(fd)
					users = append(users, name)
					if have[name] {
						continue
					}
					txt, err := canonical(fd)
					if err != nil {
						g.fail("%s: cannot print %s: %v", fname, declName(fd), err)
						continue
					}
					h := sha256.Sum256([]byte(txt))
					ents = append(ents, ent{name, txt, hex.EncodeToString(h[:])})
					have[name] = true
				}
			}
			sort.Strings(users)
			if len(users) == 0 {
				g.fail("%s: no function mentions %s: the state the model describes is gone or renamed", sp.file, sp.funcs[0])
			}
			txt := strings.Join(users, "\n") + "\n"
			h := sha256.Sum256([]byte(txt))
			ents = append(ents, ent{sp.file + ":" + sp.funcs[0], txt, hex.EncodeToString(h[:])})
			continue
		}
		dir, base := filepath.Dir(sp.file), filepath.Base(sp.file)
		var file *ast.File
		for _, f := range g.files(dir) {
			if filepath.Base(g.fset.Position(f.Pos()).Filename) == base {
				file = f
			}
		}
		if file == nil {
			g.fail("%s: file not found", sp.file)
			continue
		}
		all := false
		want := map[string]bool{}
		decls := false
		for _, n := range sp.funcs {
			if n == "*" {
				all, decls = true, true
			} else if n == "<decls>" {
				decls = true
			} else {
				want[n] = false
			}
		}
		for _, d := range file.Decls {
			fd, ok := d.(*ast.FuncDecl)
			if !ok {
				continue
			}
			n := declName(fd)
			if _, listed := want[n]; !all && !listed {
				continue
			}
			want[n] = true
			txt, err := canonical(fd)
			if err != nil {
				g.fail("%s: cannot print %s: %v", sp.file, n, err)
				continue
			}
			h := sha256.Sum256([]byte(txt))
			if have[sp.file+":"+n] {
				continue
			}
			have[sp.file+":"+n] = true
			ents = append(ents, ent{sp.file + ":" + n, txt, hex.EncodeToString(h[:])})
		}
		for n, found := range want {
			if !found {
				g.fail("%s: function %s not found (renamed or removed): the model that mirrors it is no longer tied to the source", sp.file, n)
			}
		}
		if decls { // package-level declarations of the file (vars, consts, types), as one entry
			var b bytes.Buffer
			for _, d := range file.Decls {
				gd, ok := d.(*ast.GenDecl)
				if !ok || gd.Tok == token.IMPORT {
					continue
				}
				doc := gd.Doc
				gd.Doc = nil
				stripSpecDocs(gd)
				format.Node(&b, token.NewFileSet(), gd)
				b.WriteString("\n")
				gd.Doc = doc
			}
			h := sha256.Sum256(b.Bytes())
			ents = append(ents, ent{sp.file + ":<package-level declarations>", b.String(), hex.EncodeToString(h[:])})
		}
	}
	sort.Slice(ents, func(i, j int) bool { return ents[i].name < ents[j].name })
	fmt.Fprintf(&g.buf, "(* shape table of group %s: (function, SHA-256 of its canonical text); see harness/cmd/genconsts/gen_shapes.go *)\n", group)
	fmt.Fprintf(&g.buf, "Definition shape_table : list (list byte * list byte) :=\n  [")
	var side bytes.Buffer
	for i, e := range ents {
		if i > 0 {
			g.buf.WriteString(";\n   ")
		}
		fmt.Fprintf(&g.buf, "(* %s *) (%s,\n      %s)", e.name, coqBytes(e.name), coqBytes(e.sum))
		fmt.Fprintf(&side, "==== %s %s\n%s\n", e.name, e.sum, e.text)
	}
	g.buf.WriteString("].\n")
	if len(g.errs) == 0 && shapeSideDir != "" {
		p := filepath.Join(shapeSideDir, "Shape"+group+".txt")
		if old, _ := os.ReadFile(p); !bytes.Equal(old, side.Bytes()) {
			os.WriteFile(p, side.Bytes(), 0o644)
		}
	}
}

func stripSpecDocs(gd *ast.GenDecl) {
	for _, s := range gd.Specs {
		switch s := s.(type) {
		case *ast.ValueSpec:
			s.Doc, s.Comment = nil, nil
		case *ast.TypeSpec:
			s.Doc, s.Comment = nil, nil
			if st, ok := s.Type.(*ast.StructType); ok && st.Fields != nil {
				for _, f := range st.Fields.List {
					f.Doc, f.Comment = nil, nil
				}
			}
			if it, ok := s.Type.(*ast.InterfaceType); ok && it.Methods != nil {
				for _, f := range it.Methods.List {
					f.Doc, f.Comment = nil, nil
				}
			}
		}
	}
}

// shapeSideDir: where the canonical texts go (set from -out in main through shapeSide)
var shapeSideDir = ""

func init() {
	// the -out flag is parsed in main; the side files go to the same directory
	for i, a := range os.Args {
		if a == "-out" && i+1 < len(os.Args) {
			shapeSideDir = os.Args[i+1]
		} else if strings.HasPrefix(a, "-out=") {
			shapeSideDir = strings.TrimPrefix(a, "-out=")
		}
	}
}

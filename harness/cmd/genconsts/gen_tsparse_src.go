package main

import (
	"fmt"
	"go/ast"
	"path/filepath"
	"runtime"
	"strings"

	"verif/harness/go2coq"
)

// Group TsParseSrc: the line tokenizer, the expansion and the environment of
// testscript/testscript.go -- envvarname, (*TestScript).Getenv, Setenv, setEnv, expand, parse -- and
// the env command (*TestScript).cmdEnv of testscript/cmd.go
// translated to Gallina by harness/go2coq, written to Gen/TsParseSrc.v.  TsParse/SrcFacts.v
// proves every generated function equal to the hand-written model TsParse/TsParse.v, so a
// change of these functions that changes the generated text re-opens those proofs.  This file
// holds only the table: which functions, the denotation of *TestScript (the record ts_recv of
// exactly the fields these methods touch), of the library calls (TsParse/SrcLib.v), which map
// type is written, which method does not return.
func init() {
	outFile["TsParseSrc"] = "TsParseSrc.v"
	stubOnFailure["TsParseSrc"] = true
	groups["TsParseSrc"] = func(g *gen) {
		stubs := map[string]string{}
		for k, v := range goLibStubs {
			stubs[k] = v
		}
		stubs["strings"] = goLibStubs["strings"] + "func TrimSuffix(s, suffix string) string\nfunc ToLower(s string) string\n"
		stubs["os"] = "package os\nfunc Expand(s string, mapping func(string) string) string\n"
		stubs["regexp"] = "package regexp\nfunc QuoteMeta(s string) string\n"
		// the operating system the check runs on (envvarname folds names on Windows only)
		stubs["runtime"] = fmt.Sprintf("package runtime\nconst GOOS = %q\n", runtime.GOOS)
		lib := map[string]go2coq.LibFunc{}
		for k, v := range goLib {
			lib[k] = v
		}
		// TsParse/SrcLib.v: each is the function the model TsParse.v uses for the same call
		lib["strings.TrimSuffix"] = go2coq.LibFunc{Coq: "go_strings_TrimSuffix"}
		lib["strings.ToLower"] = go2coq.LibFunc{Coq: "go_strings_ToLower", Monadic: true}
		lib["regexp.QuoteMeta"] = go2coq.LibFunc{Coq: "go_regexp_QuoteMeta"}
		// os.Expand calls its mapping only while it runs (the literal it is given denotes bytes -> res bytes)
		lib["os.Expand"] = go2coq.LibFunc{Coq: "go_os_Expand", Monadic: true}
		const pkg = "github.com/rogpeppe/go-internal/testscript"
		cfg := &go2coq.Config{
			Prefix: "src_",
			Funcs: []string{"envvarname", "TestScript.Getenv", "TestScript.Setenv", "TestScript.setEnv",
				"TestScript.expand", "TestScript.parse", "TestScript.cmdEnv"},
			Stubs: stubs,
			Lib:   lib,
			Structs: map[string]go2coq.Struct{
				// TsParse/SrcLib.v: Record ts_recv := { r_line; r_env; r_envMap }
				pkg + ".TestScript": {CoqType: "ts_recv", Ctor: "Build_ts_recv", Partial: true,
					Fields: []go2coq.Field{{Go: "line", Getter: "r_line"}, {Go: "env", Getter: "r_env"}, {Go: "envMap", Getter: "r_envMap"}},
					// Setenv appends to ts.env: that no live slice shares the spare capacity of its
					// backing array is claimed here (exec hands append(ts.env, "PWD=...") to a command
					// that has copied it before the next line runs)
					Owned: []string{"env"}},
			},
			// ts.envMap is read and written, and nil until setEnv makes it
			// (and the map[string]bool that cmdEnv makes to print every name once)
			RefMaps: []string{"map[string]string", "map[string]bool"},
			// Fatalf logs and panics with failNow (checked: the body ends in panic(...), no return)
			NoReturn: []string{"TestScript.Fatalf"},
			// Logf writes to ts.log only (checked: it assigns none of line / env / envMap): what
			// the env command prints is outside the denoted state
			Frame: []string{"TestScript.Logf"},
		}
		var files []*ast.File
		for _, f := range g.files("testscript") {
			files = append(files, f)
		}
		if len(g.errs) > 0 {
			return
		}
		res, err := go2coq.Translate(g.fset, files, pkg, cfg)
		if err != nil {
			g.fail("%s: %v", filepath.Join("testscript", "testscript.go"), err)
			return
		}
		fmt.Fprintf(&g.buf, "(* testscript/testscript.go, the tokenizer, the expansion and the environment, translated by harness/go2coq\n   (table: harness/cmd/genconsts/gen_tsparse_src.go).\n")
		fmt.Fprintf(&g.buf, "   Functions: %s.  Vocabulary: Lib/GoSem.v, Lib/GoSemExt.v, Lib/GoSemState.v, TsParse/SrcLib.v. *)\n", strings.Join(res.Funcs, ", "))
		fmt.Fprintf(&g.buf, "From Coq Require Import Bool.\nFrom GI Require Import Lib.Bytes Lib.GoSem Lib.GoSemExt Lib.GoSemState TsParse.SrcLib.\nImport GoNotations.\nLocal Open Scope go_scope.\n\n")
		g.buf.WriteString(res.Text)
	}
}

package main

// Group "Cache": constants of /repo/cache the theorems of C05/C12/C11 mention.
//
//	HashSize, hexSize, entrySize          evaluated from the const declarations
//	entry_format                          first argument of fmt.Sprintf in putIndexEntry
//	entry_num_width                       width of the two decimal fields as sliced by get (esize)
//	index_key / data_key, name_sep        the "a"/"d" keys passed to fileName and the "-" it inserts
//	index_suffix / data_suffix            "-a" / "-d"
//	index_open_flags                      flags of os.OpenFile in putIndexEntry
//	copy_open_flags, copy_open_flags_big  flags of os.OpenFile in copyFile (base, and those or-ed in
//	                                      when the existing file is larger)

import (
	"fmt"
	"go/ast"
	"go/token"
	"strconv"
)

// cacheFlagNames collects the os.O_* selector names of an or-expression.
func cacheFlagNames(e ast.Expr, out *[]string) bool {
	switch e := e.(type) {
	case *ast.BinaryExpr:
		if e.Op != token.OR {
			return false
		}
		return cacheFlagNames(e.X, out) && cacheFlagNames(e.Y, out)
	case *ast.ParenExpr:
		return cacheFlagNames(e.X, out)
	case *ast.SelectorExpr:
		if x, ok := e.X.(*ast.Ident); ok && x.Name == "os" {
			*out = append(*out, e.Sel.Name)
			return true
		}
	}
	return false
}

// cacheModeFlags finds, inside fn, `mode := <flags>` and every `mode |= <flags>`.
func cacheModeFlags(fn *ast.FuncDecl) (base, extra []string, ok bool) {
	okAll := true
	found := false
	ast.Inspect(fn.Body, func(n ast.Node) bool {
		as, isAs := n.(*ast.AssignStmt)
		if !isAs || len(as.Lhs) != 1 || len(as.Rhs) != 1 {
			return true
		}
		id, isID := as.Lhs[0].(*ast.Ident)
		if !isID || id.Name != "mode" {
			return true
		}
		switch as.Tok {
		case token.DEFINE, token.ASSIGN:
			found = true
			if !cacheFlagNames(as.Rhs[0], &base) {
				okAll = false
			}
		case token.OR_ASSIGN:
			if !cacheFlagNames(as.Rhs[0], &extra) {
				okAll = false
			}
		default:
			okAll = false
		}
		return true
	})
	return base, extra, okAll && found
}

// cacheOpenUsesMode checks that fn calls os.OpenFile(_, mode, _) exactly once.
func cacheOpenUsesMode(fn *ast.FuncDecl) bool {
	n := 0
	good := true
	ast.Inspect(fn.Body, func(x ast.Node) bool {
		c, ok := x.(*ast.CallExpr)
		if !ok {
			return true
		}
		se, ok := c.Fun.(*ast.SelectorExpr)
		if !ok || se.Sel.Name != "OpenFile" {
			return true
		}
		n++
		if len(c.Args) != 3 {
			good = false
			return true
		}
		if id, ok := c.Args[1].(*ast.Ident); !ok || id.Name != "mode" {
			good = false
		}
		return true
	})
	return good && n == 1
}

// cacheFileNameKeys lists the string literals passed as second argument of c.fileName in fn.
func cacheFileNameKeys(fn *ast.FuncDecl) []string {
	var keys []string
	ast.Inspect(fn.Body, func(x ast.Node) bool {
		c, ok := x.(*ast.CallExpr)
		if !ok || len(c.Args) != 2 {
			return true
		}
		se, ok := c.Fun.(*ast.SelectorExpr)
		if !ok || se.Sel.Name != "fileName" {
			return true
		}
		if bl, ok := c.Args[1].(*ast.BasicLit); ok && bl.Kind == token.STRING {
			if s, err := strconv.Unquote(bl.Value); err == nil {
				keys = append(keys, s)
			}
		}
		return true
	})
	return keys
}

func cacheAllSame(xs []string) (string, bool) {
	if len(xs) == 0 {
		return "", false
	}
	for _, x := range xs {
		if x != xs[0] {
			return "", false
		}
	}
	return xs[0], true
}

// cacheCallPos returns the positions of the calls in fn whose function is the selector recv.name
// (recv == "" matches any receiver expression).
func cacheCallPos(fn *ast.FuncDecl, recv, name string) []token.Pos {
	var out []token.Pos
	ast.Inspect(fn.Body, func(x ast.Node) bool {
		c, ok := x.(*ast.CallExpr)
		if !ok {
			return true
		}
		se, ok := c.Fun.(*ast.SelectorExpr)
		if !ok || se.Sel.Name != name {
			return true
		}
		if recv != "" {
			if id, ok := se.X.(*ast.Ident); !ok || id.Name != recv {
				return true
			}
		}
		out = append(out, c.Pos())
		return true
	})
	return out
}

func cacheIncreasing(ps ...[]token.Pos) bool {
	last := token.NoPos
	for _, p := range ps {
		if len(p) != 1 || p[0] <= last {
			return false
		}
		last = p[0]
	}
	return true
}

// cacheBlocksWith counts the blocks of fn that contain, as direct statements, a call
// recv.name(arg0) (as an expression statement) followed later in the same block by a return.
func cacheBlocksWith(fn *ast.FuncDecl, recv, name, arg0 string) int {
	n := 0
	ast.Inspect(fn.Body, func(x ast.Node) bool {
		b, ok := x.(*ast.BlockStmt)
		if !ok {
			return true
		}
		for i, st := range b.List {
			es, ok := st.(*ast.ExprStmt)
			if !ok {
				continue
			}
			c, ok := es.X.(*ast.CallExpr)
			if !ok {
				continue
			}
			se, ok := c.Fun.(*ast.SelectorExpr)
			if !ok || se.Sel.Name != name {
				continue
			}
			if id, ok := se.X.(*ast.Ident); !ok || id.Name != recv {
				continue
			}
			if arg0 != "" {
				if len(c.Args) != 1 {
					continue
				}
				switch a := c.Args[0].(type) {
				case *ast.BasicLit:
					if a.Value != arg0 {
						continue
					}
				case *ast.Ident:
					if a.Name != arg0 {
						continue
					}
				default:
					continue
				}
			}
			for _, later := range b.List[i+1:] {
				if _, ok := later.(*ast.ReturnStmt); ok {
					n++
					break
				}
			}
		}
		return true
	})
	return n
}

// cacheDeferCloseAfter: among the direct statements of fn's body, `f, err := os.<open>(...)` is
// followed by `if err != nil { ... }` and then `defer f.Close()`.
func cacheDeferCloseAfter(fn *ast.FuncDecl, open string) bool {
	l := fn.Body.List
	for i, st := range l {
		as, ok := st.(*ast.AssignStmt)
		if !ok || len(as.Rhs) != 1 || len(as.Lhs) != 2 {
			continue
		}
		c, ok := as.Rhs[0].(*ast.CallExpr)
		if !ok {
			continue
		}
		se, ok := c.Fun.(*ast.SelectorExpr)
		if !ok || se.Sel.Name != open {
			continue
		}
		if x, ok := se.X.(*ast.Ident); !ok || x.Name != "os" {
			continue
		}
		v, ok := as.Lhs[0].(*ast.Ident)
		if !ok || i+2 >= len(l) {
			return false
		}
		if _, ok := l[i+1].(*ast.IfStmt); !ok {
			return false
		}
		d, ok := l[i+2].(*ast.DeferStmt)
		if !ok {
			return false
		}
		ds, ok := d.Call.Fun.(*ast.SelectorExpr)
		if !ok || ds.Sel.Name != "Close" {
			return false
		}
		dx, ok := ds.X.(*ast.Ident)
		return ok && dx.Name == v.Name
	}
	return false
}

// cacheCloseFollowsCopy: some block of fn has the statement `io.Copy(h, f)` directly followed by `f.Close()`.
func cacheCloseFollowsCopy(fn *ast.FuncDecl) bool {
	isCall := func(st ast.Stmt, recv, name string) bool {
		es, ok := st.(*ast.ExprStmt)
		if !ok {
			return false
		}
		c, ok := es.X.(*ast.CallExpr)
		if !ok {
			return false
		}
		se, ok := c.Fun.(*ast.SelectorExpr)
		if !ok || se.Sel.Name != name {
			return false
		}
		x, ok := se.X.(*ast.Ident)
		return ok && x.Name == recv
	}
	n, copies := 0, 0
	ast.Inspect(fn.Body, func(x ast.Node) bool {
		b, ok := x.(*ast.BlockStmt)
		if !ok {
			return true
		}
		for i, st := range b.List {
			if isCall(st, "io", "Copy") {
				copies++
				if i+1 < len(b.List) && isCall(b.List[i+1], "f", "Close") {
					n++
				}
			}
		}
		return true
	})
	return n == 1 && copies == 1
}

// cachePutBytesViaPut: the body is `_, _, err := c.Put(id, bytes.NewReader(data)); return err`.
func cachePutBytesViaPut(fn *ast.FuncDecl) bool {
	l := fn.Body.List
	if len(l) != 2 {
		return false
	}
	as, ok := l[0].(*ast.AssignStmt)
	if !ok || len(as.Rhs) != 1 || len(as.Lhs) != 3 {
		return false
	}
	c, ok := as.Rhs[0].(*ast.CallExpr)
	if !ok || len(c.Args) != 2 {
		return false
	}
	se, ok := c.Fun.(*ast.SelectorExpr)
	if !ok || se.Sel.Name != "Put" {
		return false
	}
	if a0, ok := c.Args[0].(*ast.Ident); !ok || a0.Name != "id" {
		return false
	}
	nr, ok := c.Args[1].(*ast.CallExpr)
	if !ok || len(nr.Args) != 1 {
		return false
	}
	ns, ok := nr.Fun.(*ast.SelectorExpr)
	if !ok || ns.Sel.Name != "NewReader" {
		return false
	}
	if x, ok := ns.X.(*ast.Ident); !ok || x.Name != "bytes" {
		return false
	}
	if a, ok := nr.Args[0].(*ast.Ident); !ok || a.Name != "data" {
		return false
	}
	r, ok := l[1].(*ast.ReturnStmt)
	if !ok || len(r.Results) != 1 {
		return false
	}
	e, ok := r.Results[0].(*ast.Ident)
	return ok && e.Name == "err"
}

func cacheEmitBool(g *gen, name, comment string, v bool) {
	fmt.Fprintf(&g.buf, "(* %s *)\nDefinition %s : bool := %v.\n\n", comment, name, v)
}

func cacheShape(g *gen) {
	const dir = "cache"
	if fn := g.funcDecl(dir, "Cache.put"); fn != nil {
		ok := cacheIncreasing(cacheCallPos(fn, "file", "Seek"), cacheCallPos(fn, "io", "Copy"),
			cacheCallPos(fn, "c", "copyFile"), cacheCallPos(fn, "c", "putIndexEntry"))
		cacheEmitBool(g, "put_order_ok", "cache.put: Seek, io.Copy (hash pass), copyFile, putIndexEntry, once each and in this order", ok)
	}
	if fn := g.funcDecl(dir, "Cache.copyFile"); fn != nil {
		// the last-byte commit: CopyN(w, file, size-1); file.Read(buf); bytes.Equal(sum, out); f.Write(buf); f.Close()
		copyN := cacheCallPos(fn, "io", "CopyN")
		sizeMinus1 := false
		ast.Inspect(fn.Body, func(x ast.Node) bool {
			c, ok := x.(*ast.CallExpr)
			if !ok || len(c.Args) != 3 {
				return true
			}
			if se, ok := c.Fun.(*ast.SelectorExpr); ok && se.Sel.Name == "CopyN" {
				if be, ok := c.Args[2].(*ast.BinaryExpr); ok && be.Op == token.SUB {
					if a, ok := be.X.(*ast.Ident); ok && a.Name == "size" {
						if b, ok := be.Y.(*ast.BasicLit); ok && b.Value == "1" {
							sizeMinus1 = true
						}
					}
				}
			}
			return true
		})
		closes := cacheCallPos(fn, "f", "Close")
		var lastClose []token.Pos
		if len(closes) >= 1 {
			lastClose = closes[len(closes)-1:]
		}
		seeks := cacheCallPos(fn, "file", "Seek")
		ok := sizeMinus1 && cacheIncreasing(cacheCallPos(fn, "os", "OpenFile"), seeks, copyN, cacheCallPos(fn, "file", "Read"),
			cacheCallPos(fn, "bytes", "Equal"), cacheCallPos(fn, "f", "Write"), lastClose)
		cacheEmitBool(g, "copy_commit_ok", "cache.copyFile: OpenFile, Seek, io.CopyN(w, file, size-1), file.Read(buf), bytes.Equal(sum, out), f.Write(buf), f.Close in this order (the last byte commits)", ok)
		cacheEmitBool(g, "copy_truncates_on_failure", "cache.copyFile: five failure exits, each f.Truncate(0) then return", cacheBlocksWith(fn, "f", "Truncate", "0") == 5)
		cacheEmitBool(g, "copy_removes_on_close_failure", "cache.copyFile: os.Remove(name) then return when the final Close fails", cacheBlocksWith(fn, "os", "Remove", "name") == 1)
		cacheEmitBool(g, "copy_closes_ok", "cache.copyFile: `defer f.Close()` right after the checked os.OpenFile, and in the already-stored check `f.Close()` right after `io.Copy(h, f)`: every path closes what it opened", cacheDeferCloseAfter(fn, "OpenFile") && cacheCloseFollowsCopy(fn))
	}
	if fn := g.funcDecl(dir, "Cache.get"); fn != nil {
		cacheEmitBool(g, "get_defers_close", "cache.get: `defer f.Close()` right after the checked os.Open", cacheDeferCloseAfter(fn, "Open"))
	}
	// hash.go: Subkey writes "subkey:", parent[:], []byte(desc) into one SHA-256, in this order
	if fn := g.funcDecl(dir, "Subkey"); fn != nil {
		var writes []ast.Expr
		ast.Inspect(fn.Body, func(x ast.Node) bool {
			c, ok := x.(*ast.CallExpr)
			if !ok || len(c.Args) != 1 {
				return true
			}
			if se, ok := c.Fun.(*ast.SelectorExpr); ok && se.Sel.Name == "Write" {
				if id, ok := se.X.(*ast.Ident); ok && id.Name == "h" {
					writes = append(writes, c.Args[0])
				}
			}
			return true
		})
		prefix, okShape := "", false
		if len(writes) == 3 {
			// []byte("subkey:")
			if c, ok := writes[0].(*ast.CallExpr); ok && len(c.Args) == 1 {
				if s, ok := g.str(c.Args[0]); ok {
					prefix = s
					// parent[:]
					if sl, ok := writes[1].(*ast.SliceExpr); ok && sl.Low == nil && sl.High == nil {
						if id, ok := sl.X.(*ast.Ident); ok && id.Name == "parent" {
							// []byte(desc)
							if c2, ok := writes[2].(*ast.CallExpr); ok && len(c2.Args) == 1 {
								if id2, ok := c2.Args[0].(*ast.Ident); ok && id2.Name == "desc" {
									okShape = true
								}
							}
						}
					}
				}
			}
		}
		if !okShape {
			g.fail("cache.Subkey: h.Write([]byte(<literal>)); h.Write(parent[:]); h.Write([]byte(desc)) not found")
		} else {
			g.emitBytesLit("subkey_prefix", "first bytes cache.Subkey feeds to SHA-256 (then parent[:], then []byte(desc))", prefix)
		}
	} else {
		g.fail("cache.Subkey not found")
	}
	if fn := g.funcDecl(dir, "FileHash"); fn != nil {
		// the memo table is consulted first, and filled (SetFileHash) only after a successful hash
		look := false
		ast.Inspect(fn.Body, func(x ast.Node) bool {
			if ix, ok := x.(*ast.IndexExpr); ok {
				if se, ok := ix.X.(*ast.SelectorExpr); ok && se.Sel.Name == "m" {
					if id, ok := se.X.(*ast.Ident); ok && id.Name == "hashFileCache" {
						look = true
					}
				}
			}
			return true
		})
		var setPos []token.Pos
		ast.Inspect(fn.Body, func(x ast.Node) bool {
			if c, ok := x.(*ast.CallExpr); ok {
				if id, ok := c.Fun.(*ast.Ident); ok && id.Name == "SetFileHash" {
					setPos = append(setPos, c.Pos())
				}
			}
			return true
		})
		opens := cacheCallPos(fn, "os", "Open")
		copies := cacheCallPos(fn, "io", "Copy")
		closes := cacheCallPos(fn, "f", "Close")
		ok := look && cacheIncreasing(opens, copies, closes, setPos)
		cacheEmitBool(g, "file_hash_memo_ok", "cache.FileHash: look hashFileCache.m up first; else os.Open, io.Copy, f.Close, SetFileHash, once each and in this order", ok)
	} else {
		g.fail("cache.FileHash not found")
	}
	if fn := g.funcDecl(dir, "Cache.PutBytes"); fn != nil {
		cacheEmitBool(g, "put_bytes_via_put", "cache.PutBytes is `_, _, err := c.Put(id, bytes.NewReader(data)); return err` and nothing else", cachePutBytesViaPut(fn))
	} else {
		g.fail("cache.PutBytes not found")
	}
	if fn := g.funcDecl(dir, "Cache.putIndexEntry"); fn != nil {
		trunc := cacheCallPos(fn, "f", "Truncate")
		ok := cacheIncreasing(cacheCallPos(fn, "os", "OpenFile"), cacheCallPos(fn, "f", "WriteString"), trunc,
			cacheCallPos(fn, "f", "Close"), cacheCallPos(fn, "os", "Remove"))
		// the truncation happens only when the write succeeded: it sits in `if err == nil { ... }`
		inIf := false
		ast.Inspect(fn.Body, func(x ast.Node) bool {
			is, ok := x.(*ast.IfStmt)
			if !ok {
				return true
			}
			be, ok := is.Cond.(*ast.BinaryExpr)
			if !ok || be.Op != token.EQL {
				return true
			}
			a, ok1 := be.X.(*ast.Ident)
			b, ok2 := be.Y.(*ast.Ident)
			if ok1 && ok2 && a.Name == "err" && b.Name == "nil" && len(trunc) == 1 && is.Body.Pos() < trunc[0] && trunc[0] < is.Body.End() {
				inIf = true
			}
			return true
		})
		cacheEmitBool(g, "index_write_then_truncate", "cache.putIndexEntry: OpenFile, f.WriteString(entry), then (if the write succeeded) f.Truncate, f.Close, os.Remove on failure, in this order", ok && inIf)
		cacheEmitBool(g, "index_removes_on_failure", "cache.putIndexEntry: os.Remove(file) then return when anything failed", cacheBlocksWith(fn, "os", "Remove", "file") == 1)
	}
}

func init() {
	groups["Cache"] = func(g *gen) {
		const dir = "cache"
		g.emitZ("HashSize", dir, "HashSize")
		g.emitZ("hexSize", dir, "hexSize")
		g.emitZ("entrySize", dir, "entrySize")

		// entry format string
		if fn := g.funcDecl(dir, "Cache.putIndexEntry"); fn != nil {
			var format string
			nfmt := 0
			ast.Inspect(fn.Body, func(x ast.Node) bool {
				as, ok := x.(*ast.AssignStmt)
				if !ok || len(as.Lhs) != 1 || len(as.Rhs) != 1 {
					return true
				}
				id, ok := as.Lhs[0].(*ast.Ident)
				if !ok || id.Name != "entry" {
					return true
				}
				c, ok := as.Rhs[0].(*ast.CallExpr)
				if !ok || len(c.Args) != 5 {
					return true
				}
				se, ok := c.Fun.(*ast.SelectorExpr)
				if !ok || se.Sel.Name != "Sprintf" {
					return true
				}
				if s, ok := g.str(c.Args[0]); ok {
					// the four arguments must still be id, out, size, <time>
					names := []string{"id", "out", "size"}
					okArgs := true
					for i, n := range names {
						if a, ok := c.Args[1+i].(*ast.Ident); !ok || a.Name != n {
							okArgs = false
						}
					}
					if okArgs {
						format = s
						nfmt++
					}
				}
				return true
			})
			if nfmt != 1 {
				g.fail("cache.putIndexEntry: entry := fmt.Sprintf(<literal>, id, out, size, <time>) not found")
			} else {
				g.emitBytesLit("entry_format", "format of the index entry (cache.putIndexEntry)", format)
			}
			base, extra, ok := cacheModeFlags(fn)
			if !ok || len(extra) != 0 || !cacheOpenUsesMode(fn) {
				g.fail("cache.putIndexEntry: `mode := os.O_...` followed by one os.OpenFile(file, mode, ...) not found")
			} else {
				g.emitBytesList("index_open_flags", "flags of os.OpenFile in cache.putIndexEntry", base)
			}
			if k, ok := cacheAllSame(cacheFileNameKeys(fn)); ok {
				g.emitBytesLit("index_key", "key passed to fileName by cache.putIndexEntry", k)
			} else {
				g.fail("cache.putIndexEntry: c.fileName(id, <one literal key>) not found")
			}
		}
		if fn := g.funcDecl(dir, "Cache.get"); fn != nil {
			if k, ok := cacheAllSame(cacheFileNameKeys(fn)); ok {
				g.emitBytesLit("index_key_get", "key passed to fileName by cache.get", k)
			} else {
				g.fail("cache.get: c.fileName(id, <one literal key>) not found")
			}
			// esize, entry := entry[lo:hi], ...
			found := false
			ast.Inspect(fn.Body, func(x ast.Node) bool {
				as, ok := x.(*ast.AssignStmt)
				if !ok || len(as.Lhs) != 2 || len(as.Rhs) != 2 {
					return true
				}
				id, ok := as.Lhs[0].(*ast.Ident)
				if !ok || (id.Name != "esize" && id.Name != "etime") {
					return true
				}
				se, ok := as.Rhs[0].(*ast.SliceExpr)
				if !ok || se.Low == nil || se.High == nil {
					return true
				}
				lo, ok1 := g.constVal(dir, se.Low)
				hi, ok2 := g.constVal(dir, se.High)
				if !ok1 || !ok2 {
					return true
				}
				l, _ := strconv.ParseInt(lo.ExactString(), 10, 64)
				h, _ := strconv.ParseInt(hi.ExactString(), 10, 64)
				name := "entry_size_width"
				if id.Name == "etime" {
					name = "entry_time_width"
				}
				g.emitZLit(name, "width of "+id.Name+" as sliced by cache.get", h-l)
				if id.Name == "esize" {
					found = true
				}
				return true
			})
			if !found {
				g.fail("cache.get: esize, entry := entry[lo:hi], ... not found")
			}
		}
		if fn := g.funcDecl(dir, "Cache.copyFile"); fn != nil {
			base, extra, ok := cacheModeFlags(fn)
			if !ok || !cacheOpenUsesMode(fn) {
				g.fail("cache.copyFile: `mode := os.O_...` / `mode |= ...` and one os.OpenFile(name, mode, ...) not found")
			} else {
				g.emitBytesList("copy_open_flags", "flags of os.OpenFile in cache.copyFile", base)
				g.emitBytesList("copy_open_flags_big", "flags or-ed in by cache.copyFile when the existing file is larger than the output", extra)
			}
			// does the early return for an existing, verified output refresh its mtime (c.used)?
			nIf, refresh := 0, false
			ast.Inspect(fn.Body, func(x ast.Node) bool {
				is, ok := x.(*ast.IfStmt)
				if !ok {
					return true
				}
				be, ok := is.Cond.(*ast.BinaryExpr)
				if !ok || be.Op != token.EQL {
					return true
				}
				a, ok1 := be.X.(*ast.Ident)
				b, ok2 := be.Y.(*ast.Ident)
				if !ok1 || !ok2 || a.Name != "out" || b.Name != "out2" {
					return true
				}
				nIf++
				ast.Inspect(is.Body, func(y ast.Node) bool {
					if c, ok := y.(*ast.CallExpr); ok {
						if se, ok := c.Fun.(*ast.SelectorExpr); ok && se.Sel.Name == "used" {
							refresh = true
						}
					}
					return true
				})
				return true
			})
			if nIf != 1 {
				g.fail("cache.copyFile: `if out == out2 { ... return nil }` not found")
			} else {
				fmt.Fprintf(&g.buf, "(* cache.copyFile calls c.used(name) before returning for an existing verified output *)\nDefinition copy_reuse_refreshes : bool := %v.\n\n", refresh)
			}
			if k, ok := cacheAllSame(cacheFileNameKeys(fn)); ok {
				g.emitBytesLit("data_key", "key passed to fileName by cache.copyFile", k)
			} else {
				g.fail("cache.copyFile: c.fileName(out, <one literal key>) not found")
			}
		}
		if fn := g.funcDecl(dir, "Cache.OutputFile"); fn != nil {
			if k, ok := cacheAllSame(cacheFileNameKeys(fn)); ok {
				g.emitBytesLit("data_key_get", "key passed to fileName by cache.OutputFile", k)
			} else {
				g.fail("cache.OutputFile: c.fileName(out, <one literal key>) not found")
			}
		}
		cacheShape(g)
		// fileName: ... fmt.Sprintf("%x", id)+"-"+key
		if fn := g.funcDecl(dir, "Cache.fileName"); fn != nil {
			sep, n := "", 0
			hexfmt := ""
			ast.Inspect(fn.Body, func(x ast.Node) bool {
				be, ok := x.(*ast.BinaryExpr)
				if !ok || be.Op != token.ADD {
					return true
				}
				if id, ok := be.Y.(*ast.Ident); ok && id.Name == "key" {
					if inner, ok := be.X.(*ast.BinaryExpr); ok && inner.Op == token.ADD {
						if s, ok := g.str(inner.Y); ok {
							sep = s
							n++
						}
						if c, ok := inner.X.(*ast.CallExpr); ok && len(c.Args) == 2 {
							if s, ok := g.str(c.Args[0]); ok {
								hexfmt = s
							}
						}
					}
				}
				return true
			})
			if n != 1 || hexfmt != "%x" {
				g.fail("cache.fileName: fmt.Sprintf(\"%%x\", id)+<sep>+key not found")
			} else {
				g.emitBytesLit("name_sep", "separator inserted by cache.fileName between the hex id and the key", sep)
			}
		}
	}
}

package main

// Structural fingerprint of (*TestScript).parse: the control structure of the tokenizer
// (loops, branches and their order, conditions reduced to their atoms, assignments, the calls
// of ts.expand / append / ts.Fatalf) rendered as one canonical string.  Character literals
// are replaced by their class (Q quote, C comment, B other separator, ? anything else) because
// their values are regenerated separately; identical atoms of one || chain are merged, so one
// more blank character changes ts_sep_bytes, not the shape.  The Coq model parse_go was written
// against one such shape (TsParse/TsShape.v); a lemma states that the shape read from the
// source is that one, so a restructured tokenizer re-opens the proofs.
//
// What it does NOT see: the meaning of called functions, arithmetic inside index expressions
// beyond their printed form, and anything outside the body of parse.

import (
	"fmt"
	"go/ast"
	"go/token"
	"strconv"
	"strings"
)

type shaper struct {
	quote    byte
	comments string
	seps     string
}

func (sh *shaper) char(e *ast.BasicLit) string {
	s, err := strconv.Unquote(e.Value)
	if err != nil || len(s) != 1 {
		return "?"
	}
	switch {
	case s[0] == sh.quote:
		return "Q"
	case strings.IndexByte(sh.comments, s[0]) >= 0:
		return "C"
	case strings.IndexByte(sh.seps, s[0]) >= 0:
		return "B"
	}
	return "?"
}

func (sh *shaper) orAtoms(e ast.Expr, out *[]string) {
	if be, ok := e.(*ast.BinaryExpr); ok && be.Op == token.LOR {
		sh.orAtoms(be.X, out)
		sh.orAtoms(be.Y, out)
		return
	}
	if pe, ok := e.(*ast.ParenExpr); ok {
		if be, ok := pe.X.(*ast.BinaryExpr); ok && be.Op == token.LOR {
			sh.orAtoms(be, out)
			return
		}
	}
	a := sh.expr(e)
	for _, x := range *out {
		if x == a {
			return
		}
	}
	*out = append(*out, a)
}

func (sh *shaper) expr(e ast.Expr) string {
	switch e := e.(type) {
	case nil:
		return ""
	case *ast.BasicLit:
		switch e.Kind {
		case token.CHAR:
			return sh.char(e)
		case token.STRING:
			return "S"
		}
		return e.Value
	case *ast.Ident:
		return e.Name
	case *ast.ParenExpr:
		return "(" + sh.expr(e.X) + ")"
	case *ast.UnaryExpr:
		return e.Op.String() + sh.expr(e.X)
	case *ast.BinaryExpr:
		if e.Op == token.LOR {
			var atoms []string
			sh.orAtoms(e, &atoms)
			return strings.Join(atoms, "||")
		}
		return sh.expr(e.X) + e.Op.String() + sh.expr(e.Y)
	case *ast.SelectorExpr:
		return sh.expr(e.X) + "." + e.Sel.Name
	case *ast.IndexExpr:
		return sh.expr(e.X) + "[" + sh.expr(e.Index) + "]"
	case *ast.SliceExpr:
		return sh.expr(e.X) + "[" + sh.expr(e.Low) + ":" + sh.expr(e.High) + "]"
	case *ast.CallExpr:
		var args []string
		for _, a := range e.Args {
			args = append(args, sh.expr(a))
		}
		return sh.expr(e.Fun) + "(" + strings.Join(args, ",") + ")"
	case *ast.ArrayType:
		return "[]" + sh.expr(e.Elt)
	case *ast.MapType:
		return "map[" + sh.expr(e.Key) + "]" + sh.expr(e.Value)
	case *ast.StarExpr:
		return "*" + sh.expr(e.X)
	case *ast.FuncLit:
		var ps []string
		if e.Type.Params != nil {
			for _, f := range e.Type.Params.List {
				for _, n := range f.Names {
					ps = append(ps, n.Name)
				}
			}
		}
		return "func(" + strings.Join(ps, ",") + "){" + sh.block(e.Body) + "}"
	}
	return fmt.Sprintf("<%T>", e)
}

func (sh *shaper) block(b *ast.BlockStmt) string {
	var sb strings.Builder
	for _, s := range b.List {
		sb.WriteString(sh.stmt(s))
	}
	return sb.String()
}

func (sh *shaper) stmt(s ast.Stmt) string {
	switch s := s.(type) {
	case nil:
		return ""
	case *ast.BlockStmt:
		return "{" + sh.block(s) + "}"
	case *ast.ForStmt:
		return "for(" + strings.TrimSuffix(sh.stmt(s.Init), ";") + ";" + sh.expr(s.Cond) + ";" + strings.TrimSuffix(sh.stmt(s.Post), ";") + "){" + sh.block(s.Body) + "}"
	case *ast.RangeStmt:
		return "for(" + sh.expr(s.Key) + "," + sh.expr(s.Value) + s.Tok.String() + "range " + sh.expr(s.X) + "){" + sh.block(s.Body) + "}"
	case *ast.IfStmt:
		r := "if(" + sh.stmt(s.Init) + sh.expr(s.Cond) + "){" + sh.block(s.Body) + "}"
		if s.Else != nil {
			r += "else" + sh.stmt(s.Else)
		}
		return r
	case *ast.BranchStmt:
		return s.Tok.String() + ";"
	case *ast.IncDecStmt:
		return sh.expr(s.X) + s.Tok.String() + ";"
	case *ast.AssignStmt:
		var l, r []string
		for _, e := range s.Lhs {
			l = append(l, sh.expr(e))
		}
		for _, e := range s.Rhs {
			r = append(r, sh.expr(e))
		}
		return strings.Join(l, ",") + s.Tok.String() + strings.Join(r, ",") + ";"
	case *ast.ExprStmt:
		return sh.expr(s.X) + ";"
	case *ast.ReturnStmt:
		var r []string
		for _, e := range s.Results {
			r = append(r, sh.expr(e))
		}
		return "return " + strings.Join(r, ",") + ";"
	case *ast.DeclStmt:
		gd, ok := s.Decl.(*ast.GenDecl)
		if !ok {
			return "<decl>;"
		}
		var parts []string
		for _, sp := range gd.Specs {
			vs, ok := sp.(*ast.ValueSpec)
			if !ok {
				parts = append(parts, "<spec>")
				continue
			}
			for i, n := range vs.Names {
				p := n.Name
				if vs.Type != nil {
					p += ":" + sh.expr(vs.Type)
				}
				if i < len(vs.Values) {
					p += "=" + sh.expr(vs.Values[i])
				}
				parts = append(parts, p)
			}
		}
		return gd.Tok.String() + "(" + strings.Join(parts, ",") + ");"
	}
	return fmt.Sprintf("<%T>;", s)
}

// emitParseShape writes ts_parse_shape (and ts_expand_shape for the three-line expand).
func emitParseShape(g *gen, dir string, quote byte, comments, seps string) {
	sh := &shaper{quote: quote, comments: comments, seps: seps}
	if fd := g.funcDecl(dir, "TestScript.parse"); fd != nil {
		g.emitBytesLit("ts_parse_shape", "testscript TestScript.parse: structural fingerprint (see gen_tsparse_shape.go)", sh.block(fd.Body))
	}
	if fd := g.funcDecl(dir, "TestScript.expand"); fd != nil {
		g.emitBytesLit("ts_expand_shape", "testscript TestScript.expand: structural fingerprint", sh.block(fd.Body))
	}
	if fd := g.funcDecl(dir, "TestScript.doCmdCmp"); fd != nil {
		g.emitBytesLit("ts_cmp_shape", "testscript TestScript.doCmdCmp: structural fingerprint", sh.block(fd.Body))
	}
	emitScriptShapes(g, dir, sh)
}

// isCall reports whether e is a call of pkg.fn (pkg may be a receiver name such as ts).
func isCall(e ast.Expr, pkg, fn string) bool {
	ce, ok := e.(*ast.CallExpr)
	if !ok {
		return false
	}
	se, ok := ce.Fun.(*ast.SelectorExpr)
	if !ok || se.Sel.Name != fn {
		return false
	}
	id, ok := se.X.(*ast.Ident)
	return ok && id.Name == pkg
}

// emitScriptShapes: the script level of the model (TsParse/TsScript.v).
//
//   - ts_runloop_shape: the line loop of (*TestScript).run, reduced to what script_lines /
//     run_lines mirror: the loop header, the statements that cut the next line off the script (all
//     statements in front of the phase-comment test), the phase-comment test itself (condition and
//     the fact that it ends in continue), and the call that hands the line to runLine; the
//     bookkeeping in between (log, timing, ContinueOnError, stop) belongs to group TsRun and is
//     rendered as "...".  ts_line_sep and ts_phase_prefix are the two string literals involved.
//   - ts_cmdenv_shape, ts_setenv_shape, ts_getenv_shape, ts_setenvall_shape: whole bodies of cmdEnv,
//     Setenv, Getenv, setEnv (cmd_env / env_listing, setenv, getenv, setup_env).
func emitScriptShapes(g *gen, dir string, sh *shaper) {
	// A missing piece is written INTO the constants (as a shape that names what is missing, and an
	// empty literal) instead of failing the group: the file is then still regenerated from the
	// checked tree (no constants of another tree stay behind), script_shapes_current /
	// line_sep_is_nl stop compiling and the message names what could not be tied.
	missing := func(what string) {
		g.emitBytesLit("ts_phase_prefix", "testscript run: NOT FOUND", "")
		g.emitBytesLit("ts_line_sep", "testscript run: NOT FOUND", "")
		g.emitBytesLit("ts_runloop_shape", "testscript TestScript.run: structural fingerprint of the line loop (see gen_tsparse_shape.go)", "<NOT TIED: "+what+">")
	}
	if fd := g.funcDecl(dir, "TestScript.run"); fd != nil {
		var loop *ast.ForStmt
		for _, s := range fd.Body.List {
			f, ok := s.(*ast.ForStmt)
			if !ok || f.Init != nil || f.Post != nil {
				continue
			}
			if be, ok := f.Cond.(*ast.BinaryExpr); ok && be.Op == token.NEQ {
				if id, ok := be.X.(*ast.Ident); ok && id.Name == "script" {
					if s, ok := g.str(be.Y); ok && s == "" {
						loop = f
					}
				}
			}
		}
		phase := -1
		if loop != nil {
			for i, s := range loop.Body.List {
				if is, ok := s.(*ast.IfStmt); ok && is.Init == nil && isCall(is.Cond, "strings", "HasPrefix") {
					phase = i
					break
				}
			}
		}
		switch {
		case loop == nil:
			missing("TestScript.run no longer has the line loop `for script != \"\" { ... }` that script_lines / run_lines of TsParse/TsScript.v mirror: how the script text is cut into lines is not tied to the model")
		case phase < 0:
			missing("run: the phase-comment test `if strings.HasPrefix(line, ...)` was not found in the line loop")
		default:
			var sb strings.Builder
			sb.WriteString("for(;" + sh.expr(loop.Cond) + ";){")
			handed := false
			prefix, sep := "", ""
			for i, s := range loop.Body.List {
				switch {
				case i < phase:
					sb.WriteString(sh.stmt(s))
				case i == phase:
					is := s.(*ast.IfStmt)
					last := ""
					if n := len(is.Body.List); n > 0 {
						last = sh.stmt(is.Body.List[n-1])
					}
					sb.WriteString("if(" + sh.expr(is.Cond) + "){..." + last + "}")
					prefix, _ = tsStringArg(g, is.Cond, "strings", "HasPrefix", 1)
				default:
					r := sh.stmt(s)
					if strings.Contains(r, "ts.runLine(") {
						sb.WriteString(r)
						handed = true
					} else if !strings.HasSuffix(sb.String(), "...") {
						sb.WriteString("...")
					}
				}
			}
			sb.WriteString("}")
			if !handed {
				sb.WriteString("<NOT TIED: the line loop no longer hands the line to ts.runLine>")
			}
			sep, _ = tsStringArg(g, loop.Body, "strings", "Index", 1)
			g.emitBytesLit("ts_phase_prefix", "testscript run: a line with this prefix is a phase comment and is not handed to runLine", prefix)
			g.emitBytesLit("ts_line_sep", "testscript run: strings.Index(script, ...) — the line terminator", sep)
			g.emitBytesLit("ts_runloop_shape", "testscript TestScript.run: structural fingerprint of the line loop (see gen_tsparse_shape.go)", sb.String())
		}
	}
	for _, x := range [][2]string{{"TestScript.cmdEnv", "ts_cmdenv_shape"}, {"TestScript.Setenv", "ts_setenv_shape"},
		{"TestScript.Getenv", "ts_getenv_shape"}, {"TestScript.setEnv", "ts_setenvall_shape"}} {
		if fd := g.funcDecl(dir, x[0]); fd != nil {
			g.emitBytesLit(x[1], "testscript "+x[0]+": structural fingerprint", sh.block(fd.Body))
		}
	}
}

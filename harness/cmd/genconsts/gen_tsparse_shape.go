package main

// Structural fingerprint of (*TestScript).parse: the control structure of the tokenizer
// (loops, branches and their order, conditions reduced to their atoms, assignments, the calls
// of ts.expand / append / ts.Fatalf) rendered as one canonical string.  Character literals
// are replaced by their class (Q quote, C comment, B other separator, ? anything else) because
// their values are regenerated separately; identical atoms of one || chain are merged, so one
// more blank character changes ts_sep_bytes, not the shape.  The Coq model parse_go was written
// against one such shape (TsParse/TsShape.v); a lemma states that the shape read from the
// source is that one, so a restructured tokenizer re-opens the proofs.
//
// What it does NOT see: the meaning of called functions, arithmetic inside index expressions
// beyond their printed form, and anything outside the body of parse.

import (
	"fmt"
	"go/ast"
	"go/token"
	"strconv"
	"strings"
)

type shaper struct {
	quote    byte
	comments string
	seps     string
}

func (sh *shaper) char(e *ast.BasicLit) string {
	s, err := strconv.Unquote(e.Value)
	if err != nil || len(s) != 1 {
		return "?"
	}
	switch {
	case s[0] == sh.quote:
		return "Q"
	case strings.IndexByte(sh.comments, s[0]) >= 0:
		return "C"
	case strings.IndexByte(sh.seps, s[0]) >= 0:
		return "B"
	}
	return "?"
}

func (sh *shaper) orAtoms(e ast.Expr, out *[]string) {
	if be, ok := e.(*ast.BinaryExpr); ok && be.Op == token.LOR {
		sh.orAtoms(be.X, out)
		sh.orAtoms(be.Y, out)
		return
	}
	if pe, ok := e.(*ast.ParenExpr); ok {
		if be, ok := pe.X.(*ast.BinaryExpr); ok && be.Op == token.LOR {
			sh.orAtoms(be, out)
			return
		}
	}
	a := sh.expr(e)
	for _, x := range *out {
		if x == a {
			return
		}
	}
	*out = append(*out, a)
}

func (sh *shaper) expr(e ast.Expr) string {
	switch e := e.(type) {
	case nil:
		return ""
	case *ast.BasicLit:
		switch e.Kind {
		case token.CHAR:
			return sh.char(e)
		case token.STRING:
			return "S"
		}
		return e.Value
	case *ast.Ident:
		return e.Name
	case *ast.ParenExpr:
		return "(" + sh.expr(e.X) + ")"
	case *ast.UnaryExpr:
		return e.Op.String() + sh.expr(e.X)
	case *ast.BinaryExpr:
		if e.Op == token.LOR {
			var atoms []string
			sh.orAtoms(e, &atoms)
			return strings.Join(atoms, "||")
		}
		return sh.expr(e.X) + e.Op.String() + sh.expr(e.Y)
	case *ast.SelectorExpr:
		return sh.expr(e.X) + "." + e.Sel.Name
	case *ast.IndexExpr:
		return sh.expr(e.X) + "[" + sh.expr(e.Index) + "]"
	case *ast.SliceExpr:
		return sh.expr(e.X) + "[" + sh.expr(e.Low) + ":" + sh.expr(e.High) + "]"
	case *ast.CallExpr:
		var args []string
		for _, a := range e.Args {
			args = append(args, sh.expr(a))
		}
		return sh.expr(e.Fun) + "(" + strings.Join(args, ",") + ")"
	case *ast.ArrayType:
		return "[]" + sh.expr(e.Elt)
	case *ast.FuncLit:
		var ps []string
		if e.Type.Params != nil {
			for _, f := range e.Type.Params.List {
				for _, n := range f.Names {
					ps = append(ps, n.Name)
				}
			}
		}
		return "func(" + strings.Join(ps, ",") + "){" + sh.block(e.Body) + "}"
	}
	return fmt.Sprintf("<%T>", e)
}

func (sh *shaper) block(b *ast.BlockStmt) string {
	var sb strings.Builder
	for _, s := range b.List {
		sb.WriteString(sh.stmt(s))
	}
	return sb.String()
}

func (sh *shaper) stmt(s ast.Stmt) string {
	switch s := s.(type) {
	case nil:
		return ""
	case *ast.BlockStmt:
		return "{" + sh.block(s) + "}"
	case *ast.ForStmt:
		return "for(" + strings.TrimSuffix(sh.stmt(s.Init), ";") + ";" + sh.expr(s.Cond) + ";" + strings.TrimSuffix(sh.stmt(s.Post), ";") + "){" + sh.block(s.Body) + "}"
	case *ast.IfStmt:
		r := "if(" + sh.stmt(s.Init) + sh.expr(s.Cond) + "){" + sh.block(s.Body) + "}"
		if s.Else != nil {
			r += "else" + sh.stmt(s.Else)
		}
		return r
	case *ast.BranchStmt:
		return s.Tok.String() + ";"
	case *ast.IncDecStmt:
		return sh.expr(s.X) + s.Tok.String() + ";"
	case *ast.AssignStmt:
		var l, r []string
		for _, e := range s.Lhs {
			l = append(l, sh.expr(e))
		}
		for _, e := range s.Rhs {
			r = append(r, sh.expr(e))
		}
		return strings.Join(l, ",") + s.Tok.String() + strings.Join(r, ",") + ";"
	case *ast.ExprStmt:
		return sh.expr(s.X) + ";"
	case *ast.ReturnStmt:
		var r []string
		for _, e := range s.Results {
			r = append(r, sh.expr(e))
		}
		return "return " + strings.Join(r, ",") + ";"
	case *ast.DeclStmt:
		gd, ok := s.Decl.(*ast.GenDecl)
		if !ok {
			return "<decl>;"
		}
		var parts []string
		for _, sp := range gd.Specs {
			vs, ok := sp.(*ast.ValueSpec)
			if !ok {
				parts = append(parts, "<spec>")
				continue
			}
			for i, n := range vs.Names {
				p := n.Name
				if vs.Type != nil {
					p += ":" + sh.expr(vs.Type)
				}
				if i < len(vs.Values) {
					p += "=" + sh.expr(vs.Values[i])
				}
				parts = append(parts, p)
			}
		}
		return gd.Tok.String() + "(" + strings.Join(parts, ",") + ");"
	}
	return fmt.Sprintf("<%T>;", s)
}

// emitParseShape writes ts_parse_shape (and ts_expand_shape for the three-line expand).
func emitParseShape(g *gen, dir string, quote byte, comments, seps string) {
	sh := &shaper{quote: quote, comments: comments, seps: seps}
	if fd := g.funcDecl(dir, "TestScript.parse"); fd != nil {
		g.emitBytesLit("ts_parse_shape", "testscript TestScript.parse: structural fingerprint (see gen_tsparse_shape.go)", sh.block(fd.Body))
	}
	if fd := g.funcDecl(dir, "TestScript.expand"); fd != nil {
		g.emitBytesLit("ts_expand_shape", "testscript TestScript.expand: structural fingerprint", sh.block(fd.Body))
	}
	if fd := g.funcDecl(dir, "TestScript.doCmdCmp"); fd != nil {
		g.emitBytesLit("ts_cmp_shape", "testscript TestScript.doCmdCmp: structural fingerprint", sh.block(fd.Body))
	}
}
